/* H-print (C11): line-protocol harness over /repo's CURRENT JSON printer.
   json_printer.c is included as source so that its allocator hooks can be routed to guarded blocks:
   every output buffer (caller supplied fixed buffer, growing buffer, the file printer's buffer) is followed
   by a canary zone that AddressSanitizer poisons exactly at byte `size`; a store there is reported by ASan
   (recover mode, callback below) and also seen in the canaries, without damaging other heap blocks.
   Buffers are built by the generated JSON parser of harness/print_sweep.fbs and checked by the generated verifier.
   A per-print CPU-time interval timer turns a printer that does not return into the reply field hang=1.

   commands
     load <hex json>                      -> OK <bufsize> <verify code>          | PARSEERR <code> <pos>
     loaddeep <depth> <ntv>               -> same, a table chain built with the builder API (deeper than the parser / verifier accept)
     ref <flags> <indent>                 -> R <ret> <err> <over> <hang> <ntr> <trh> <hex text>   (growing buffer, default size; becomes the reference)
     reffile <flags> <indent>             -> same through the file printer (used while base64 cannot be printed to buffers)
     dyn <flags> <indent> <size> [k]      -> <ret>:<err>:<over>:<hang>:<ok>:<ntr>:<trh> <block sizes asked of realloc, comma separated, - if none>
                                             (k: the k-th realloc call fails and is listed as 0)
     dynsweep <flags> <indent> <from> <to> -> <record>=<block sizes> for every initial size of the growing buffer
     finsweep <flags> <indent> <from> <to> -> fixed buffers finished through flatcc_json_printer_finalize(): ret = its return value
     filefin <flags> <indent>             -> the file printer finished through flatcc_json_printer_finalize()
     file <flags> <indent>                -> <ret>:<err>:<over>:<hang>:<ok>:<ntr>:<trh>
     sweep <flags> <indent> <from> <to>   -> one such record per fixed buffer size, S = skipped after three hangs
     trace <mode f|d|l> <flags> <indent> <size> -> the p - pflush values seen by the flush callback
     fmt <d|f|i|u> <value text>           -> <len> <bytes touched> <hex text>
     asan                                 -> first lines of the last AddressSanitizer report
   flags: 1 unquote, 2 noenum, 4 skip_default, 8 force_default.  ok = output equals the reference, is zero
   terminated and its length equals the return value and get_buffer's length; for the growing buffer also the block
   returned by flatcc_json_printer_finalize_dynamic_buffer (ok = 2: no terminator at result[len] inside that block). */
#define _GNU_SOURCE
#include "hx.h"
#include <signal.h>
#include <setjmp.h>
#include <sys/time.h>
#include <errno.h>

#if defined(__has_feature)
#if __has_feature(address_sanitizer)
#define PS_ASAN 1
#endif
#endif
#ifdef __SANITIZE_ADDRESS__
#define PS_ASAN 1
#endif
#ifdef PS_ASAN
#include <sanitizer/asan_interface.h>
#else
#define __asan_poison_memory_region(p, n) ((void)0)
#define __asan_unpoison_memory_region(p, n) ((void)0)
#endif

/* ---------------------------------------------------------------- guarded blocks */
#define PS_SLACK 4096
#define PS_CANARY 0xA5
static long g_over;            /* bytes of canary zone touched (max extent) since last reset */
static int g_asan_hit;
static int g_asan_total;   /* after a few reports the canaries alone observe (ASan reports are slow) */
static char g_asan_msg[1600];
static uint8_t *g_last_slack;   /* canary zone of the most recent guarded block = the active output buffer */

struct ps_hdr { size_t n; size_t pad; };   /* 16 bytes: data stays 16-aligned */

static void *ps_alloc(size_t n)
{
    struct ps_hdr *h = (struct ps_hdr *)malloc(sizeof(*h) + n + PS_SLACK);
    uint8_t *d;
    if (!h) return 0;
    h->n = n; h->pad = 0;
    d = (uint8_t *)(h + 1);
    memset(d + n, PS_CANARY, PS_SLACK);
    if (g_asan_total < 6) __asan_poison_memory_region(d + n, PS_SLACK);
    g_last_slack = d + n;
    return d;
}
static void ps_scan(void *p)
{
    struct ps_hdr *h = (struct ps_hdr *)p - 1; uint8_t *c = (uint8_t *)p + h->n; long i;
    __asan_unpoison_memory_region(c, PS_SLACK);
    for (i = PS_SLACK - 1; i >= 0; --i) if (c[i] != PS_CANARY) break;
    if (i + 1 > g_over) g_over = i + 1;
}
static void ps_free(void *p)
{
    if (!p) return;
    ps_scan(p);
    if (g_last_slack == (uint8_t *)p + ((struct ps_hdr *)p - 1)->n) g_last_slack = 0;
    free((struct ps_hdr *)p - 1);
}
/* the sizes the printer asks realloc for (= what it gets: the ORACLE input of the model), 0 = injected failure */
static size_t g_rsz[256]; static int g_nrs; static int g_fail_at;   /* g_fail_at: 1-based index of the call to fail, 0 = none */
static void *ps_realloc(void *p, size_t n)
{
    void *q; size_t old;
    if (g_fail_at && g_nrs + 1 == g_fail_at) { if (g_nrs < 256) g_rsz[g_nrs] = 0; g_nrs++; return 0; }
    if (g_nrs < 256) g_rsz[g_nrs] = n;
    g_nrs++;
    if (!p) return ps_alloc(n);
    old = ((struct ps_hdr *)p - 1)->n;
    q = ps_alloc(n);
    if (!q) return 0;
    memcpy(q, p, old < n ? old : n);
    ps_free(p);
    return q;
}

#define FLATCC_JSON_PRINTER_ALLOC(n) ps_alloc(n)
#define FLATCC_JSON_PRINTER_FREE(p) ps_free(p)
#define FLATCC_JSON_PRINTER_REALLOC(p, n) ps_realloc(p, n)
#include "json_printer.c"     /* -I<repo>/src/runtime */

#include "print_sweep_builder.h"
#include "print_sweep_verifier.h"
#include "print_sweep_json_parser.h"
#include "print_sweep_json_printer.h"

#ifdef PS_ASAN
static void on_asan(const char *msg)
{
    if (!g_asan_hit) { strncpy(g_asan_msg, msg, sizeof(g_asan_msg) - 1); g_asan_msg[sizeof(g_asan_msg) - 1] = 0; }
    g_asan_hit++; g_asan_total++;
    /* one report per print is enough: the canaries record the extent of the remaining stores (reports cost CPU time) */
    if (g_last_slack) __asan_unpoison_memory_region(g_last_slack, PS_SLACK);
}
#endif

/* ---------------------------------------------------------------- flush callback wrapper */
static flatcc_json_printer_flush_f *g_real_flush;
static uint64_t g_trh; static long g_ntr; static int g_tracing; static long g_trv[4096];
static void wrap_flush(flatcc_json_printer_t *ctx, int all)
{
    if (g_tracing) {
        long v = (long)(ctx->p - ctx->pflush);
        g_trh = (g_trh * 1000003u + (uint64_t)(v + 1073741824L)) % 1000000007u;
        if (g_ntr < 4096) g_trv[g_ntr] = v;
        g_ntr++;
    }
    g_real_flush(ctx, all);
}
static void hook(flatcc_json_printer_t *ctx) { g_real_flush = ctx->flush; ctx->flush = wrap_flush; g_trh = 7; g_ntr = 0; g_tracing = 1; }

/* ---------------------------------------------------------------- hang detection */
static sigjmp_buf g_jb; static volatile int g_armed;
static void on_alarm(int s) { (void)s; if (g_armed) { g_armed = 0; siglongjmp(g_jb, 1); } }
/* CPU time of this process, not wall clock: a loaded machine must not look like a printer that does not return */
static void arm(long ms) { struct itimerval it; memset(&it, 0, sizeof(it)); it.it_value.tv_sec = ms / 1000; it.it_value.tv_usec = (ms % 1000) * 1000; g_armed = 1; setitimer(ITIMER_PROF, &it, 0); }
static void disarm(void) { struct itimerval it; memset(&it, 0, sizeof(it)); g_armed = 0; setitimer(ITIMER_PROF, &it, 0); }
static long g_timeout_ms = 1000;

/* ---------------------------------------------------------------- state */
static void *g_fb; static size_t g_fbsz;            /* current flatbuffer */
static char *g_ref; static size_t g_reflen; static int g_refret = -2;

struct res { int ret, err, hang, ok; long over, ntr; uint64_t trh; };

static void apply(flatcc_json_printer_t *ctx, int flags, int indent)
{
    flatcc_json_printer_set_flags(ctx, (flatcc_json_printer_flags_t)(flags & 15));
    flatcc_json_printer_set_indent(ctx, (uint8_t)indent);
}
static int is_ref(const char *b, size_t n, int ret)
{
    return g_refret >= 0 && ret == g_refret && n == g_reflen && memcmp(b, g_ref, n) == 0 && b[n] == 0;
}

static void print_fixed(size_t size, int flags, int indent, struct res *r)
{
    flatcc_json_printer_t ctx; char *out = (char *)ps_alloc(size); size_t n = 0; char *b;
    memset(r, 0, sizeof(*r)); g_over = 0; g_asan_hit = 0;
    memset(out, 0x5a, size);
    if (sigsetjmp(g_jb, 1)) { r->hang = 1; r->ret = -9; goto done; }
    if (flatcc_json_printer_init_buffer(&ctx, out, size)) { r->ret = -8; goto done; }
    apply(&ctx, flags, indent); hook(&ctx);
    arm(g_timeout_ms);
    r->ret = print_sweep_print_json(&ctx, (const char *)g_fb, g_fbsz);
    disarm();
    g_tracing = 0;
    r->err = flatcc_json_printer_get_error(&ctx);
    if (r->ret >= 0) {
        b = (char *)flatcc_json_printer_get_buffer(&ctx, &n);
        r->ok = b == out && (int)n == r->ret && is_ref(b, n, r->ret);
    }
done:
    disarm(); g_tracing = 0;
    r->ntr = g_ntr; r->trh = g_trh;
    ps_free(out);
    r->over = g_over + (g_asan_hit ? 1000000 : 0);
}

static void print_dyn(size_t size, int flags, int indent, struct res *r, int make_ref, int fail_at)
{
    flatcc_json_printer_t ctx; size_t n = 0; char *b;
    memset(r, 0, sizeof(*r)); g_over = 0; g_asan_hit = 0; memset(&ctx, 0, sizeof(ctx));
    g_nrs = 0; g_fail_at = fail_at;
    if (sigsetjmp(g_jb, 1)) { r->hang = 1; r->ret = -9; goto done; }
    if (flatcc_json_printer_init_dynamic_buffer(&ctx, size)) { r->ret = -8; goto done; }
    apply(&ctx, flags, indent); hook(&ctx);
    arm(g_timeout_ms);
    r->ret = print_sweep_print_json(&ctx, (const char *)g_fb, g_fbsz);
    disarm();
    g_tracing = 0;
    r->err = flatcc_json_printer_get_error(&ctx);
    if (r->ret >= 0) {
        b = (char *)flatcc_json_printer_get_buffer(&ctx, &n);
        if (make_ref) {
            free(g_ref); g_ref = (char *)malloc(n + 1); memcpy(g_ref, b, n); g_ref[n] = 0; g_reflen = n;
            g_refret = ((int)n == r->ret && b[n] == 0) ? r->ret : -3;
            r->ok = g_refret >= 0;
        } else {
            /* the growing buffer is also finished the way callers keep the text: finalize_dynamic_buffer hands the block
               over (exact-size guarded allocator): its length, bytes and terminator must be the same, the terminator
               inside the block.  ok = 2: the returned block does not hold a terminator at result[len]. */
            int nrs_print = g_nrs; size_t fn = 0; char *fb;
            r->ok = (int)n == r->ret && is_ref(b, n, r->ret);
            g_fail_at = 0;
            fb = (char *)flatcc_json_printer_finalize_dynamic_buffer(&ctx, &fn);
            g_nrs = nrs_print;            /* a shrinking realloc of finalize is not an enlargement: not part of the oracle */
            if (!fb) r->ok = 0;
            else {
                size_t have = ((struct ps_hdr *)fb - 1)->n;
                if (have < fn + 1 || fb[fn] != 0) r->ok = r->ok ? 2 : 0;
                else if (fn != n || strlen(fb) != fn || !is_ref(fb, fn, r->ret)) r->ok = 0;
                ps_free(fb);
            }
        }
    } else if (make_ref) { g_refret = -1; g_reflen = 0; }
done:
    disarm(); g_tracing = 0; g_fail_at = 0;
    r->ntr = g_ntr; r->trh = g_trh;
    if (!r->hang) flatcc_json_printer_clear(&ctx);     /* scans the canaries of the final block (none left after finalize) */
    r->over = g_over + (g_asan_hit ? 1000000 : 0);
}

static void print_file(int flags, int indent, struct res *r, int make_ref)
{
    flatcc_json_printer_t ctx; char *mem = 0; size_t memlen = 0; FILE *fp = open_memstream(&mem, &memlen);
    memset(r, 0, sizeof(*r)); g_over = 0; g_asan_hit = 0; memset(&ctx, 0, sizeof(ctx));
    if (sigsetjmp(g_jb, 1)) { r->hang = 1; r->ret = -9; goto done; }
    if (flatcc_json_printer_init(&ctx, fp)) { r->ret = -8; goto done; }
    apply(&ctx, flags, indent); hook(&ctx);
    arm(g_timeout_ms);
    r->ret = print_sweep_print_json(&ctx, (const char *)g_fb, g_fbsz);
    disarm();
    g_tracing = 0;
    r->err = flatcc_json_printer_get_error(&ctx);
    fflush(fp);
    if (r->ret >= 0 && make_ref) {
        free(g_ref); g_ref = (char *)malloc(memlen + 1); memcpy(g_ref, mem, memlen); g_ref[memlen] = 0; g_reflen = memlen;
        g_refret = ((int)memlen == r->ret) ? r->ret : -3; r->ok = g_refret >= 0;
    } else if (r->ret >= 0)
        r->ok = g_refret >= 0 && r->ret == g_refret && memlen == g_reflen && memcmp(mem, g_ref, memlen) == 0;
    else if (make_ref) { g_refret = -1; g_reflen = 0; }
done:
    disarm(); g_tracing = 0;
    r->ntr = g_ntr; r->trh = g_trh;
    if (!r->hang) flatcc_json_printer_clear(&ctx);
    fclose(fp); free(mem);
    r->over = g_over + (g_asan_hit ? 1000000 : 0);
}

/* the same prints finished through flatcc_json_printer_finalize(): appends a newline, flushes, returns the total or a
   negative value when an error is set.  ret = finalize's return value; ok = the output is the reference text + newline
   (fixed buffer: zero terminated; file: the stream content) and ret = its length. */
static void print_fixed_fin(size_t size, int flags, int indent, struct res *r)
{
    flatcc_json_printer_t ctx; char *out = (char *)ps_alloc(size); int pr;
    memset(r, 0, sizeof(*r)); g_over = 0; g_asan_hit = 0;
    memset(out, 0x5a, size);
    if (sigsetjmp(g_jb, 1)) { r->hang = 1; r->ret = -9; goto done; }
    if (flatcc_json_printer_init_buffer(&ctx, out, size)) { r->ret = -8; goto done; }
    apply(&ctx, flags, indent);
    arm(g_timeout_ms);
    pr = print_sweep_print_json(&ctx, (const char *)g_fb, g_fbsz);
    r->err = flatcc_json_printer_get_error(&ctx);
    r->ret = flatcc_json_printer_finalize(&ctx);
    disarm();
    (void)pr;
    if (r->ret >= 0)
        r->ok = g_refret >= 0 && (size_t)r->ret == g_reflen + 1 && g_reflen + 2 <= size && memcmp(out, g_ref, g_reflen) == 0
                && out[g_reflen] == '\n' && out[g_reflen + 1] == 0;
done:
    disarm();
    ps_free(out);
    r->over = g_over + (g_asan_hit ? 1000000 : 0);
}

static void print_file_fin(int flags, int indent, struct res *r)
{
    flatcc_json_printer_t ctx; char *mem = 0; size_t memlen = 0; FILE *fp = open_memstream(&mem, &memlen);
    memset(r, 0, sizeof(*r)); g_over = 0; g_asan_hit = 0; memset(&ctx, 0, sizeof(ctx));
    if (sigsetjmp(g_jb, 1)) { r->hang = 1; r->ret = -9; goto done; }
    if (flatcc_json_printer_init(&ctx, fp)) { r->ret = -8; goto done; }
    apply(&ctx, flags, indent);
    arm(g_timeout_ms);
    print_sweep_print_json(&ctx, (const char *)g_fb, g_fbsz);
    r->err = flatcc_json_printer_get_error(&ctx);
    r->ret = flatcc_json_printer_finalize(&ctx);
    disarm();
    fflush(fp);
    if (r->ret >= 0)
        r->ok = g_refret >= 0 && (size_t)r->ret == g_reflen + 1 && memlen == g_reflen + 1 && memcmp(mem, g_ref, g_reflen) == 0 && mem[g_reflen] == '\n';
done:
    disarm();
    if (!r->hang) flatcc_json_printer_clear(&ctx);
    fclose(fp); free(mem);
    r->over = g_over + (g_asan_hit ? 1000000 : 0);
}

static void put_res(const struct res *r)
{
    printf("%d:%d:%ld:%d:%d:%ld:%llu", r->ret, r->err, r->over, r->hang, r->ok, r->ntr, (unsigned long long)r->trh);
}

static int load_json(const char *json, size_t len)
{
    flatcc_builder_t B; flatcc_json_parser_t pc; int rc;
    if (g_fb) { flatcc_builder_aligned_free(g_fb); g_fb = 0; }
    flatcc_builder_init(&B);
    rc = print_sweep_parse_json(&B, &pc, json, len, 0);
    if (rc) { printf("PARSEERR %d %ld\n", rc, (long)(pc.error_loc - json)); flatcc_builder_clear(&B); return -1; }
    g_fb = flatcc_builder_finalize_aligned_buffer(&B, &g_fbsz);
    flatcc_builder_clear(&B);
    if (!g_fb) { printf("PARSEERR -1 0\n"); return -1; }
    printf("OK %lu %d\n", (unsigned long)g_fbsz, ps_T_verify_as_root(g_fb, g_fbsz));
    return 0;
}

/* a table chain built bottom-up with the generated builder (no parser, no nesting limit): depth tables "t" around an
   innermost table that holds i = 1 or, when ntv > 0, a table vector tv of ntv tables {i:1}.  Buffers deeper than the
   verifier's limit are UNVERIFIED input: they exercise the printer's own deep_recursion path. */
static int load_deep(int depth, int ntv)
{
    flatcc_builder_t B; ps_T_ref_t ref; int i;
    if (g_fb) { flatcc_builder_aligned_free(g_fb); g_fb = 0; }
    flatcc_builder_init(&B);
    if (flatcc_builder_start_buffer(&B, 0, 0, 0)) goto fail;
    if (ntv > 0) {
        ps_T_vec_ref_t v;
        if (ps_T_vec_start(&B)) goto fail;
        for (i = 0; i < ntv; ++i) {
            ps_T_ref_t e;
            if (ps_T_start(&B) || ps_T_i_add(&B, 1)) goto fail;
            e = ps_T_end(&B);
            if (!e || !ps_T_vec_push(&B, e)) goto fail;
        }
        v = ps_T_vec_end(&B);
        if (!v || ps_T_start(&B) || ps_T_tv_add(&B, v)) goto fail;
        ref = ps_T_end(&B);
    } else {
        if (ps_T_start(&B) || ps_T_i_add(&B, 1)) goto fail;
        ref = ps_T_end(&B);
    }
    for (i = 0; i < depth && ref; ++i) {
        if (ps_T_start(&B) || ps_T_t_add(&B, ref)) goto fail;
        ref = ps_T_end(&B);
    }
    if (!ref || !flatcc_builder_end_buffer(&B, ref)) goto fail;
    g_fb = flatcc_builder_finalize_aligned_buffer(&B, &g_fbsz);
    flatcc_builder_clear(&B);
    if (!g_fb) { printf("PARSEERR -1 0\n"); return -1; }
    printf("OK %lu %d\n", (unsigned long)g_fbsz, ps_T_verify_as_root(g_fb, g_fbsz));
    return 0;
fail:
    flatcc_builder_clear(&B);
    printf("PARSEERR -2 0\n");
    return -1;
}

int main(void)
{
    char *line, *t[8]; int n;
    struct sigaction sa; memset(&sa, 0, sizeof(sa)); sa.sa_handler = on_alarm; sigemptyset(&sa.sa_mask); sa.sa_flags = SA_NODEFER;
    sigaction(SIGPROF, &sa, 0);
#ifdef PS_ASAN
    __asan_set_error_report_callback(on_asan);
#endif
    while ((line = hx_getline())) {
        n = hx_split(line, t, 8);
        if (n == 0) { printf("BAD\n"); fflush(stdout); continue; }
        if (!strcmp(t[0], "load") && n == 2) {
            uint8_t *p; size_t len = hx_decode(t[1], &p); load_json((const char *)p, len); free(p);
        } else if (!strcmp(t[0], "loaddeep") && n == 3) {
            load_deep(atoi(t[1]), atoi(t[2]));
        } else if (!strcmp(t[0], "timeout") && n == 2) {
            g_timeout_ms = atol(t[1]); printf("OK\n");
        } else if (!g_fb && strcmp(t[0], "fmt") && strcmp(t[0], "asan")) {
            printf("NOBUF\n");
        } else if (!strcmp(t[0], "ref") && n == 3) {
            struct res r; print_dyn(0, atoi(t[1]), atoi(t[2]), &r, 1, 0);
            printf("R %d %d %ld %d %ld %llu ", r.ret, r.err, r.over, r.hang, r.ntr, (unsigned long long)r.trh);
            if (r.ret >= 0 && g_refret >= 0) hx_print((const uint8_t *)g_ref, g_reflen); else printf("-");
            printf("\n");
        } else if (!strcmp(t[0], "reffile") && n == 3) {
            struct res r; print_file(atoi(t[1]), atoi(t[2]), &r, 1);
            printf("R %d %d %ld %d %ld %llu ", r.ret, r.err, r.over, r.hang, r.ntr, (unsigned long long)r.trh);
            if (r.ret >= 0 && g_refret >= 0) hx_print((const uint8_t *)g_ref, g_reflen); else printf("-");
            printf("\n");
        } else if (!strcmp(t[0], "dyn") && (n == 4 || n == 5)) {
            struct res r; int i, nr;
            print_dyn((size_t)atol(t[3]), atoi(t[1]), atoi(t[2]), &r, 0, n == 5 ? atoi(t[4]) : 0); nr = g_nrs;
            put_res(&r); printf(" ");
            for (i = 0; i < nr && i < 256; ++i) printf("%s%lu", i ? "," : "", (unsigned long)g_rsz[i]);
            if (nr == 0) printf("-");
            printf("\n");
        } else if (!strcmp(t[0], "dynsweep") && n == 5) {
            /* every initial size a..b of the growing buffer: record=block sizes asked of realloc */
            long a = atol(t[3]), b = atol(t[4]), sz; int hangs = 0, i, nr;
            for (sz = a; sz <= b; ++sz) {
                struct res r;
                if (sz > a) printf(" ");
                if (hangs >= 3) { printf("S"); continue; }
                print_dyn((size_t)sz, atoi(t[1]), atoi(t[2]), &r, 0, 0); nr = g_nrs;
                put_res(&r); printf("=");
                for (i = 0; i < nr && i < 256; ++i) printf("%s%lu", i ? "," : "", (unsigned long)g_rsz[i]);
                if (nr == 0) printf("-");
                hangs += r.hang;
            }
            printf("\n");
        } else if (!strcmp(t[0], "finsweep") && n == 5) {
            long a = atol(t[3]), b = atol(t[4]), sz; int hangs = 0;
            for (sz = a; sz <= b; ++sz) {
                struct res r;
                if (sz > a) printf(" ");
                if (hangs >= 3) { printf("S"); continue; }
                print_fixed_fin((size_t)sz, atoi(t[1]), atoi(t[2]), &r); put_res(&r);
                hangs += r.hang;
            }
            printf("\n");
        } else if (!strcmp(t[0], "filefin") && n == 3) {
            struct res r; print_file_fin(atoi(t[1]), atoi(t[2]), &r); put_res(&r); printf("\n");
        } else if (!strcmp(t[0], "file") && n == 3) {
            struct res r; print_file(atoi(t[1]), atoi(t[2]), &r, 0); put_res(&r); printf("\n");
        } else if (!strcmp(t[0], "sweep") && n == 5) {
            long a = atol(t[3]), b = atol(t[4]), sz; int hangs = 0;
            for (sz = a; sz <= b; ++sz) {
                struct res r;
                if (sz > a) printf(" ");
                if (hangs >= 3) { printf("S"); continue; }
                print_fixed((size_t)sz, atoi(t[1]), atoi(t[2]), &r); put_res(&r);
                hangs += r.hang;
            }
            printf("\n");
        } else if (!strcmp(t[0], "trace") && n == 5) {
            struct res r; long i;
            if (t[1][0] == 'f') print_fixed((size_t)atol(t[4]), atoi(t[2]), atoi(t[3]), &r);
            else if (t[1][0] == 'd') print_dyn((size_t)atol(t[4]), atoi(t[2]), atoi(t[3]), &r, 0, 0);
            else print_file(atoi(t[2]), atoi(t[3]), &r, 0);
            put_res(&r); printf(" ");
            for (i = 0; i < r.ntr && i < 4096; ++i) printf("%s%ld", i ? "," : "", g_trv[i]);
            if (r.ntr == 0) printf("-");
            printf("\n");
        } else if (!strcmp(t[0], "fmt") && n == 3) {
            /* number formatters write at ctx->p without a flush check: text length and bytes touched */
            char b[128]; int len = -1, i, touched = 0;
            memset(b, 0x5a, sizeof(b));
            if (t[1][0] == 'd') { uint64_t u = strtoull(t[2], 0, 16); double d; memcpy(&d, &u, 8); len = flatcc_json_printer_fmt_double(b, d); }
            else if (t[1][0] == 'f') { uint32_t u = (uint32_t)strtoul(t[2], 0, 16); float f; memcpy(&f, &u, 4); len = flatcc_json_printer_fmt_float(b, f); }
            else if (t[1][0] == 'i') len = print_int64((int64_t)strtoll(t[2], 0, 10), b);
            else if (t[1][0] == 'u') len = print_uint64((uint64_t)strtoull(t[2], 0, 10), b);
            for (i = 127; i >= 0; --i) if ((unsigned char)b[i] != 0x5a) { touched = i + 1; break; }
            printf("%d %d ", len, touched); if (len > 0) hx_print((const uint8_t *)b, (size_t)len); else printf("-"); printf("\n");
        } else if (!strcmp(t[0], "asan")) {
            char *p; for (p = g_asan_msg; *p; ++p) if (*p == '\n' || *p == '\r') *p = '|';
            printf("A %s\n", g_asan_msg[0] ? g_asan_msg : "-");
        } else printf("BAD\n");
        fflush(stdout);
    }
    return 0;
}
