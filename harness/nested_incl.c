/* C15 harness: nested buffers whose root type comes from an INCLUDED schema file with its own file_identifier
 * (gen/builder/incl_parent.fbs includes incl_child.fbs; written by checks/c15_incl.py), built through the GENERATED
 * nested-root builders <Parent>_<field>_start_as_root / _start_as_typed_root / _clone_as_root / _clone_as_typed_root /
 * _create_as_root / _create_as_typed_root / _nest and checked standalone with the generated verifiers / readers of the NESTED type.
 *
 *   build <levels> <variant> <id> <seq> <k> <tag hex|->
 *       levels: one char per enclosing `again` level (nested Parent in Parent): a start/end_as_root, A start/end_as_typed_root,
 *               c clone_as_root, C clone_as_typed_root (the level is built as a buffer of its own first, then cloned in)
 *       variant (the innermost nested field): s t c C n  payload (Child): start_as_root, start_as_typed_root, clone_as_root,
 *               clone_as_typed_root, nest (bytes of a Child buffer finished on its own with Child_start_as_root)
 *               p P q Q r R  spos (struct Pos): create_as_root, create_as_typed_root, start/end_as_root, start/end_as_typed_root,
 *               clone_as_root, clone_as_typed_root;   l L  local (table of the parent's own file): start_as_root, start_as_typed_root;
 *               - no innermost nested field
 *       reply: OK <hex of the finished top-level Parent buffer>  |  FAIL <call>
 *   verify <child|childT|pos|posT|parent|parentT|local|localT|leaf> <hex>      reply: <ret> <error string>
 *   read <child|pos|parent|local> <hex>     through <Type>_as_root (identifier checked) resp. _as_typed_root with a T suffix: reply null | values
 *   ids                                     reply: the generated identifier constants
 */
#include "hx.h"
#include "incl_parent_builder.h"
#include "incl_parent_verifier.h"

#define TRY(c, what) do { if (c) { fail = what; goto done; } } while (0)

static const char *fail;

/* a Child finished on its own; returns an aligned buffer */
static void *child_alone(uint32_t id, uint8_t k, const uint8_t *tag, size_t ntag, int typed, size_t *size)
{
    flatcc_builder_t b, *B = &b; void *buf = 0;
    flatcc_builder_init(B);
    if (typed ? Child_start_as_typed_root(B) : Child_start_as_root(B)) goto out;
    if (Child_id_add(B, id)) goto out;
    if (Child_pos_create(B, 1.5 + id, -2.5f, k)) goto out;
    if (Child_tag_create(B, (const char *)tag, ntag)) goto out;
    if (Child_leaf_start_as_root(B)) goto out;
    if (Leaf_v_add(B, (uint16_t)(id ^ 0x5a5a))) goto out;
    if (Child_leaf_end_as_root(B)) goto out;
    if (!(typed ? Child_end_as_typed_root(B) : Child_end_as_root(B))) goto out;
    buf = flatcc_builder_finalize_aligned_buffer(B, size);
out:
    flatcc_builder_clear(B);
    return buf;
}

static int add_inner(flatcc_builder_t *B, char v, uint32_t id, uint8_t k, const uint8_t *tag, size_t ntag)
{
    Pos_t pos; void *cb = 0; size_t cn = 0; int ret = -1;
    memset(&pos, 0, sizeof(pos)); pos.x = 1.5 + id; pos.y = -2.5f; pos.k = k;
    fail = 0;
    switch (v) {
    case '-': return 0;
    case 's': case 't':
        TRY(v == 's' ? Parent_payload_start_as_root(B) : Parent_payload_start_as_typed_root(B), "payload_start_as_root");
        TRY(Child_id_add(B, id), "Child_id_add");
        TRY(Child_pos_create(B, 1.5 + id, -2.5f, k), "Child_pos_create");
        TRY(Child_tag_create(B, (const char *)tag, ntag), "Child_tag_create");
        TRY(Child_leaf_start_as_root(B), "Child_leaf_start_as_root");
        TRY(Leaf_v_add(B, (uint16_t)(id ^ 0x5a5a)), "Leaf_v_add");
        TRY(Child_leaf_end_as_root(B), "Child_leaf_end_as_root");
        TRY(v == 's' ? Parent_payload_end_as_root(B) : Parent_payload_end_as_typed_root(B), "payload_end_as_root");
        break;
    case 'c': case 'C': case 'n':
        cb = child_alone(id, k, tag, ntag, v == 'C', &cn);
        TRY(!cb, "child_alone");
        if (v == 'n') TRY(Parent_payload_nest(B, cb, cn, 0), "payload_nest");
        if (v == 'c') TRY(Parent_payload_clone_as_root(B, Child_as_root(cb)), "payload_clone_as_root");
        if (v == 'C') TRY(Parent_payload_clone_as_typed_root(B, Child_as_typed_root(cb)), "payload_clone_as_typed_root");
        break;
    case 'p': TRY(Parent_spos_create_as_root(B, 1.5 + id, -2.5f, k), "spos_create_as_root"); break;
    case 'P': TRY(Parent_spos_create_as_typed_root(B, 1.5 + id, -2.5f, k), "spos_create_as_typed_root"); break;
    case 'q': case 'Q': {
        Pos_t *p = v == 'q' ? Parent_spos_start_as_root(B) : Parent_spos_start_as_typed_root(B);
        TRY(!p, "spos_start_as_root");
        memset(p, 0, sizeof(*p)); p->x = 1.5 + id; p->y = -2.5f; p->k = k;
        TRY(v == 'q' ? Parent_spos_end_as_root(B) : Parent_spos_end_as_typed_root(B), "spos_end_as_root");
        break; }
    case 'r': TRY(Parent_spos_clone_as_root(B, &pos), "spos_clone_as_root"); break;
    case 'R': TRY(Parent_spos_clone_as_typed_root(B, &pos), "spos_clone_as_typed_root"); break;
    case 'l': case 'L':
        TRY(v == 'l' ? Parent_local_start_as_root(B) : Parent_local_start_as_typed_root(B), "local_start_as_root");
        TRY(Local_v_add(B, (uint16_t)id), "Local_v_add");
        TRY(v == 'l' ? Parent_local_end_as_root(B) : Parent_local_end_as_typed_root(B), "local_end_as_root");
        break;
    default: fail = "variant"; goto done;
    }
    ret = 0;
done:
    if (cb) flatcc_builder_aligned_free(cb);
    return ret;
}

/* the content of one Parent level (the table is open): name, seq, then the rest of the levels below it */
static int fill_level(flatcc_builder_t *B, const char *levels, char v, uint32_t id, uint32_t seq, uint8_t k, const uint8_t *tag, size_t ntag);

/* a Parent (levels below included) finished on its own */
static void *parent_alone(const char *levels, char v, uint32_t id, uint32_t seq, uint8_t k, const uint8_t *tag, size_t ntag, int typed, size_t *size)
{
    flatcc_builder_t b, *B = &b; void *buf = 0;
    flatcc_builder_init(B);
    if (typed ? Parent_start_as_typed_root(B) : Parent_start_as_root(B)) goto out;
    if (fill_level(B, levels, v, id, seq, k, tag, ntag)) goto out;
    if (!(typed ? Parent_end_as_typed_root(B) : Parent_end_as_root(B))) goto out;
    buf = flatcc_builder_finalize_aligned_buffer(B, size);
out:
    flatcc_builder_clear(B);
    return buf;
}

static int fill_level(flatcc_builder_t *B, const char *levels, char v, uint32_t id, uint32_t seq, uint8_t k, const uint8_t *tag, size_t ntag)
{
    void *pb = 0; size_t pn = 0; int ret = -1;
    TRY(Parent_name_create_str(B, "lvl"), "Parent_name_create_str");
    TRY(Parent_seq_add(B, seq), "Parent_seq_add");
    if (!*levels) { ret = add_inner(B, v, id, k, tag, ntag); goto done; }
    switch (*levels) {
    case 'a': case 'A':
        TRY(*levels == 'a' ? Parent_again_start_as_root(B) : Parent_again_start_as_typed_root(B), "again_start_as_root");
        if (fill_level(B, levels + 1, v, id, seq + 1, k, tag, ntag)) goto done;
        TRY(*levels == 'a' ? Parent_again_end_as_root(B) : Parent_again_end_as_typed_root(B), "again_end_as_root");
        break;
    case 'c': case 'C':
        pb = parent_alone(levels + 1, v, id, seq + 1, k, tag, ntag, *levels == 'C', &pn);
        if (!pb) { if (!fail) fail = "parent_alone"; goto done; }
        TRY(*levels == 'c' ? Parent_again_clone_as_root(B, Parent_as_root(pb)) : Parent_again_clone_as_typed_root(B, Parent_as_typed_root(pb)), "again_clone_as_root");
        break;
    default: fail = "level"; goto done;
    }
    ret = 0;
done:
    if (pb) flatcc_builder_aligned_free(pb);
    return ret;
}

int main(void)
{
    char *line; char *tok[16];
    while ((line = hx_getline())) {
        int nt = hx_split(line, tok, 16);
        if (nt >= 1 && !strcmp(tok[0], "ids")) {
            printf("Parent=%s/%08x Child=%s/%08x Pos=%s/%08x Local=%s/%08x Leaf=%s/%08x\n",
                   Parent_file_identifier ? Parent_file_identifier : "-", (unsigned)Parent_type_hash, Child_file_identifier ? Child_file_identifier : "-", (unsigned)Child_type_hash,
                   Pos_file_identifier ? Pos_file_identifier : "-", (unsigned)Pos_type_hash, Local_file_identifier ? Local_file_identifier : "-", (unsigned)Local_type_hash,
                   Leaf_file_identifier ? Leaf_file_identifier : "-", (unsigned)Leaf_type_hash);
        } else if (nt == 7 && !strcmp(tok[0], "build")) {
            uint8_t *tag; size_t ntag = hx_decode(tok[6], &tag), size = 0; void *buf;
            fail = 0;
            buf = parent_alone(tok[1][0] == '-' ? "" : tok[1], tok[2][0], (uint32_t)strtoul(tok[3], 0, 10), (uint32_t)strtoul(tok[4], 0, 10), (uint8_t)atoi(tok[5]), tag, ntag, 0, &size);
            if (!buf) printf("FAIL %s\n", fail ? fail : "end_as_root");
            else { printf("OK "); hx_print((const uint8_t *)buf, size); printf("\n"); flatcc_builder_aligned_free(buf); }
            free(tag);
        } else if (nt == 3 && (!strcmp(tok[0], "verify") || !strcmp(tok[0], "read"))) {
            size_t n; void *fr; const uint8_t *p = hx_decode_aligned(tok[2], 0, &n, &fr); const char *w = tok[1];
            if (tok[0][0] == 'v') {
                int r = !strcmp(w, "child") ? Child_verify_as_root(p, n) : !strcmp(w, "childT") ? Child_verify_as_typed_root(p, n) :
                        !strcmp(w, "pos") ? Pos_verify_as_root(p, n) : !strcmp(w, "posT") ? Pos_verify_as_typed_root(p, n) :
                        !strcmp(w, "parent") ? Parent_verify_as_root(p, n) : !strcmp(w, "parentT") ? Parent_verify_as_typed_root(p, n) :
                        !strcmp(w, "local") ? Local_verify_as_root(p, n) : !strcmp(w, "localT") ? Local_verify_as_typed_root(p, n) :
                        !strcmp(w, "leaf") ? Leaf_verify_as_root(p, n) : -1;
                printf("%d %s\n", r, r < 0 ? "bad request" : flatcc_verify_error_string(r));
            } else if (!strcmp(w, "child") || !strcmp(w, "childT")) {
                Child_table_t c = w[5] ? Child_as_typed_root(p) : Child_as_root(p);
                if (!c) printf("null\n");
                else {
                    flatbuffers_string_t s = Child_tag(c); Pos_struct_t q = Child_pos(c); flatbuffers_uint8_vec_t lv = Child_leaf(c);
                    printf("id=%u x=%.17g y=%.9g k=%u tag=", (unsigned)Child_id(c), q ? Pos_x(q) : 0.0, q ? (double)Pos_y(q) : 0.0, q ? (unsigned)Pos_k(q) : 0u);
                    hx_print((const uint8_t *)s, s ? flatbuffers_string_len(s) : 0);
                    printf(" leaf=%d\n", lv ? (int)flatbuffers_uint8_vec_len(lv) : -1);
                }
            } else if (!strcmp(w, "pos") || !strcmp(w, "posT")) {
                Pos_struct_t q = w[3] ? Pos_as_typed_root(p) : Pos_as_root(p);
                if (!q) printf("null\n"); else printf("x=%.17g y=%.9g k=%u\n", Pos_x(q), (double)Pos_y(q), (unsigned)Pos_k(q));
            } else if (!strcmp(w, "parent") || !strcmp(w, "parentT")) {
                Parent_table_t t = w[6] ? Parent_as_typed_root(p) : Parent_as_root(p);
                if (!t) printf("null\n"); else printf("seq=%u\n", (unsigned)Parent_seq(t));
            } else if (!strcmp(w, "local") || !strcmp(w, "localT")) {
                Local_table_t t = w[5] ? Local_as_typed_root(p) : Local_as_root(p);
                if (!t) printf("null\n"); else printf("v=%u\n", (unsigned)Local_v(t));
            } else printf("BAD\n");
            free(fr);
        } else printf("BAD\n");
        fflush(stdout);
    }
    return 0;
}
