/* C08 harness: parse tiny schemas in-process with /repo's CURRENT compiler library and dump, canonically,
 *   - accept / reject (with the first diagnostic),
 *   - the value of every enum member and every scalar / enum table field default as the semantic pass left it,
 *   - the literal text print_literal() produces for it (the function the reader / builder generators call),
 *   - struct sizes, alignments, member offsets and fixed array lengths,
 *   - the binary schema (bfbs) decoded with the reflection reader: default_integer / default_real, enum values.
 *
 * protocol (one request per line):   p <hex of schema text>                    default options (flatcc_init_options)
 *                                     o <opt=val,...> <hex of schema text>      documented flatcc_options_t switches that decide
 *                                       literal acceptance: asc (ascending_enum), abc (allow_boolean_conversion), strict (strict_enum_init)
 * reply:   REJ <first diagnostic, spaces as '_'>
 *          OK <token> <token> ...           tokens contain no spaces:
 *             enum:<name>:<st>:<flags>      m:<name>=<val>=<literal>
 *             table:<name>                  f:<name>:<s|e>:<st>=<val>=<literal>
 *             struct:<name>:<size>:<align>  a:<name>:<st>:<len>:<offset>:<size>
 *             bo:<object>  bf:<field>:<default_integer>:<default_real %a>   be:<enum>  bv:<name>:<value>
 *          <val> is u:<u64> i:<i64> b:<0|1> f:<%a> none inv other:<type>
 */
#include "hx.h"
#include <inttypes.h>
#include "config.h"
#include "flatcc/flatcc.h"
#include "parser.h"
#include "semantics.h"
#include "symbols.h"
#include "codegen_c.h"
#include "flatcc/reflection/reflection_reader.h"

static char first_err[512];
static int nerr;

static void err_out(void *ctx, const char *buf, size_t len)
{
    (void)ctx;
    if (nerr++ == 0) {
        size_t i, n = len < sizeof(first_err) - 1 ? len : sizeof(first_err) - 1;
        for (i = 0; i < n; ++i) first_err[i] = (buf[i] == ' ' || buf[i] == '\n' || buf[i] == '\r' || buf[i] == '\t') ? '_' : buf[i];
        first_err[n] = 0;
    }
}

static const char *st_name(int st)
{
    switch (st) {
    case fb_ulong: return "ulong"; case fb_uint: return "uint"; case fb_ushort: return "ushort"; case fb_ubyte: return "ubyte";
    case fb_bool: return "bool"; case fb_long: return "long"; case fb_int: return "int"; case fb_short: return "short";
    case fb_byte: return "byte"; case fb_double: return "double"; case fb_float: return "float"; case fb_char: return "char";
    default: return "none";
    }
}

static void pname(fb_symbol_t *sym)
{
    if (sym && sym->ident && sym->ident->text) printf("%.*s", (int)sym->ident->len, sym->ident->text);
    else printf("?");
}

static void pval(const fb_value_t *v)
{
    switch (v->type) {
    case vt_missing: printf("none"); break;
    case vt_invalid: printf("inv"); break;
    case vt_uint: printf("u:%" PRIu64, v->u); break;
    case vt_int: printf("i:%" PRId64, v->i); break;
    case vt_bool: printf("b:%u", (unsigned)v->b); break;
    case vt_float: printf("f:%a", v->f); break;
    default: printf("other:%d", (int)v->type); break;
    }
}

static void plit(fb_scalar_type_t st, const fb_value_t *v)
{
    fb_literal_t lit;
    char *p;
    lit[0] = 0;
    switch (v->type) {
    case vt_uint: case vt_int: case vt_bool: case vt_float:
        switch (st) {
        case fb_ulong: case fb_uint: case fb_ushort: case fb_ubyte: case fb_char: case fb_bool:
        case fb_long: case fb_int: case fb_short: case fb_byte: case fb_double: case fb_float:
            print_literal(st, v, lit);
            break;
        default: break;
        }
        break;
    default: break;
    }
    for (p = lit; *p; ++p) if (*p == ' ') *p = '_';
    printf("%s", lit[0] ? lit : "-");
}

static void dump_symbols(fb_parser_t *P)
{
    fb_symbol_t *sym, *m;
    fb_compound_type_t *ct;
    fb_member_t *mem;

    for (sym = P->schema.symbols; sym; sym = sym->link) {
        ct = (fb_compound_type_t *)sym;
        switch (sym->kind) {
        case fb_is_enum:
        case fb_is_union:
            printf(" %s:", sym->kind == fb_is_enum ? "enum" : "union"); pname(sym);
            printf(":%s:%u", st_name(ct->type.st), (unsigned)ct->metadata_flags);
            for (m = ct->members; m; m = m->link) {
                mem = (fb_member_t *)m;
                printf(" m:"); pname(m); printf("="); pval(&mem->value); printf("="); plit(ct->type.st, &mem->value);
            }
            break;
        case fb_is_table:
            printf(" table:"); pname(sym);
            for (m = ct->members; m; m = m->link) {
                mem = (fb_member_t *)m;
                if (mem->type.type == vt_scalar_type) {
                    printf(" f:"); pname(m); printf(":s:%s=", st_name(mem->type.st)); pval(&mem->value); printf("="); plit(mem->type.st, &mem->value);
                } else if (mem->type.type == vt_compound_type_ref && mem->type.ct->symbol.kind == fb_is_enum) {
                    printf(" f:"); pname(m); printf(":e:%s=", st_name(mem->type.ct->type.st)); pval(&mem->value); printf("="); plit(mem->type.ct->type.st, &mem->value);
                } else {
                    printf(" f:"); pname(m); printf(":o:%d=none=-", (int)mem->type.type);
                }
            }
            break;
        case fb_is_struct:
            printf(" struct:"); pname(sym); printf(":%" PRIu64 ":%u", (uint64_t)ct->size, (unsigned)ct->align);
            for (m = ct->members; m; m = m->link) {
                mem = (fb_member_t *)m;
                printf(" a:"); pname(m);
                printf(":%s:%u:%" PRIu64 ":%" PRIu64, (mem->type.type == vt_scalar_type || mem->type.type == vt_fixed_array_type) ? st_name(mem->type.st) : "ref",
                       (unsigned)mem->type.len, (uint64_t)mem->offset, (uint64_t)mem->size);
            }
            break;
        default:
            break;
        }
    }
}

static void pstr(flatbuffers_string_t s)
{
    size_t i, n = s ? flatbuffers_string_len(s) : 0;
    for (i = 0; i < n; ++i) putchar(s[i] == ' ' ? '_' : s[i]);
}

static void dump_bfbs(flatcc_context_t ctx)
{
    size_t size = 0, i, j;
    void *buf = flatcc_generate_binary_schema(ctx, &size);
    reflection_Schema_table_t S;
    reflection_Object_vec_t objs;
    reflection_Enum_vec_t enums;

    if (!buf) { printf(" bfbs:FAILED"); return; }
    S = reflection_Schema_as_root(buf);
    if (!S) { printf(" bfbs:NOROOT"); free(buf); return; }
    objs = reflection_Schema_objects(S);
    for (i = 0; i < reflection_Object_vec_len(objs); ++i) {
        reflection_Object_table_t o = reflection_Object_vec_at(objs, i);
        reflection_Field_vec_t fs = reflection_Object_fields(o);
        printf(" bo:"); pstr(reflection_Object_name(o));
        for (j = 0; j < reflection_Field_vec_len(fs); ++j) {
            reflection_Field_table_t f = reflection_Field_vec_at(fs, j);
            printf(" bf:"); pstr(reflection_Field_name(f));
            printf(":%" PRId64 ":%a", (int64_t)reflection_Field_default_integer(f), (double)reflection_Field_default_real(f));
        }
    }
    enums = reflection_Schema_enums(S);
    for (i = 0; i < reflection_Enum_vec_len(enums); ++i) {
        reflection_Enum_table_t e = reflection_Enum_vec_at(enums, i);
        reflection_EnumVal_vec_t vs = reflection_Enum_values(e);
        printf(" be:"); pstr(reflection_Enum_name(e));
        for (j = 0; j < reflection_EnumVal_vec_len(vs); ++j) {
            reflection_EnumVal_table_t v = reflection_EnumVal_vec_at(vs, j);
            printf(" bv:"); pstr(reflection_EnumVal_name(v)); printf(":%" PRId64, (int64_t)reflection_EnumVal_value(v));
        }
    }
    free(buf);
}

int main(void)
{
    char *line, *tok[4];
    while ((line = hx_getline())) {
        int n = hx_split(line, tok, 4);
        if ((n == 2 && !strcmp(tok[0], "p")) || (n == 3 && !strcmp(tok[0], "o"))) {
            uint8_t *src; size_t len = hx_decode(tok[n - 1], &src);
            flatcc_options_t opts;
            flatcc_context_t ctx;
            int ret, badopt = 0;
            flatcc_init_options(&opts);
            opts.bgen_bfbs = 1;
            if (n == 3) {
                char *q = tok[1];
                while (q && *q) {
                    char *e = strchr(q, ','), *eq;
                    if (e) *e++ = 0;
                    eq = strchr(q, '=');
                    if (!eq) { badopt = 1; break; }
                    *eq++ = 0;
                    if (!strcmp(q, "asc")) opts.ascending_enum = atoi(eq);
                    else if (!strcmp(q, "abc")) opts.allow_boolean_conversion = atoi(eq);
                    else if (!strcmp(q, "strict")) opts.strict_enum_init = atoi(eq);
                    else { badopt = 1; break; }
                    q = e;
                }
            }
            if (badopt) { printf("BAD option\n"); free(src); fflush(stdout); continue; }
            nerr = 0; first_err[0] = 0;
            ctx = flatcc_create_context(&opts, "t", err_out, 0);
            if (!ctx) { printf("REJ no-context\n"); free(src); fflush(stdout); continue; }
            ret = flatcc_parse_buffer(ctx, (const char *)src, len);
            if (ret) {
                printf("REJ %s\n", first_err[0] ? first_err : "(no_diagnostic)");
            } else {
                printf("OK");
                dump_symbols((fb_parser_t *)ctx);
                dump_bfbs(ctx);
                printf("\n");
            }
            flatcc_destroy_context(ctx);
            free(src);
        } else {
            printf("BAD\n");
        }
        fflush(stdout);
    }
    return 0;
}
