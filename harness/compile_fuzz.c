/* C06 harness: the flatcc LIBRARY interface (include/flatcc/flatcc.h) driven through a line protocol, one
 * create / parse / generate / destroy cycle per request line, all in one process (histories), under
 * ASan + UBSan + LSan with a per-case alarm().
 *
 *   buf  <opts> <gen: 0 never | 1 only after a successful parse | 2 always> <outdir> <name> <hex schema>
 *   file <opts> <gen> <outdir> <path of root schema>
 *        opts: comma separated name=value (see set_opt below) or "-"
 *   -> R <parse rc> <diagnostics delivered to the error callback> <generate rc | n> <files in outdir> <stdout bytes> <leak 0|1> <first diagnostic, sanitized>
 *   `HANG alarm` is printed (and the process exits) when a case exceeds the alarm (COMPILE_FUZZ_ALARM seconds, default 20),
 *   `HANG flood <n>` when more than COMPILE_FUZZ_FLOOD (default 20000) diagnostics were delivered in one cycle (runaway error loop). After a reply with leak = 1 the process exits
 *   (the driver restarts it with the next line).
 * The protocol goes to a dup of the original stdout; fd 1 itself is pointed at a scratch file so that
 * gen_stdout output can be measured.
 */
#define _GNU_SOURCE
#include <stdio.h>
#include <stdlib.h>
#include <string.h>
#include <stdint.h>
#include <unistd.h>
#include <signal.h>
#include <dirent.h>
#include <fcntl.h>
#include <sys/stat.h>
#include <sys/wait.h>
#include <sys/prctl.h>
#include "flatcc/flatcc.h"
#include "hx.h"

#if defined(__has_feature)
#if __has_feature(address_sanitizer)
#include <sanitizer/lsan_interface.h>
#define HAVE_LSAN 1
#endif
#endif

static FILE *proto;
static int ndiag;
static int flood_limit = 20000;
static unsigned alarm_seconds = 20;
static char first_diag[160];

static void on_error(void *ctx, const char *buf, size_t len)
{
    size_t i, n;
    (void)ctx;
    /* bounded error reporting: the parser stops near FLATCC_MAX_ERRORS per file; a flood means the error cap no longer ends a loop */
    if (ndiag > flood_limit) {
        char msg[64]; int k = snprintf(msg, sizeof(msg), "HANG flood %d\n", ndiag);
        if (write(fileno(proto), msg, (size_t)k) < 0) {}
        _exit(7);
    }
    if (ndiag++ == 0) {
        n = len < sizeof(first_diag) - 1 ? len : sizeof(first_diag) - 1;
        for (i = 0; i < n; ++i) {
            unsigned char c = (unsigned char)buf[i];
            first_diag[i] = (c > 32 && c < 127) ? (char)c : '_';
        }
        first_diag[n] = 0;
    }
}

static void on_alarm(int sig)
{
    static const char msg[] = "HANG alarm\n";
    (void)sig;
    if (write(fileno(proto), msg, sizeof(msg) - 1) < 0) {}
    _exit(7);
}

static const char *inpaths[4];
static char strpool[8][256];
static int nstr;

static const char *keep(const char *s) { char *d = strpool[nstr++ % 8]; strncpy(d, s, 255); d[255] = 0; return d; }

static void set_opt(flatcc_options_t *o, const char *k, const char *v)
{
    long n = strtol(v, 0, 10);
#define I(name) if (!strcmp(k, #name)) { o->name = (int)n; return; }
    I(max_include_depth) I(max_include_count) I(disable_includes) I(allow_boolean_conversion) I(allow_enum_key)
    I(allow_enum_struct_field) I(allow_multiple_key_fields) I(allow_primary_key) I(allow_scan_for_all_fields) I(allow_string_key)
    I(allow_struct_field_deprecate) I(allow_struct_field_key) I(allow_struct_root) I(ascending_enum) I(hide_later_enum)
    I(hide_later_struct) I(offset_size) I(voffset_size) I(utype_size) I(bool_size) I(require_root_type) I(strict_enum_init)
    I(gen_stdout) I(gen_dep) I(gen_append) I(cgen_pad) I(cgen_sort) I(cgen_pragmas) I(cgen_common_reader) I(cgen_common_builder)
    I(cgen_reader) I(cgen_builder) I(cgen_verifier) I(cgen_json_parser) I(cgen_json_printer) I(cgen_recursive) I(cgen_spacing)
    I(cgen_no_conflicts) I(cgen) I(bgen_bfbs) I(bgen_qualify_names) I(bgen_length_prefix)
#undef I
    if (!strcmp(k, "max_schema_size")) { o->max_schema_size = (size_t)n; return; }
    if (!strcmp(k, "vt_max_count")) { o->vt_max_count = (uint64_t)n; return; }
    if (!strcmp(k, "ns")) { o->ns = keep(v); return; }
    if (!strcmp(k, "nsc")) { o->nsc = keep(v); return; }
    if (!strcmp(k, "gen_outfile")) { o->gen_outfile = keep(v); return; }
    if (!strcmp(k, "gen_depfile")) { o->gen_depfile = keep(v); o->gen_dep = 1; return; }
    if (!strcmp(k, "inpath")) { if (o->inpath_count < 4) { inpaths[o->inpath_count] = keep(v); o->inpaths = inpaths; o->inpath_count++; } return; }
    fprintf(stderr, "compile_fuzz: unknown option %s\n", k);
    exit(3);
}

static void parse_opts(flatcc_options_t *o, char *s)
{
    char *p, *eq;
    if (!strcmp(s, "-")) return;
    for (p = strtok(s, ","); p; p = strtok(0, ",")) {
        eq = strchr(p, '=');
        if (!eq) { fprintf(stderr, "compile_fuzz: bad option %s\n", p); exit(3); }
        *eq = 0;
        set_opt(o, p, eq + 1);
    }
}

static int count_files(const char *dir, int remove_them)
{
    DIR *d = opendir(dir);
    struct dirent *e;
    char path[1200];
    int n = 0;
    if (!d) return -1;
    while ((e = readdir(d))) {
        if (e->d_name[0] == '.') continue;
        ++n;
        if (remove_them) { snprintf(path, sizeof(path), "%s/%s", dir, e->d_name); unlink(path); }
    }
    closedir(d);
    return n;
}

int main(void)
{
    char *line, *tok[8];
    int nt, stdout_fd;
    char stdout_path[64];

    proto = fdopen(dup(1), "w");
    snprintf(stdout_path, sizeof(stdout_path), "/tmp/compile_fuzz_stdout_%d", (int)getpid());
    stdout_fd = open(stdout_path, O_CREAT | O_TRUNC | O_RDWR, 0600);
    unlink(stdout_path);
    dup2(stdout_fd, 1);
    signal(SIGALRM, on_alarm);
    if (getenv("COMPILE_FUZZ_ALARM")) alarm_seconds = (unsigned)atoi(getenv("COMPILE_FUZZ_ALARM"));
    if (getenv("COMPILE_FUZZ_FLOOD")) flood_limit = atoi(getenv("COMPILE_FUZZ_FLOOD"));

    while ((line = hx_getline())) {
        flatcc_options_t opts;
        flatcc_context_t ctx;
        int is_buf, is_fifo = 0, genmode, rc = -99, grc = -99, nfiles, leak = 0, null_opts = 0;
        pid_t fifo_child = -1; const char *fifo_path = 0;
        uint8_t *data = 0; size_t len = 0; char *zbuf = 0;
        const char *outdir, *name;
        char outprefix[1100];
        struct stat st;
        off_t so;

        nt = hx_split(line, tok, 7);
        if (nt == 0) continue;
        is_buf = !strcmp(tok[0], "buf");
        is_fifo = !strcmp(tok[0], "fifo");       /* fifo <opts> <gen> <outdir> <root path> <fifo path> <hex>: the file at <fifo path> is a non-seekable FIFO */
        if (is_fifo) {
            if (nt != 7) { fprintf(proto, "BAD\n"); fflush(proto); continue; }
            fifo_path = tok[5];
            unlink(fifo_path);
            if (mkfifo(fifo_path, 0600)) { fprintf(proto, "BAD mkfifo\n"); fflush(proto); continue; }
            fflush(proto); fflush(stdout);
            fifo_child = fork();
            if (fifo_child < 0) { unlink(fifo_path); fprintf(proto, "BAD fork\n"); fflush(proto); continue; }
            if (fifo_child == 0) {
                uint8_t *d; size_t n = hx_decode(tok[6], &d), w; int k, fd;
                /* the writer must not outlive a crashing parent nor keep the protocol pipes open */
                prctl(PR_SET_PDEATHSIG, SIGKILL);
                for (fd = 0; fd < 64; ++fd) close(fd);
                signal(SIGALRM, SIG_DFL);
                /* a reader that closes early (failed seek) must not kill the writer: the next open of the reader would block forever */
                signal(SIGPIPE, SIG_IGN);
                alarm(30);
                for (k = 0; k < 100000; ++k) {       /* serve every open of the reader until the parent kills the writer */
                    fd = open(fifo_path, O_WRONLY);
                    if (fd < 0) _exit(0);
                    for (w = 0; w < n; ) { ssize_t r = write(fd, d + w, n - w); if (r <= 0) break; w += (size_t)r; }
                    close(fd);
                    usleep(2000);
                }
                _exit(0);
            }
        }
        if ((is_buf && nt != 6) || (!is_buf && !is_fifo && (strcmp(tok[0], "file") || nt != 5))) { fprintf(proto, "BAD\n"); fflush(proto); continue; }
        nstr = 0;
        flatcc_init_options(&opts);
        opts.inpath_count = 0; opts.inpaths = 0;
        null_opts = !strcmp(tok[1], "NULLOPTS");
        if (!null_opts) parse_opts(&opts, tok[1]);
        genmode = atoi(tok[2]);
        outdir = tok[3];
        mkdir(outdir, 0700);
        count_files(outdir, 1);     /* leftovers of a crashed predecessor */
        snprintf(outprefix, sizeof(outprefix), "%s/", outdir);
        opts.outpath = outprefix;
        name = tok[4];
        if (is_buf) {
            len = hx_decode(tok[5], &data);
            /* exact-size block: the schema bytes and the terminating zero the interface requires, nothing after */
            zbuf = (char *)malloc(len + 1);
            memcpy(zbuf, data, len); zbuf[len] = 0;
            free(data);
        }
        ndiag = 0; first_diag[0] = 0;
        if (ftruncate(stdout_fd, 0) < 0) {}
        lseek(stdout_fd, 0, SEEK_SET);
        alarm(alarm_seconds);
        /* option token NULLOPTS: pass a null options pointer (fb_init_parser installs the defaults) */
        ctx = flatcc_create_context(null_opts ? 0 : &opts, name, on_error, 0);
        if (!ctx) {
            /* refused option set: nothing may stay allocated and a diagnostic must have been delivered */
            alarm(0);
            free(zbuf);
            if (is_fifo) { kill(fifo_child, SIGKILL); waitpid(fifo_child, 0, 0); unlink(fifo_path); }
#ifdef HAVE_LSAN
            leak = __lsan_do_recoverable_leak_check() ? 1 : 0;
#endif
            fprintf(proto, "R noctx %d n 0 0 %d %s\n", ndiag, leak, first_diag[0] ? first_diag : "-"); fflush(proto);
            if (leak) _exit(0);
            continue;
        }
        rc = is_buf ? flatcc_parse_buffer(ctx, zbuf, len) : flatcc_parse_file(ctx, name);
        if (genmode == 2 || (genmode == 1 && rc == 0)) {
            grc = flatcc_generate_files(ctx);
        }
        flatcc_destroy_context(ctx);
        alarm(0);
        if (is_fifo) { kill(fifo_child, SIGKILL); waitpid(fifo_child, 0, 0); unlink(fifo_path); }
        free(zbuf);
        fflush(stdout);
        so = 0;
        if (fstat(stdout_fd, &st) == 0) so = st.st_size;
        nfiles = count_files(outdir, 1);
#ifdef HAVE_LSAN
        leak = __lsan_do_recoverable_leak_check() ? 1 : 0;
#endif
        if (grc == -99) fprintf(proto, "R %d %d n %d %ld %d %s\n", rc, ndiag, nfiles, (long)so, leak, first_diag[0] ? first_diag : "-");
        else fprintf(proto, "R %d %d %d %d %ld %d %s\n", rc, ndiag, grc, nfiles, (long)so, leak, first_diag[0] ? first_diag : "-");
        fflush(proto);
        /* LSan keeps reporting a leak once found: start a fresh process so that later leaks are attributed correctly */
        if (leak) _exit(0);
    }
    return 0;
}
