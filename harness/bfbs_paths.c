/* C20 harness: binary schema generation through every path of the library interface, for one schema per line.
 *
 *   gen <qualify 0|1> <length_prefix 0|1> <outdir> <include dir> <root schema path>
 *   -> P <parse rc> <diagnostics>
 *      A <size | FAIL>                     flatcc_generate_binary_schema (allocating)
 *      B exact=<rc>:<same 0|1> larger=<rc>:<same> small1=<rc> smallhalf=<rc> zero=<rc>
 *                                          flatcc_generate_binary_schema_to_buffer into exact-size heap blocks
 *      F <rc> <size | NOFILE> <same 0|1>   flatcc_generate_files with bgen_bfbs=1, file <outdir>/<basename>.bfbs
 *      X twice=<0|1> c_then_bfbs=<1|0|F|G> bfbs_c_bfbs=<..><..>   the binary schema generated again on the same context, and on a second
 *                                          context after / around flatcc_generate_files with every C generator: 1 = same bytes
 *      O <rc1> <rc2> <size> <same 0|1>     file output through gen_outfile, generated twice over an older larger file of that name
 *      L <prefix value | -> <ok 0|1>       length prefix: present exactly when requested and equal to size - 4
 *      V <verify rc> <error string>        reflection_Schema_verify_as_root on the (un-prefixed) buffer
 *      S objects=<fails>/<n> enums=.. services=.. fields=.. calls=.. values=.. first=<what>
 *                                          every name/value keyed vector searched with the generated find for each entry
 *      H <hex of the allocated-path bytes>
 *      END
 */
#define _GNU_SOURCE
#include <stdio.h>
#include <stdlib.h>
#include <string.h>
#include <stdint.h>
#include <unistd.h>
#include <sys/stat.h>
#include "flatcc/flatcc.h"
#include "flatcc/reflection/reflection_reader.h"
#include "flatcc/reflection/reflection_verifier.h"
#include "hx.h"

static int ndiag;
static void on_error(void *ctx, const char *buf, size_t len) { (void)ctx; (void)buf; (void)len; ++ndiag; }

static const char *inpaths[1];

static uint8_t *read_file(const char *path, size_t *n)
{
    FILE *fp = fopen(path, "rb"); uint8_t *b; long sz;
    if (!fp) return 0;
    fseek(fp, 0, SEEK_END); sz = ftell(fp); fseek(fp, 0, SEEK_SET);
    b = (uint8_t *)malloc(sz ? (size_t)sz : 1);
    if (fread(b, 1, (size_t)sz, fp) != (size_t)sz) { fclose(fp); free(b); return 0; }
    fclose(fp); *n = (size_t)sz; return b;
}

#include <dirent.h>
static void clean_dir(const char *dir)
{
    DIR *d = opendir(dir); struct dirent *e; char path[1600];
    if (!d) return;
    while ((e = readdir(d))) { if (e->d_name[0] == '.') continue; snprintf(path, sizeof(path), "%s/%s", dir, e->d_name); unlink(path); }
    closedir(d);
}

/* A second context for the same schema: C output (every generator, sorter included) and the binary schema on ONE context, in
 * both orders; flatcc.h allows flatcc_generate_binary_schema "instead of generate files, before, or after". Returns a status
 * string: 1 = bytes identical to the reference, 0 = differ, F = generation failed. */
static void same_context_sequences(const char *path, const char *incdir, const char *outdir, int qualify, int prefix,
        const uint8_t *ref, size_t refsize, char *res /* 4 chars + nul */)
{
    int order;
    char cdir[1300], cprefix[1310];
    snprintf(cdir, sizeof(cdir), "%s/c", outdir); mkdir(cdir, 0700);
    snprintf(cprefix, sizeof(cprefix), "%s/", cdir);
    strcpy(res, "????");
    for (order = 0; order < 2; ++order) {
        flatcc_options_t o; flatcc_context_t c; void *b1 = 0, *b2 = 0; size_t n1 = 0, n2 = 0; int grc;
        const char *ip[1];
        flatcc_init_options(&o);
        o.cgen_reader = o.cgen_builder = o.cgen_verifier = o.cgen_json_parser = o.cgen_json_printer = 1;
        o.cgen_common_reader = o.cgen_common_builder = o.cgen_recursive = 1;
        o.bgen_qualify_names = qualify; o.bgen_length_prefix = prefix;
        ip[0] = incdir; o.inpaths = ip; o.inpath_count = 1; o.outpath = cprefix;
        c = flatcc_create_context(&o, path, on_error, 0);
        if (!c || flatcc_parse_file(c, path)) { res[order * 2] = res[order * 2 + 1] = 'F'; if (c) flatcc_destroy_context(c); continue; }
        if (order == 1) b1 = flatcc_generate_binary_schema(c, &n1);          /* bfbs, C, bfbs */
        grc = flatcc_generate_files(c);
        b2 = flatcc_generate_binary_schema(c, &n2);                           /* C, bfbs */
        if (order == 0) { res[0] = grc ? 'G' : (b2 ? ((n2 == refsize && !memcmp(b2, ref, refsize)) ? '1' : '0') : 'F'); res[1] = '-'; }
        else {
            res[2] = b1 ? ((n1 == refsize && !memcmp(b1, ref, refsize)) ? '1' : '0') : 'F';
            res[3] = grc ? 'G' : (b2 ? ((n2 == refsize && !memcmp(b2, ref, refsize)) ? '1' : '0') : 'F');
        }
        free(b1); free(b2);
        flatcc_destroy_context(c);
        clean_dir(cdir);
    }
    rmdir(cdir);
}

static char first[200];
static void fail(const char *kind, const char *name) { if (!first[0]) snprintf(first, sizeof(first), "%s:%s", kind, name ? name : "?"); }

static void search(const uint8_t *buf)
{
    reflection_Schema_table_t S = reflection_Schema_as_root(buf);
    reflection_Object_vec_t objs = reflection_Schema_objects(S);
    reflection_Enum_vec_t enums = reflection_Schema_enums(S);
    reflection_Service_vec_t svcs = reflection_Schema_services(S);
    size_t i, j, n;
    size_t fo = 0, no = 0, fe = 0, ne = 0, fs = 0, ns = 0, ff = 0, nf = 0, fc = 0, nc = 0, fv = 0, nv = 0;

    first[0] = 0;
    n = reflection_Object_vec_len(objs);
    for (i = 0; i < n; ++i) {
        reflection_Object_table_t o = reflection_Object_vec_at(objs, i);
        reflection_Field_vec_t fields = reflection_Object_fields(o);
        ++no;
        if (reflection_Object_vec_find_by_name(objs, reflection_Object_name(o)) != i) { ++fo; fail("object", reflection_Object_name(o)); }
        for (j = 0; j < reflection_Field_vec_len(fields); ++j) {
            reflection_Field_table_t f = reflection_Field_vec_at(fields, j);
            ++nf;
            if (reflection_Field_vec_find_by_name(fields, reflection_Field_name(f)) != j) { ++ff; fail("field", reflection_Field_name(f)); }
        }
    }
    n = reflection_Enum_vec_len(enums);
    for (i = 0; i < n; ++i) {
        reflection_Enum_table_t e = reflection_Enum_vec_at(enums, i);
        reflection_EnumVal_vec_t vals = reflection_Enum_values(e);
        ++ne;
        if (reflection_Enum_vec_find_by_name(enums, reflection_Enum_name(e)) != i) { ++fe; fail("enum", reflection_Enum_name(e)); }
        for (j = 0; j < reflection_EnumVal_vec_len(vals); ++j) {
            reflection_EnumVal_table_t v = reflection_EnumVal_vec_at(vals, j);
            ++nv;
            if (reflection_EnumVal_vec_find_by_value(vals, reflection_EnumVal_value(v)) != j) { ++fv; fail("enumval", reflection_EnumVal_name(v)); }
        }
    }
    n = svcs ? reflection_Service_vec_len(svcs) : 0;
    for (i = 0; i < n; ++i) {
        reflection_Service_table_t s = reflection_Service_vec_at(svcs, i);
        reflection_RPCCall_vec_t calls = reflection_Service_calls(s);
        ++ns;
        if (reflection_Service_vec_find_by_name(svcs, reflection_Service_name(s)) != i) { ++fs; fail("service", reflection_Service_name(s)); }
        for (j = 0; calls && j < reflection_RPCCall_vec_len(calls); ++j) {
            reflection_RPCCall_table_t c = reflection_RPCCall_vec_at(calls, j);
            ++nc;
            if (reflection_RPCCall_vec_find_by_name(calls, reflection_RPCCall_name(c)) != j) { ++fc; fail("call", reflection_RPCCall_name(c)); }
        }
    }
    printf("S objects=%zu/%zu enums=%zu/%zu services=%zu/%zu fields=%zu/%zu calls=%zu/%zu values=%zu/%zu first=%s\n",
           fo, no, fe, ne, fs, ns, ff, nf, fc, nc, fv, nv, first[0] ? first : "-");
}

/* to_buffer into an exact-size heap block; returns rc, sets *same when the bytes equal ref */
static int to_buffer(flatcc_context_t ctx, size_t cap, const uint8_t *ref, size_t refsize, int *same)
{
    uint8_t *b = (uint8_t *)malloc(cap ? cap : 1);
    int rc;
    memset(b, 0xA5, cap ? cap : 1);
    rc = flatcc_generate_binary_schema_to_buffer(ctx, b, cap);
    if (same) *same = (rc == (int)refsize && cap >= refsize && memcmp(b, ref, refsize) == 0);
    free(b);
    return rc;
}

int main(void)
{
    char *line, *tok[8];
    int nt;

    while ((line = hx_getline())) {
        flatcc_options_t opts;
        flatcc_context_t ctx;
        int qualify, prefix, rc, grc, same, r1, r2, r3, r4, r5, s1, s2, vr;
        const char *outdir, *incdir, *path;
        char outprefix[1200], fpath[1400], base[256];
        uint8_t *a = 0, *fb = 0, *body;
        size_t asize = 0, fsize = 0, bodysize, i;
        const char *bn, *dot;

        nt = hx_split(line, tok, 7);
        if (nt == 0) continue;
        if (nt != 6 || strcmp(tok[0], "gen")) { printf("BAD\nEND\n"); fflush(stdout); continue; }
        qualify = atoi(tok[1]); prefix = atoi(tok[2]); outdir = tok[3]; incdir = tok[4]; path = tok[5];
        mkdir(outdir, 0700);
        flatcc_init_options(&opts);
        opts.bgen_bfbs = 1; opts.bgen_qualify_names = qualify; opts.bgen_length_prefix = prefix;
        inpaths[0] = incdir; opts.inpaths = inpaths; opts.inpath_count = 1;
        snprintf(outprefix, sizeof(outprefix), "%s/", outdir);
        opts.outpath = outprefix;
        ndiag = 0;
        ctx = flatcc_create_context(&opts, path, on_error, 0);
        if (!ctx) { printf("P noctx 0\nEND\n"); fflush(stdout); continue; }
        rc = flatcc_parse_file(ctx, path);
        printf("P %d %d\n", rc, ndiag);
        if (rc) { flatcc_destroy_context(ctx); printf("END\n"); fflush(stdout); continue; }

        a = (uint8_t *)flatcc_generate_binary_schema(ctx, &asize);
        if (!a) { printf("A FAIL\nEND\n"); flatcc_destroy_context(ctx); fflush(stdout); continue; }
        printf("A %zu\n", asize);

        r1 = to_buffer(ctx, asize, a, asize, &s1);
        r2 = to_buffer(ctx, asize + 37, a, asize, &s2);
        r3 = to_buffer(ctx, asize - 1, a, asize, 0);
        r4 = to_buffer(ctx, asize / 2, a, asize, 0);
        r5 = to_buffer(ctx, 0, a, asize, 0);
        printf("B exact=%d:%d larger=%d:%d small1=%d smallhalf=%d zero=%d\n", r1, s1, r2, s2, r3, r4, r5);

        bn = strrchr(path, '/'); bn = bn ? bn + 1 : path;
        dot = strrchr(bn, '.');
        snprintf(base, sizeof(base), "%.*s", (int)(dot ? dot - bn : (long)strlen(bn)), bn);
        snprintf(fpath, sizeof(fpath), "%s/%s.bfbs", outdir, base);
        { /* an older, LARGER output of the same name already exists: the new file must replace it, not extend it */
            FILE *old = fopen(fpath, "wb"); size_t k;
            if (old) { for (k = 0; k < asize + 1000; ++k) fputc(0x5a, old); fclose(old); }
        }
        grc = flatcc_generate_files(ctx);
        bn = strrchr(path, '/'); bn = bn ? bn + 1 : path;
        dot = strrchr(bn, '.');
        snprintf(base, sizeof(base), "%.*s", (int)(dot ? dot - bn : (long)strlen(bn)), bn);
        snprintf(fpath, sizeof(fpath), "%s/%s.bfbs", outdir, base);
        fb = read_file(fpath, &fsize);
        same = fb && fsize == asize && memcmp(fb, a, asize) == 0;
        if (fb) printf("F %d %zu %d\n", grc, fsize, same); else printf("F %d NOFILE 0\n", grc);
        unlink(fpath);

        {
            /* the same context again (bfbs twice), and C-then-bfbs / bfbs-C-bfbs on a second context */
            size_t a2size = 0; char seq[8];
            uint8_t *a2 = (uint8_t *)flatcc_generate_binary_schema(ctx, &a2size);
            int twice = a2 && a2size == asize && memcmp(a2, a, asize) == 0;
            free(a2);
            same_context_sequences(path, incdir, outdir, qualify, prefix, a, asize, seq);
            printf("X twice=%d c_then_bfbs=%c bfbs_c_bfbs=%c%c\n", twice, seq[0], seq[2], seq[3]);
        }
        {
            /* the same through the gen_outfile name (--outfile), written twice over an older larger file */
            flatcc_options_t o; flatcc_context_t c; const char *ip[1]; char opath[1400]; uint8_t *ob = 0; size_t osize = 0; int r1 = -9, r2 = -9, osame = 0; FILE *old; size_t k;
            flatcc_init_options(&o);
            o.bgen_bfbs = 1; o.bgen_qualify_names = qualify; o.bgen_length_prefix = prefix; o.gen_outfile = "cat.bfbs";
            ip[0] = incdir; o.inpaths = ip; o.inpath_count = 1; o.outpath = outprefix;
            snprintf(opath, sizeof(opath), "%s/cat.bfbs", outdir);
            old = fopen(opath, "wb");
            if (old) { for (k = 0; k < asize + 777; ++k) fputc(0x5a, old); fclose(old); }
            c = flatcc_create_context(&o, path, on_error, 0);
            if (c && !flatcc_parse_file(c, path)) { r1 = flatcc_generate_files(c); r2 = flatcc_generate_files(c); }
            if (c) flatcc_destroy_context(c);
            ob = read_file(opath, &osize);
            osame = ob && osize == asize && memcmp(ob, a, asize) == 0;
            printf("O %d %d %zu %d\n", r1, r2, ob ? osize : (size_t)0, osame);
            free(ob); unlink(opath);
        }
        body = a; bodysize = asize;
        if (prefix) {
            uint32_t pv = 0;
            if (asize >= 4) memcpy(&pv, a, 4);
            printf("L %u %d\n", pv, asize >= 4 && (size_t)pv + 4 == asize);
            body = a + 4; bodysize = asize >= 4 ? asize - 4 : 0;
        } else {
            /* without a prefix the first word is the root offset, inside the buffer, and the identifier follows */
            printf("L - %d\n", asize >= 8 && memcmp(a + 4, "BFBS", 4) == 0);
        }
        {
            /* verify from an aligned exact-size copy of the WHOLE buffer so that over-reads hit a redzone; a length prefixed
               buffer is verified with the runtime's with_size entry point (the prefix is part of the aligned block) */
            uint8_t *copy = 0;
            if (posix_memalign((void **)&copy, 16, asize ? asize : 16)) { printf("V -1 oom\nEND\n"); fflush(stdout); continue; }
            memcpy(copy, a, asize);
            if (prefix) vr = flatcc_verify_table_as_root_with_size(copy, asize, "BFBS", reflection_Schema_verify_table);
            else vr = reflection_Schema_verify_as_root(copy, asize);
            printf("V %d %s\n", vr, flatcc_verify_error_string(vr));
            if (vr == 0) search(copy + (prefix ? 4 : 0));
            free(copy);
            (void)body; (void)bodysize;
        }
        printf("H ");
        for (i = 0; i < asize; ++i) printf("%02x", a[i]);
        printf("\nEND\n");
        fflush(stdout);
        free(a); free(fb);
        flatcc_destroy_context(ctx);
    }
    return 0;
}
