/* C14: the emitter's page allocation redirected (FLATCC_EMITTER_ALLOC / FLATCC_EMITTER_FREE) to a layer that counts LIVE
 * pages, so that the footprint of the page pool is observed independently of E->capacity.  Force-included when the runtime
 * is compiled for harness/reset_hist.c. */
#ifndef EP_ALLOC_H
#define EP_ALLOC_H
#include <stddef.h>
void *ep_alloc(size_t n);
void ep_free(void *p);
/* FLATCC_CALLOC / FLATCC_FREE (the refmap's tables): live calloc blocks and bytes */
void *ep_calloc(size_t nm, size_t n);
void ep_gfree(void *p);
extern long long ep_live, ep_errors, ep_clive, ep_cbytes;
#endif
