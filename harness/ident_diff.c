/* H-ident: line-protocol harness over /repo's current identifier / header-acceptor code (C17).
   Built against: flatcc_identifier.h, verifier.c, builder.c, emitter.c, json_printer.c and the
   flatbuffers_common_reader.h that the freshly built flatcc generated. */
#include "hx.h"
#include "flatcc/flatcc_builder.h"
#include "flatcc/flatcc_verifier.h"
#include "flatcc/flatcc_json_printer.h"
#include "flatbuffers_common_reader.h"

static void noop_struct_printer(flatcc_json_printer_t *ctx, const void *p) { (void)ctx; (void)p; }

struct req { int kind; /* 0 null 1 string 2 hash */ char *str; uint32_t hash; };
static void parse_req(const char *s, struct req *r) {
    r->str = 0; r->hash = 0;
    if (!strcmp(s, "null")) { r->kind = 0; return; }
    if (s[0] == 's') { uint8_t *p; size_t n = hx_decode(s + 2, &p); r->kind = 1; r->str = (char *)malloc(n + 1); memcpy(r->str, p, n); r->str[n] = 0; free(p); return; }
    r->kind = 2; r->hash = (uint32_t)strtoull(s + 2, 0, 10);
}

int main(void) {
    char *line, *t[8]; int n;
    while ((line = hx_getline())) {
        n = hx_split(line, t, 8);
        if (n == 0) { printf("BAD\n"); continue; }
        if (!strcmp(t[0], "name") && n == 2) {
            uint8_t *p; size_t len = hx_decode(t[1], &p); char *s = (char *)malloc(len + 1); memcpy(s, p, len); s[len] = 0;
            printf("%lu\n", (unsigned long)flatbuffers_type_hash_from_name(s)); free(s); free(p);
        } else if (!strcmp(t[0], "idfromname") && n == 2) {
            uint8_t *p; size_t len = hx_decode(t[1], &p); char *s = (char *)malloc(len + 1); flatbuffers_fid_t fid; memcpy(s, p, len); s[len] = 0;
            flatbuffers_identifier_from_name(s, fid); hx_print((uint8_t *)fid, 4); printf("\n"); free(s); free(p);
        } else if (!strcmp(t[0], "idfromhash") && n == 2) {
            flatbuffers_fid_t fid; flatbuffers_identifier_from_type_hash((flatbuffers_thash_t)strtoull(t[1], 0, 10), fid);
            hx_print((uint8_t *)fid, 4); printf("\n");
        } else if (!strcmp(t[0], "hashfromid") && n == 2) {
            uint8_t *p; hx_decode(t[1], &p); printf("%lu\n", (unsigned long)flatbuffers_type_hash_from_identifier((char *)p)); free(p);
        } else if (!strcmp(t[0], "hashfromstr") && n == 2) {
            uint8_t *p; size_t len = hx_decode(t[1], &p); char *s = (char *)malloc(len + 1); memcpy(s, p, len); s[len] = 0;
            printf("%lu\n", (unsigned long)flatbuffers_type_hash_from_string(s)); free(s); free(p);
        } else if (!strcmp(t[0], "hdr") && n == 5) {
            size_t len, sz; void *fr; struct req r; int rc;
            uint8_t *b = hx_decode_aligned(t[4], (size_t)atoi(t[2]), &len, &fr);
            parse_req(t[3], &r); sz = len;
            if (t[1][0] == 'p') rc = r.kind == 2 ? flatcc_verify_typed_buffer_header(b, len, r.hash) : flatcc_verify_buffer_header(b, len, r.str);
            else rc = r.kind == 2 ? flatcc_verify_typed_buffer_header_with_size(b, &sz, r.hash) : flatcc_verify_buffer_header_with_size(b, &sz, r.str);
            if (rc == 0) printf("OK %lu\n", (unsigned long)sz); else printf("ERR %d\n", rc);
            free(fr); free(r.str);
        } else if (!strcmp(t[0], "has") && n == 4) {
            size_t len; void *fr; struct req r; int rc; size_t base = (size_t)atoi(t[1]);
            uint8_t *b = hx_decode_aligned(t[3], 0, &len, &fr); const void *root = b;
            parse_req(t[2], &r);
            if (base == 4) root = flatbuffers_read_size_prefix(b, 0);
            rc = r.kind == 2 ? flatbuffers_has_type_hash(root, r.hash) : flatbuffers_has_identifier(root, r.str);
            printf("%d\n", rc ? 1 : 0); free(fr); free(r.str);
        } else if (!strcmp(t[0], "pacc") && n == 3) {
            size_t len; void *fr; struct req r; int rc; flatcc_json_printer_t ctx;
            uint8_t *b = hx_decode_aligned(t[2], 0, &len, &fr);
            parse_req(t[1], &r);
            flatcc_json_printer_init_dynamic_buffer(&ctx, 0);
            rc = flatcc_json_printer_struct_as_root(&ctx, b, len, r.str, noop_struct_printer);
            printf("%d\n", rc >= 0 ? 1 : 0);
            flatcc_json_printer_clear(&ctx); free(fr); free(r.str);
        } else if (!strcmp(t[0], "buildset") && n == 5) {
            /* buildset <with_size 0|1> <start id|null> <set id|null> <struct align>: as `build`, but the identifier is replaced on the
               open buffer with flatcc_builder_set_identifier (null = no identifier) before the buffer is ended */
            flatcc_builder_t B; uint8_t *id = 0, *sid = 0; void *out; size_t sz; flatcc_builder_ref_t ref; uint8_t data[256]; size_t al = (size_t)atoi(t[4]); size_t i;
            int ws = atoi(t[1]);
            for (i = 0; i < sizeof(data); ++i) data[i] = (uint8_t)(0xa0 + (i & 15));
            if (strcmp(t[2], "null")) hx_decode(t[2], &id);
            if (strcmp(t[3], "null")) hx_decode(t[3], &sid);
            flatcc_builder_init(&B);
            flatcc_builder_start_buffer(&B, (const char *)id, 0, ws ? flatcc_builder_with_size : 0);
            flatcc_builder_set_identifier(&B, (const char *)sid);
            ref = flatcc_builder_create_struct(&B, data, al, (uint16_t)al);
            ref = flatcc_builder_end_buffer(&B, ref);
            out = flatcc_builder_finalize_buffer(&B, &sz);
            if (!ref || !out) printf("FAIL\n"); else { hx_print((uint8_t *)out, sz); printf("\n"); }
            flatcc_builder_free(out); flatcc_builder_clear(&B); free(id); free(sid);
        } else if (!strcmp(t[0], "nbuildset") && n == 5) {
            /* nbuildset <parent id|null> <nested start id|null> <nested set id|null> <struct align>: as `nbuild`, the nested (innermost
               open) buffer's identifier replaced with flatcc_builder_set_identifier; the parent's identifier must not change */
            flatcc_builder_t B; uint8_t *pid = 0, *nid = 0, *sid = 0; void *out; size_t sz; flatcc_builder_ref_t ref, nref; uint8_t data[256]; size_t al = (size_t)atoi(t[4]); size_t i;
            for (i = 0; i < sizeof(data); ++i) data[i] = (uint8_t)(0xb0 + (i & 15));
            if (strcmp(t[1], "null")) hx_decode(t[1], &pid);
            if (strcmp(t[2], "null")) hx_decode(t[2], &nid);
            if (strcmp(t[3], "null")) hx_decode(t[3], &sid);
            flatcc_builder_init(&B);
            flatcc_builder_start_buffer(&B, (const char *)pid, 0, 0);
            flatcc_builder_start_table(&B, 1);
            flatcc_builder_start_buffer(&B, (const char *)nid, 0, 0);
            flatcc_builder_set_identifier(&B, (const char *)sid);
            nref = flatcc_builder_create_struct(&B, data, al, (uint16_t)al);
            nref = flatcc_builder_end_buffer(&B, nref);
            { flatcc_builder_ref_t *pr = flatcc_builder_table_add_offset(&B, 0); if (pr) *pr = nref; }
            ref = flatcc_builder_end_table(&B);
            ref = flatcc_builder_end_buffer(&B, ref);
            out = flatcc_builder_finalize_buffer(&B, &sz);
            if (!ref || !nref || !out) printf("FAIL\n"); else { hx_print((uint8_t *)out, sz); printf("\n"); }
            flatcc_builder_free(out); flatcc_builder_clear(&B); free(pid); free(nid); free(sid);
        } else if (!strcmp(t[0], "build") && n == 4) {
            /* build <with_size 0|1> <null|hex4> <struct align>: a struct root of `align` bytes finished with the identifier */
            flatcc_builder_t B; uint8_t *id = 0; void *out; size_t sz; flatcc_builder_ref_t ref; uint8_t data[256]; size_t al = (size_t)atoi(t[3]); size_t i;
            int ws = atoi(t[1]);
            for (i = 0; i < sizeof(data); ++i) data[i] = (uint8_t)(0xa0 + (i & 15));
            if (strcmp(t[2], "null")) hx_decode(t[2], &id);
            flatcc_builder_init(&B);
            flatcc_builder_start_buffer(&B, (const char *)id, 0, ws ? flatcc_builder_with_size : 0);
            ref = flatcc_builder_create_struct(&B, data, al, (uint16_t)al);
            ref = flatcc_builder_end_buffer(&B, ref);
            out = flatcc_builder_finalize_buffer(&B, &sz);
            if (!ref || !out) printf("FAIL\n"); else { hx_print((uint8_t *)out, sz); printf("\n"); }
            flatcc_builder_free(out); flatcc_builder_clear(&B); free(id);
        } else if (!strcmp(t[0], "nbuild") && n == 4) {
            /* nbuild <parent id|null> <nested id|null> <struct align>: a parent table (finished with the parent identifier) whose field 0
               is a nested buffer (struct root) started with the nested identifier; prints the whole parent buffer */
            flatcc_builder_t B; uint8_t *pid = 0, *nid = 0; void *out; size_t sz; flatcc_builder_ref_t ref, nref; uint8_t data[256]; size_t al = (size_t)atoi(t[3]); size_t i;
            for (i = 0; i < sizeof(data); ++i) data[i] = (uint8_t)(0xb0 + (i & 15));
            if (strcmp(t[1], "null")) hx_decode(t[1], &pid);
            if (strcmp(t[2], "null")) hx_decode(t[2], &nid);
            flatcc_builder_init(&B);
            flatcc_builder_start_buffer(&B, (const char *)pid, 0, 0);
            flatcc_builder_start_table(&B, 1);
            flatcc_builder_start_buffer(&B, (const char *)nid, 0, 0);
            nref = flatcc_builder_create_struct(&B, data, al, (uint16_t)al);
            nref = flatcc_builder_end_buffer(&B, nref);
            { flatcc_builder_ref_t *pr = flatcc_builder_table_add_offset(&B, 0); if (pr) *pr = nref; }
            ref = flatcc_builder_end_table(&B);
            ref = flatcc_builder_end_buffer(&B, ref);
            out = flatcc_builder_finalize_buffer(&B, &sz);
            if (!ref || !nref || !out) printf("FAIL\n"); else { hx_print((uint8_t *)out, sz); printf("\n"); }
            flatcc_builder_free(out); flatcc_builder_clear(&B); free(pid); free(nid);
        } else printf("BAD\n");
        fflush(stdout);
    }
    return 0;
}
