/* H-refmap (C18): line-protocol harness over /repo's CURRENT src/runtime/refmap.c (included, so that the static
   hash and load-factor functions are reachable and calloc can be made to refuse).
   Same protocol as ocaml/refmap/driver.ml:
     seq <m|n> <op> ...       one operation sequence on a fresh flatcc_refmap_t
        i<src>,<ref>,<a>  f<src>  r<count>,<a>  z  c  d
     hash <src>               _flatcc_refmap_hash
     bigresize <count>        flatcc_refmap_resize(count) in a child with a 2 s alarm: RETURNED <rc> <buckets> | TIMEOUT
   Keys are integers used as addresses (never dereferenced). */
#include "hx.h"
#include <unistd.h>
#include <signal.h>
#include <sys/wait.h>

static int g_alloc_ok = 1, g_refused = 0;
static void *hx_calloc(size_t n, size_t s) { if (!g_alloc_ok) { g_refused = 1; return 0; } return calloc(n, s); }
#define FLATCC_CALLOC(n, s) hx_calloc(n, s)
#include "refmap.c"   /* -I<repo>/src/runtime */

static void put_state(flatcc_refmap_t *m) { printf("/%lu/%lu", (unsigned long)m->count, (unsigned long)m->buckets); }

static void run_seq(char *p)
{
    flatcc_refmap_t m; int first = 1; char *tok;
    flatcc_refmap_init(&m);
    while (*p) {
        while (*p == ' ' || *p == '\n' || *p == '\r') ++p;
        if (!*p) break;
        tok = p; while (*p && *p != ' ' && *p != '\n' && *p != '\r') ++p;
        if (*p) *p++ = 0;
        if (!first) putchar(' ');
        first = 0;
        switch (tok[0]) {
        case 'i': {
            char *q; unsigned long long src = strtoull(tok + 1, &q, 10); long long ref = strtoll(q + 1, &q, 10); int a = atoi(q + 1);
            flatcc_refmap_ref_t r;
            g_alloc_ok = a; g_refused = 0;
            r = flatcc_refmap_insert(&m, (const void *)(uintptr_t)src, (flatcc_refmap_ref_t)ref);
            g_alloc_ok = 1;
            if (g_refused) putchar('F');
            printf("%ld", (long)r); put_state(&m);
            break; }
        case 'f': {
            unsigned long long src = strtoull(tok + 1, 0, 10);
            printf("%ld", (long)flatcc_refmap_find(&m, (const void *)(uintptr_t)src));
            break; }
        case 'r': {
            char *q; unsigned long long c = strtoull(tok + 1, &q, 10); int a = atoi(q + 1); int rc;
            g_alloc_ok = a; g_refused = 0;
            rc = flatcc_refmap_resize(&m, (size_t)c);
            g_alloc_ok = 1;
            if (g_refused) putchar('F');
            printf("%d", rc); put_state(&m);
            break; }
        case 'z': flatcc_refmap_reset(&m); putchar('z'); put_state(&m); break;
        case 'c': flatcc_refmap_clear(&m); putchar('c'); put_state(&m); break;
        case 'd': {
            size_t j; int any = 0; putchar('D');
            for (j = 0; j < m.buckets; ++j) if (m.table[j].src) {
                if (any) putchar(';');
                printf("%lu:%lu:%ld", (unsigned long)j, (unsigned long)(uintptr_t)m.table[j].src, (long)m.table[j].ref); any = 1;
            }
            if (!any) putchar('-');
            break; }
        default: printf("BAD");
        }
    }
    flatcc_refmap_clear(&m);
    putchar('\n');
}

int main(void)
{
    char *line;
    while ((line = hx_getline())) {
        if (!strncmp(line, "seq ", 4)) {
            char *p = line + 4;
            alarm(8);    /* a probe loop over a full table does not end: die and let the driver report the sequence */ while (*p && *p != ' ' && *p != '\n') ++p;   /* skip the hash mode */
            run_seq(p);
            alarm(0);
        } else if (!strncmp(line, "hash ", 5)) {
            printf("%lu\n", (unsigned long)_flatcc_refmap_hash((const void *)(uintptr_t)strtoull(line + 5, 0, 10)));
        } else if (!strncmp(line, "bigresize ", 10)) {
            unsigned long long c = strtoull(line + 10, 0, 10); pid_t pid; int st = 0;
            fflush(stdout);
            pid = fork();
            if (pid == 0) {
                flatcc_refmap_t m; int rc; flatcc_refmap_init(&m);
                alarm(2); g_alloc_ok = 0;
                rc = flatcc_refmap_resize(&m, (size_t)c);
                printf("RETURNED %d %lu\n", rc, (unsigned long)m.buckets); fflush(stdout); _exit(0);
            }
            waitpid(pid, &st, 0);
            if (WIFSIGNALED(st)) printf("TIMEOUT\n");
        } else printf("BAD\n");
        fflush(stdout);
    }
    return 0;
}
