/* H-print (C05): line-protocol harness over /repo's CURRENT JSON printer and parser.
   - codec primitives: print_string / print_char_array / base64 printing (static functions of json_printer.c, included as
     source), base64_encode / base64_decode of pbase64.h, flatcc_json_parser_build_uint8_vector_base64;
   - round trips on gen/c04_schema.fbs: JSON -> parse -> buffer B0 -> print (flags, indent) -> T1 -> parse (force_add) -> B1;
     accessor-level canonical dump of B0 and B1 (generated reader API, values bit exact, presence markers when comparable),
     T2 = print B1 with the same flags, replies carry T1 for the independent JSON reader in checks/c05.py.
   ASan/UBSan in recover mode as in json_scan_diff.c.

   pstr <hex>                         -> <text hex>
   pca <hex>                          -> <text hex>
   carr <parser flags> <array hex>    -> <text hex> <ret> <error> <error_loc> <reparsed array hex>
   pb64 <url 0|1> <hex>               -> <text hex>
   b64e <url> <pad> <hex>             -> <text hex>
   b64d <url> <dst_len> <hex>         -> <ret> <out hex> <consumed>
   parse_b64 <url> <flags> <pos> <hex> -> <ret - start> <error> <error_loc> <line> <lstart> <unq> <bytes hex>
   rt <root> <printer flags> <indent> <parser flags> <hex json>
      -> RT <p0> <v0> <print rc> <p1> <v1> <dump equal> <text equal> <T1 hex> [| <dump B0> | <dump B1>]
*/
#include "hx.h"
#include <signal.h>
#include <unistd.h>
#include <stdarg.h>
#include "json_printer.c"               /* -I<repo>/src/runtime */
#include "flatcc/flatcc_json_parser.h"
#include "flatcc/flatcc_verifier.h"
#include "c04_schema_builder.h"
#include "c04_schema_json_parser.h"
#include "c04_schema_json_printer.h"
#include "c04_schema_verifier.h"

void __asan_set_error_report_callback(void (*cb)(const char *));
static volatile int asan_hits; static char asan_msg[600]; static int asan_write;
static void on_asan(const char *report)
{
    const char *p, *q; size_t n; int k;
    if (asan_hits++) return;
    { const char *last = report, *x = report; while ((x = strstr(x, "ERROR: AddressSanitizer: "))) { last = x; x += 10; } report = last; }
    asan_msg[0] = 0;
    p = strstr(report, "AddressSanitizer: ");
    if (p) { p += 18; q = p; while (*q && *q != ' ' && *q != '\n') ++q; n = (size_t)(q - p); if (n > 60) n = 60; strncat(asan_msg, p, n); }
    if (strstr(report, "WRITE of size")) { asan_write = 1; strcat(asan_msg, " WRITE"); }
    else if (strstr(report, "READ of size ")) strcat(asan_msg, " READ");
    for (k = 0; k < 3; ++k) {
        char tag[8]; sprintf(tag, "#%d 0x", k);
        p = strstr(report, tag); if (!p) break;
        p = strstr(p, " in "); if (!p) break;
        p += 4; q = p; while (*q && *q != ' ' && *q != '\n') ++q;
        n = (size_t)(q - p); if (n > 80) n = 80;
        strcat(asan_msg, k ? " <" : " @"); strncat(asan_msg, p, n);
    }
}
void __ubsan_get_current_report_data(const char **kind, const char **msg, const char **file, unsigned *line, unsigned *col, char **addr);
static int ubsan_hits; static char ubsan_msg[300];
void __ubsan_on_report(void)
{
    const char *kind = 0, *msg = 0, *file = 0, *b; unsigned line = 0, col = 0; char *addr = 0;
    if (ubsan_hits++) return;
    __ubsan_get_current_report_data(&kind, &msg, &file, &line, &col, &addr);
    b = file ? strrchr(file, '/') : 0;
    snprintf(ubsan_msg, sizeof(ubsan_msg), "%s@%s:%u", kind ? kind : "?", b ? b + 1 : (file ? file : "?"), line);
}
static void on_alarm(int sig) { static const char m[] = "HANG\n"; (void)sig; if (write(1, m, 5)) {} _exit(98); }

static char *exact_copy_bytes(const uint8_t *src, size_t n, void **to_free)
{
    char *p;
    if (n == 0) { char *blk = (char *)malloc(8); *to_free = blk; return blk + 8; }
    p = (char *)malloc(n); memcpy(p, src, n); *to_free = p; return p;
}

/* ------------------------------------------------------------------ canonical dump through the generated reader API */
static char *dbuf; static size_t dlen, dcap; static int dpresence;
static void D(const char *fmt, ...)
{
    va_list ap; int k;
    if (dcap - dlen < 256) { dcap = dcap ? dcap * 2 : 4096; dbuf = (char *)realloc(dbuf, dcap); }
    va_start(ap, fmt); k = vsnprintf(dbuf + dlen, dcap - dlen, fmt, ap); va_end(ap);
    if (k > 0) dlen += (size_t)k;
}
static void d_bytes(const void *p, size_t n) { size_t i; for (i = 0; i < n; ++i) D("%02x", ((const uint8_t *)p)[i]); }
static void d_f64(double v) { uint64_t u; memcpy(&u, &v, 8); D("%016llx", (unsigned long long)u); }
static void d_f32(float v) { uint32_t u; memcpy(&u, &v, 4); D("%08x", u); }
static void P(int present) { if (dpresence) D(present ? "+" : "-"); }
static void d_str(flatbuffers_string_t s) { if (!s) { D("~"); return; } D("s%u:", (unsigned)flatbuffers_string_len(s)); d_bytes(s, flatbuffers_string_len(s)); }
static void d_pt(C4_Pt_struct_t p) { if (!p) { D("~"); return; } D("(%d,%d)", C4_Pt_x(p), C4_Pt_y(p)); }
static void d_fix(C4_Fix_struct_t f)
{
    size_t i;
    if (!f) { D("~"); return; }
    D("Fix{a=");
    for (i = 0; i < 3; ++i) D("%d,", C4_Fix_a(f, i));
    D(" name="); d_bytes(C4_Fix_name_get_ptr(f), 6);
    D(" p="); for (i = 0; i < 2; ++i) d_pt(C4_Fix_p(f, i));
    D(" e=%d,%d d=", C4_Fix_e(f, 0), C4_Fix_e(f, 1)); d_f64(C4_Fix_d(f)); D(" u=%u}", C4_Fix_u(f));
}
static void d_leaf(C4_Leaf_table_t t)
{
    if (!t) { D("~"); return; }
    D("Leaf{n="); P(C4_Leaf_n_is_present(t)); D("%lld s=", (long long)C4_Leaf_n(t)); d_str(C4_Leaf_s(t));
    D(" c="); P(C4_Leaf_c_is_present(t)); D("%d}", C4_Leaf_c(t));
}
static void d_other(C4_Other_table_t t)
{
    size_t i; flatbuffers_uint16_vec_t v;
    if (!t) { D("~"); return; }
    v = C4_Other_v(t);
    D("Other{v="); if (!v) D("~"); else { D("["); for (i = 0; i < flatbuffers_uint16_vec_len(v); ++i) D("%u,", flatbuffers_uint16_vec_at(v, i)); D("]"); }
    D(" f="); P(C4_Other_f_is_present(t)); d_f32(C4_Other_f(t)); D("}");
}
static void d_union(C4_Any_union_type_t type, flatbuffers_generic_t v)
{
    D("U%u:", type);
    switch (type) {
    case C4_Any_Leaf: d_leaf((C4_Leaf_table_t)v); break;
    case C4_Any_Other: d_other((C4_Other_table_t)v); break;
    case C4_Any_Pt: d_pt((C4_Pt_struct_t)v); break;
    case C4_Any_Str: d_str(flatbuffers_string_cast_from_generic(v)); break;
    default: D(v ? "?" : "~"); break;
    }
}
static void d_sub(C4_Sub_table_t t)
{
    if (!t) { D("~"); return; }
    D("Sub{id="); P(C4_Sub_id_is_present(t)); D("%u tag=", C4_Sub_id(t)); d_str(C4_Sub_tag(t)); D(" pt="); d_pt(C4_Sub_pt(t)); D("}");
}
static void d_rec(C4_Rec_table_t t, int depth)
{
    size_t i; C4_Rec_vec_t k;
    if (!t) { D("~"); return; }
    if (depth > 200) { D("DEEP"); return; }
    D("Rec{r="); d_rec(C4_Rec_r(t), depth + 1); D(" n="); P(C4_Rec_n_is_present(t)); D("%d k=", C4_Rec_n(t));
    k = C4_Rec_k(t);
    if (!k) D("~"); else { D("["); for (i = 0; i < C4_Rec_vec_len(k); ++i) { d_rec(C4_Rec_vec_at(k, i), depth + 1); D(","); } D("]"); }
    D("}");
}
static void d_big(C4_Big_struct_t b) { if (!b) { D("~"); return; } D("(%lld,%llu)", (long long)C4_Big_l(b), (unsigned long long)C4_Big_u(b)); }
static void d_lim(C4_Lim_struct_t m)
{
    if (!m) { D("~"); return; }
    D("Lim{%d,%d,%d,%lld ab=%d,%d as=%d,%d ai=%d,%d al=%lld,%lld e=%d ae=%d,%d}", C4_Lim_b(m), C4_Lim_s(m), C4_Lim_i(m), (long long)C4_Lim_l(m),
      C4_Lim_ab(m, 0), C4_Lim_ab(m, 1), C4_Lim_as(m, 0), C4_Lim_as(m, 1), C4_Lim_ai(m, 0), C4_Lim_ai(m, 1), (long long)C4_Lim_al(m, 0), (long long)C4_Lim_al(m, 1),
      C4_Lim_e(m), C4_Lim_ae(m, 0), C4_Lim_ae(m, 1));
}
static void d_nums(C4_Nums_table_t t)
{
    size_t i;
    if (!t) { D("~"); return; }
    D("Nums{l="); P(C4_Nums_l_is_present(t)); D("%lld u=", (long long)C4_Nums_l(t)); P(C4_Nums_u_is_present(t)); D("%llu", (unsigned long long)C4_Nums_u(t));
    { flatbuffers_int64_vec_t v = C4_Nums_vl(t); D(" vl="); if (!v) D("~"); else { D("["); for (i = 0; i < flatbuffers_int64_vec_len(v); ++i) D("%lld,", (long long)flatbuffers_int64_vec_at(v, i)); D("]"); } }
    { flatbuffers_uint64_vec_t v = C4_Nums_vu(t); D(" vu="); if (!v) D("~"); else { D("["); for (i = 0; i < flatbuffers_uint64_vec_len(v); ++i) D("%llu,", (unsigned long long)flatbuffers_uint64_vec_at(v, i)); D("]"); } }
    D(" big="); d_big(C4_Nums_big(t));
    { C4_Big_vec_t v = C4_Nums_vbig(t); D(" vbig="); if (!v) D("~"); else { D("["); for (i = 0; i < C4_Big_vec_len(v); ++i) d_big(C4_Big_vec_at(v, i)); D("]"); } }
    D(" i="); P(C4_Nums_i_is_present(t)); D("%d w=", C4_Nums_i(t)); P(C4_Nums_w_is_present(t)); D("%u", C4_Nums_w(t));
    D(" b8="); P(C4_Nums_b8_is_present(t)); D("%d s16=", C4_Nums_b8(t)); P(C4_Nums_s16_is_present(t)); D("%d", C4_Nums_s16(t));
    { flatbuffers_int8_vec_t v = C4_Nums_vb8(t); D(" vb8="); if (!v) D("~"); else { D("["); for (i = 0; i < flatbuffers_int8_vec_len(v); ++i) D("%d,", flatbuffers_int8_vec_at(v, i)); D("]"); } }
    { flatbuffers_int16_vec_t v = C4_Nums_vs16(t); D(" vs16="); if (!v) D("~"); else { D("["); for (i = 0; i < flatbuffers_int16_vec_len(v); ++i) D("%d,", flatbuffers_int16_vec_at(v, i)); D("]"); } }
    { flatbuffers_int32_vec_t v = C4_Nums_vi32(t); D(" vi32="); if (!v) D("~"); else { D("["); for (i = 0; i < flatbuffers_int32_vec_len(v); ++i) D("%d,", flatbuffers_int32_vec_at(v, i)); D("]"); } }
    D(" lim="); d_lim(C4_Nums_lim(t));
    { C4_Lim_vec_t v = C4_Nums_vlim(t); D(" vlim="); if (!v) D("~"); else { D("["); for (i = 0; i < C4_Lim_vec_len(v); ++i) d_lim(C4_Lim_vec_at(v, i)); D("]"); } }
    D(" e="); P(C4_Nums_e_is_present(t)); D("%d", C4_Nums_e(t));
    { C4_Neg_vec_t v = C4_Nums_ve(t); D(" ve="); if (!v) D("~"); else { D("["); for (i = 0; i < C4_Neg_vec_len(v); ++i) D("%d,", C4_Neg_vec_at(v, i)); D("]"); } }
    D(" d="); P(C4_Nums_d_is_present(t)); d_f64(C4_Nums_d(t)); D(" f="); P(C4_Nums_f_is_present(t)); d_f32(C4_Nums_f(t));
    { flatbuffers_double_vec_t v = C4_Nums_vd(t); D(" vd="); if (!v) D("~"); else { D("["); for (i = 0; i < flatbuffers_double_vec_len(v); ++i) { d_f64(flatbuffers_double_vec_at(v, i)); D(","); } D("]"); } }
    { flatbuffers_float_vec_t v = C4_Nums_vf(t); D(" vf="); if (!v) D("~"); else { D("["); for (i = 0; i < flatbuffers_float_vec_len(v); ++i) { d_f32(flatbuffers_float_vec_at(v, i)); D(","); } D("]"); } }
    D(" full="); P(C4_Nums_full_is_present(t)); D("%u", C4_Nums_full(t));
    { C4_Full_vec_t v = C4_Nums_vfull(t); D(" vfull="); if (!v) D("~"); else { D("["); for (i = 0; i < C4_Full_vec_len(v); ++i) D("%u,", C4_Full_vec_at(v, i)); D("]"); } }
    D("}");
}
static void d_anyvec(C4_Any_union_vec_t uv)
{
    size_t i;
    if (!uv.type && !uv.value) { D("~"); return; }
    D("["); for (i = 0; i < C4_Any_union_vec_len(uv); ++i) { C4_Any_union_t u = C4_Any_union_vec_at(uv, i); d_union(u.type, u.value); D(","); } D("]");
}
static void d_depfirst(C4_DepFirst_table_t t)
{ if (!t) { D("~"); return; } D("DepFirst{u="); d_union(C4_DepFirst_u_type(t), C4_DepFirst_u(t)); D(" v="); d_anyvec(C4_DepFirst_v_union(t)); D(" n="); P(C4_DepFirst_n_is_present(t)); D("%d}", C4_DepFirst_n(t)); }
static void d_depmid(C4_DepMid_table_t t)
{ if (!t) { D("~"); return; } D("DepMid{u="); d_union(C4_DepMid_u_type(t), C4_DepMid_u(t)); D(" v="); d_anyvec(C4_DepMid_v_union(t)); D(" w="); d_union(C4_DepMid_w_type(t), C4_DepMid_w(t)); D(" s="); d_str(C4_DepMid_s(t)); D("}"); }
static void d_deplast(C4_DepLast_table_t t)
{ if (!t) { D("~"); return; } D("DepLast{u="); d_union(C4_DepLast_u_type(t), C4_DepLast_u(t)); D(" v="); d_anyvec(C4_DepLast_v_union(t)); D(" w="); d_union(C4_DepLast_w_type(t), C4_DepLast_w(t)); D("}"); }
static void d_deponly(C4_DepOnly_table_t t)
{ if (!t) { D("~"); return; } D("DepOnly{n="); P(C4_DepOnly_n_is_present(t)); D("%d s=", C4_DepOnly_n(t)); d_str(C4_DepOnly_s(t)); D("}"); }
static void d_s1(C4_S1_struct_t x) { if (!x) D("~"); else D("S1(%u)", C4_S1_a(x)); }
static void d_s2(C4_S2_struct_t x) { if (!x) D("~"); else D("S2(%u,%u)", C4_S2_a(x), C4_S2_b(x)); }
static void d_s2s(C4_S2s_struct_t x) { if (!x) D("~"); else D("S2s(%u)", C4_S2s_a(x)); }
static void d_s3(C4_S3_struct_t x) { if (!x) D("~"); else D("S3(%u,%u,%u)", C4_S3_a(x), C4_S3_b(x), C4_S3_c(x)); }
static void d_tiny(C4_Tiny_table_t t)
{
    if (!t) { D("~"); return; }
    D("Tiny{n1="); if (!C4_Tiny_n1(t)) D("~"); else d_s1(C4_Tiny_n1_as_root(t));
    D(" n2="); if (!C4_Tiny_n2(t)) D("~"); else d_s2(C4_Tiny_n2_as_root(t));
    D(" n2s="); if (!C4_Tiny_n2s(t)) D("~"); else d_s2s(C4_Tiny_n2s_as_root(t));
    D(" n3="); if (!C4_Tiny_n3(t)) D("~"); else d_s3(C4_Tiny_n3_as_root(t));
    D(" n4="); if (!C4_Tiny_n4(t)) D("~"); else d_pt(C4_Tiny_n4_as_root(t));
    D(" n8="); if (!C4_Tiny_n8(t)) D("~"); else { C4_Point_struct_t q = C4_Tiny_n8_as_root(t); D("(%d,%d)", C4_Point_x(q), C4_Point_y(q)); }
    D(" s1="); d_s1(C4_Tiny_s1(t)); D(" s3="); d_s3(C4_Tiny_s3(t)); D(" k="); P(C4_Tiny_k_is_present(t)); D("%d}", C4_Tiny_k(t));
}
static void d_twin(C4_Twin_table_t t)
{
    size_t i; C4_Item_vec_t v;
    if (!t) { D("~"); return; }
    D("Twin{a="); if (!C4_Twin_a(t)) D("~"); else d_sub(C4_Twin_a_as_root(t));
    D(" b="); if (!C4_Twin_b(t)) D("~"); else d_sub(C4_Twin_b_as_root(t));
    v = C4_Twin_items(t); D(" items=");
    if (!v) D("~"); else { D("["); for (i = 0; i < C4_Item_vec_len(v); ++i) { C4_Item_table_t it = C4_Item_vec_at(v, i);
        D("Item{"); if (!C4_Item_payload(it)) D("~"); else d_sub(C4_Item_payload_as_root(it)); D(" id="); P(C4_Item_id_is_present(it)); D("%d},", C4_Item_id(it)); } D("]"); }
    D(" n="); P(C4_Twin_n_is_present(t)); D("%d}", C4_Twin_n(t));
}
static void d_dp1(C4_Dp1_struct_t x) { if (!x) D("~"); else D("Dp1(%u,%u)", C4_Dp1_b(x), C4_Dp1_c(x)); }
static void d_dpt(C4_DpT_table_t t)
{
    size_t i; C4_Dp1_vec_t v;
    if (!t) { D("~"); return; }
    D("DpT{d1="); d_dp1(C4_DpT_d1(t));
    D(" d2="); if (!C4_DpT_d2(t)) D("~"); else D("Dp2(%u,%u)", C4_Dp2_a(C4_DpT_d2(t)), C4_Dp2_c(C4_DpT_d2(t)));
    D(" d3="); if (!C4_DpT_d3(t)) D("~"); else D("Dp3(%u,%u)", C4_Dp3_a(C4_DpT_d3(t)), C4_Dp3_b(C4_DpT_d3(t)));
    v = C4_DpT_v1(t); D(" v1="); if (!v) D("~"); else { D("["); for (i = 0; i < C4_Dp1_vec_len(v); ++i) d_dp1(C4_Dp1_vec_at(v, i)); D("]"); }
    D(" n="); P(C4_DpT_n_is_present(t)); D("%d}", C4_DpT_n(t));
}
static void d_multi(C4_Multi_table_t t)
{
    size_t i;
    if (!t) { D("~"); return; }
    { C4_DepMid_vec_t v = C4_Multi_xs(t); D("Multi{xs="); if (!v) D("~"); else { D("["); for (i = 0; i < C4_DepMid_vec_len(v); ++i) { d_depmid(C4_DepMid_vec_at(v, i)); D(","); } D("]"); } }
    D(" a="); d_depmid(C4_Multi_a(t)); D(" b="); d_depmid(C4_Multi_b(t));
    { C4_DepLast_vec_t v = C4_Multi_ys(t); D(" ys="); if (!v) D("~"); else { D("["); for (i = 0; i < C4_DepLast_vec_len(v); ++i) { d_deplast(C4_DepLast_vec_at(v, i)); D(","); } D("]"); } }
    D("}");
}
/* optional scalars: presence IS part of the value, so it is dumped under every flag set */
#define OPTF(name, fmt, cast) do { D(" " #name "="); D(C4_Opt_ ## name ## _is_present(t) ? "+" : "-"); D(fmt, (cast)C4_Opt_ ## name(t)); } while (0)
static void d_opt(C4_Opt_table_t t)
{
    if (!t) { D("~"); return; }
    D("Opt{"); OPTF(i, "%d", int); OPTF(b, "%u", unsigned); OPTF(u, "%u", unsigned); OPTF(e, "%d", int); OPTF(l, "%lld", long long);
    D(" f="); D(C4_Opt_f_is_present(t) ? "+" : "-"); d_f32(C4_Opt_f(t)); D(" d="); D(C4_Opt_d_is_present(t) ? "+" : "-"); d_f64(C4_Opt_d(t));
    D(" n="); P(C4_Opt_n_is_present(t)); D("%d}", C4_Opt_n(t));
}
static void d_node(C4_Node_table_t t, int depth);
static void d_tree(C4_Tree_union_type_t type, flatbuffers_generic_t v, int depth)
{
    D("U%u:", type);
    switch (type) {
    case C4_Tree_Node: d_node((C4_Node_table_t)v, depth + 1); break;
    case C4_Tree_Leaf: d_leaf((C4_Leaf_table_t)v); break;
    case C4_Tree_Other: d_other((C4_Other_table_t)v); break;
    default: D(v ? "?" : "~"); break;
    }
}
static void d_node(C4_Node_table_t t, int depth)
{
    size_t i; C4_Tree_union_vec_t uv;
    if (!t) { D("~"); return; }
    if (depth > 300) { D("DEEP"); return; }
    D("Node{name="); d_str(C4_Node_name(t)); D(" kids=");
    uv = C4_Node_kids_union(t);
    if (!uv.type && !uv.value) D("~"); else { D("["); for (i = 0; i < C4_Tree_union_vec_len(uv); ++i) { C4_Tree_union_t u = C4_Tree_union_vec_at(uv, i); d_tree(u.type, u.value, depth); D(","); } D("]"); }
    D(" single="); d_tree(C4_Node_single_type(t), C4_Node_single(t), depth);
    D(" n="); P(C4_Node_n_is_present(t)); D("%d}", C4_Node_n(t));
}
#define SCALAR(name, fmt, cast) do { D(" " #name "="); P(C4_Root_ ## name ## _is_present(t)); D(fmt, (cast)C4_Root_ ## name(t)); } while (0)
#define BYTEVEC(name) do { flatbuffers_uint8_vec_t v = C4_Root_ ## name(t); D(" " #name "="); if (!v) D("~"); else { D("b%u:", (unsigned)flatbuffers_uint8_vec_len(v)); d_bytes(v, flatbuffers_uint8_vec_len(v)); } } while (0)
static void d_root(C4_Root_table_t t)
{
    size_t i;
    if (!t) { D("~"); return; }
    D("Root{");
    SCALAR(b, "%u", unsigned); SCALAR(i8, "%d", int); SCALAR(u8, "%u", unsigned); SCALAR(i16, "%d", int); SCALAR(u16, "%u", unsigned);
    SCALAR(i32, "%d", int); SCALAR(u32, "%u", unsigned); SCALAR(i64, "%lld", long long); SCALAR(u64, "%llu", unsigned long long);
    D(" f32="); P(C4_Root_f32_is_present(t)); d_f32(C4_Root_f32(t));
    D(" f64="); P(C4_Root_f64_is_present(t)); d_f64(C4_Root_f64(t));
    SCALAR(col, "%d", int); SCALAR(bits, "%u", unsigned);
    D(" name="); d_str(C4_Root_name(t));
    D(" fix="); d_fix(C4_Root_fix(t));
    D(" pt="); d_pt(C4_Root_pt(t));
    D(" leaf="); d_leaf(C4_Root_leaf(t));
    D(" any="); d_union(C4_Root_any_type(t), C4_Root_any(t));
    D(" anys=");
    { C4_Any_union_vec_t uv = C4_Root_anys_union(t);
      if (!uv.type && !uv.value) D("~"); else { D("["); for (i = 0; i < C4_Any_union_vec_len(uv); ++i) { C4_Any_union_t u = C4_Any_union_vec_at(uv, i); d_union(u.type, u.value); D(","); } D("]"); } }
    { flatbuffers_int32_vec_t v = C4_Root_vi(t); D(" vi="); if (!v) D("~"); else { D("["); for (i = 0; i < flatbuffers_int32_vec_len(v); ++i) D("%d,", flatbuffers_int32_vec_at(v, i)); D("]"); } }
    { flatbuffers_uint8_vec_t v = C4_Root_vb(t); D(" vb="); if (!v) D("~"); else { D("["); for (i = 0; i < flatbuffers_uint8_vec_len(v); ++i) D("%u,", flatbuffers_uint8_vec_at(v, i)); D("]"); } }
    { flatbuffers_string_vec_t v = C4_Root_vs(t); D(" vs="); if (!v) D("~"); else { D("["); for (i = 0; i < flatbuffers_string_vec_len(v); ++i) { d_str(flatbuffers_string_vec_at(v, i)); D(","); } D("]"); } }
    { C4_Leaf_vec_t v = C4_Root_vt(t); D(" vt="); if (!v) D("~"); else { D("["); for (i = 0; i < C4_Leaf_vec_len(v); ++i) { d_leaf(C4_Leaf_vec_at(v, i)); D(","); } D("]"); } }
    { C4_Pt_vec_t v = C4_Root_vp(t); D(" vp="); if (!v) D("~"); else { D("["); for (i = 0; i < C4_Pt_vec_len(v); ++i) d_pt(C4_Pt_vec_at(v, i)); D("]"); } }
    { C4_Color_vec_t v = C4_Root_vc(t); D(" vc="); if (!v) D("~"); else { D("["); for (i = 0; i < C4_Color_vec_len(v); ++i) D("%d,", C4_Color_vec_at(v, i)); D("]"); } }
    D(" nest="); if (!C4_Root_nest(t)) D("~"); else d_sub(C4_Root_nest_as_root(t));
    D(" nest_s="); if (!C4_Root_nest_s(t)) D("~"); else d_fix(C4_Root_nest_s_as_root(t));
    BYTEVEC(raw); BYTEVEC(b64); BYTEVEC(b64u);
    D(" nest64="); if (!C4_Root_nest64(t)) D("~"); else d_sub(C4_Root_nest64_as_root(t));
    D(" other="); d_other(C4_Root_other(t));
    D(" any2="); d_union(C4_Root_any2_type(t), C4_Root_any2(t));
    D(" rec="); d_rec(C4_Root_rec(t), 0);
    { C4_Fix_vec_t v = C4_Root_vfix(t); D(" vfix="); if (!v) D("~"); else { D("["); for (i = 0; i < C4_Fix_vec_len(v); ++i) { d_fix(C4_Fix_vec_at(v, i)); D(","); } D("]"); } }
    D("}");
}

typedef int parse_f(flatcc_builder_t *B, flatcc_json_parser_t *ctx, const char *buf, size_t bufsiz, flatcc_json_parser_flags_t flags, const char *fid);
typedef int print_f(flatcc_json_printer_t *ctx, const void *buf, size_t bufsiz, const char *fid);
typedef int verify_f(const void *buf, size_t bufsiz, const char *fid);
struct root { const char *name; parse_f *parse; print_f *print; verify_f *verify; int kind; };
static struct root roots[] = {
    { "Root", C4_Root_parse_json_as_root, C4_Root_print_json_as_root, C4_Root_verify_as_root_with_identifier, 0 },
    { "Leaf", C4_Leaf_parse_json_as_root, C4_Leaf_print_json_as_root, C4_Leaf_verify_as_root_with_identifier, 1 },
    { "Other", C4_Other_parse_json_as_root, C4_Other_print_json_as_root, C4_Other_verify_as_root_with_identifier, 2 },
    { "Sub", C4_Sub_parse_json_as_root, C4_Sub_print_json_as_root, C4_Sub_verify_as_root_with_identifier, 3 },
    { "Rec", C4_Rec_parse_json_as_root, C4_Rec_print_json_as_root, C4_Rec_verify_as_root_with_identifier, 4 },
    { "Pt", C4_Pt_parse_json_as_root, C4_Pt_print_json_as_root, C4_Pt_verify_as_root_with_identifier, 5 },
    { "Fix", C4_Fix_parse_json_as_root, C4_Fix_print_json_as_root, C4_Fix_verify_as_root_with_identifier, 6 },
    { "Nums", C4_Nums_parse_json_as_root, C4_Nums_print_json_as_root, C4_Nums_verify_as_root_with_identifier, 7 },
    { "Node", C4_Node_parse_json_as_root, C4_Node_print_json_as_root, C4_Node_verify_as_root_with_identifier, 8 },
    { "DepFirst", C4_DepFirst_parse_json_as_root, C4_DepFirst_print_json_as_root, C4_DepFirst_verify_as_root_with_identifier, 9 },
    { "DepMid", C4_DepMid_parse_json_as_root, C4_DepMid_print_json_as_root, C4_DepMid_verify_as_root_with_identifier, 10 },
    { "DepLast", C4_DepLast_parse_json_as_root, C4_DepLast_print_json_as_root, C4_DepLast_verify_as_root_with_identifier, 11 },
    { "DepOnly", C4_DepOnly_parse_json_as_root, C4_DepOnly_print_json_as_root, C4_DepOnly_verify_as_root_with_identifier, 12 },
    { "Twin", C4_Twin_parse_json_as_root, C4_Twin_print_json_as_root, C4_Twin_verify_as_root_with_identifier, 18 },
    { "DpT", C4_DpT_parse_json_as_root, C4_DpT_print_json_as_root, C4_DpT_verify_as_root_with_identifier, 19 },
    { "Dp1", C4_Dp1_parse_json_as_root, C4_Dp1_print_json_as_root, C4_Dp1_verify_as_root_with_identifier, 20 },
    { "Multi", C4_Multi_parse_json_as_root, C4_Multi_print_json_as_root, C4_Multi_verify_as_root_with_identifier, 21 },
    { "Opt", C4_Opt_parse_json_as_root, C4_Opt_print_json_as_root, C4_Opt_verify_as_root_with_identifier, 22 },
    { "Tiny", C4_Tiny_parse_json_as_root, C4_Tiny_print_json_as_root, C4_Tiny_verify_as_root_with_identifier, 13 },
    { "S1", C4_S1_parse_json_as_root, C4_S1_print_json_as_root, C4_S1_verify_as_root_with_identifier, 14 },
    { "S2", C4_S2_parse_json_as_root, C4_S2_print_json_as_root, C4_S2_verify_as_root_with_identifier, 15 },
    { "S2s", C4_S2s_parse_json_as_root, C4_S2s_print_json_as_root, C4_S2s_verify_as_root_with_identifier, 16 },
    { "S3", C4_S3_parse_json_as_root, C4_S3_print_json_as_root, C4_S3_verify_as_root_with_identifier, 17 },
    { 0, 0, 0, 0, 0 }
};
static char *dump_buffer(struct root *r, const void *buf, int presence)
{
    dlen = 0; dpresence = presence; D("%s", "");
    switch (r->kind) {
    case 0: d_root(C4_Root_as_root(buf)); break;
    case 1: d_leaf(C4_Leaf_as_root(buf)); break;
    case 2: d_other(C4_Other_as_root(buf)); break;
    case 3: d_sub(C4_Sub_as_root(buf)); break;
    case 4: d_rec(C4_Rec_as_root(buf), 0); break;
    case 5: d_pt(C4_Pt_as_root(buf)); break;
    case 6: d_fix(C4_Fix_as_root(buf)); break;
    case 7: d_nums(C4_Nums_as_root(buf)); break;
    case 8: d_node(C4_Node_as_root(buf), 0); break;
    case 9: d_depfirst(C4_DepFirst_as_root(buf)); break;
    case 10: d_depmid(C4_DepMid_as_root(buf)); break;
    case 11: d_deplast(C4_DepLast_as_root(buf)); break;
    case 12: d_deponly(C4_DepOnly_as_root(buf)); break;
    case 13: d_tiny(C4_Tiny_as_root(buf)); break;
    case 22: d_opt(C4_Opt_as_root(buf)); break;
    case 21: d_multi(C4_Multi_as_root(buf)); break;
    case 19: d_dpt(C4_DpT_as_root(buf)); break;
    case 20: d_dp1(C4_Dp1_as_root(buf)); break;
    case 18: d_twin(C4_Twin_as_root(buf)); break;
    case 14: d_s1(C4_S1_as_root(buf)); break;
    case 15: d_s2(C4_S2_as_root(buf)); break;
    case 16: d_s2s(C4_S2s_as_root(buf)); break;
    case 17: d_s3(C4_S3_as_root(buf)); break;
    }
    return strdup(dbuf);
}

static flatcc_builder_t B;
static void *parse_to_buffer(struct root *r, const uint8_t *text, size_t n, flatcc_json_parser_flags_t flags, size_t *size, int *prc, int *vrc)
{
    void *fr, *out; char *in = exact_copy_bytes(text, n, &fr); flatcc_json_parser_t ctx;
    flatcc_builder_reset(&B);
    *prc = r->parse(&B, &ctx, in, n, flags, "C4RT");
    free(fr); *vrc = -1;
    if (*prc) return 0;
    out = flatcc_builder_finalize_aligned_buffer(&B, size);
    if (out) *vrc = r->verify(out, *size, "C4RT");
    return out;
}
static char *print_buffer(struct root *r, const void *buf, size_t size, int flags, int indent, size_t *n, int *rc)
{
    flatcc_json_printer_t pc; char *text;
    flatcc_json_printer_init_dynamic_buffer(&pc, 0);
    flatcc_json_printer_set_flags(&pc, (flatcc_json_printer_flags_t)flags);
    flatcc_json_printer_set_indent(&pc, (uint8_t)indent);
    *rc = r->print(&pc, buf, size, "C4RT");
    if (flatcc_json_printer_get_error(&pc)) *rc = -100 - flatcc_json_printer_get_error(&pc);
    text = (char *)flatcc_json_printer_finalize_dynamic_buffer(&pc, n);
    flatcc_json_printer_clear(&pc);
    return text;
}

static void out_text(flatcc_json_printer_t *pc)
{
    size_t n; char *t = (char *)flatcc_json_printer_finalize_dynamic_buffer(pc, &n);
    hx_print((uint8_t *)t, n); free(t); flatcc_json_printer_clear(pc);
}

int main(void)
{
    char *line, *t[8]; int n;
    __asan_set_error_report_callback(on_asan);
    signal(SIGALRM, on_alarm);
    flatcc_builder_init(&B);
    while ((line = hx_getline())) {
        n = hx_split(line, t, 8);
        if (n == 0) { printf("BAD\n"); fflush(stdout); continue; }
        asan_hits = 0; asan_write = 0; ubsan_hits = 0;
        alarm(20);
        if ((!strcmp(t[0], "pstr") || !strcmp(t[0], "pca")) && n == 2) {
            uint8_t *p; size_t len = hx_decode(t[1], &p); flatcc_json_printer_t pc;
            flatcc_json_printer_init_dynamic_buffer(&pc, 0);
            if (t[0][1] == 's') {
                /* FlatBuffer strings are NUL terminated: s[len] == 0 is part of print_string's contract */
                char *s = (char *)malloc(len + 1); memcpy(s, p, len); s[len] = 0;
                print_string(&pc, s, len); free(s);
            } else {
                char *s = (char *)malloc(len ? len : 1); memcpy(s, p, len);     /* exact length, no terminator */
                print_char_array(&pc, s, len); free(s);
            }
            out_text(&pc); free(p);
        } else if (!strcmp(t[0], "carr") && n == 3) {
            /* carr <parser flags> <array hex>: print_char_array of the n-byte array, then flatcc_json_parser_char_array of that text
               (on an exact heap copy) back into an n-byte array: <text hex> <ret - start> <error> <error_loc - start> <array hex> */
            uint8_t *p; size_t len = hx_decode(t[2], &p), tn; flatcc_json_parser_t pc; flatcc_json_printer_t pr; char *text, *in, *arr; void *fr; const char *ret;
            char *s = (char *)malloc(len ? len : 1); memcpy(s, p, len);
            flatcc_json_printer_init_dynamic_buffer(&pr, 0);
            print_char_array(&pr, s, len);
            text = (char *)flatcc_json_printer_finalize_dynamic_buffer(&pr, &tn); flatcc_json_printer_clear(&pr);
            in = exact_copy_bytes((uint8_t *)text, tn, &fr);
            arr = (char *)malloc(len ? len : 1); memset(arr, 0xee, len ? len : 1);
            flatcc_json_parser_init(&pc, 0, in, in + tn, (flatcc_json_parser_flags_t)atoi(t[1]));
            ret = flatcc_json_parser_char_array(&pc, in, in + tn, arr, len);
            hx_print((uint8_t *)text, tn); printf(" %ld %d %ld ", (long)(ret - in), pc.error, (long)(pc.error_loc - in)); hx_print((uint8_t *)arr, len);
            free(arr); free(fr); free(text); free(s); free(p);
        } else if (!strcmp(t[0], "pb64") && n == 3) {
            uint8_t *p; size_t len = hx_decode(t[2], &p); flatcc_json_printer_t pc; uint8_t *vec = (uint8_t *)malloc(len + 4);
            uint32_t l32 = (uint32_t)len; memcpy(vec, &l32, 4); memcpy(vec + 4, p, len);
            flatcc_json_printer_init_dynamic_buffer(&pc, 0);
            print_uint8_vector_base64_object(&pc, vec, (atoi(t[1]) ? base64_mode_url : base64_mode_rfc4648) | base64_enc_modifier_padding);
            out_text(&pc); free(vec); free(p);
        } else if (!strcmp(t[0], "b64e") && n == 4) {
            uint8_t *p; size_t len = hx_decode(t[3], &p), src_len = len, dst_len = 0; int mode = (atoi(t[1]) ? base64_mode_url : base64_mode_rfc4648) | (atoi(t[2]) ? base64_enc_modifier_padding : 0);
            size_t cap = base64_encoded_size(len, mode); uint8_t *dst = (uint8_t *)malloc(cap ? cap : 1);
            uint8_t *src = (uint8_t *)malloc(len ? len : 1); memcpy(src, p, len);
            base64_encode(dst, src, &dst_len, &src_len, mode);
            hx_print(dst, dst_len); free(dst); free(src); free(p);
        } else if (!strcmp(t[0], "b64d") && n == 4) {
            uint8_t *p; size_t len = hx_decode(t[3], &p), src_len = len, dst_len = (size_t)atol(t[2]); int ret;
            /* destination exactly as large as announced (or as large as the decoder may need when 0 = unlimited) */
            size_t cap = dst_len ? dst_len : base64_decoded_size(len) + 3; uint8_t *dst = (uint8_t *)malloc(cap ? cap : 1);
            uint8_t *src = (uint8_t *)malloc(len ? len : 1); memcpy(src, p, len);
            ret = base64_decode(dst, src, &dst_len, &src_len, atoi(t[1]) ? base64_mode_url : base64_mode_rfc4648);
            printf("%d ", ret); hx_print(dst, dst_len); printf(" %lu", (unsigned long)src_len);
            free(dst); free(src); free(p);
        } else if (!strcmp(t[0], "parse_b64") && n == 5) {
            uint8_t *p; size_t len = hx_decode(t[4], &p); void *fr; char *buf = exact_copy_bytes(p, len, &fr); const char *ret;
            flatcc_json_parser_t ctx; flatcc_builder_t b2; flatcc_builder_ref_t ref = 0; size_t size; uint8_t *out;
            flatcc_builder_init(&b2);
            flatcc_json_parser_init(&ctx, &b2, buf, buf + len, (flatcc_json_parser_flags_t)atoi(t[2]));
            flatcc_builder_start_buffer(&b2, 0, 0, 0);
            ret = flatcc_json_parser_build_uint8_vector_base64(&ctx, buf + atol(t[3]), buf + len, &ref, atoi(t[1]));
            printf("%ld %d %ld %d %ld %d ", (long)(ret - buf), ctx.error, (long)(ctx.error_loc - buf), ctx.line, (long)(ctx.line_start - buf), ctx.unquoted);
            if (!ref) printf("NOREF");
            else if (!flatcc_builder_end_buffer(&b2, ref) || !(out = (uint8_t *)flatcc_builder_finalize_buffer(&b2, &size))) printf("NOBUF");
            else { uint32_t off = *(uint32_t *)out; uint32_t vl = *(uint32_t *)(out + off); hx_print(out + off + 4, vl); flatcc_builder_free(out); }
            flatcc_builder_clear(&b2); free(fr); free(p);
        } else if ((!strcmp(t[0], "rt") || !strcmp(t[0], "rtb")) && n == 6) {
            /* rtb: t[5] is a FINISHED BUFFER (hex) laid out by the check itself instead of a JSON text (t[4] ignored) */
            int from_buffer = t[0][2] == 'b';
            struct root *r = roots; uint8_t *p; size_t len, s0 = 0, s1 = 0, n1 = 0, n2 = 0; int p0, v0, p1 = -9, v1 = -9, prc = -9, prc2 = -9, deq = -1, teq = -1;
            int pflags = atoi(t[2]), indent = atoi(t[3]); void *b0, *b1 = 0; char *t1 = 0, *t2 = 0, *d0 = 0, *d1 = 0;
            int presence = !(pflags & (flatcc_json_printer_f_skip_default | flatcc_json_printer_f_force_default));
            while (r->name && strcmp(r->name, t[1])) ++r;
            if (!r->name) { printf("BAD\n"); fflush(stdout); continue; }
            len = hx_decode(t[5], &p);
            if (from_buffer) {
                b0 = 0; p0 = 0; s0 = len;
                if (posix_memalign(&b0, 16, len ? len : 16)) b0 = 0; else { memcpy(b0, p, len); v0 = r->verify(b0, s0, "C4RT"); }
            } else
            b0 = parse_to_buffer(r, p, len, (flatcc_json_parser_flags_t)atoi(t[4]), &s0, &p0, &v0);
            if (b0 && v0 == 0) {
                t1 = print_buffer(r, b0, s0, pflags, indent, &n1, &prc);
                if (t1 && prc >= 0) {
                    b1 = parse_to_buffer(r, (uint8_t *)t1, n1, flatcc_json_parser_f_force_add, &s1, &p1, &v1);
                    if (b1 && v1 == 0) {
                        d0 = dump_buffer(r, b0, presence); d1 = dump_buffer(r, b1, presence);
                        deq = !strcmp(d0, d1);
                        t2 = print_buffer(r, b1, s1, pflags, indent, &n2, &prc2);
                        teq = t2 && n1 == n2 && !memcmp(t1, t2, n1);
                    }
                }
            }
            printf("RT %d %d %d %d %d %d %d ", p0, v0, prc, p1, v1, deq, teq);
            if (t1) hx_print((uint8_t *)t1, n1); else printf("-");
            if (deq == 0) printf(" | %.1500s | %.1500s", d0, d1);
            if (teq == 0 && t2) { printf(" | T2 "); hx_print((uint8_t *)t2, n2 > 3000 ? 3000 : n2); }
            free(d0); free(d1); free(t1); free(t2);
            if (b0) { if (from_buffer) free(b0); else flatcc_builder_aligned_free(b0); }
            if (b1) flatcc_builder_aligned_free(b1);
            free(p);
        } else printf("BAD");
        if (asan_hits) printf(" ASAN %s", asan_msg);
        if (ubsan_hits) printf(" UBSAN %s", ubsan_msg);
        printf("\n");
        alarm(0); fflush(stdout);
        if (asan_write) return 99;
    }
    return 0;
}
