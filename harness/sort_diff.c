/* C16 harness: generated sort / find / scan / rscan / recursive T_sort from the CURRENT flatcc sources on
 * buffers built with the generated builder for harness/sort_diff.fbs. Line protocol (one reply line per request):
 *
 *   V <kind> <c|f> <sortop> <elems> <queries>
 *       kind   u8 i8 u16 i16 u32 i32 u64 i64 f32 f64 bool e16 str ks ks2 kt kstr mk st1 st2 st3 st5 st6 st10
 *              (stN: keyed struct of N bytes; elements are the keys, the other members carry the original index redundantly;
 *               seq is k for st1/st2, k:p for the others with p = 'torn' when the members of one struct disagree)
 *       c|f    compact / full reply (full adds vector position and the buffer before/after as hex); a following 'l' (cl, fl)
 *              creates the vector's strings / tables first so that they are the LAST bytes of the exact-size block
 *       sortop none | sort | sort_by_<field> | rsort (S_Root_sort)
 *       elems  'n' (field absent) | 'e' (empty) | comma separated elements:
 *              integers decimal; f32/f64 hex bit patterns; str/kstr hex bytes ('-' empty); ks: k; ks2: k8/kdbits/k64;
 *              kt: k; mk: a/b/shex/c/dbits; for offset kinds '@j' = the same object as element j
 *       queries '-' | ';' separated  op,field,mode,b,e,key   (op find|scan|rscan|scanx|rscanx; field '-' = default;
 *              mode c|n for string keys ('-' otherwise))
 *   reply: OK <verify-before> <verify-after> <bytes-changed-outside-vector> <seq> <raw-before> <raw-after> <qres>
 *              [<vecoff> <elsize> <hex-before> <hex-after>]
 *       seq: scalars: values after the sort; ks/ks2: payload p (= original index); offset kinds: original index of the
 *            object each slot refers to ('?' + offset when it refers to nothing the vector referred to before)
 *       raw: stored uoffsets of the slots (offset kinds), '-' otherwise
 *
 *   R <v_i32> <u_i32> <v_str> <u_str> <v_kt> <u_kt> <inner> <inners> <un> <uns> <child>
 *       lists as above ('n' absent, 'e' empty); inner = names/plain/kts or 'n'; inners = inner|inner|... ;
 *       un = I:<inner> | K:<k> | L:<x> | N ; uns = un+un+... ; child = 'n' or v_i32;inner
 *   reply: OK <verify-before> <verify-after> <same fields dumped after S_Root_sort>
 */
#include <stdio.h>
#include <stdlib.h>
#include <string.h>
#include <stdint.h>
#include "hx.h"
#include "sort_diff_builder.h"
#include "sort_diff_verifier.h"

_Static_assert(sizeof(flatbuffers_uoffset_t) == 4, "model assumes 32-bit uoffset_t");
_Static_assert(sizeof(size_t) == 8, "model assumes 64-bit size_t");
#define TAG 0x5eed1234u
#define MAXN 5000

typedef struct {
    uint8_t *buf, *pre; size_t size;
    S_Root_table_t root;
} built_t;

static flatcc_builder_t builder, *B = &builder;
static int builder_ready = 0;

/* mode letter 'l' (e.g. "cl", "fl"): the vector's objects are created FIRST, so the builder (which emits back to front) places
 * them LAST in the buffer: the final string's terminator / padding are the last bytes of the exact-size block. */
static int objects_last = 0;
static const int32_t decoy_i32[3] = { 3, 1, 2 };
static void begin_build(void)
{
    if (!builder_ready) { flatcc_builder_init(B); builder_ready = 1; } else flatcc_builder_reset(B);
    S_Root_start_as_root(B);
    S_Root_tag_add(B, TAG);
    if (!objects_last) S_Root_u_i32_create(B, decoy_i32, 3);
}

static int end_build(built_t *b, int with_decoy)
{
    void *blk = 0;
    if (with_decoy) {
        flatbuffers_string_ref_t r[2];
        r[0] = flatbuffers_string_create_str(B, "b"); r[1] = flatbuffers_string_create_str(B, "a");
        S_Root_u_str_add(B, flatbuffers_string_vec_create(B, r, 2));
    }
    if (!S_Root_end_as_root(B)) return -1;
    b->size = flatcc_builder_get_buffer_size(B);
    if (posix_memalign(&blk, 64, b->size)) return -1;
    if (!flatcc_builder_copy_buffer(B, blk, b->size)) return -1;
    b->buf = (uint8_t *)blk;
    b->pre = (uint8_t *)malloc(b->size);
    memcpy(b->pre, b->buf, b->size);
    b->root = S_Root_as_root(b->buf);
    return 0;
}

static void free_built(built_t *b) { free(b->buf); free(b->pre); }

static size_t outside_changed(built_t *b, size_t off, size_t len)
{
    size_t i, c = 0;
    for (i = 0; i < b->size; ++i) { if (i >= off && i < off + len) continue; if (b->buf[i] != b->pre[i]) ++c; }
    return c;
}

/* ------------------------------------------------------------------ token helpers */
static int split_on(char *s, char sep, char **tok, int max)
{
    int n = 0; char *p = s;
    if (*s == 0) return 0;
    tok[n++] = p;
    while (*p) { if (*p == sep) { *p = 0; if (n < max) tok[n++] = p + 1; } ++p; }
    return n;
}

static long long p_i(const char *s) { return strtoll(s, 0, 10); }
static unsigned long long p_u(const char *s) { return strtoull(s, 0, 10); }
static float p_f32(const char *s) { uint32_t u = (uint32_t)strtoul(s, 0, 16); float f; memcpy(&f, &u, 4); return f; }
static double p_f64(const char *s) { uint64_t u = strtoull(s, 0, 16); double f; memcpy(&f, &u, 8); return f; }
static void pr_i(long long v) { printf("%lld", v); }
static void pr_u(unsigned long long v) { printf("%llu", v); }
static void pr_f32(float f) { uint32_t u; memcpy(&u, &f, 4); printf("%08x", u); }
static void pr_f64(double f) { uint64_t u; memcpy(&u, &f, 8); printf("%016llx", (unsigned long long)u); }

typedef struct { const char *op, *field, *mode; size_t b, e; char *key; } query_t;

static int parse_query(char *s, query_t *q)
{
    char *t[8]; int n = split_on(s, ',', t, 8);
    if (n != 6) return -1;
    q->op = t[0]; q->field = t[1]; q->mode = t[2]; q->b = (size_t)p_u(t[3]); q->e = (size_t)p_u(t[4]); q->key = t[5];
    return 0;
}

#define IS(s, lit) (strcmp((s), (lit)) == 0)
#define BAD ((size_t)-2)

/* scalar key through the five entry points PFX_vec_{find,scan,scan_ex,rscan,rscan_ex}SUF */
#define Q_SCALAR(PFX, SUF, T, PARSE) do { T key__ = (T)PARSE(q->key); \
    if (IS(q->op, "find")) return PFX ## _vec_find ## SUF(vec, key__); \
    if (IS(q->op, "scan")) return PFX ## _vec_scan ## SUF(vec, key__); \
    if (IS(q->op, "rscan")) return PFX ## _vec_rscan ## SUF(vec, key__); \
    if (IS(q->op, "scanx")) return PFX ## _vec_scan_ex ## SUF(vec, q->b, q->e, key__); \
    if (IS(q->op, "rscanx")) return PFX ## _vec_rscan_ex ## SUF(vec, q->b, q->e, key__); \
    return BAD; } while (0)
/* fields that are not keys have scans only */
#define Q_SCAN(PFX, SUF, T, PARSE) do { T key__ = (T)PARSE(q->key); \
    if (IS(q->op, "scan")) return PFX ## _vec_scan ## SUF(vec, key__); \
    if (IS(q->op, "rscan")) return PFX ## _vec_rscan ## SUF(vec, key__); \
    if (IS(q->op, "scanx")) return PFX ## _vec_scan_ex ## SUF(vec, q->b, q->e, key__); \
    if (IS(q->op, "rscanx")) return PFX ## _vec_rscan_ex ## SUF(vec, q->b, q->e, key__); \
    return BAD; } while (0)
/* string key: mode c = NUL terminated, mode n = explicit length on an exact-size block */
#define Q_STRING(PFX, SUF) do { uint8_t *kb__; size_t kn__ = hx_decode(q->key, &kb__); size_t r__ = BAD; \
    if (IS(q->mode, "c")) { char *ks__ = (char *)malloc(kn__ + 1); memcpy(ks__, kb__, kn__); ks__[kn__] = 0; \
        if (IS(q->op, "find")) r__ = PFX ## _vec_find ## SUF(vec, ks__); \
        else if (IS(q->op, "scan")) r__ = PFX ## _vec_scan ## SUF(vec, ks__); \
        else if (IS(q->op, "rscan")) r__ = PFX ## _vec_rscan ## SUF(vec, ks__); \
        else if (IS(q->op, "scanx")) r__ = PFX ## _vec_scan_ex ## SUF(vec, q->b, q->e, ks__); \
        else if (IS(q->op, "rscanx")) r__ = PFX ## _vec_rscan_ex ## SUF(vec, q->b, q->e, ks__); \
        free(ks__); \
    } else { const char *ks__ = (const char *)kb__; \
        if (IS(q->op, "find")) r__ = PFX ## _vec_find_n ## SUF(vec, ks__, kn__); \
        else if (IS(q->op, "scan")) r__ = PFX ## _vec_scan_n ## SUF(vec, ks__, kn__); \
        else if (IS(q->op, "rscan")) r__ = PFX ## _vec_rscan_n ## SUF(vec, ks__, kn__); \
        else if (IS(q->op, "scanx")) r__ = PFX ## _vec_scan_ex_n ## SUF(vec, q->b, q->e, ks__, kn__); \
        else if (IS(q->op, "rscanx")) r__ = PFX ## _vec_rscan_ex_n ## SUF(vec, q->b, q->e, ks__, kn__); \
    } free(kb__); return r__; } while (0)

static void run_queries(char *qs, size_t (*qf)(const void *vec, query_t *q), const void *vec)
{
    char *t[4096]; int n, i; query_t q;
    if (IS(qs, "-")) { printf("-"); return; }
    n = split_on(qs, ';', t, 4096);
    for (i = 0; i < n; ++i) {
        size_t r;
        if (parse_query(t[i], &q)) { printf("%sBADQ", i ? "," : ""); continue; }
        r = qf(vec, &q);
        if (r == BAD) printf("%sBADQ", i ? "," : ""); else printf("%s%llu", i ? "," : "", (unsigned long long)r);
    }
}

static void print_tail(built_t *b, int full, size_t off, size_t elsize)
{
    if (!full) return;
    printf(" %llu %llu ", (unsigned long long)off, (unsigned long long)elsize);
    hx_print(b->pre, b->size); printf(" "); hx_print(b->buf, b->size);
}

/* ------------------------------------------------------------------ scalar vectors */
#define DEF_SCALAR(K, T, VT, FIELD, PARSE, PRINT, PCAST) \
static size_t q_ ## K(const void *v, query_t *q) { VT ## _vec_t vec = (VT ## _vec_t)v; \
    if (!IS(q->field, "-")) return BAD; Q_SCALAR(VT, , T, PARSE); } \
static int run_ ## K(int full, const char *sortop, char *elems, char *qs) \
{ static T arr[MAXN]; char *t[MAXN]; int n = 0, i, absent = IS(elems, "n"), v0, v1; built_t b; VT ## _vec_t vec; size_t off = 0, ch; \
  if (!absent && !IS(elems, "e")) n = split_on(elems, ',', t, MAXN); \
  for (i = 0; i < n; ++i) arr[i] = (T)PARSE(t[i]); \
  begin_build(); if (!absent) S_Root_ ## FIELD ## _create(B, arr, (size_t)n); \
  if (end_build(&b, 1)) { printf("BUILDFAIL"); return 0; } \
  vec = S_Root_ ## FIELD(b.root); \
  v0 = S_Root_verify_as_root(b.buf, b.size); \
  if (IS(sortop, "sort")) { if (vec) VT ## _vec_sort((VT ## _mutable_vec_t)vec); else VT ## _vec_sort(0); } \
  else if (IS(sortop, "rsort")) S_Root_sort((S_Root_mutable_table_t)b.root); \
  else if (!IS(sortop, "none")) { printf("BADOP"); free_built(&b); return 0; } \
  v1 = S_Root_verify_as_root(b.buf, b.size); \
  if (vec) off = (size_t)((const uint8_t *)vec - b.buf); \
  ch = outside_changed(&b, off, (size_t)n * sizeof(T)); \
  printf("OK %d %d %llu ", v0, v1, (unsigned long long)ch); \
  if (VT ## _vec_len(vec) == 0) printf("e"); \
  for (i = 0; i < (int)VT ## _vec_len(vec); ++i) { if (i) printf(","); PRINT((PCAST)VT ## _vec_at(vec, (size_t)i)); } \
  printf(" - - "); run_queries(qs, q_ ## K, vec); print_tail(&b, full, off, sizeof(T)); \
  free_built(&b); return 0; }

DEF_SCALAR(u8, uint8_t, flatbuffers_uint8, v_u8, p_u, pr_u, unsigned long long)
DEF_SCALAR(i8, int8_t, flatbuffers_int8, v_i8, p_i, pr_i, long long)
DEF_SCALAR(u16, uint16_t, flatbuffers_uint16, v_u16, p_u, pr_u, unsigned long long)
DEF_SCALAR(i16, int16_t, flatbuffers_int16, v_i16, p_i, pr_i, long long)
DEF_SCALAR(u32, uint32_t, flatbuffers_uint32, v_u32, p_u, pr_u, unsigned long long)
DEF_SCALAR(i32, int32_t, flatbuffers_int32, v_i32, p_i, pr_i, long long)
DEF_SCALAR(u64, uint64_t, flatbuffers_uint64, v_u64, p_u, pr_u, unsigned long long)
DEF_SCALAR(i64, int64_t, flatbuffers_int64, v_i64, p_i, pr_i, long long)
DEF_SCALAR(f32, float, flatbuffers_float, v_f32, p_f32, pr_f32, float)
DEF_SCALAR(f64, double, flatbuffers_double, v_f64, p_f64, pr_f64, double)
DEF_SCALAR(bool, flatbuffers_bool_t, flatbuffers_bool, v_bool, p_u, pr_u, unsigned long long)
DEF_SCALAR(e16, S_E16_enum_t, S_E16, u_e16, p_i, pr_i, long long)

/* ------------------------------------------------------------------ struct vectors */
static size_t q_ks(const void *v, query_t *q) { S_KS_vec_t vec = (S_KS_vec_t)v;
    if (IS(q->field, "-")) Q_SCALAR(S_KS, , int32_t, p_i);
    if (IS(q->field, "k")) Q_SCALAR(S_KS, _by_k, int32_t, p_i);
    if (IS(q->field, "p")) Q_SCAN(S_KS, _by_p, uint32_t, p_u);
    return BAD; }
static size_t q_ks2(const void *v, query_t *q) { S_KS2_vec_t vec = (S_KS2_vec_t)v;
    if (IS(q->field, "-")) Q_SCALAR(S_KS2, , uint64_t, p_u);
    if (IS(q->field, "k8")) Q_SCALAR(S_KS2, _by_k8, uint8_t, p_u);
    if (IS(q->field, "kd")) Q_SCALAR(S_KS2, _by_kd, double, p_f64);
    if (IS(q->field, "k64")) Q_SCALAR(S_KS2, _by_k64, uint64_t, p_u);
    if (IS(q->field, "p")) Q_SCAN(S_KS2, _by_p, uint32_t, p_u);
    return BAD; }

static int run_ks(int full, const char *sortop, char *elems, char *qs)
{
    static S_KS_t arr[MAXN]; char *t[MAXN]; int n = 0, i, absent = IS(elems, "n"), v0, v1; built_t b; S_KS_vec_t vec; size_t off = 0, ch;
    if (!absent && !IS(elems, "e")) n = split_on(elems, ',', t, MAXN);
    memset(arr, 0, sizeof(arr[0]) * (size_t)n);
    for (i = 0; i < n; ++i) { arr[i].k = (int32_t)p_i(t[i]); arr[i].p = (uint32_t)i; }
    begin_build(); if (!absent) S_Root_v_ks_create_pe(B, arr, (size_t)n);
    if (end_build(&b, 1)) { printf("BUILDFAIL"); return 0; }
    vec = S_Root_v_ks(b.root);
    v0 = S_Root_verify_as_root(b.buf, b.size);
    if (IS(sortop, "sort")) S_KS_vec_sort((S_KS_mutable_vec_t)vec);
    else if (IS(sortop, "sort_by_k")) S_KS_vec_sort_by_k((S_KS_mutable_vec_t)vec);
    else if (IS(sortop, "rsort")) S_Root_sort((S_Root_mutable_table_t)b.root);
    else if (!IS(sortop, "none")) { printf("BADOP"); free_built(&b); return 0; }
    v1 = S_Root_verify_as_root(b.buf, b.size);
    if (vec) off = (size_t)((const uint8_t *)vec - b.buf);
    ch = outside_changed(&b, off, (size_t)n * sizeof(S_KS_t));
    printf("OK %d %d %llu ", v0, v1, (unsigned long long)ch);
    if (S_KS_vec_len(vec) == 0) printf("e");
    for (i = 0; i < (int)S_KS_vec_len(vec); ++i) { S_KS_struct_t e = S_KS_vec_at(vec, (size_t)i);
        printf("%s%lld:%llu", i ? "," : "", (long long)S_KS_k(e), (unsigned long long)S_KS_p(e)); }
    printf(" - - "); run_queries(qs, q_ks, vec); print_tail(&b, full, off, sizeof(S_KS_t));
    free_built(&b); return 0;
}

static int run_ks2(int full, const char *sortop, char *elems, char *qs)
{
    static S_KS2_t arr[MAXN]; char *t[MAXN], *f[4]; int n = 0, i, absent = IS(elems, "n"), v0, v1; built_t b; S_KS2_vec_t vec; size_t off = 0, ch;
    if (!absent && !IS(elems, "e")) n = split_on(elems, ',', t, MAXN);
    memset(arr, 0, sizeof(arr[0]) * (size_t)n);
    for (i = 0; i < n; ++i) { if (split_on(t[i], '/', f, 4) != 3) { printf("BADELEM"); return 0; }
        arr[i].p = (uint32_t)i; arr[i].k8 = (uint8_t)p_u(f[0]); arr[i].kd = p_f64(f[1]); arr[i].k64 = (uint64_t)p_u(f[2]); }
    begin_build(); if (!absent) S_Root_v_ks2_create_pe(B, arr, (size_t)n);
    if (end_build(&b, 1)) { printf("BUILDFAIL"); return 0; }
    vec = S_Root_v_ks2(b.root);
    v0 = S_Root_verify_as_root(b.buf, b.size);
    if (IS(sortop, "sort")) S_KS2_vec_sort((S_KS2_mutable_vec_t)vec);
    else if (IS(sortop, "sort_by_k8")) S_KS2_vec_sort_by_k8((S_KS2_mutable_vec_t)vec);
    else if (IS(sortop, "sort_by_kd")) S_KS2_vec_sort_by_kd((S_KS2_mutable_vec_t)vec);
    else if (IS(sortop, "sort_by_k64")) S_KS2_vec_sort_by_k64((S_KS2_mutable_vec_t)vec);
    else if (IS(sortop, "rsort")) S_Root_sort((S_Root_mutable_table_t)b.root);
    else if (!IS(sortop, "none")) { printf("BADOP"); free_built(&b); return 0; }
    v1 = S_Root_verify_as_root(b.buf, b.size);
    if (vec) off = (size_t)((const uint8_t *)vec - b.buf);
    ch = outside_changed(&b, off, (size_t)n * sizeof(S_KS2_t));
    printf("OK %d %d %llu ", v0, v1, (unsigned long long)ch);
    if (S_KS2_vec_len(vec) == 0) printf("e");
    for (i = 0; i < (int)S_KS2_vec_len(vec); ++i) { S_KS2_struct_t e = S_KS2_vec_at(vec, (size_t)i);
        printf("%s%llu/", i ? "," : "", (unsigned long long)S_KS2_k8(e)); pr_f64(S_KS2_kd(e));
        printf("/%llu:%llu", (unsigned long long)S_KS2_k64(e), (unsigned long long)S_KS2_p(e)); }
    printf(" - - "); run_queries(qs, q_ks2, vec); print_tail(&b, full, off, sizeof(S_KS2_t));
    free_built(&b); return 0;
}

/* ------------------------------------------------------------------ keyed structs of 1, 2, 3, 5, 6, 10 bytes */
#define DEF_ST(K, N, FIELD, KT, PARSE, HASPAY, SETPAY, GETPAY) \
static size_t q_ ## K(const void *v, query_t *q) { N ## _vec_t vec = (N ## _vec_t)v; \
    if (IS(q->field, "-")) Q_SCALAR(N, , KT, PARSE); \
    if (IS(q->field, "k")) Q_SCALAR(N, _by_k, KT, PARSE); \
    return BAD; } \
static int run_ ## K(int full, const char *sortop, char *elems, char *qs) \
{ static N ## _t arr[MAXN]; char *t[MAXN]; int n = 0, i, absent = IS(elems, "n"), v0, v1; built_t b; N ## _vec_t vec; size_t off = 0, ch; \
  if (!absent && !IS(elems, "e")) n = split_on(elems, ',', t, MAXN); \
  memset(arr, 0, sizeof(arr[0]) * (size_t)n); \
  for (i = 0; i < n; ++i) { N ## _t *e = &arr[i]; unsigned long long ix = (unsigned long long)i; e->k = (KT)PARSE(t[i]); (void)ix; SETPAY; } \
  begin_build(); if (!absent) S_Root_ ## FIELD ## _create_pe(B, arr, (size_t)n); \
  if (end_build(&b, 1)) { printf("BUILDFAIL"); return 0; } \
  vec = S_Root_ ## FIELD(b.root); \
  v0 = S_Root_verify_as_root(b.buf, b.size); \
  if (IS(sortop, "sort")) N ## _vec_sort((N ## _mutable_vec_t)vec); \
  else if (IS(sortop, "sort_by_k")) N ## _vec_sort_by_k((N ## _mutable_vec_t)vec); \
  else if (IS(sortop, "rsort")) S_Root_sort((S_Root_mutable_table_t)b.root); \
  else if (!IS(sortop, "none")) { printf("BADOP"); free_built(&b); return 0; } \
  v1 = S_Root_verify_as_root(b.buf, b.size); \
  if (vec) off = (size_t)((const uint8_t *)vec - b.buf); \
  ch = outside_changed(&b, off, (size_t)n * sizeof(N ## _t)); \
  printf("OK %d %d %llu ", v0, v1, (unsigned long long)ch); \
  if (N ## _vec_len(vec) == 0) printf("e"); \
  for (i = 0; i < (int)N ## _vec_len(vec); ++i) { N ## _struct_t e = N ## _vec_at(vec, (size_t)i); long long pay = -1; \
      printf("%s%lld", i ? "," : "", (long long)N ## _k(e)); \
      if (HASPAY) { GETPAY; if (pay < 0) printf(":torn"); else printf(":%lld", pay); } } \
  printf(" - - "); run_queries(qs, q_ ## K, vec); print_tail(&b, full, off, sizeof(N ## _t)); \
  free_built(&b); return 0; }

DEF_ST(st1, S_S1, v_s1, uint8_t, p_u, 0, (void)0, (void)0)
DEF_ST(st2, S_S2, v_s2, int16_t, p_i, 0, (void)0, (void)0)
DEF_ST(st3, S_S3, v_s3, uint8_t, p_u, 1,
       (e->a = (uint8_t)(ix & 0xff), e->b = (uint8_t)((ix >> 8) ^ 0xa5)),
       pay = (long long)S_S3_a(e) | ((long long)(S_S3_b(e) ^ 0xa5) << 8))
DEF_ST(st5, S_S5, v_s5, uint8_t, p_u, 1,
       (e->a = (uint8_t)(ix & 0xff), e->b = (uint8_t)(ix >> 8), e->c = (uint8_t)((ix & 0xff) ^ 0x3c), e->d = (uint8_t)((ix & 0xff) ^ 0xc3)),
       if ((S_S5_c(e) ^ 0x3c) == S_S5_a(e) && (S_S5_d(e) ^ 0xc3) == S_S5_a(e)) pay = (long long)S_S5_a(e) | ((long long)S_S5_b(e) << 8))
DEF_ST(st6, S_S6, v_s6, int16_t, p_i, 1,
       (e->a = (uint16_t)(ix & 0xffff), e->b = (uint16_t)((ix & 0xffff) ^ 0x5a5a)),
       if ((S_S6_b(e) ^ 0x5a5a) == S_S6_a(e)) pay = (long long)S_S6_a(e))
#define ST10_BYTE(ix, j) ((uint8_t)((((ix) >> (8 * ((j) & 1))) & 0xff) ^ (0x11 * (j))))
static void st10_set(S_S10_t *e, unsigned long long ix) { int j; for (j = 0; j < 8; ++j) e->p[j] = ST10_BYTE(ix, j); }
static long long st10_get(S_S10_struct_t e)
{ unsigned long long ix = (unsigned long long)S_S10_p(e, 0) | ((unsigned long long)(S_S10_p(e, 1) ^ 0x11) << 8); int j;
  for (j = 0; j < 8; ++j) if (S_S10_p(e, (size_t)j) != ST10_BYTE(ix, j)) return -1;
  return (long long)ix; }
DEF_ST(st10, S_S10, v_s10, int16_t, p_i, 1, st10_set(e, ix), pay = st10_get(e))

/* ------------------------------------------------------------------ offset vectors */
static size_t q_str(const void *v, query_t *q) { flatbuffers_string_vec_t vec = (flatbuffers_string_vec_t)v;
    if (!IS(q->field, "-")) return BAD; Q_STRING(flatbuffers_string, ); }
static size_t q_kt(const void *v, query_t *q) { S_KT_vec_t vec = (S_KT_vec_t)v;
    if (IS(q->field, "-")) Q_SCALAR(S_KT, , int64_t, p_i);
    if (IS(q->field, "k")) Q_SCALAR(S_KT, _by_k, int64_t, p_i);
    if (IS(q->field, "p")) Q_SCAN(S_KT, _by_p, uint32_t, p_u);
    return BAD; }
static size_t q_kstr(const void *v, query_t *q) { S_KStr_vec_t vec = (S_KStr_vec_t)v;
    if (IS(q->field, "-")) Q_STRING(S_KStr, );
    if (IS(q->field, "name")) Q_STRING(S_KStr, _by_name);
    if (IS(q->field, "p")) Q_SCAN(S_KStr, _by_p, uint32_t, p_u);
    return BAD; }
static size_t q_mk(const void *v, query_t *q) { S_MK_vec_t vec = (S_MK_vec_t)v;
    if (IS(q->field, "-")) Q_SCALAR(S_MK, , uint64_t, p_u);
    if (IS(q->field, "a")) Q_SCALAR(S_MK, _by_a, uint8_t, p_u);
    if (IS(q->field, "b")) Q_SCALAR(S_MK, _by_b, int16_t, p_i);
    if (IS(q->field, "s")) Q_STRING(S_MK, _by_s);
    if (IS(q->field, "c")) Q_SCALAR(S_MK, _by_c, uint64_t, p_u);
    if (IS(q->field, "d")) Q_SCALAR(S_MK, _by_d, float, p_f32);
    if (IS(q->field, "p")) Q_SCAN(S_MK, _by_p, uint32_t, p_u);
    return BAD; }

/* refs of the elements ('@j' shares element j's object); returns count or -1 */
enum { K_STR, K_KT, K_KSTR, K_MK };
static int make_refs(int kind, char *elems, flatcc_builder_ref_t *refs)
{
    char *t[MAXN], *f[8]; int n, i;
    if (IS(elems, "e")) return 0;
    n = split_on(elems, ',', t, MAXN);
    for (i = 0; i < n; ++i) {
        if (t[i][0] == '@') { int j = atoi(t[i] + 1); if (j < 0 || j >= i) return -1; refs[i] = refs[j]; continue; }
        switch (kind) {
        case K_STR: { uint8_t *s; size_t len = hx_decode(t[i], &s); refs[i] = flatbuffers_string_create(B, (const char *)s, len); free(s); break; }
        case K_KT: refs[i] = S_KT_create(B, (uint32_t)i, (int64_t)p_i(t[i])); break;
        case K_KSTR: { uint8_t *s; size_t len = hx_decode(t[i], &s);
            refs[i] = S_KStr_create(B, flatbuffers_string_create(B, (const char *)s, len), (uint32_t)i); free(s); break; }
        case K_MK: { uint8_t *s; size_t len; if (split_on(t[i], '/', f, 8) != 5) return -1;
            len = hx_decode(f[2], &s);
            refs[i] = S_MK_create(B, (uint8_t)p_u(f[0]), (int16_t)p_i(f[1]), flatbuffers_string_create(B, (const char *)s, len),
                                  (uint64_t)p_u(f[3]), p_f32(f[4]), (uint32_t)i); free(s); break; }
        }
        if (!refs[i]) return -1;
    }
    return n;
}

static int run_offs(int kind, int full, const char *sortop, char *elems, char *qs)
{
    static flatcc_builder_ref_t refs[MAXN]; static size_t pre_t[MAXN]; static uint32_t raw_pre[MAXN];
    int n = 0, i, j, absent = IS(elems, "n"), v0, v1, bad = 0; built_t b; const flatbuffers_uoffset_t *vec = 0; size_t off = 0, ch, len;
    begin_build();
    if (!absent) { n = make_refs(kind, elems, refs); if (n < 0) { printf("BADELEM"); return 0; }
        if (objects_last) S_Root_u_i32_create(B, decoy_i32, 3);
        switch (kind) {
        case K_STR: S_Root_v_str_add(B, flatbuffers_string_vec_create(B, refs, (size_t)n)); break;
        case K_KT: S_Root_v_kt_add(B, S_KT_vec_create(B, refs, (size_t)n)); break;
        case K_KSTR: S_Root_v_kstr_add(B, S_KStr_vec_create(B, refs, (size_t)n)); break;
        case K_MK: S_Root_v_mk_add(B, S_MK_vec_create(B, refs, (size_t)n)); break;
        } }
    if (end_build(&b, 1)) { printf("BUILDFAIL"); return 0; }
    switch (kind) {
    case K_STR: vec = (const flatbuffers_uoffset_t *)S_Root_v_str(b.root); break;
    case K_KT: vec = (const flatbuffers_uoffset_t *)S_Root_v_kt(b.root); break;
    case K_KSTR: vec = (const flatbuffers_uoffset_t *)S_Root_v_kstr(b.root); break;
    case K_MK: vec = (const flatbuffers_uoffset_t *)S_Root_v_mk(b.root); break;
    }
    len = flatbuffers_vec_len(vec);
    for (i = 0; i < (int)len; ++i) { raw_pre[i] = vec[i]; pre_t[i] = (size_t)((const uint8_t *)(vec + i) - b.buf) + vec[i]; }
    v0 = S_Root_verify_as_root(b.buf, b.size);
    if (IS(sortop, "rsort")) S_Root_sort((S_Root_mutable_table_t)b.root);
    else if (IS(sortop, "none")) { }
    else switch (kind) {
    case K_STR: if (IS(sortop, "sort")) flatbuffers_string_vec_sort((flatbuffers_string_mutable_vec_t)vec); else bad = 1; break;
    case K_KT: if (IS(sortop, "sort")) S_KT_vec_sort((S_KT_mutable_vec_t)vec);
        else if (IS(sortop, "sort_by_k")) S_KT_vec_sort_by_k((S_KT_mutable_vec_t)vec); else bad = 1; break;
    case K_KSTR: if (IS(sortop, "sort")) S_KStr_vec_sort((S_KStr_mutable_vec_t)vec);
        else if (IS(sortop, "sort_by_name")) S_KStr_vec_sort_by_name((S_KStr_mutable_vec_t)vec); else bad = 1; break;
    case K_MK: if (IS(sortop, "sort")) S_MK_vec_sort((S_MK_mutable_vec_t)vec);
        else if (IS(sortop, "sort_by_a")) S_MK_vec_sort_by_a((S_MK_mutable_vec_t)vec);
        else if (IS(sortop, "sort_by_b")) S_MK_vec_sort_by_b((S_MK_mutable_vec_t)vec);
        else if (IS(sortop, "sort_by_s")) S_MK_vec_sort_by_s((S_MK_mutable_vec_t)vec);
        else if (IS(sortop, "sort_by_c")) S_MK_vec_sort_by_c((S_MK_mutable_vec_t)vec);
        else if (IS(sortop, "sort_by_d")) S_MK_vec_sort_by_d((S_MK_mutable_vec_t)vec); else bad = 1; break;
    }
    if (bad) { printf("BADOP"); free_built(&b); return 0; }
    v1 = S_Root_verify_as_root(b.buf, b.size);
    if (vec) off = (size_t)((const uint8_t *)vec - b.buf);
    ch = outside_changed(&b, off, len * 4);
    printf("OK %d %d %llu ", v0, v1, (unsigned long long)ch);
    if (len == 0) printf("e");
    for (i = 0; i < (int)len; ++i) {
        size_t t = (size_t)((const uint8_t *)(vec + i) - b.buf) + vec[i];
        for (j = 0; j < (int)len; ++j) if (pre_t[j] == t) break;
        if (j < (int)len) printf("%s%d", i ? "," : "", j); else printf("%s?%llu", i ? "," : "", (unsigned long long)t);
    }
    printf(" "); if (len == 0) printf("e");
    for (i = 0; i < (int)len; ++i) printf("%s%u", i ? "," : "", raw_pre[i]);
    printf(" "); if (len == 0) printf("e");
    for (i = 0; i < (int)len; ++i) printf("%s%u", i ? "," : "", vec[i]);
    printf(" ");
    switch (kind) {
    case K_STR: run_queries(qs, q_str, vec); break;
    case K_KT: run_queries(qs, q_kt, vec); break;
    case K_KSTR: run_queries(qs, q_kstr, vec); break;
    case K_MK: run_queries(qs, q_mk, vec); break;
    }
    print_tail(&b, full, off, 4);
    free_built(&b); return 0;
}

/* ------------------------------------------------------------------ recursive sorter scenario */
static int make_i32(char *s, int32_t *a) { char *t[MAXN]; int n, i; if (IS(s, "e")) return 0; n = split_on(s, ',', t, MAXN);
    for (i = 0; i < n; ++i) a[i] = (int32_t)p_i(t[i]); return n; }

static S_Inner_ref_t make_inner(char *s)
{
    static flatcc_builder_ref_t refs[MAXN]; static int32_t a[MAXN]; char *f[4]; int n;
    flatbuffers_string_vec_ref_t names = 0; flatbuffers_int32_vec_ref_t plain = 0; S_KT_vec_ref_t kts = 0;
    if (split_on(s, '/', f, 4) != 3) return 0;
    if (!IS(f[0], "n")) { n = make_refs(K_STR, f[0], refs); if (n < 0) return 0; names = flatbuffers_string_vec_create(B, refs, (size_t)n); }
    if (!IS(f[1], "n")) { n = make_i32(f[1], a); plain = flatbuffers_int32_vec_create(B, a, (size_t)n); }
    if (!IS(f[2], "n")) { n = make_refs(K_KT, f[2], refs); if (n < 0) return 0; kts = S_KT_vec_create(B, refs, (size_t)n); }
    S_Inner_start(B);
    if (names) S_Inner_names_add(B, names);
    if (plain) S_Inner_plain_add(B, plain);
    if (kts) S_Inner_kts_add(B, kts);
    return S_Inner_end(B);
}

static int make_union(char *s, S_U_union_ref_t *u)
{
    if (IS(s, "N")) { *u = S_U_as_NONE(); return 0; }
    if (s[0] == 'I' && s[1] == ':') { S_Inner_ref_t r = make_inner(s + 2); if (!r) return -1; *u = S_U_as_Inner(r); return 0; }
    if (s[0] == 'K' && s[1] == ':') { *u = S_U_as_KT(S_KT_create(B, 77, (int64_t)p_i(s + 2))); return 0; }
    if (s[0] == 'L' && s[1] == ':') { *u = S_U_as_Leaf(S_Leaf_create(B, (int32_t)p_i(s + 2))); return 0; }
    return -1;
}

static void dump_i32(flatbuffers_int32_vec_t v) { size_t i, n = flatbuffers_int32_vec_len(v); if (!v) { printf("n"); return; } if (!n) printf("e");
    for (i = 0; i < n; ++i) printf("%s%d", i ? "," : "", flatbuffers_int32_vec_at(v, i)); }
static void dump_strs(flatbuffers_string_vec_t v) { size_t i, n = flatbuffers_string_vec_len(v); if (!v) { printf("n"); return; } if (!n) printf("e");
    for (i = 0; i < n; ++i) { flatbuffers_string_t s = flatbuffers_string_vec_at(v, i); if (i) printf(","); hx_print((const uint8_t *)s, flatbuffers_string_len(s)); } }
static void dump_kts(S_KT_vec_t v) { size_t i, n = S_KT_vec_len(v); if (!v) { printf("n"); return; } if (!n) printf("e");
    for (i = 0; i < n; ++i) { S_KT_table_t t = S_KT_vec_at(v, i); printf("%s%lld:%u", i ? "," : "", (long long)S_KT_k(t), S_KT_p(t)); } }
static void dump_inner(S_Inner_table_t t) { if (!t) { printf("n"); return; }
    dump_strs(S_Inner_names(t)); printf("/"); dump_i32(S_Inner_plain(t)); printf("/"); dump_kts(S_Inner_kts(t)); }
static void dump_union(S_U_union_t u) {
    switch (u.type) {
    case S_U_Inner: printf("I:"); dump_inner((S_Inner_table_t)u.value); break;
    case S_U_KT: printf("K:%lld", (long long)S_KT_k((S_KT_table_t)u.value)); break;
    case S_U_Leaf: printf("L:%d", S_Leaf_x((S_Leaf_table_t)u.value)); break;
    default: printf("N"); } }

static int run_R(char **tok, int ntok)
{
    static flatcc_builder_ref_t refs[MAXN]; static int32_t a[MAXN]; static S_U_union_ref_t urefs[MAXN];
    built_t b; int n, i, v0, v1; char *t[MAXN];
    if (ntok != 12) { printf("BADR"); return 0; }
    begin_build();
    if (!IS(tok[1], "n")) { n = make_i32(tok[1], a); S_Root_v_i32_create(B, a, (size_t)n); }
    /* u_i32 is set by begin_build's decoy unless given: the decoy is [3,1,2]; tok[2] must be "3,1,2" (kept for symmetry) */
    if (!IS(tok[3], "n")) { n = make_refs(K_STR, tok[3], refs); if (n < 0) goto bad; S_Root_v_str_add(B, flatbuffers_string_vec_create(B, refs, (size_t)n)); }
    if (!IS(tok[4], "n")) { n = make_refs(K_STR, tok[4], refs); if (n < 0) goto bad; S_Root_u_str_add(B, flatbuffers_string_vec_create(B, refs, (size_t)n)); }
    if (!IS(tok[5], "n")) { n = make_refs(K_KT, tok[5], refs); if (n < 0) goto bad; S_Root_v_kt_add(B, S_KT_vec_create(B, refs, (size_t)n)); }
    if (!IS(tok[6], "n")) { n = make_refs(K_KT, tok[6], refs); if (n < 0) goto bad; S_Root_u_kt_add(B, S_KT_vec_create(B, refs, (size_t)n)); }
    if (!IS(tok[7], "n")) { S_Inner_ref_t r = make_inner(tok[7]); if (!r) goto bad; S_Root_inner_add(B, r); }
    if (!IS(tok[8], "n")) { static S_Inner_ref_t irefs[MAXN]; n = IS(tok[8], "e") ? 0 : split_on(tok[8], '|', t, MAXN);
        for (i = 0; i < n; ++i) { irefs[i] = make_inner(t[i]); if (!irefs[i]) goto bad; }
        S_Root_inners_add(B, S_Inner_vec_create(B, irefs, (size_t)n)); }
    if (!IS(tok[9], "n")) { S_U_union_ref_t u; if (make_union(tok[9], &u)) goto bad; S_Root_un_add(B, u); }
    if (!IS(tok[10], "n")) { n = IS(tok[10], "e") ? 0 : split_on(tok[10], '+', t, MAXN);
        for (i = 0; i < n; ++i) if (make_union(t[i], &urefs[i])) goto bad;
        S_Root_uns_add(B, S_U_vec_create(B, urefs, (size_t)n)); }
    if (!IS(tok[11], "n")) { char *f[4]; S_Inner_ref_t r = 0; flatbuffers_int32_vec_ref_t cv = 0; S_Root_ref_t cr;
        if (split_on(tok[11], ';', f, 4) != 2) goto bad;
        if (!IS(f[0], "n")) { n = make_i32(f[0], a); cv = flatbuffers_int32_vec_create(B, a, (size_t)n); }
        if (!IS(f[1], "n")) { r = make_inner(f[1]); if (!r) goto bad; }
        S_Root_start(B); if (cv) S_Root_v_i32_add(B, cv); if (r) S_Root_inner_add(B, r); cr = S_Root_end(B);
        S_Root_child_add(B, cr); }
    if (end_build(&b, 0)) { printf("BUILDFAIL"); return 0; }
    v0 = S_Root_verify_as_root(b.buf, b.size);
    S_Root_sort((S_Root_mutable_table_t)b.root);
    v1 = S_Root_verify_as_root(b.buf, b.size);
    printf("OK %d %d ", v0, v1);
    dump_i32(S_Root_v_i32(b.root)); printf(" "); dump_i32(S_Root_u_i32(b.root)); printf(" ");
    dump_strs(S_Root_v_str(b.root)); printf(" "); dump_strs(S_Root_u_str(b.root)); printf(" ");
    dump_kts(S_Root_v_kt(b.root)); printf(" "); dump_kts(S_Root_u_kt(b.root)); printf(" ");
    dump_inner(S_Root_inner(b.root)); printf(" ");
    { S_Inner_vec_t v = S_Root_inners(b.root); size_t k, m = S_Inner_vec_len(v); if (!v) printf("n"); else if (!m) printf("e");
      for (k = 0; k < m; ++k) { if (k) printf("|"); dump_inner(S_Inner_vec_at(v, k)); } }
    printf(" ");
    if (S_Root_un_is_present(b.root)) dump_union(S_Root_un_union(b.root)); else printf("N");
    printf(" ");
    if (S_Root_uns_is_present(b.root)) { S_U_union_vec_t uv = S_Root_uns_union(b.root); size_t k, m = S_U_union_vec_len(uv); if (!m) printf("e");
      for (k = 0; k < m; ++k) { if (k) printf("+"); dump_union(S_U_union_vec_at(uv, k)); } } else printf("n");
    printf(" ");
    { S_Root_table_t c = S_Root_child(b.root); if (!c) printf("n"); else { dump_i32(S_Root_v_i32(c)); printf(";"); dump_inner(S_Root_inner(c)); } }
    printf(" tag=%u", S_Root_tag(b.root));
    free_built(&b); return 0;
bad:
    printf("BADR"); flatcc_builder_reset(B); return 0;
}

int main(void)
{
    char *line;
    while ((line = hx_getline())) {
        char *tok[16]; int n = hx_split(line, tok, 16);
        if (n == 0) { printf("\n"); continue; }
        if (IS(tok[0], "V") && n == 6) {
            const char *k = tok[1]; int full = tok[2][0] == 'f';
            objects_last = strchr(tok[2], 'l') != 0 && (IS(k, "str") || IS(k, "kstr") || IS(k, "mk") || IS(k, "kt"));
            if (IS(k, "u8")) run_u8(full, tok[3], tok[4], tok[5]);
            else if (IS(k, "i8")) run_i8(full, tok[3], tok[4], tok[5]);
            else if (IS(k, "u16")) run_u16(full, tok[3], tok[4], tok[5]);
            else if (IS(k, "i16")) run_i16(full, tok[3], tok[4], tok[5]);
            else if (IS(k, "u32")) run_u32(full, tok[3], tok[4], tok[5]);
            else if (IS(k, "i32")) run_i32(full, tok[3], tok[4], tok[5]);
            else if (IS(k, "u64")) run_u64(full, tok[3], tok[4], tok[5]);
            else if (IS(k, "i64")) run_i64(full, tok[3], tok[4], tok[5]);
            else if (IS(k, "f32")) run_f32(full, tok[3], tok[4], tok[5]);
            else if (IS(k, "f64")) run_f64(full, tok[3], tok[4], tok[5]);
            else if (IS(k, "bool")) run_bool(full, tok[3], tok[4], tok[5]);
            else if (IS(k, "e16")) run_e16(full, tok[3], tok[4], tok[5]);
            else if (IS(k, "ks")) run_ks(full, tok[3], tok[4], tok[5]);
            else if (IS(k, "ks2")) run_ks2(full, tok[3], tok[4], tok[5]);
            else if (IS(k, "st1")) run_st1(full, tok[3], tok[4], tok[5]);
            else if (IS(k, "st2")) run_st2(full, tok[3], tok[4], tok[5]);
            else if (IS(k, "st3")) run_st3(full, tok[3], tok[4], tok[5]);
            else if (IS(k, "st5")) run_st5(full, tok[3], tok[4], tok[5]);
            else if (IS(k, "st6")) run_st6(full, tok[3], tok[4], tok[5]);
            else if (IS(k, "st10")) run_st10(full, tok[3], tok[4], tok[5]);
            else if (IS(k, "str")) run_offs(K_STR, full, tok[3], tok[4], tok[5]);
            else if (IS(k, "kt")) run_offs(K_KT, full, tok[3], tok[4], tok[5]);
            else if (IS(k, "kstr")) run_offs(K_KSTR, full, tok[3], tok[4], tok[5]);
            else if (IS(k, "mk")) run_offs(K_MK, full, tok[3], tok[4], tok[5]);
            else printf("BADKIND");
        } else if (IS(tok[0], "R")) {
            objects_last = 0; run_R(tok, n);
        } else printf("BAD");
        printf("\n"); fflush(stdout);
    }
    return 0;
}
