/* H-record: line-protocol harness over /repo's CURRENT src/runtime/builder.c + emitter.c (C12 part B and the
   builder-level copy-out functions). builder.c is included as source (compile with -I/repo/src/runtime and link
   emitter.c, refmap.c) so that the static emit_front / emit_back can be driven directly.

   Requests:
     ef <emit_start> <emit_end> <accept 0|1> <len,len,..|->    static emit_front on an iov_state holding these pieces
     eb <emit_start> <emit_end> <accept 0|1> <len,len,..|->    static emit_back
         reply: ret=<r> start=<emit_start> end=<emit_end> call=<count>:<offset>:<len>:<l1,l2,..> | call=none
     rs <custom 0|1> <variant> <emit_start> <emit_end>     reset (variant 0 flatcc_builder_reset, 1..3 flatcc_builder_custom_reset
         with set_defaults / reduce_buffers / both) of a builder with a custom or the default emitter: reply start=<s> end=<e>
     sc <ws> <id> <cl> <ba> <nn> <ns> <sl> <sstep> <sv> <nt> <shift> [<reset variant>]
         a builder scenario (strings, byte / u64 vectors, offset vectors, nn nested buffers, nt tables with distinct
         vtables, root table) run (1) with a recording custom emitter that checks the stream-shape invariants on every
         emit call and keeps the stream in address order, (2) with the default emitter: get_direct_buffer, copy_buffer,
         finalize_buffer, finalize_aligned_buffer compared with the recorded stream; then BOTH builders are reset (same
         variant) and reused: round B with every size shifted by <shift>, round C with the sizes of round A. The recorder
         starts every round from origin 0, so a reset that does not rewind the address range shows as a shape violation.
     af <warm 0|1> <k> <reset variant> <ws> <id> <cl> <ba> <nn> <ns> <sl> <sstep> <sv> <nt>
         default-emitter builder (after one warm-up build + reset when warm=1): the k-th page allocation from now on fails while the
         scenario is built (reply fail: rc of the build, whether the allocation failure was reached); then the builder is reset and
         the same scenario is built again without failures and compared, like a round of `sc`, with a fresh recording builder;
         finally flatcc_builder_clear and the number of pages still allocated (live=)
     al <align> <size>    create_struct and create_vector of <size> bytes with alignment <align> (up to 32768) through a recording emitter
                          that does not read the data (the zero padding block is shorter than such paddings): shape of the emit calls
     big str <len>        one create_string of <len> bytes through a recording emitter that does not read the data
     big fill <len> <n>   up to n create_string of <len> bytes each until the builder refuses
     big vt <n>           up to n create_vtable of 65534 bytes each (clustered: back emits) until the builder refuses
         reply: calls=<n> accepted=<k> shape=ok|<first violated invariant> start=<s> end=<e> */
#include <stdio.h>
/* every reply line is assembled in memory and written at once: a sanitizer abort in the middle of a request leaves no
   partial line behind (the driver attributes a missing reply to the request that crashed) */
static FILE *hx_out;
#define printf(...) fprintf(hx_out, __VA_ARGS__)
#include "hx.h"
#include <stddef.h>
#include <signal.h>
#include <unistd.h>
static void hx_on_alarm(int sig) { static const char m[] = "HANG: request did not finish within the time limit\n"; (void)sig; if (write(2, m, sizeof(m) - 1)) {} _exit(3); }
#define HX_LIMIT_S 60
/* the default emitter is included as source after builder.c so that its page allocator can be made to fail at the k-th
   page allocation (`af` requests); emitter.c is therefore NOT linked separately */
static long hx_live = 0, hx_allocs = 0, hx_fail_at = -1;
static void *hx_page_alloc(size_t n) {
    void *p;
    if (hx_fail_at >= 0 && hx_allocs == hx_fail_at) { ++hx_allocs; return 0; }
    ++hx_allocs;
    p = malloc(n);
    if (p) ++hx_live;
    return p;
}
static void hx_page_free(void *p) { if (p) { --hx_live; free(p); } }
#define FLATCC_EMITTER_ALLOC(n) hx_page_alloc(n)
#define FLATCC_EMITTER_FREE(p) hx_page_free(p)
#include "builder.c"
#include "emitter.c"

struct rec {
    long long start, end; long calls; char bad[200]; int deref; int accept;
    uint8_t *buf; size_t cap, lo, hi;   /* stream bytes live in buf[lo..hi) */
    char *trace; size_t tlen, tcap; int want_trace;
    long long last_off; unsigned long long last_len; int last_count;
};

static void rec_init(struct rec *r, int deref) {
    memset(r, 0, sizeof(*r)); r->deref = deref; r->accept = 1;
    if (deref) { r->cap = 1 << 16; r->buf = (uint8_t *)malloc(r->cap); r->lo = r->hi = r->cap / 2; }
}
static void rec_free(struct rec *r) { free(r->buf); free(r->trace); }
static void rec_room(struct rec *r, size_t front, size_t back) {
    while (r->lo < front || r->cap - r->hi < back) {
        size_t ncap = r->cap * 2 + front + back, n = r->hi - r->lo, nlo = (ncap - n) / 2;
        uint8_t *nb = (uint8_t *)malloc(ncap);
        memcpy(nb + nlo, r->buf + r->lo, n); free(r->buf); r->buf = nb; r->cap = ncap; r->lo = nlo; r->hi = nlo + n;
    }
}
static void rec_trace(struct rec *r, const char *s) {
    size_t n = strlen(s);
    if (r->tlen + n + 1 > r->tcap) { r->tcap = (r->tcap + n + 64) * 2; r->trace = (char *)realloc(r->trace, r->tcap); }
    memcpy(r->trace + r->tlen, s, n + 1); r->tlen += n;
}
#define BAD(...) do { if (!r->bad[0]) snprintf(r->bad, sizeof(r->bad), __VA_ARGS__); } while (0)

static int rec_emit(void *ctx, const flatcc_iovec_t *iov, int count, flatbuffers_soffset_t offset, size_t len) {
    struct rec *r = (struct rec *)ctx; size_t sum = 0; int i; long idx = r->calls++;
    r->last_off = offset; r->last_len = len; r->last_count = count;
    if (count <= 0) BAD("call%ld:count=%d-not-positive", idx, count);
    if (count > FLATCC_IOV_COUNT_MAX) BAD("call%ld:count=%d-above-max", idx, count);
    for (i = 0; i < count; ++i) { if (iov[i].iov_len == 0) BAD("call%ld:empty-piece-%d", idx, i); sum += iov[i].iov_len; }
    if (sum != len) BAD("call%ld:sum=%lu-len=%lu", idx, (unsigned long)sum, (unsigned long)len);
    if (offset < 0) {
        if ((long long)offset + (long long)len != r->start) BAD("call%ld:front-offset=%ld+len=%lu-is-not-start=%lld", idx, (long)offset, (unsigned long)len, r->start);
        if ((long long)offset >= r->start) BAD("call%ld:front-not-decreasing", idx);
    } else {
        if ((long long)offset != r->end) BAD("call%ld:back-offset=%ld-is-not-end=%lld", idx, (long)offset, r->end);
        if (len == 0) BAD("call%ld:back-not-increasing", idx);
    }
    if (r->want_trace) {
        char t[64]; snprintf(t, sizeof t, "%s%c", r->tlen ? ";" : "", offset < 0 ? 'f' : 'b'); rec_trace(r, t);
        for (i = 0; i < count; ++i) { snprintf(t, sizeof t, "%s%lu", i ? "," : "", (unsigned long)iov[i].iov_len); rec_trace(r, t); }
    }
    if (!r->accept) return -1;
    if (offset < 0) {
        if (r->deref) { size_t at; rec_room(r, len, 0); at = r->lo - len; for (i = 0; i < count; ++i) { memcpy(r->buf + at, iov[i].iov_base, iov[i].iov_len); at += iov[i].iov_len; } r->lo -= len; }
        r->start = offset;
    } else {
        if (r->deref) { rec_room(r, 0, len); for (i = 0; i < count; ++i) { memcpy(r->buf + r->hi, iov[i].iov_base, iov[i].iov_len); r->hi += iov[i].iov_len; } }
        r->end = (long long)offset + (long long)len;
    }
    return 0;
}

/* ---------------------------------------------------------------- scenarios */
struct par { int ws, idf, cl, ba, nn, ns, sl, sstep, sv, nt; };
static uint8_t pattern[1 << 20];

static int build(flatcc_builder_t *B, const struct par *p) {
    flatcc_builder_ref_t refs[64], trefs[64], vec, bytes, u64v, tvec = 0, nested[4], root, t; int i; uint64_t v64;
    int ns = p->ns > 64 ? 64 : p->ns, nt = p->nt > 64 ? 64 : p->nt, nn = p->nn > 4 ? 4 : p->nn;
    flatcc_builder_set_vtable_clustering(B, p->cl);
    if (flatcc_builder_start_buffer(B, p->idf ? "C12T" : 0, (uint16_t)p->ba, p->ws ? flatcc_builder_with_size : 0)) return -1;
    for (i = 0; i < ns; ++i) {
        size_t len = (size_t)(p->sl + i * p->sstep); if (len > sizeof(pattern)) len = sizeof(pattern);
        if (!(refs[i] = flatcc_builder_create_string(B, (const char *)pattern + (i * 7) % 251, len))) return -2;
    }
    if (!(vec = flatcc_builder_create_offset_vector(B, refs, (size_t)ns))) return -3;
    if (!(bytes = flatcc_builder_create_vector(B, pattern + 3, (size_t)p->sv, 1, 1, 0xffffffffu))) return -4;
    if (!(u64v = flatcc_builder_create_vector(B, pattern + 8, (size_t)p->sv / 8, 8, 8, 0x1fffffffu))) return -5;
    for (i = 0; i < nn; ++i) {
        flatcc_builder_ref_t s, r;
        if (flatcc_builder_start_buffer(B, "NEST", (uint16_t)(i == 1 ? 16 : 0), (i & 1) ? flatcc_builder_with_size : 0)) return -6;
        if (!(s = flatcc_builder_create_string(B, (const char *)pattern + 11, (size_t)(p->sl / 2 + i)))) return -7;
        /* a vtable layout of its own per nested buffer: equal vtables in different buffers run into the descriptor
           use-after-free of flatcc_builder_create_cached_vtable (found and fixed under C02/C14), not C12's subject */
        if (flatcc_builder_start_table(B, 12 + i)) return -8;
        v64 = 0x1122334455667788ull + (uint64_t)i; flatcc_builder_table_add_copy(B, 10 + i, &v64, 8, 8);
        *flatcc_builder_table_add_offset(B, 11 + i) = s;
        if (!(r = flatcc_builder_end_table(B))) return -9;
        if (!(nested[i] = flatcc_builder_end_buffer(B, r))) return -10;
    }
    for (i = 0; i < nt; ++i) {
        uint32_t v32 = 0xA0B0C0D0u + (uint32_t)i;
        if (flatcc_builder_start_table(B, i + 3)) return -11;
        flatcc_builder_table_add_copy(B, i % (i + 2), &v32, 4, 4);
        v64 = (uint64_t)i * 0x0101010101010101ull; flatcc_builder_table_add_copy(B, i + 2, &v64, 8, 8);
        if (!(trefs[i] = flatcc_builder_end_table(B))) return -12;
    }
    if (nt && !(tvec = flatcc_builder_create_offset_vector(B, trefs, (size_t)nt))) return -13;
    if (flatcc_builder_start_table(B, 10)) return -14;
    *flatcc_builder_table_add_offset(B, 0) = vec;
    *flatcc_builder_table_add_offset(B, 1) = bytes;
    *flatcc_builder_table_add_offset(B, 2) = u64v;
    if (nt) *flatcc_builder_table_add_offset(B, 3) = tvec;
    for (i = 0; i < nn; ++i) *flatcc_builder_table_add_offset(B, 4 + i) = nested[i];
    v64 = 0xfeedfacecafebeefull; flatcc_builder_table_add_copy(B, 9, &v64, 8, 8);
    if (!(root = flatcc_builder_end_table(B))) return -15;
    if (!(t = flatcc_builder_end_buffer(B, root))) return -16;
    return 0;
}

static void rec_rewind(struct rec *r) {
    r->start = r->end = 0; r->calls = 0; r->bad[0] = 0; r->lo = r->hi = r->cap / 2; r->tlen = 0; if (r->trace) r->trace[0] = 0;
}
static unsigned long stream_sum(const uint8_t *p, size_t n) { unsigned long h = 2166136261u; size_t i; for (i = 0; i < n; ++i) h = ((h ^ p[i]) * 16777619u) & 0xffffffffu; return h; }
static int do_reset(flatcc_builder_t *B, int variant) {
    switch (variant) {
    case 1: return flatcc_builder_custom_reset(B, 1, 0);
    case 2: return flatcc_builder_custom_reset(B, 0, 1);
    case 3: return flatcc_builder_custom_reset(B, 1, 1);
    default: return flatcc_builder_reset(B);
    }
}

static void scenario_round(flatcc_builder_t *Brp, struct rec *rp, flatcc_builder_t *Bd, const struct par *p, const char *tag, int print_trace) {
#define Br (*Brp)
#define r (*rp)
    int rc; size_t rsize;
    /* (1) recording emitter on the reused builder, fresh origin */
    rec_rewind(&r); r.want_trace = print_trace;
    rc = build(&Br, p);
    rsize = r.hi - r.lo;
    printf("%s:rec rc=%d calls=%ld shape=%s start=%lld end=%lld rsize=%lu bsize=%lu bstart=%ld bend=%ld sum=%lu", tag, rc, r.calls, r.bad[0] ? r.bad : "ok",
           r.start, r.end, (unsigned long)rsize, (unsigned long)flatcc_builder_get_buffer_size(&Br),
           (long)flatcc_builder_get_buffer_start(&Br), (long)flatcc_builder_get_buffer_end(&Br), stream_sum(r.buf + r.lo, rsize));
    if (print_trace) printf(" trace=%s", r.tlen ? r.trace : "-");
    /* (2) default emitter */
    rc = build(Bd, p);
    {
        size_t size = flatcc_builder_get_buffer_size(Bd), dsz = 777, fsz = 777, asz = 777; void *d, *ret, *fin, *afin; uint8_t *buf;
        uint16_t al = flatcc_builder_get_buffer_alignment(Bd);
        printf(" | %s:def rc=%d size=%lu", tag, rc, (unsigned long)size);
        d = flatcc_builder_get_direct_buffer(Bd, &dsz);
        printf(" direct=%s dsize=%lu", !d ? "null" : (dsz == rsize && !memcmp(d, r.buf + r.lo, rsize)) ? "eq" : "ne", (unsigned long)dsz);
        buf = (uint8_t *)malloc(size ? size : 1); memset(buf, 0xCD, size ? size : 1);
        ret = flatcc_builder_copy_buffer(Bd, buf, size);
        if (!ret) printf(" copyret=null copy=-"); else printf(" copyret=%ld copy=%s", (long)((uint8_t *)ret - buf), (size == rsize && !memcmp(buf, r.buf + r.lo, rsize)) ? "eq" : "ne");
        free(buf);
        fin = flatcc_builder_finalize_buffer(Bd, &fsz);
        printf(" fin=%s fsize=%lu", !fin ? "null" : (fsz == rsize && !memcmp(fin, r.buf + r.lo, rsize)) ? "eq" : "ne", (unsigned long)fsz);
        flatcc_builder_free(fin);
        afin = flatcc_builder_finalize_aligned_buffer(Bd, &asz);
        printf(" afin=%s asize=%lu aal=%s", !afin ? "null" : (asz == rsize && !memcmp(afin, r.buf + r.lo, rsize)) ? "eq" : "ne", (unsigned long)asz,
               !afin ? "-" : ((uintptr_t)afin % (al ? al : 1)) == 0 ? "ok" : "misaligned");
        flatcc_builder_aligned_free(afin);
    }
#undef Br
#undef r
}

static long long parse_ll(const char *s) { return strtoll(s, 0, 10); }

int main(void) {
    char *line, *t[32]; int n; size_t i; char *obuf = 0; size_t olen = 0;
    for (i = 0; i < sizeof(pattern); ++i) pattern[i] = (uint8_t)((i * 131u + (i >> 8) * 17u + 1u) & 0xff);
    while ((line = hx_getline())) {
        hx_out = open_memstream(&obuf, &olen);
        signal(SIGALRM, hx_on_alarm); alarm(HX_LIMIT_S);
        n = hx_split(line, t, 32);
        if (n == 5 && (!strcmp(t[0], "ef") || !strcmp(t[0], "eb"))) {
            flatcc_builder_t B; struct rec r; iov_state_t iov; flatcc_builder_ref_t ret; char *p = t[4]; static uint8_t dummy[8];
            rec_init(&r, 0); r.accept = atoi(t[3]); r.want_trace = 1;
            flatcc_builder_custom_init(&B, rec_emit, &r, 0, 0);
            B.emit_start = (flatcc_builder_ref_t)parse_ll(t[1]); B.emit_end = (flatcc_builder_ref_t)parse_ll(t[2]);
            init_iov();
            if (strcmp(p, "-")) for (;;) {
                char *q = strchr(p, ','); size_t len; if (q) *q = 0;
                len = (size_t)strtoull(p, 0, 10);
                push_iov(dummy, len);
                if (!q) break; p = q + 1;
            }
            r.start = B.emit_start; r.end = B.emit_end;   /* shape is judged by the driver, not here */
            ret = t[0][1] == 'f' ? emit_front(&B, &iov) : emit_back(&B, &iov);
            printf("ret=%ld start=%ld end=%ld", (long)ret, (long)B.emit_start, (long)B.emit_end);
            if (r.calls) printf(" call=%d:%lld:%llu:%s", r.last_count, r.last_off, r.last_len, r.tlen > 1 ? r.trace + 1 : "-");
            else printf(" call=none");
            printf("\n");
            flatcc_builder_clear(&B); rec_free(&r);
        } else if ((n == 12 || n == 13) && !strcmp(t[0], "sc")) {
            struct par p, q; flatcc_builder_t Bd, Br; struct rec r; int shift = atoi(t[11]), rv = n == 13 ? atoi(t[12]) : 0, x, y;
            p.ws = atoi(t[1]); p.idf = atoi(t[2]); p.cl = atoi(t[3]); p.ba = atoi(t[4]); p.nn = atoi(t[5]); p.ns = atoi(t[6]);
            p.sl = atoi(t[7]); p.sstep = atoi(t[8]); p.sv = atoi(t[9]); p.nt = atoi(t[10]);
            q = p; q.sl += shift; q.sv += shift; if (q.sl < 0) q.sl = 0; if (q.sv < 0) q.sv = 0;
            flatcc_builder_init(&Bd);
            rec_init(&r, 1);
            flatcc_builder_custom_init(&Br, rec_emit, &r, 0, 0);
            scenario_round(&Br, &r, &Bd, &p, "A", 1);
            x = do_reset(&Bd, rv); y = do_reset(&Br, rv);
            printf(" | reset=%d,%d | ", x, y);
            scenario_round(&Br, &r, &Bd, &q, "B", 0);
            x = do_reset(&Bd, rv); y = do_reset(&Br, rv);
            printf(" | reset=%d,%d | ", x, y);
            scenario_round(&Br, &r, &Bd, &p, "C", 0);
            printf("\n");
            flatcc_builder_clear(&Bd); flatcc_builder_clear(&Br); rec_free(&r);
        } else if (n == 5 && !strcmp(t[0], "rs")) {
            flatcc_builder_t B; struct rec r; int custom = atoi(t[1]), rc;
            rec_init(&r, 0);
            if (custom) flatcc_builder_custom_init(&B, rec_emit, &r, 0, 0); else flatcc_builder_init(&B);
            B.emit_start = (flatcc_builder_ref_t)parse_ll(t[3]); B.emit_end = (flatcc_builder_ref_t)parse_ll(t[4]);
            rc = do_reset(&B, atoi(t[2]));
            printf("rc=%d start=%ld end=%ld size=%lu\n", rc, (long)flatcc_builder_get_buffer_start(&B), (long)flatcc_builder_get_buffer_end(&B),
                   (unsigned long)flatcc_builder_get_buffer_size(&B));
            flatcc_builder_clear(&B); rec_free(&r);
        } else if (n == 14 && !strcmp(t[0], "af")) {
            struct par p; flatcc_builder_t Bd, Br; struct rec r; int warm = atoi(t[1]), rv = atoi(t[3]), rc, x; long k = atol(t[2]), before;
            p.ws = atoi(t[4]); p.idf = atoi(t[5]); p.cl = atoi(t[6]); p.ba = atoi(t[7]); p.nn = atoi(t[8]); p.ns = atoi(t[9]);
            p.sl = atoi(t[10]); p.sstep = atoi(t[11]); p.sv = atoi(t[12]); p.nt = atoi(t[13]);
            flatcc_builder_init(&Bd);
            if (warm) {   /* a small first build: one page in the pool, so that the big build below has to allocate */
                struct par w = p; w.ns = 1; w.sl = 3; w.sstep = 0; w.sv = 5; w.nt = 0; w.nn = 0;
                rc = build(&Bd, &w); x = do_reset(&Bd, rv); printf("warm rc=%d reset=%d | ", rc, x);
            }
            before = hx_allocs; hx_fail_at = hx_allocs + k;
            rc = build(&Bd, &p);
            printf("fail rc=%d reached=%d allocs=%ld", rc, hx_allocs > hx_fail_at, hx_allocs - before);
            hx_fail_at = -1;
            x = do_reset(&Bd, rv);
            printf(" reset=%d | ", x);
            rec_init(&r, 1);
            flatcc_builder_custom_init(&Br, rec_emit, &r, 0, 0);
            scenario_round(&Br, &r, &Bd, &p, "A", 0);
            flatcc_builder_clear(&Bd); flatcc_builder_clear(&Br); rec_free(&r);
            printf(" | live=%ld\n", hx_live);
        } else if (n == 3 && !strcmp(t[0], "al")) {
            flatcc_builder_t B; struct rec r; static char small[64]; long k = 0; uint16_t al = (uint16_t)atoi(t[1]); size_t sz = (size_t)atol(t[2]);
            rec_init(&r, 0);
            flatcc_builder_custom_init(&B, rec_emit, &r, 0, 0);
            flatcc_builder_start_buffer(&B, 0, 0, 0);
            if (sz > sizeof(small)) sz = sizeof(small);
            if (flatcc_builder_create_struct(&B, small, sz, al)) ++k;
            if (flatcc_builder_create_vector(&B, small, sz, 1, al, 0xffffffffu)) ++k;
            if (flatcc_builder_create_struct(&B, small, sz ? sz - 1 : 1, al)) ++k;
            printf("calls=%ld accepted=%ld shape=%s start=%lld end=%lld bstart=%ld bend=%ld\n", r.calls, k, r.bad[0] ? r.bad : "ok", r.start, r.end,
                   (long)B.emit_start, (long)B.emit_end);
            flatcc_builder_clear(&B); rec_free(&r);
        } else if (n >= 3 && !strcmp(t[0], "big")) {
            flatcc_builder_t B; struct rec r; static char small[16]; long k = 0, cnt = 1; long long a = parse_ll(t[2]);
            rec_init(&r, 0);
            flatcc_builder_custom_init(&B, rec_emit, &r, 0, 0);
            flatcc_builder_start_buffer(&B, 0, 0, 0);
            if (!strcmp(t[1], "str")) { if (flatcc_builder_create_string(&B, small, (size_t)a)) k = 1; }
            else if (!strcmp(t[1], "fill") && n == 4) { cnt = atol(t[3]); for (k = 0; k < cnt; ++k) if (!flatcc_builder_create_string(&B, small, (size_t)a)) break; }
            else if (!strcmp(t[1], "vt")) {
                static flatbuffers_voffset_t vt[32768]; cnt = (long)a; vt[0] = 65534; vt[1] = 4;
                for (k = 0; k < cnt; ++k) if (!flatcc_builder_create_vtable(&B, vt, 65534)) break;
            }
            printf("calls=%ld accepted=%ld shape=%s start=%lld end=%lld bstart=%ld bend=%ld\n", r.calls, k, r.bad[0] ? r.bad : "ok", r.start, r.end,
                   (long)B.emit_start, (long)B.emit_end);
            flatcc_builder_clear(&B); rec_free(&r);
        } else printf("BAD\n");
        fclose(hx_out); fwrite(obuf, 1, olen, stdout); fflush(stdout); free(obuf); obuf = 0;
    }
    return 0;
}
