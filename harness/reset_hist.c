/* C14 harness: histories (prefix activity, reset, reference build) through the real runtime API of /repo's current
 * sources and through the JSON parser generated from gen/c14_schema.fbs.  Protocol: see reset_ops.h. */
#include <stdlib.h>
#include "ep_alloc.h"
long long ep_live, ep_errors;
void *ep_alloc(size_t n) { void *p = malloc(n ? n : 1); if (p) ++ep_live; return p; }
void ep_free(void *p) { if (p) { if (--ep_live < 0) ++ep_errors; } free(p); }
/* calloc blocks handed out through FLATCC_CALLOC are remembered so that FLATCC_FREE (which also frees realloc'ed builder buffers and
   finalized buffers) can tell them apart */
long long ep_clive, ep_cbytes;
static struct { void *p; size_t n; } ep_tab[4096];
void *ep_calloc(size_t nm, size_t n) { void *p = calloc(nm ? nm : 1, n ? n : 1); int i; if (p) { for (i = 0; i < 4096; ++i) if (!ep_tab[i].p) { ep_tab[i].p = p; ep_tab[i].n = nm * n; break; } ++ep_clive; ep_cbytes += (long long)(nm * n); } return p; }
void ep_gfree(void *p) { int i; if (p) for (i = 0; i < 4096; ++i) if (ep_tab[i].p == p) { ep_tab[i].p = 0; --ep_clive; ep_cbytes -= (long long)ep_tab[i].n; break; } free(p); }
#define RO_E_LIVE (ep_live * 1000 + ep_errors)
#define RO_C_LIVE ep_cbytes
/* after flatcc_builder_clear / flatcc_emitter_clear at the end of every history: pages still live */
#define RO_AFTER_CLOSE() printf("EPLIVE=%lld ", ep_live * 1000 + ep_errors + (ep_clive ? 500 : 0))
#include "reset_ops.h"

int main(void)
{
    char *line; char **tok = 0; size_t cap = 0;
    while ((line = hx_getline())) {
        size_t n = 0; char *p = line;
        while (*p) {
            while (*p == ' ' || *p == '\n' || *p == '\r') ++p;
            if (!*p) break;
            if (n == cap) { cap = cap ? cap * 2 : 1024; tok = (char **)realloc(tok, cap * sizeof(char *)); }
            tok[n++] = p;
            while (*p && *p != ' ' && *p != '\n' && *p != '\r') ++p;
            if (*p) *p++ = 0;
        }
        ep_live = 0; ep_errors = 0; ep_clive = 0; ep_cbytes = 0; memset(ep_tab, 0, sizeof(ep_tab));
        ro_run_line(tok, (int)n);

    }
    free(tok);
    return 0;
}
