/* C14 harness: histories (prefix activity, reset, reference build) through the real runtime API of /repo's current
 * sources and through the JSON parser generated from gen/c14_schema.fbs.  Protocol: see reset_ops.h. */
#include <stdlib.h>
#include "ep_alloc.h"
long long ep_live, ep_errors;
void *ep_alloc(size_t n) { void *p = malloc(n ? n : 1); if (p) ++ep_live; return p; }
void ep_free(void *p) { if (p) { if (--ep_live < 0) ++ep_errors; } free(p); }
#define RO_E_LIVE (ep_live * 1000 + ep_errors)
/* after flatcc_builder_clear / flatcc_emitter_clear at the end of every history: pages still live */
#define RO_AFTER_CLOSE() printf("EPLIVE=%lld ", ep_live * 1000 + ep_errors)
#include "reset_ops.h"

int main(void)
{
    char *line; char **tok = 0; size_t cap = 0;
    while ((line = hx_getline())) {
        size_t n = 0; char *p = line;
        while (*p) {
            while (*p == ' ' || *p == '\n' || *p == '\r') ++p;
            if (!*p) break;
            if (n == cap) { cap = cap ? cap * 2 : 1024; tok = (char **)realloc(tok, cap * sizeof(char *)); }
            tok[n++] = p;
            while (*p && *p != ' ' && *p != '\n' && *p != '\r') ++p;
            if (*p) *p++ = 0;
        }
        ep_live = 0; ep_errors = 0;
        ro_run_line(tok, (int)n);

    }
    free(tok);
    return 0;
}
