/* C15 replay (fixes/C15-embed-buffer-inside-top-level-buffer.md): an existing N16-root buffer embedded with
 * flatcc_builder_embed_buffer as Outer.ns while the TOP-LEVEL buffer is open - in an open table frame, with and
 * without the with_size flag - and, as the documented counterpart, embedded without any parent buffer.
 * Compile against the code flatcc generates for gen/builder/bnest.fbs (flatcc -a) and the runtime sources:
 *   cc -I<repo>/include -I<gen dir> harness/embed_top_replay.c <repo>/src/runtime/{builder,emitter,refmap,verifier}.c
 * Prints one line per case; exit status 0 iff every case is as the header file documents it. */
#include <stdio.h>
#include <string.h>
#include <stdint.h>
#include <stdlib.h>
#include "bnest_builder.h"
#include "bnest_verifier.h"

static int failures;
#define EXPECT(c, what) do { if (!(c)) { printf("  FAILED: %s\n", what); ++failures; } } while (0)

/* a finished buffer with root struct N16 { x = 0x04030201, y = bytes 09..10 }: root offset 16, struct at 16 */
static void make_n16_buffer(uint8_t *b) { int i; memset(b, 0, 32); b[0] = 16; for (i = 0; i < 16; ++i) b[16 + i] = (uint8_t)(i + 1); }

/* size prefixed flavour: root struct N1 { a = 0xaa, b = 0xbb } without the size prefix (the vector length becomes the prefix) */
static const uint8_t n1_body[8] = { 4, 0, 0, 0, 0xaa, 0xbb, 0, 0 };

static void inside_top_level(int with_size, uint16_t block_align)
{
    flatcc_builder_t builder, *B = &builder;
    uint8_t n16[32]; void *buf; size_t size, n, len; int rc;
    const uint8_t *nb; uint16_t al;
    flatcc_builder_ref_t r;
    Outer_table_t o; flatbuffers_uint8_vec_t v;

    make_n16_buffer(n16);
    nb = with_size ? n1_body : n16; len = with_size ? sizeof(n1_body) : sizeof(n16); al = with_size ? 4 : 16;
    flatcc_builder_init(B);
    Outer_start_as_root(B);
    r = flatcc_builder_embed_buffer(B, block_align, nb, len, al, with_size ? flatcc_builder_with_size : 0);
    if (with_size) Outer_ns1_add(B, r); else Outer_ns_add(B, r);
    Outer_id_add(B, 7);
    Outer_end_as_root(B);
    buf = flatcc_builder_finalize_aligned_buffer(B, &size);
    printf("embed inside the open top-level buffer, with_size=%d block_align=%u: parent %u bytes, alignment %u\n",
           with_size, (unsigned)block_align, (unsigned)size, (unsigned)flatcc_builder_get_buffer_alignment(B));
    rc = Outer_verify_as_root(buf, size);
    printf("  Outer_verify_as_root: %s\n", flatcc_verify_error_string(rc));
    EXPECT(rc == 0, "parent does not verify");
    EXPECT(flatcc_builder_get_buffer_alignment(B) >= al, "parent reports less than the embedded alignment");
    o = Outer_as_root(buf);
    v = with_size ? Outer_ns1(o) : Outer_ns(o);
    n = v ? flatbuffers_uint8_vec_len(v) : 0;
    printf("  nested vector: length %u at parent offset %u\n", (unsigned)n, (unsigned)(v ? (const uint8_t *)v - (const uint8_t *)buf : 0));
    EXPECT(v != 0 && n >= len, "nested vector shorter than the embedded bytes");
    if (v && n >= len && (size_t)((const uint8_t *)v - (const uint8_t *)buf) + n <= size) {
        const uint8_t *start = with_size ? (const uint8_t *)v - 4 : (const uint8_t *)v;
        void *copy = aligned_alloc(16, (n + 4 + 15) & ~(size_t)15);
        EXPECT(memcmp(v, nb, len) == 0, "nested bytes differ from the embedded buffer");
        EXPECT((size_t)(start - (const uint8_t *)buf) % al == 0, "nested buffer not aligned in the parent");
        if (with_size) {
            memcpy(copy, start, n + 4);
            rc = flatcc_verify_struct_as_root_with_size(copy, n + 4, 0, 2, 1);
            EXPECT(rc == 0 && N1_a(N1_as_root_with_identifier((uint8_t *)copy + 4, 0)) == 0xaa, "copied out nested buffer unreadable");
            EXPECT(N1_b(Outer_ns1_as_root_with_identifier(o, 0)) == 0xbb, "nested root read through the parent differs");
        } else {
            memcpy(copy, v, n);
            rc = N16_verify_as_root_with_identifier(copy, n, 0);
            EXPECT(rc == 0 && N16_x(N16_as_root_with_identifier(copy, 0)) == 0x04030201, "copied out nested buffer unreadable");
            EXPECT(N16_x(Outer_ns_as_root_with_identifier(o, 0)) == 0x04030201, "nested root read through the parent differs");
        }
        free(copy);
        printf("  nested standalone verify: %s\n", flatcc_verify_error_string(rc));
        EXPECT(rc == 0, "nested bytes do not verify standalone");
    }
    flatcc_builder_aligned_free(buf);
    flatcc_builder_clear(B);
}

static void without_parent(void)
{
    flatcc_builder_t builder, *B = &builder;
    uint8_t nb[32]; void *buf; size_t size; int rc;

    make_n16_buffer(nb);
    flatcc_builder_init(B);
    EXPECT(flatcc_builder_embed_buffer(B, 64, nb, sizeof(nb), 16, 0) != 0, "embed_buffer failed");
    buf = flatcc_builder_finalize_aligned_buffer(B, &size);
    printf("embed without a parent buffer, block_align 64: %u bytes\n", (unsigned)size);
    EXPECT(size >= sizeof(nb) && memcmp(buf, nb, sizeof(nb)) == 0, "no size field header expected at top level");
    rc = N16_verify_as_root_with_identifier(buf, size, 0);
    printf("  N16_verify_as_root_with_identifier: %s\n", flatcc_verify_error_string(rc));
    EXPECT(rc == 0, "emitted buffer does not verify");
    flatcc_builder_aligned_free(buf);
    flatcc_builder_clear(B);
}

int main(void)
{
    inside_top_level(0, 0);
    inside_top_level(0, 64);
    inside_top_level(1, 0);
    without_parent();
    printf(failures ? "%d expectation(s) FAILED\n" : "all as documented\n", failures);
    return failures != 0;
}
