/* C02/C03/C15 harness, one binary per corpus schema (includes the python-generated glue.h over the code the
 * fresh flatcc generated for that schema): verification through every generated <Root>_verify_as_root* variant and a
 * value-tree dump through the generated reader accessors.
 *   verify <rootidx> <ws> <mode 0 as_root|1 with_identifier|2 typed|3 type_hash> <fid hex|-> <thash> <addrmod> <hex>  ->  <rc> <error text>
 *   dump <rootidx> <ws> <addrmod> <hex>       ->  value tree text
 *   thash <rootidx>                            ->  type hash
 * The buffer is placed so that byte 0 is at an address congruent to addrmod modulo 256 and ends at the end of the
 * allocation (ASan redzone directly behind it). */
#include "hx.h"
static void out_c(int c) { putchar(c); }
static void out_s(const char *s) { fputs(s, stdout); }
static void out_u(unsigned v) { printf("%u", v); }
static void out_hex(const void *p, size_t n) { hx_print((const uint8_t *)p, n); }
#include "glue.h"

int main(void)
{
    char *line; char *tok[16];
    while ((line = hx_getline())) {
        int nt = hx_split(line, tok, 16);
        if (nt == 8 && !strcmp(tok[0], "verify")) {
            size_t n; void *fr; uint8_t *fidb = 0; char fid[5] = { 0 };
            uint8_t *p = hx_decode_aligned(tok[7], strtoul(tok[6], 0, 10), &n, &fr);
            int has_fid = !(tok[4][0] == '-' && tok[4][1] == 0), rc;
            if (has_fid) { size_t k = hx_decode(tok[4], &fidb); memcpy(fid, fidb, k < 4 ? k : 4); free(fidb); }
            rc = verify_root(atoi(tok[1]), atoi(tok[2]), atoi(tok[3]), p, n, has_fid ? fid : 0, (uint32_t)strtoul(tok[5], 0, 10));
            printf("%d %s\n", rc, rc < 0 ? "bad-request" : flatcc_verify_error_string(rc));
            free(fr);
        } else if (nt == 5 && !strcmp(tok[0], "dump")) {
            size_t n; void *fr;
            uint8_t *p = hx_decode_aligned(tok[4], strtoul(tok[3], 0, 10), &n, &fr);
            const void *b = p;
            if (atoi(tok[2])) { size_t sz; b = flatbuffers_read_size_prefix(p, &sz); if (sz + 4 > n) out_s("!SIZE"); }
            if (dump_root(atoi(tok[1]), b)) out_s("bad-request");
            out_c('\n');
            free(fr);
        } else if (nt == 2 && !strcmp(tok[0], "thash")) {
            printf("%u\n", root_type_hash(atoi(tok[1])));
        } else printf("BAD\n");
        fflush(stdout);
    }
    return 0;
}
