/* shared helpers for line-protocol C harnesses */
#ifndef VERIF_HX_H
#define VERIF_HX_H
#include <stdio.h>
#include <stdlib.h>
#include <string.h>
#include <stdint.h>
static int hx_val(int c) { if (c >= '0' && c <= '9') return c - '0'; if (c >= 'a' && c <= 'f') return c - 'a' + 10; if (c >= 'A' && c <= 'F') return c - 'A' + 10; return -1; }
/* decode hex ("-" = empty) into an exact-size malloc block (so ASan guards both ends); returns length, *out may be malloc(0)+1 style non-null */
static size_t hx_decode(const char *s, uint8_t **out) {
    size_t n, i; uint8_t *p;
    if (s[0] == '-' && s[1] == 0) { *out = (uint8_t *)malloc(1); return 0; }
    n = strlen(s) / 2; p = (uint8_t *)malloc(n ? n : 1);
    for (i = 0; i < n; ++i) p[i] = (uint8_t)(hx_val(s[2 * i]) * 16 + hx_val(s[2 * i + 1]));
    *out = p; return n;
}
/* decode into a block whose byte 0 is at an address congruent to addrmod modulo 256 and whose end is the end of the allocation */
static uint8_t *hx_decode_aligned(const char *s, size_t addrmod, size_t *len_out, void **to_free) {
    uint8_t *tmp; size_t n = hx_decode(s, &tmp); size_t pad; uint8_t *raw, *p;
    /* allocation of size pad+n with alignment 256: place data at the end so that over-reads hit the redzone */
    raw = 0;
    /* want (start) % 256 == addrmod and start + n == raw + total. choose total = k*256 + ((addrmod + n) % 256) */
    { size_t tail = (addrmod + n) % 256; size_t total = tail; while (total < n) total += 256; if (total == 0) total = 256;
      if (posix_memalign((void **)&raw, 256, total)) { fprintf(stderr, "oom\n"); exit(3); }
      /* posix_memalign rounds nothing: ASan poisons beyond total */
      p = raw + (total - n); pad = total - n; (void)pad; }
    memcpy(p, tmp, n); free(tmp); *len_out = n; *to_free = raw; return p;
}
static void hx_print(const uint8_t *p, size_t n) { size_t i; if (n == 0) { printf("-"); return; } for (i = 0; i < n; ++i) printf("%02x", p[i]); }
/* split a line into at most max tokens in place */
static int hx_split(char *line, char **tok, int max) { int n = 0; char *p = line; while (*p && n < max) { while (*p == ' ' || *p == '\n' || *p == '\r') ++p; if (!*p) break; tok[n++] = p; while (*p && *p != ' ' && *p != '\n' && *p != '\r') ++p; if (*p) *p++ = 0; } return n; }
static char *hx_getline(void) { static char *buf = 0; static size_t cap = 0; ssize_t r = getline(&buf, &cap, stdin); return r < 0 ? 0 : buf; }
#endif
