/* Line-protocol harness for the document-level round-trip tie of C05 (checks/c05b_util.py, coq/Json/PrinterText.v).
   Compiled twice against /repo's CURRENT runtime and freshly generated code:
     -DC05B_SUITE=1  gen/c04_schema.fbs   roots Leaf, Rec, Req   (identifier "C4RT")
     -DC05B_SUITE=2  gen/c04b_schema.fbs  roots Doc, Item        (identifier "B4DC")
   request:  rt <root> <printer flag bits> <indent | -1> <parser flags> <hex of a source JSON document>
     1. the source is parsed with force_add (explicit defaults stay present) -> B0, verified;
     2. B0 is printed by the generated printer after flatcc_json_printer_set_flags(bits) and, when indent >= 0,
        flatcc_json_printer_set_indent(indent) -> T1;
     3. T1 is parsed by the generated parser with <parser flags> -> B1 (verified) or an error;
     4. B1 is printed with the same settings -> T2.
   reply:    RT <print rc> <T1 hex> <parse rc> <ctx.error> <error_loc> <end_loc> <verify rc of B1> <B1 hex | -> <T2 == T1: 0|1|-> <B0 hex>
             SRC <parse rc> <ctx.error> <error_loc> <verify rc>        the source document did not give a verified buffer
   request:  deep <root> <printer flag bits> <indent | -1> <parser flags> <n> <what>
     B0 is built with the generated BUILDER API instead (bottom up, no nesting limit): a chain of n tables of the recursive type
     (suite 1: Rec through r; suite 2: Doc through sub) whose innermost table holds  what = 0: a scalar (n / i32 = 5),
     1: an empty vector (k / vu8), 2: a string with an escape (suite 2: title), 3: an empty string vector (suite 2: names);
     then steps 2-4 as above.  reply as for rt; SRC -1 0 0 <verify rc> when the built buffer does not verify. */
#include "hx.h"
#include "flatcc/flatcc_builder.h"
#include "flatcc/flatcc_json_parser.h"
#include "flatcc/flatcc_json_printer.h"
#include "flatcc/flatcc_verifier.h"
#if C05B_SUITE == 1
#include "c04_schema_builder.h"
#include "c04_schema_json_parser.h"
#include "c04_schema_json_printer.h"
#include "c04_schema_verifier.h"
#define FID "C4RT"
#define R(N) { #N, C4_ ## N ## _parse_json_as_root, C4_ ## N ## _print_json_as_root, C4_ ## N ## _verify_as_root_with_identifier, C4_ ## N ## _verify_as_root_with_identifier_and_size }
#define ROOTS R(Leaf), R(Rec), R(Req)
#else
#include "c04b_schema_builder.h"
#include "c04b_schema_json_parser.h"
#include "c04b_schema_json_printer.h"
#include "c04b_schema_verifier.h"
#define FID "B4DC"
#define R(N) { #N, B4_ ## N ## _parse_json_as_root, B4_ ## N ## _print_json_as_root, B4_ ## N ## _verify_as_root_with_identifier, B4_ ## N ## _verify_as_root_with_identifier_and_size }
#define ROOTS R(Doc), R(Item)
#endif

typedef int parse_f(flatcc_builder_t *B, flatcc_json_parser_t *ctx, const char *buf, size_t bufsiz, flatcc_json_parser_flags_t flags, const char *fid);
typedef int print_f(flatcc_json_printer_t *ctx, const void *buf, size_t bufsiz, const char *fid);
typedef int verify_f(const void *buf, size_t bufsiz, const char *fid);
static struct root { const char *name; parse_f *parse; print_f *print; verify_f *verify, *verify_ws; } roots[] = { ROOTS, { 0, 0, 0, 0, 0 } };

/* print with a dynamic buffer; returns the printer's return value, the text in a malloc block */
static int do_print(struct root *r, const void *buf, size_t size, unsigned bits, int indent, char **text, size_t *tlen)
{
    flatcc_json_printer_t pr; int rc; void *p; size_t n = 0;
    *text = 0; *tlen = 0;
    if (flatcc_json_printer_init_dynamic_buffer(&pr, 0)) return -9;
    flatcc_json_printer_set_flags(&pr, (flatcc_json_printer_flags_t)bits);
    if (indent >= 0) flatcc_json_printer_set_indent(&pr, (uint8_t)indent);
    rc = r->print(&pr, buf, size, FID);
    p = flatcc_json_printer_get_buffer(&pr, &n);
    *text = (char *)malloc(n ? n : 1); memcpy(*text, p, n); *tlen = n;
    flatcc_json_printer_clear(&pr);
    return rc;
}

/* chain of n tables built bottom up with the generated builder API; returns the finished buffer or 0 */
static void *build_deep(flatcc_builder_t *B, int n, int what, size_t *size)
{
    int i;
    flatcc_builder_reset(B);
    if (flatcc_builder_start_buffer(B, FID, 0, 0)) return 0;
#if C05B_SUITE == 1
    {
        C4_Rec_ref_t ref = 0; C4_Rec_vec_ref_t vec = 0;
        for (i = n; i >= 1; --i) {
            if (i == n && what == 1) vec = C4_Rec_vec_create(B, 0, 0);
            if (C4_Rec_start(B)) return 0;
            if (i == n) { if (what == 1) C4_Rec_k_add(B, vec); else C4_Rec_n_add(B, 5); }
            else C4_Rec_r_add(B, ref);
            ref = C4_Rec_end(B);
            if (!ref) return 0;
        }
        if (!flatcc_builder_end_buffer(B, ref)) return 0;
    }
#else
    {
        B4_Doc_ref_t ref = 0; flatbuffers_uint8_vec_ref_t vu8 = 0; flatbuffers_string_ref_t str = 0; flatbuffers_string_vec_ref_t names = 0;
        for (i = n; i >= 1; --i) {
            if (i == n && what == 1) vu8 = flatbuffers_uint8_vec_create(B, 0, 0);
            if (i == n && what == 2) str = flatbuffers_string_create(B, "q\"q", 3);
            if (i == n && what == 3) names = flatbuffers_string_vec_create(B, 0, 0);
            if (B4_Doc_start(B)) return 0;
            if (i == n) {
                if (what == 1) B4_Doc_vu8_add(B, vu8); else if (what == 2) B4_Doc_title_add(B, str); else if (what == 3) B4_Doc_names_add(B, names);
                else B4_Doc_i32_add(B, 5);
            } else B4_Doc_sub_add(B, ref);
            ref = B4_Doc_end(B);
            if (!ref) return 0;
        }
        if (!flatcc_builder_end_buffer(B, ref)) return 0;
    }
#endif
    return flatcc_builder_finalize_aligned_buffer(B, size);
}

int main(void)
{
    char *line, *t[8]; int n; flatcc_builder_t B;
    flatcc_builder_init(&B);
    while ((line = hx_getline())) {
        uint8_t *in; size_t len, size0 = 0, size1 = 0, l1 = 0, l2 = 0; flatcc_json_parser_t ctx; int rc, vrc, prc, indent; unsigned bits;
        flatcc_json_parser_flags_t flags; struct root *r = roots; void *b0 = 0, *b1 = 0; char *t1 = 0, *t2 = 0, *in1;
        n = hx_split(line, t, 8);
        if (!((n == 6 && !strcmp(t[0], "rt")) || (n == 7 && !strcmp(t[0], "deep")))) { printf("BAD\n"); fflush(stdout); continue; }
        while (r->name && strcmp(r->name, t[1])) ++r;
        if (!r->name) { printf("BAD\n"); fflush(stdout); continue; }
        bits = (unsigned)atoi(t[2]); indent = atoi(t[3]); flags = (flatcc_json_parser_flags_t)atoi(t[4]);
        memset(&ctx, 0, sizeof(ctx));
        if (!strcmp(t[0], "deep")) {
            in = (uint8_t *)malloc(1); len = 0;
            b0 = build_deep(&B, atoi(t[5]), atoi(t[6]), &size0);
            rc = b0 ? 0 : -1; vrc = b0 ? r->verify(b0, size0, FID) : -1;
        } else {
        len = hx_decode(t[5], &in);
        flatcc_builder_reset(&B);
        rc = r->parse(&B, &ctx, (const char *)in, len, flatcc_json_parser_f_force_add, FID);
        vrc = -1;
        if (rc == 0) { b0 = flatcc_builder_finalize_aligned_buffer(&B, &size0); if (b0) vrc = r->verify(b0, size0, FID); }
        }
        if (rc != 0 || vrc != 0) {
            printf("SRC %d %d %ld %d\n", rc, ctx.error, (long)((const uint8_t *)ctx.error_loc - in), vrc);
            if (b0) flatcc_builder_aligned_free(b0);
            free(in); fflush(stdout); continue;
        }
        prc = do_print(r, b0, size0, bits, indent, &t1, &l1);
        printf("RT %d ", prc); hx_print((uint8_t *)t1, l1);
        /* the printed text on an exact-size block */
        in1 = (char *)malloc(l1 ? l1 : 1); memcpy(in1, t1, l1);
        flatcc_builder_reset(&B);
        memset(&ctx, 0, sizeof(ctx));
        rc = r->parse(&B, &ctx, in1, l1, flags, FID);
        if (rc == 0) {
            b1 = flatcc_builder_finalize_aligned_buffer(&B, &size1);
            vrc = !b1 ? -1 : (flags & flatcc_json_parser_f_with_size) ? r->verify_ws(b1, size1, FID) : r->verify(b1, size1, FID);
            printf(" 0 0 0 %ld %d ", (long)(ctx.end_loc - in1), vrc);
            hx_print((uint8_t *)b1, size1);
            if (b1 && vrc == 0 && !(flags & flatcc_json_parser_f_with_size)) {
                int prc2 = do_print(r, b1, size1, bits, indent, &t2, &l2);
                printf(" %d", prc2 == prc && l2 == l1 && !memcmp(t1, t2, l1));
            } else printf(" -");
        } else {
            printf(" %d %d %ld 0 -1 - -", rc, ctx.error, (long)(ctx.error_loc - in1));
        }
        printf(" "); hx_print((uint8_t *)b0, size0); printf("\n");
        if (b0) flatcc_builder_aligned_free(b0);
        if (b1) flatcc_builder_aligned_free(b1);
        free(t1); free(t2); free(in1); free(in); fflush(stdout);
    }
    flatcc_builder_clear(&B);
    return 0;
}
