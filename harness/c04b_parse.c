/* Line-protocol harness for the parser-model tie of C04 (checks/c04b_util.py) over gen/c04b_schema.fbs.
   request:  parse <Doc|Item> <flags> <fidmode 0|1> <want buffer hex 0|1> <hex input>
   reply:    OK <end_loc> <size> <verify rc> <fnv> [<buffer hex>]       |  ERR <rc> <ctx.error> <error_loc> <line> <pos> REUSE 0
   (the reply format of harness/json_scan_diff.c; the input is on an exact-length heap block; memory safety is observed by
   checks/c04.py, here only results are compared) */
#include "hx.h"
#include "flatcc/flatcc_builder.h"
#include "flatcc/flatcc_json_parser.h"
#include "flatcc/flatcc_verifier.h"
#include "c04b_schema_builder.h"
#include "c04b_schema_json_parser.h"
#include "c04b_schema_verifier.h"

static uint64_t fnv64(const uint8_t *p, size_t n) { uint64_t h = 1469598103934665603ull; size_t i; for (i = 0; i < n; ++i) { h ^= p[i]; h *= 1099511628211ull; } return h; }

int main(void)
{
    char *line, *t[8]; int n; flatcc_builder_t B;
    flatcc_builder_init(&B);
    while ((line = hx_getline())) {
        uint8_t *in; size_t len; flatcc_json_parser_t ctx; int rc, is_doc; const char *fid; flatcc_json_parser_flags_t flags;
        n = hx_split(line, t, 8);
        if (n != 6 || strcmp(t[0], "parse") || (strcmp(t[1], "Doc") && strcmp(t[1], "Item"))) { printf("BAD\n"); fflush(stdout); continue; }
        is_doc = !strcmp(t[1], "Doc");
        flags = (flatcc_json_parser_flags_t)atoi(t[2]); fid = atoi(t[3]) ? "B4DC" : 0;
        len = hx_decode(t[5], &in);
        flatcc_builder_reset(&B);
        rc = is_doc ? B4_Doc_parse_json_as_root(&B, &ctx, (const char *)in, len, flags, fid)
                    : B4_Item_parse_json_as_root(&B, &ctx, (const char *)in, len, flags, fid);
        if (rc == 0) {
            size_t size = 0; void *out = flatcc_builder_finalize_aligned_buffer(&B, &size); int vrc;
            if (!out) printf("OK %ld 0 -1 0\n", (long)((const uint8_t *)ctx.end_loc - in));
            else {
                if (flags & flatcc_json_parser_f_with_size)
                    vrc = is_doc ? B4_Doc_verify_as_root_with_identifier_and_size(out, size, fid) : B4_Item_verify_as_root_with_identifier_and_size(out, size, fid);
                else
                    vrc = is_doc ? B4_Doc_verify_as_root_with_identifier(out, size, fid) : B4_Item_verify_as_root_with_identifier(out, size, fid);
                printf("OK %ld %lu %d %016llx", (long)((const uint8_t *)ctx.end_loc - in), (unsigned long)size, vrc, (unsigned long long)fnv64((uint8_t *)out, size));
                if (atoi(t[4])) { printf(" "); hx_print((uint8_t *)out, size); }
                printf("\n");
                flatcc_builder_aligned_free(out);
            }
        } else {
            printf("ERR %d %d %ld %d %d REUSE 0\n", rc, ctx.error, (long)((const uint8_t *)ctx.error_loc - in), ctx.line, ctx.pos);
        }
        free(in); fflush(stdout);
    }
    flatcc_builder_clear(&B);
    return 0;
}
