/* C13 harness: every scenario of the build / JSON-parse / print corpus re-run with the k-th allocation or the k-th emit
 * call failing.  Built on the op interpreter of reset_ops.h:
 *   - allocator callback failures: cfg:<e>:1 + `FA:<k>:<rep>`   (flatcc_builder_custom_init alloc callback)
 *   - emitter callback failures:   cfg:1:<a> + `FE:<k>:<rep>`   (custom emitter around flatcc_emitter)
 *   - allocation macro failures:   `FM:<k>:<rep>` - the whole runtime is compiled with FLATCC_ALLOC / FLATCC_CALLOC /
 *     FLATCC_REALLOC / FLATCC_FREE / FLATCC_ALIGNED_* redirected to fi_* (harness/fi_alloc.h): builder buffers, emitter
 *     pages, refmap tables, finalize buffers, printer buffers all go through one countdown with live-block bookkeeping.
 * Extra ops: CNT (requests so far), LIVE (live blocks), pj:<hex buffer>:<initial size> (generated JSON printer into a
 * dynamic buffer: prints error code and length), GUARD / REC (skip everything after the first failing call until REC).
 */
#include <stdio.h>
#include <stdlib.h>
#include <string.h>
#include "fi_alloc.h"
#include <signal.h>
#include <unistd.h>
/* per history alarm: a call that never returns (e.g. a lookup in a completely full hash table) ends the process */
static void fi_on_alarm(int sig) { static const char m[] = "\nHANG: history did not finish within the alarm time\n"; (void)sig; if (write(2, m, sizeof(m) - 1)) {} _exit(7); }

static long long fi_count, fi_fail_at = -1, fi_live, fi_errors; static int fi_rep;
static int fi_should_fail(void)
{
    long long k = fi_count++;
    if (fi_fail_at < 0) return 0;
    if (k == fi_fail_at) { if (!fi_rep) fi_fail_at = -1; else fi_fail_at = k + 1; return 1; }
    return 0;
}
void *fi_malloc(size_t n) { void *p; if (fi_should_fail()) return 0; p = malloc(n ? n : 1); if (p) ++fi_live; return p; }
void *fi_calloc(size_t nm, size_t n) { void *p; if (fi_should_fail()) return 0; p = calloc(nm ? nm : 1, n ? n : 1); if (p) ++fi_live; return p; }
void *fi_realloc(void *q, size_t n) { void *p; if (fi_should_fail()) return 0; p = realloc(q, n ? n : 1); if (p && !q) ++fi_live; return p; }
void fi_free(void *p) { if (p) { --fi_live; if (fi_live < 0) ++fi_errors; } free(p); }
void *fi_aligned_alloc(size_t a, size_t n) { void *p = 0; if (fi_should_fail()) return 0; if (a < sizeof(void *)) a = sizeof(void *); if (posix_memalign(&p, a, n ? n : 1)) return 0; ++fi_live; return p; }
void fi_aligned_free(void *p) { fi_free(p); }

struct ro_ctx;
#define RO_EXTRA fi_extra_op
#include "reset_ops.h"
#include "c14_schema_json_printer.h"

static int fi_extra_op(struct ro_ctx *c, size_t i, char **f, int nf, long long *r)
{
    (void)c; (void)i;
    if (!strcmp(f[0], "FM")) { fi_fail_at = nf > 1 ? fi_count + atoll(f[1]) : -1; if (nf > 1 && atoll(f[1]) < 0) fi_fail_at = -1; fi_rep = nf > 2 ? atoi(f[2]) : 0; *r = 0; return 1; }
    if (!strcmp(f[0], "CNT")) { *r = fi_count; return 1; }
    if (!strcmp(f[0], "LIVE")) { *r = fi_live * 1000 + fi_errors; return 1; }
    if (!strcmp(f[0], "pj")) {
        /* pj:<hex buffer>:<initial size>: -1 init failed, else error code * 1000000 + length */
        flatcc_json_printer_t pc; uint8_t *d; size_t n = hx_decode(f[1], &d), len = 0; void *al = 0; char *out;
        if (posix_memalign(&al, 64, n ? n : 1)) exit(3);
        memcpy(al, d, n); free(d);
        if (flatcc_json_printer_init_dynamic_buffer(&pc, (size_t)atoll(nf > 2 ? f[2] : "128"))) { flatcc_json_printer_clear(&pc); free(al); *r = -1; return 1; }
        c14_schema_print_json(&pc, (const char *)al, n);
        *r = (long long)flatcc_json_printer_get_error(&pc) * 1000000;
        out = (char *)flatcc_json_printer_finalize_dynamic_buffer(&pc, &len);
        *r += (long long)len;
        if (out) fi_free(out);
        flatcc_json_printer_clear(&pc); free(al);
        return 1;
    }
    return 0;
}

int main(void)
{
    char *line; char **tok = 0; size_t cap = 0;
    while ((line = hx_getline())) {
        size_t n = 0; char *p = line;
        while (*p) {
            while (*p == ' ' || *p == '\n' || *p == '\r') ++p;
            if (!*p) break;
            if (n == cap) { cap = cap ? cap * 2 : 1024; tok = (char **)realloc(tok, cap * sizeof(char *)); }
            tok[n++] = p;
            while (*p && *p != ' ' && *p != '\n' && *p != '\r') ++p;
            if (*p) *p++ = 0;
        }
        fi_count = 0; fi_fail_at = -1; fi_rep = 0; fi_live = 0; fi_errors = 0;
        signal(SIGALRM, fi_on_alarm); alarm(15);
        ro_run_line(tok, (int)n);
        alarm(0);
    }
    free(tok);
    return 0;
}
