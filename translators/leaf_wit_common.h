/* T5 witness confirmation: evaluate the REAL C leaf (compiled from /repo's current source, ASan) on a witness the Coq
   search produced, in the coding of the search (see checks/c01c_util.py).  usage: wit <leaf> <hexbuffer|-> <args...>
   The input buffer ends exactly at the end of a heap block, so a read past it aborts under ASan (reported as -1). */
#include <stdio.h>
#include <stdlib.h>
#include <string.h>
#include <stdint.h>
static size_t wit_len;
static unsigned char *wit_buf(const char *hex, size_t off)
{
    size_t n = strcmp(hex, "-") == 0 ? 0 : strlen(hex) / 2, i;
    unsigned char *blk = (unsigned char *)malloc(off + n);
    unsigned int v;
    for (i = 0; i < off; ++i) blk[i] = 0xee;
    for (i = 0; i < n; ++i) { sscanf(hex + 2 * i, "%2x", &v); blk[off + i] = (unsigned char)v; }
    wit_len = n;
    return blk + off;
}
static uint64_t U(const char *s) { return s[0] == '-' ? (uint64_t)strtoll(s, 0, 10) : strtoull(s, 0, 10); }
static int64_t S(const char *s) { return strtoll(s, 0, 10); }
#define IS(x) (strcmp(argv[1], x) == 0)
