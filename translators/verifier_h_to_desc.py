"""T2: recover the verifier descriptor from a generated *_verifier.h (what the generated verifier really passes
to the runtime).  Output: dict with 'tables' (ordered names), 'unions' (ordered names), 'desc' (modelrun_verifier
`schema` syntax), 'structs' {name: (size, align)} from the *_verify_as_root wrappers.
Anything not recognised raises TranslateError (reported as "correspondence no longer checks"), never a guess."""
import re


class TranslateError(Exception):
    pass


def parse(text):
    text = re.sub(r'/\*.*?\*/', '', text, flags=re.S)
    tnames = re.findall(r'static int (\w+)_verify_table\(flatcc_table_verifier_descriptor_t \*td\)\s*\{', text)
    unames = re.findall(r'static int (\w+)_union_verifier\(flatcc_union_verifier_descriptor_t \*ud\)\s*\{', text)
    tidx = {n: i for i, n in enumerate(tnames)}
    uidx = {n: i for i, n in enumerate(unames)}
    toks = []
    for tn in tnames:
        m = re.search(r'static int %s_verify_table\(flatcc_table_verifier_descriptor_t \*td\)\s*\{(.*?)\n\}' % re.escape(tn), text, flags=re.S)
        if not m: raise TranslateError('no body for table verifier ' + tn)
        body = m.group(1)
        fs = []
        calls = re.findall(r'(flatcc_verify_\w+)\(td,\s*([^;]*?)\)\s*\)\)\s*return ret;', body)
        ncalls = len(re.findall(r'flatcc_verify_', body)) - len(re.findall(r'flatcc_verify_ok', body))
        if ncalls != len(calls): raise TranslateError('unparsed verifier call in %s_verify_table' % tn)
        for fn, args in calls:
            a = [x.strip() for x in args.split(',')]
            def num(x):
                # a C integer constant: optional (U)INT<n>_C(...) wrapper, decimal or hex digits, optional u/l suffixes
                x = x.strip()
                m = re.fullmatch(r'U?INT(?:8|16|32|64|MAX)_C\(\s*(.*?)\s*\)', x)
                if m: x = m.group(1)
                m = re.fullmatch(r'(0[xX][0-9a-fA-F]+|\d+)[uUlL]*', x)
                if not m: raise TranslateError('non-numeric argument %r in %s' % (x, tn))
                return int(m.group(1), 0) if m.group(1).lower().startswith('0x') else int(m.group(1))
            def tref(x):
                x = x.lstrip('&')
                if not x.endswith('_verify_table') or x[:-13] not in tidx: raise TranslateError('unknown table verifier ' + x)
                return tidx[x[:-13]]
            def uref(x):
                x = x.lstrip('&')
                if not x.endswith('_union_verifier') or x[:-15] not in uidx: raise TranslateError('unknown union verifier ' + x)
                return uidx[x[:-15]]
            if fn == 'flatcc_verify_field' and len(a) == 3: fs.append('%d/0/S/%d/%d' % (num(a[0]), num(a[1]), num(a[2])))
            elif fn == 'flatcc_verify_string_field' and len(a) == 2: fs.append('%d/%d/X' % (num(a[0]), num(a[1])))
            elif fn == 'flatcc_verify_vector_field' and len(a) == 5: fs.append('%d/%d/V/%d/%d/%d' % (num(a[0]), num(a[1]), num(a[2]), num(a[3]), num(a[4])))
            elif fn == 'flatcc_verify_string_vector_field' and len(a) == 2: fs.append('%d/%d/XV' % (num(a[0]), num(a[1])))
            elif fn == 'flatcc_verify_table_field' and len(a) == 3: fs.append('%d/%d/T/%d' % (num(a[0]), num(a[1]), tref(a[2])))
            elif fn == 'flatcc_verify_table_vector_field' and len(a) == 3: fs.append('%d/%d/TV/%d' % (num(a[0]), num(a[1]), tref(a[2])))
            elif fn == 'flatcc_verify_union_field' and len(a) == 3: fs.append('%d/%d/U/%d' % (num(a[0]), num(a[1]), uref(a[2])))
            elif fn == 'flatcc_verify_union_vector_field' and len(a) == 3: fs.append('%d/%d/UV/%d' % (num(a[0]), num(a[1]), uref(a[2])))
            elif fn == 'flatcc_verify_table_as_nested_root' and len(a) == 5:
                if a[2] != '0': raise TranslateError('nested root with identifier argument')
                fs.append('%d/%d/NT/%d/%d' % (num(a[0]), num(a[1]), num(a[3]), tref(a[4])))
            elif fn == 'flatcc_verify_struct_as_nested_root' and len(a) == 5:
                if a[2] != '0': raise TranslateError('nested root with identifier argument')
                fs.append('%d/%d/NS/%d/%d' % (num(a[0]), num(a[1]), num(a[3]), num(a[4])))
            else:
                raise TranslateError('unrecognised call %s(%s) in %s' % (fn, args, tn))
        toks.append('T|' + ','.join(fs))
    for un in unames:
        # switch over the member type; an unknown type is accepted either by `default: return flatcc_verify_ok;` inside the switch or by
        # `default: break;` followed by `return flatcc_verify_ok;` after it
        m = re.search(r'static int %s_union_verifier\(flatcc_union_verifier_descriptor_t \*ud\)\s*\{\s*switch \(ud->type\) \{(.*?)\n    \}\s*(return flatcc_verify_ok;\s*)?\}' % re.escape(un), text, flags=re.S)
        if not m: raise TranslateError('no body for union verifier ' + un)
        tail_ok = bool(m.group(2))
        ms = []
        for line in m.group(1).strip().split('\n'):
            line = line.strip()
            if not line: continue
            c = re.fullmatch(r'case (\d+): return flatcc_verify_union_table\(ud, (\w+)_verify_table\);', line)
            if c:
                if c.group(2) not in tidx: raise TranslateError('unknown table in union ' + un)
                ms.append('%s/T/%d' % (c.group(1), tidx[c.group(2)])); continue
            c = re.fullmatch(r'case (\d+): return flatcc_verify_union_struct\(ud, (\d+), (\d+)\);', line)
            if c: ms.append('%s/S/%s/%s' % c.groups()); continue
            c = re.fullmatch(r'case (\d+): return flatcc_verify_union_string\(ud\);', line)
            if c: ms.append('%s/X' % c.group(1)); continue
            if line == 'default: return flatcc_verify_ok;': continue
            if line == 'default: break;' and tail_ok: continue
            if line == 'default:' : continue
            if line in ('break;',) and tail_ok: continue
            if line == 'return flatcc_verify_ok;': continue
            raise TranslateError('unrecognised union verifier line %r in %s' % (line, un))
        toks.append('U|' + ','.join(ms))
    structs = {}
    for m in re.finditer(r'static inline int (\w+)_verify_as_root\(const void \*buf, size_t bufsiz\)\s*\{\s*return flatcc_verify_struct_as_root\(buf, bufsiz, \w+, (\d+), (\d+)\);', text):
        structs[m.group(1)] = (int(m.group(2)), int(m.group(3)))
    return {'tables': tnames, 'unions': unames, 'desc': ' '.join(toks), 'structs': structs}
