#include LEAF_SRC
#include "leaf_wit_common.h"
static void mk_td(flatcc_table_verifier_descriptor_t *td, const unsigned char *buf, char **a)
{
    memset(td, 0, sizeof(*td));
    td->buf = buf; td->end = 20; td->ttl = 10;
    td->vtable = buf + U(a[0]); td->table = (uoffset_t)U(a[1]); td->tsize = (voffset_t)U(a[2]); td->vsize = (voffset_t)U(a[3]);
}
int main(int argc, char **argv)
{
    flatcc_table_verifier_descriptor_t td;
    unsigned char *b;
    (void)argc;
    if (IS("check_header")) { printf("%d\n", check_header((uoffset_t)U(argv[3]), (uoffset_t)U(argv[4]), (uoffset_t)U(argv[5]))); return 0; }
    if (IS("verify_struct")) { printf("%d\n", verify_struct((uoffset_t)U(argv[3]), (uoffset_t)U(argv[4]), (uoffset_t)U(argv[5]), (uoffset_t)U(argv[6]), (uint16_t)U(argv[7]))); return 0; }
    if (IS("read_vt_entry")) { b = wit_buf(argv[2], 0); mk_td(&td, b, argv + 3); printf("%u\n", (unsigned)read_vt_entry(&td, (voffset_t)U(argv[7]))); return 0; }
    if (IS("verify_field")) {
        b = wit_buf(argv[2], (size_t)(U(argv[3]) % 16)); mk_td(&td, b, argv + 4);
        printf("%d\n", verify_field(&td, (voffset_t)U(argv[8]), (int)S(argv[9]), (uoffset_t)U(argv[10]), (uint16_t)U(argv[11]))); return 0; }
    if (IS("get_offset_field")) {
        uoffset_t out = 77; int r;
        b = wit_buf(argv[2], 0); mk_td(&td, b, argv + 3);
        r = get_offset_field(&td, (voffset_t)U(argv[7]), (int)S(argv[8]), &out);
        if (argc > 9) printf("%u\n", (unsigned)out); else printf("%d\n", r);       /* extra argument: the witness is about *out */
        return 0; }
    if (IS("verify_string")) { b = wit_buf(argv[2], 0); printf("%d\n", verify_string(b, (uoffset_t)U(argv[3]), (uoffset_t)U(argv[4]), (uoffset_t)U(argv[5]))); return 0; }
    if (IS("verify_vector")) { b = wit_buf(argv[2], 0);
        printf("%d\n", verify_vector(b, (uoffset_t)U(argv[3]), (uoffset_t)U(argv[4]), (uoffset_t)U(argv[5]), (uoffset_t)U(argv[6]), (uint16_t)U(argv[7]), (uoffset_t)U(argv[8]))); return 0; }
    return 3;
}
