/* constants of /repo/config/config.h used as arguments of the C07 layout / id models (not baked into Coq:
   the theorems are parametric in them, with side conditions cfg_ok / vt <= 65535 checked by checks/c07.py) */
#include <stdio.h>
#include "config.h"
int main(void)
{
    printf("struct_max %lld\n", (long long)FLATCC_STRUCT_MAX_SIZE);
    printf("force_align_max %lld\n", (long long)FLATCC_FORCE_ALIGN_MAX);
    printf("vt_max %lld\n", (long long)(((1LL << (FLATCC_VOFFSET_SIZE * 8 - 1)) - 1) * 2));
    printf("voffset_size %d\n", (int)FLATCC_VOFFSET_SIZE);
    printf("offset_size %d\n", (int)FLATCC_OFFSET_SIZE);
    printf("max_errors %d\n", (int)FLATCC_MAX_ERRORS);
    printf("max_include_depth %d\n", (int)FLATCC_MAX_INCLUDE_DEPTH);
    printf("max_include_count %d\n", (int)FLATCC_MAX_INCLUDE_COUNT);
    printf("max_schema_size %lld\n", (long long)FLATCC_MAX_SCHEMA_SIZE);
    printf("nesting_max %d\n", (int)FLATCC_NESTING_MAX);
    printf("ascending_enum %d\n", (int)FLATCC_ASCENDING_ENUM);
    return 0;
}
