#!/usr/bin/env python3
"""T5: clang JSON AST -> Gallina for small loop-free integer leaf functions of /repo.

    python3 translators/cleaf_to_coq.py verifier [--repo /repo]   -> text of coq/Generated/Leaf_verifier.v on stdout
    python3 translators/cleaf_to_coq.py builder  [--repo /repo]   -> text of coq/Generated/Leaf_builder.v
    python3 translators/cleaf_to_coq.py ident    [--repo /repo]   -> text of coq/Generated/Leaf_ident.v   (C17)
    python3 translators/cleaf_to_coq.py refmap   [--repo /repo]   -> text of coq/Generated/Leaf_refmap.v  (C18)

The translation is deliberately dumb and uniform; everything outside the subset below raises LeafError (never a guess).

Semantics of the generated Gallina
  * every integer expression node is computed in unbounded Z from the values of its children and then WRAPPED with the
    wrap of the node's OWN clang type (u8/u16/u32/u64/s8/s16/s32/s64 of Flatcc.Common.Wrap, LP64: long = size_t = 64 bit).
    Integer promotion and the usual arithmetic conversions are NOT re-implemented here: they are the ImplicitCastExpr
    nodes clang puts in the AST, and an IntegralCast is translated as the wrap of its target type.
  * invariant: the value of every expression lies in the range of its type, provided parameters, record fields and the
    results of the read primitives do (these are the hypotheses of the equivalence lemmas).  Signed overflow, which is
    undefined in C, wraps here (s32/s64); shifts are only accepted with a literal count below the width on unsigned types;
    / and % only on unsigned types (division by zero, undefined in C, is Coq's x / 0 = 0).
  * comparisons, `!`, `&&`, `||` are bool; where C uses their int value the translation is Z.b2z; where C uses an integer as a
    condition it is negb (x =? 0).  `&&`/`||`/`?:` are lazy in C and pure here: a read or effectful call inside a lazily
    evaluated operand is rejected.
  * pointers: a `void * / uint8_t *` value is a generated record [cptr] (numeric address + three abstract read functions
    returning option Z, offsets relative to the pointer); pointer + integer adds to the offset WITHOUT wrap (C pointer
    arithmetic is exact or undefined).  The designated read primitives read_uoffset(p, x) / read_voffset(p, x) /
    ((uint8_t *)p + a)[n] become p_rd32 p x / p_rd16 p x / p_rd8 p (a + n); a None from a read makes the whole function None.
    (size_t)p is u64 (p_addr p + offset).  A pointer to a known struct is a generated record (one field per member,
    projections td_<field>, generated from the RecordDecl on every run).  An integer out-parameter `T *out` that is only
    written through `*out = e` becomes an extra argument (the initial content) and an extra result.
  * statements: straight-line code with if / else / early return, `do { ... } while (0)` (the verify / check_result macros
    after preprocessing), declarations, `=`, compound assignment (with clang's computation types) to integer locals and
    parameters (SSA renaming, `let`), `(void)0`, `x++` / `++p` as statements.  No goto, no switch, no address-of, no calls
    other than to the read primitives and to previously translated leaves.
  * loops: `while (c) body` / `for (init; c; inc) body` without break / continue / return / nested loops become a
    structurally recursive Fixpoint c_<fn>_loop<k> on an explicit fuel; its arguments are the variables in scope, its
    result the variables the body assigns (for a byte pointer: its offset); the function gets a first argument
    `fuel : nat` and returns `option (fres T)`: None = a read outside, Some OutOfFuel = fuel exhausted (excluded by the
    equivalence theorem for enough fuel), Some (Ret v).
  * more: plain char is s8; local byte-pointer aliases; null tests on pointers are tests on p_addr; an in/out parameter
    `T *p` is an extra argument and an extra result; a write-only array parameter written through literal subscripts
    is one result per cell; a `?:` whose branches read memory is built at the option level (only the chosen branch
    reads); floating CONSTANT expressions under a cast to an integer are evaluated exactly (binary32 / binary64).
  * guard mode (c_<fn>_guard : bool): the straight-line prefix of a function up to the first store through a struct
    member or call through a function pointer; true iff an early `return 0` of that prefix is taken.
"""
import json, os, re, subprocess, sys


class LeafError(Exception):
    pass


INT_TYPES = {
    'unsigned char': (8, False), 'unsigned short': (16, False), 'unsigned int': (32, False),
    'unsigned long': (64, False), 'unsigned long long': (64, False),
    'signed char': (8, True), 'char': (8, True),      # plain char is signed on the x86-64 target clang is run for
    'short': (16, True), 'int': (32, True), 'long': (64, True), 'long long': (64, True),
}
COQ_RESERVED = {'end', 'at', 'in', 'as', 'if', 'then', 'else', 'fun', 'let', 'match', 'with', 'return', 'forall', 'exists',
                'fix', 'cofix', 'for', 'where', 'using', 'Type', 'Prop', 'Set', 'struct', 'mod', 'is', 'by'}

# read primitives: name -> (projection, expected body callee).  The body of each is checked to be exactly
#   return <callee>((uint8_t *)p + base);
READ_PRIMS = {'read_uoffset': ('p_rd32', '__flatbuffers_uoffset_read_from_pe'),
              'read_voffset': ('p_rd16', '__flatbuffers_voffset_read_from_pe'),
              'read_thash': ('p_rd32', '__flatbuffers_thash_read_from_pe')}
BYTE_ELEMS = (('void',), ('int', 8, False), ('int', 8, True))

FAMILIES = {
    'verifier': {
        'src': 'src/runtime/verifier.c',
        'structs': {'flatcc_table_verifier_descriptor': ('c_td', 'td_')},
        'functions': ['check_header', 'verify_struct', 'read_vt_entry', 'verify_field', 'get_offset_field',
                      'verify_string', 'verify_vector'],
        'enum_prefix': ('flatcc_verify_error_', 'E_'),
        'imports': ['From Flatcc.Generated Require Import Consts.'],
    },
    'ident': {
        # identifiers and buffer-header acceptors (C17); flatcc_identifier.h is part of the verifier.c translation unit
        'src': 'src/runtime/verifier.c',
        'structs': {},
        'functions': ['flatbuffers_type_hash_from_string', 'flatbuffers_type_hash_from_identifier',
                      'flatbuffers_identifier_from_type_hash', 'read_thash_identifier',
                      'flatcc_verify_buffer_header', 'flatcc_verify_buffer_header_with_size',
                      'flatcc_verify_typed_buffer_header', 'flatcc_verify_typed_buffer_header_with_size',
                      'flatbuffers_type_hash_from_name'],
        'enum_prefix': ('flatcc_verify_error_', 'E_'),
        'imports': ['From Flatcc.Generated Require Import Consts.'],
    },
    'refmap': {
        # C18: the pointer hash and the load-factor test of the reference map
        'src': 'src/runtime/refmap.c',
        'structs': {},
        'functions': ['_flatcc_refmap_above_load_factor', '_flatcc_refmap_hash'],
        'enum_prefix': None,
        'imports': [],
    },
    'builder': {
        'src': 'src/runtime/builder.c',
        'structs': {},
        # flatcc_builder_t is large and full of pointers; only the members the translated code reads are modelled
        'struct_fields': {'flatcc_builder': ('c_builder', 'B_', ['emit_start', 'emit_end']),
                          'flatcc_iov_state': ('c_iov', 'iov_', ['len', 'count'])},
        'functions': ['alignup_uoffset', 'front_pad', 'back_pad'],
        'guards': ['emit_front', 'emit_back'],
        'enum_prefix': None,
        'imports': [],
    },
}


def wrapname(t):
    return ('s' if t[2] else 'u') + str(t[1])


def sizeof_type(t):
    if t[0] == 'int': return t[1] // 8
    if t[0] == 'ptr': return 8
    raise LeafError('sizeof of unsupported type %r' % (t,))


def parse_type(tyd):
    """clang type dict -> ('int', bits, signed) | ('ptr', pointee) | ('void',) | ('struct', name)"""
    if tyd is None: raise LeafError('node without type')
    q = tyd.get('desugaredQualType', tyd.get('qualType'))
    return parse_type_str(q)


def parse_type_str(q):
    q = q.strip()
    if q.endswith('*') or q.endswith('*const') or q.endswith('* const') or q.endswith('*restrict'):
        q2 = re.sub(r'\*\s*(const|restrict)?\s*$', '', q).strip()
        return ('ptr', parse_type_str(q2))
    q = re.sub(r'\b(const|volatile)\b', '', q).strip()
    q = re.sub(r'\s+', ' ', q)
    if q in INT_TYPES: return ('int',) + INT_TYPES[q]
    if q == 'void': return ('void',)
    if q in ('float', 'double'): return ('float', 32 if q == 'float' else 64)
    m = re.match(r'struct (\w+)$', q)
    if m: return ('struct', m.group(1))
    if re.match(r'^\w+$', q) and q in TYPEDEFS:
        td = TYPEDEFS[q]
        return parse_type_str(td.get('desugaredQualType', td['qualType']))
    raise LeafError('unsupported type %r' % q)


TYPEDEFS = {}     # typedef name -> clang type dict of the current translation unit (filled by Ast)


class Ast:
    def __init__(self, repo, src, defs=('-DNDEBUG',)):
        cmd = ['clang', '-std=c11', '-fsyntax-only', '-w'] + list(defs) + ['-I%s/include' % repo, '-Xclang', '-ast-dump=json',
               os.path.join(repo, src)]
        r = subprocess.run(cmd, stdout=subprocess.PIPE, stderr=subprocess.PIPE, text=True, timeout=120)
        if r.returncode != 0:
            raise LeafError('clang failed on %s: %s' % (src, r.stderr[-1500:]))
        self.cmd = ' '.join(cmd)
        self.tu = json.loads(r.stdout)
        self.funcs, self.records, self.typedefs = {}, {}, {}
        for d in self.tu.get('inner', []):
            k = d.get('kind')
            if k == 'FunctionDecl' and any(c.get('kind') == 'CompoundStmt' for c in d.get('inner', [])):
                self.funcs[d['name']] = d
            elif k == 'RecordDecl' and d.get('completeDefinition') and 'name' in d:
                self.records[d['name']] = d
            elif k == 'TypedefDecl':
                self.typedefs[d['name']] = d
        TYPEDEFS.clear()
        TYPEDEFS.update({n: d['type'] for n, d in self.typedefs.items()})

    def resolve_typedefs(self, q):
        return parse_type_str(q)


def coq_ident(name):
    n = re.sub(r'[^A-Za-z0-9_]', '_', name)
    if n in COQ_RESERVED or n in ('u8', 'u16', 'u32', 'u64', 's8', 's16', 's32', 's64', 'negb', 'Some', 'None', 'Z'):
        n += '_'
    return n


class Func:
    """translation of one FunctionDecl"""

    ncells = None

    def __init__(self, tr, decl, guard=False):
        """guard=True: translate the straight-line PREFIX of the body - declarations, assignments to integer locals, `if`s,
        `(void)0` - up to the first statement that stores through a struct member or calls through a function pointer
        (the point where the function starts to act), as a bool: true iff one of the early `return 0;` statements of the
        prefix is taken (several early returns combine in program order).  Anything else in the prefix is an error.
        The Gallina name is c_<fn>_guard."""
        self.tr, self.decl, self.name = tr, decl, decl['name']
        self.used = set()
        self.tmp = 0
        self.guard = guard

    def err(self, node, msg):
        loc = node.get('range', {}).get('begin', {}) if isinstance(node, dict) else {}
        line = loc.get('line') or loc.get('expansionLoc', {}).get('line') or loc.get('spellingLoc', {}).get('line')
        raise LeafError('%s: %s (%s%s)' % (self.name, msg, node.get('kind') if isinstance(node, dict) else '', ' near line %s' % line if line else ''))

    def fresh(self, base):
        base = coq_ident(base)
        n, i = base, 0
        while n in self.used:
            i += 1
            n = '%s_%d' % (base, i)
        self.used.add(n)
        return n

    # ------------------------------------------------------------------ effects pre-scan
    def scan_effects(self, node):
        k = node.get('kind')
        if k == 'BinaryOperator' and node.get('opcode') == '=':
            l = node['inner'][0]
            while l.get('kind') == 'ParenExpr': l = l['inner'][0]
            if l.get('kind') == 'ArraySubscriptExpr':        # a store into an out-array is not a read
                return self.scan_effects(l['inner'][1]) or self.scan_effects(node['inner'][1])
        if k == 'ArraySubscriptExpr': return True
        if k == 'UnaryOperator' and node.get('opcode') == '*' and parse_type(node['type'])[0] == 'int' and \
                parse_type(node['inner'][0]['type']) in (('ptr', ('int', 8, False)), ('ptr', ('int', 8, True))):
            return True
        if k == 'CallExpr':
            cn = self.callee_name(node)
            if cn in READ_PRIMS: return True
            if cn in self.tr.done and self.tr.done[cn]['effect']: return True
        return any(self.scan_effects(c) for c in node.get('inner', []) if isinstance(c, dict))

    def callee_name(self, node):
        c = node['inner'][0]
        while c.get('kind') in ('ImplicitCastExpr', 'ParenExpr'):
            c = c['inner'][0]
        if c.get('kind') != 'DeclRefExpr' or c['referencedDecl'].get('kind') != 'FunctionDecl':
            self.err(node, 'call through something that is not a plain function name')
        return c['referencedDecl']['name']

    # ------------------------------------------------------------------ top
    def translate(self):
        d = self.decl
        if d.get('variadic'): self.err(d, 'variadic function')
        fty = d['type']['qualType']
        rq = fty[:fty.index('(')].strip()
        self.ret_ty = self.tr.ast.resolve_typedefs(rq)
        if self.ret_ty[0] not in ('int', 'void'): self.err(d, 'return type %s not an integer type or void' % rq)
        body = [c for c in d['inner'] if c.get('kind') == 'CompoundStmt'][0]
        self.effect = False if self.guard else self.scan_effects(body)      # a guard prefix must not read memory (bind raises)
        self.has_loop = self.has_kind(body, ('WhileStmt', 'ForStmt'))
        self.loops, self.nloops = [], 0
        if self.has_loop:
            if self.guard: self.err(d, 'guard translation of a prefix with a loop')
            self.effect = True          # result: option (fres T); None = read outside, Some OutOfFuel = fuel exhausted
        env, params, self.outs, self.outarrs = {}, [], [], []
        for p in d['inner']:
            if p.get('kind') != 'ParmVarDecl': continue
            t = parse_type(p['type'])
            nm = self.fresh(p.get('name', 'arg'))
            if t[0] == 'int':
                env[p['id']] = {'ty': t, 'val': nm, 'kind': 'int'}
                params.append((nm, 'Z', p['type']['qualType']))
            elif t[0] == 'ptr' and t[1] in BYTE_ELEMS and p['id'] in self.written_arrays(body):
                # an array the function only writes, through constant subscripts: one result per written cell
                env[p['id']] = {'ty': t, 'val': nm, 'kind': 'outarr', 'cells': {}, 'name_hint': p.get('name', 'arg')}
                self.outarrs.append(p['id'])
            elif t[0] == 'ptr' and t[1] in BYTE_ELEMS:
                env[p['id']] = {'ty': t, 'val': nm, 'off': None, 'kind': 'ptr'}
                params.append((nm, 'cptr', p['type']['qualType']))
            elif t[0] == 'ptr' and t[1][0] == 'struct' and t[1][1] in self.tr.records:
                env[p['id']] = {'ty': t, 'val': nm, 'kind': 'struct'}
                params.append((nm, self.tr.records[t[1][1]]['coq'], p['type']['qualType']))
            elif t[0] == 'ptr' and t[1][0] == 'int':
                env[p['id']] = {'ty': t, 'val': nm, 'kind': 'out'}
                params.append((nm, 'Z', p['type']['qualType'] + ' (initial content of the out-parameter)'))
                self.outs.append(p['id'])
            else:
                self.err(p, 'parameter %s of unsupported type %s' % (p.get('name'), p['type']['qualType']))
        if self.has_loop:
            self.fresh('fuel'); params.insert(0, ('fuel', 'nat', 'iteration bound for the loops (not a C parameter)'))
        self.params = params
        self.param_env = dict(env)
        text = self.stmts(list(body.get('inner', [])), env, 1)
        if self.outarrs and self.ncells is None: self.err(d, 'no return reached')
        nres = (1 if self.ret_ty[0] == 'int' else 0) + len(self.outs) + (self.ncells or 0)
        if nres == 0: self.err(d, 'void function without outputs')
        rty = 'Z' if nres == 1 else '(' + ' * '.join(['Z'] * nres) + ')'
        if self.has_loop: rty = 'fres ' + rty
        if self.effect: rty = 'option ' + (('(%s)' % rty) if ' ' in rty and not rty.startswith('(') else rty)
        if self.guard:
            if self.outs: self.err(d, 'guard translation of a function with out-parameters')
            rty = 'bool'
        self.rty = rty
        sig = ' '.join('(%s : %s)' % (n, t) for n, t, _ in params)
        cm = '%s %s(%s)%s' % (rq, self.name, ', '.join('%s' % q for _, _, q in params),
                              ' - GUARD: true iff an early `return 0` is taken before the first store through the struct / indirect call' if self.guard else '')
        cm = '(* ' + cm.replace('*)', '* )').replace('(*', '( *') + ' *)'
        return ''.join(self.loops) + '%s\nDefinition c_%s%s %s : %s :=\n%s.\n' % (cm, self.name, '_guard' if self.guard else '', sig, rty, text)

    # ------------------------------------------------------------------ statements
    def ind(self, depth): return '  ' * depth

    def result(self, val, env):
        parts = ([val] if val is not None else []) + [self.getvar_raw(env, o) for o in self.outs]
        n = 0
        for a in self.outarrs:
            cells = env[a]['cells']
            if sorted(cells) != list(range(len(cells))) or not cells:
                raise LeafError('%s: the written cells of %s are not 0..n-1 on every path' % (self.name, env[a]['name_hint']))
            parts += [cells[i] for i in range(len(cells))]
            n += len(cells)
        if self.outarrs:
            if self.ncells not in (None, n): raise LeafError('%s: different numbers of cells written on different paths' % self.name)
            self.ncells = n
        r = parts[0] if len(parts) == 1 else '(' + ', '.join(parts) + ')'
        if getattr(self, 'has_loop', False): return 'Some (Ret %s)' % self.paren(r)
        return ('Some %s' % self.paren(r)) if self.effect else r

    def written_arrays(self, body):
        """ids of pointer parameters that appear as `p[k] = e`"""
        if not hasattr(self, '_warr'):
            out = set()

            def walk(n):
                if n.get('kind') == 'BinaryOperator' and n.get('opcode') == '=':
                    l = n['inner'][0]
                    while l.get('kind') == 'ParenExpr': l = l['inner'][0]
                    if l.get('kind') == 'ArraySubscriptExpr':
                        b = l['inner'][0]
                        while b.get('kind') in ('ParenExpr', 'ImplicitCastExpr'): b = b['inner'][0]
                        if b.get('kind') == 'DeclRefExpr': out.add(b['referencedDecl']['id'])
                for c in n.get('inner', []):
                    if isinstance(c, dict): walk(c)
            walk(body)
            self._warr = out
        return self._warr

    def getvar_raw(self, env, did):
        v = env[did]['val']
        if v is None: raise LeafError('%s: use of an uninitialised variable' % self.name)
        return v

    def with_binds(self, binds, depth, body):
        """emit option-binds collected while translating an expression, then body (a function depth -> text)"""
        out = ''
        for nm, e in binds:
            out += '%smatch %s with None => None | Some %s =>\n' % (self.ind(depth), e, nm)
        out += body(depth)
        for _ in binds:
            out += '\n%send' % self.ind(depth)
        return out

    def stmts(self, sts, env, depth):
        """translate a statement list to a Gallina expression text; falling off the end is an error"""
        if not sts:
            if self.ret_ty[0] == 'void' and not self.guard:
                return self.ind(depth) + self.result(None, env)
            raise LeafError('%s: control reaches the end of the function without a return' % self.name)
        s, rest = sts[0], sts[1:]
        k = s.get('kind')
        if k == '__loop_continue__':
            return s['emit'](env, depth)
        if self.guard and self.is_guard_stop(s):
            return self.ind(depth) + 'false'
        if k == 'CompoundStmt':
            return self.stmts(list(s.get('inner', [])) + rest, env, depth)
        if k in ('WhileStmt', 'ForStmt'):
            return self.loop(s, rest, env, depth)
        if k == 'UnaryOperator' and s.get('opcode') in ('++', '--'):
            # x++ / ++x as a statement (the value is not used)
            c = s['inner'][0]
            while c.get('kind') == 'ParenExpr': c = c['inner'][0]
            if c.get('kind') != 'DeclRefExpr' or c['referencedDecl']['id'] not in env: self.err(s, 'increment of something that is not a variable')
            did = c['referencedDecl']['id']
            sign = '+' if s['opcode'] == '++' else '-'
            env = dict(env)
            if env[did]['kind'] == 'int':
                t = env[did]['ty']
                nm = self.fresh(c['referencedDecl']['name'])
                e = self.wrap(t, '%s %s 1' % (self.getvar_raw(env, did), sign))
                env[did] = dict(env[did], val=nm)
                return self.emit_lets([([], nm, e)], depth, lambda d: self.stmts(rest, env, d))
            if env[did]['kind'] == 'ptr' and env[did]['ty'][1] in (('int', 8, False), ('int', 8, True)):
                nm = self.fresh(c['referencedDecl']['name'] + '_off')
                e = '%s %s 1' % (env[did].get('off') or '0', sign)       # pointer arithmetic is exact
                env[did] = dict(env[did], off=nm)
                return self.emit_lets([([], nm, e)], depth, lambda d: self.stmts(rest, env, d))
            self.err(s, 'increment of an unsupported variable')
        if k == 'NullStmt':
            return self.stmts(rest, env, depth)
        if k == 'DoStmt':
            body, cond = s['inner'][0], s['inner'][1]
            c = cond
            while c.get('kind') in ('ParenExpr', 'ImplicitCastExpr'): c = c['inner'][0]
            if c.get('kind') != 'IntegerLiteral' or c.get('value') != '0':
                self.err(s, 'do-while with a condition other than the literal 0')
            if self.has_kind(body, ('BreakStmt', 'ContinueStmt')):
                self.err(s, 'break/continue inside do { } while (0)')
            return self.stmts([body] + rest, env, depth)
        if k == 'DeclStmt':
            env = dict(env)
            out, closers = '', 0
            binds_all = []
            lines = []
            for v in s.get('inner', []):
                if v.get('kind') != 'VarDecl': self.err(v, 'declaration of something that is not a variable')
                if v.get('storageClass'):
                    # `static const T x = <constant>;` is an ordinary immutable local
                    if v.get('storageClass') != 'static' or not re.search(r'\bconst\b', v['type']['qualType']) or \
                            not [c for c in v.get('inner', []) if isinstance(c, dict) and 'kind' in c]:
                        self.err(v, 'static/extern local that is not an initialised const')
                t = parse_type(v['type'])
                init = [c for c in v.get('inner', []) if isinstance(c, dict) and 'kind' in c]
                if t[0] == 'ptr' and t[1] in BYTE_ELEMS:
                    # a local byte pointer is an alias: (pointer record, exact offset); no Gallina binding is emitted
                    if not init: self.err(v, 'byte pointer local %s without initialiser' % v.get('name'))
                    binds = []
                    base, off = self.ptr(init[0], env, binds, False)
                    if binds: self.err(v, 'pointer initialiser with a read')
                    env[v['id']] = {'ty': t, 'val': base, 'off': off, 'kind': 'ptr'}
                    continue
                if t[0] != 'int': self.err(v, 'local %s of non-integer type %s' % (v.get('name'), v['type']['qualType']))
                if init:
                    binds = []
                    e = self.val(init[0], env, binds, False)
                    if parse_type(init[0]['type']) != t: self.err(v, 'initialiser type differs from the variable type')
                    nm = self.fresh(v['name'])
                    lines.append((binds, nm, e))
                    env[v['id']] = {'ty': t, 'val': nm, 'kind': 'int'}
                else:
                    env[v['id']] = {'ty': t, 'val': None, 'kind': 'int'}
            return self.emit_lets(lines, depth, lambda d: self.stmts(rest, env, d))
        if k == 'ReturnStmt':
            if getattr(self, 'in_loop', False): self.err(s, 'return inside a loop body')
            inner = s.get('inner', [])
            if self.guard:
                c = inner[0] if inner else {}
                while c.get('kind') in ('ParenExpr', 'ImplicitCastExpr', 'CStyleCastExpr'): c = c['inner'][0]
                if c.get('kind') != 'IntegerLiteral' or c.get('value') != '0':
                    self.err(s, 'guard translation: an early return of something other than the literal 0')
                return self.ind(depth) + 'true'
            if not inner:
                if self.ret_ty[0] != 'void': self.err(s, 'return without a value')
                return self.ind(depth) + self.result(None, env)
            binds = []
            e = self.val(inner[0], env, binds, False)
            if parse_type(inner[0]['type']) != self.ret_ty: self.err(s, 'returned expression type differs from the return type')
            return self.with_binds(binds, depth, lambda d: self.ind(d) + self.result(e, env))
        if k == 'IfStmt':
            inner = s['inner']
            if len(inner) not in (2, 3) or s.get('hasInit') or s.get('hasVar'): self.err(s, 'unsupported if form')
            binds = []
            c = self.cond(inner[0], env, binds, False)
            th = [inner[1]]
            el = [inner[2]] if len(inner) == 3 else []

            def body(d):
                return '%sif %s then\n%s\n%selse\n%s' % (self.ind(d), c, self.stmts(th + rest, env, d + 1), self.ind(d),
                                                      self.stmts(el + rest, env, d + 1))
            return self.with_binds(binds, depth, body)
        # expression statements
        if k in ('ParenExpr', 'CStyleCastExpr') and self.is_void_noop(s):
            return self.stmts(rest, env, depth)
        if k == 'BinaryOperator' and s.get('opcode') == '=':
            lhs, rhs = s['inner']
            binds = []
            e = self.val(rhs, env, binds, False)
            cell = self.array_cell(lhs, env)
            if cell is not None:
                did, idx = cell
                if parse_type(rhs['type']) != env[did]['ty'][1] or parse_type(lhs['type']) != env[did]['ty'][1]:
                    self.err(s, 'array cell assigned at a type other than its element type')
                env = dict(env)
                nm = self.fresh('%s_%d' % (env[did]['name_hint'], idx))
                cells = dict(env[did]['cells']); cells[idx] = nm
                env[did] = dict(env[did], cells=cells)
                return self.emit_lets([(binds, nm, e)], depth, lambda d: self.stmts(rest, env, d))
            tgt = self.lvalue(lhs, env)
            if parse_type(rhs['type']) != env[tgt]['ty_cell']: self.err(s, 'assignment between different types')
            env = dict(env)
            nm = self.fresh(env[tgt]['name_hint'])
            env[tgt] = dict(env[tgt], val=nm)
            return self.emit_lets([(binds, nm, e)], depth, lambda d: self.stmts(rest, env, d))
        if k == 'CompoundAssignOperator':
            lhs, rhs = s['inner']
            op = s['opcode'][:-1]
            tgt = self.lvalue(lhs, env)
            lty = env[tgt]['ty_cell']
            clhs, cres = parse_type(s['computeLHSType']), parse_type(s['computeResultType'])
            if clhs[0] != 'int' or cres[0] != 'int' or parse_type(s['type']) != lty: self.err(s, 'unsupported compound assignment types')
            binds = []
            cur = self.getvar_raw(env, tgt)
            a = cur if clhs == lty else self.wrap(clhs, cur)
            b = self.val(rhs, env, binds, False)
            r = self.binop(s, op, cres, a, clhs, b, parse_type(rhs['type']), rhs)
            e = r if cres == lty else self.wrap(lty, r)
            env = dict(env)
            nm = self.fresh(env[tgt]['name_hint'])
            env[tgt] = dict(env[tgt], val=nm)
            return self.emit_lets([(binds, nm, e)], depth, lambda d: self.stmts(rest, env, d))
        self.err(s, 'unsupported statement')

    # ------------------------------------------------------------------ loops
    def modified_vars(self, nodes, env):
        out = []

        def target(n):
            while n.get('kind') == 'ParenExpr': n = n['inner'][0]
            if n.get('kind') == 'DeclRefExpr' and n['referencedDecl']['id'] in env:
                if n['referencedDecl']['id'] not in out: out.append(n['referencedDecl']['id'])
            elif n.get('kind') in ('UnaryOperator', 'ArraySubscriptExpr', 'MemberExpr'):
                self.err(n, 'store through a pointer / array / member inside a loop')

        def walk(n):
            k = n.get('kind')
            if (k == 'BinaryOperator' and n.get('opcode') == '=') or k == 'CompoundAssignOperator': target(n['inner'][0])
            if k == 'UnaryOperator' and n.get('opcode') in ('++', '--'): target(n['inner'][0])
            for c in n.get('inner', []):
                if isinstance(c, dict): walk(c)
        for n in nodes: walk(n)
        return out

    def loop(self, s, rest, env, depth):
        """`while (c) body` / `for (init; c; inc) body` without break / continue / return / nested loops ->
        a structurally recursive Fixpoint on an explicit fuel; state = the variables the body assigns"""
        if getattr(self, 'in_loop', False): self.err(s, 'nested loop')
        if s['kind'] == 'ForStmt':
            init, condvar, cond, inc, body = (s['inner'] + [{}] * 5)[:5]
            if condvar: self.err(s, 'for loop with a condition variable')
            if not cond: self.err(s, 'for loop without a condition')
            pre = [init] if init else []
            if pre: return self.stmts(pre + [{'kind': 'WhileStmt', 'inner': [cond, {'kind': 'CompoundStmt', 'inner': [body] + ([inc] if inc else [])}], 'range': s.get('range', {})}] + rest, env, depth)
            cond, body = cond, {'kind': 'CompoundStmt', 'inner': [body] + ([inc] if inc else [])}
        else:
            cond, body = s['inner']
        if self.has_kind(body, ('ReturnStmt', 'BreakStmt', 'ContinueStmt', 'GotoStmt', 'WhileStmt', 'ForStmt', 'DoStmt', 'SwitchStmt')) and \
                self.has_kind(body, ('ReturnStmt', 'BreakStmt', 'ContinueStmt', 'GotoStmt', 'WhileStmt', 'ForStmt', 'SwitchStmt')):
            self.err(s, 'loop body with return / break / continue / goto / a nested loop')
        state = self.modified_vars([cond, body], env)
        for did in state:
            if env[did]['kind'] not in ('int', 'ptr'): self.err(s, 'loop assigns an out-parameter')
        self.nloops += 1
        lname = 'c_%s_loop%d' % (self.name, self.nloops)
        # parameters of the loop function: every variable in scope that has a value (ints, byte pointers with their offset, structs)
        saved_used = self.used
        self.used = set(['fuel', 'fuel_'])
        lenv, lparams, args = {}, [], []
        for did, e in env.items():
            if e['kind'] == 'int':
                if e['val'] is None:
                    if did in state: self.err(s, 'loop state variable without a value at loop entry')
                    continue
                nm = self.fresh(e.get('name_hint') or self.var_name(did) or 'v')
                lenv[did] = dict(e, val=nm); lparams.append('(%s : Z)' % nm); args.append((did, 'val'))
            elif e['kind'] == 'ptr':
                if e['val'] is None: continue
                nm = self.fresh(self.var_name(did) or 'p'); no = self.fresh(nm + '_off')
                lenv[did] = dict(e, val=nm, off=no); lparams.append('(%s : cptr) (%s : Z)' % (nm, no)); args.append((did, 'ptr'))
            elif e['kind'] == 'struct':
                nm = self.fresh(self.var_name(did) or 'r')
                lenv[did] = dict(e, val=nm); lparams.append('(%s : %s)' % (nm, self.tr.records[e['ty'][1][1]]['coq'])); args.append((did, 'val'))
            # out-parameters and out-arrays are not visible inside a loop

        def argtext(cur):
            out = []
            for did, what in args:
                if what == 'val': out.append(self.paren(cur[did]['val']))
                else: out += [self.paren(cur[did]['val']), self.paren(cur[did].get('off') or '0')]
            return ' '.join(out)

        def state_tuple(cur):
            parts = [cur[did]['val'] if cur[did]['kind'] == 'int' else (cur[did].get('off') or '0') for did in state]
            return parts[0] if len(parts) == 1 else '(' + ', '.join(parts) + ')' if parts else 'tt'

        self.in_loop = True
        binds = []
        c = self.cond(cond, lenv, binds, False)
        cont = {'kind': '__loop_continue__', 'emit': lambda cur, d: '%s%s fuel_ %s' % (self.ind(d), lname, argtext(cur))}
        btxt = self.stmts([body, cont], lenv, 3)
        self.in_loop = False
        inner = self.with_binds(binds, 2, lambda d: '%sif %s then\n%s\n%selse\n%sSome (Ret %s)' % (
            self.ind(d), c, btxt, self.ind(d), self.ind(d + 1), self.paren(state_tuple(lenv))))
        nst = max(1, len(state))
        sty = 'Z' if nst == 1 and state else ('unit' if not state else '(' + ' * '.join(['Z'] * len(state)) + ')')
        self.loops.append('(* loop %d of %s: state = (%s); OutOfFuel when [fuel] iterations do not suffice *)\n'
                          'Fixpoint %s (fuel : nat) %s {struct fuel} : option (fres %s) :=\n  match fuel with\n  | O => Some OutOfFuel\n  | S fuel_ =>\n%s\n  end.\n\n'
                          % (self.nloops, self.name, ', '.join(self.var_name(d) or '?' for d in state), lname, ' '.join(lparams), sty, inner))
        self.used = saved_used
        # the call, and the rest of the function with the state variables renamed
        env2 = dict(env)
        pats = []
        for did in state:
            nm = self.fresh((self.var_name(did) or 's') + ('_off' if env[did]['kind'] == 'ptr' else ''))
            pats.append(nm)
            env2[did] = dict(env[did], val=nm) if env[did]['kind'] == 'int' else dict(env[did], off=nm)
        pat = pats[0] if len(pats) == 1 else ('(' + ', '.join(pats) + ')' if pats else 'tt')
        return '%smatch %s fuel %s with None => None | Some OutOfFuel => Some OutOfFuel | Some (Ret %s) =>\n%s\n%send' % (
            self.ind(depth), lname, argtext(env), pat, self.stmts(rest, env2, depth), self.ind(depth))

    def var_name(self, did):
        if not hasattr(self, '_names'):
            self._names = {}

            def walk(n):
                if n.get('kind') in ('VarDecl', 'ParmVarDecl') and 'id' in n: self._names[n['id']] = coq_ident(n.get('name', 'v'))
                for c in n.get('inner', []):
                    if isinstance(c, dict): walk(c)
            walk(self.decl)
        return self._names.get(did)

    def is_guard_stop(self, s):
        """the first statement that acts: a store through a struct member, or a call through a function pointer"""
        k = s.get('kind')
        if k == 'CallExpr':
            c = s['inner'][0]
            while c.get('kind') in ('ImplicitCastExpr', 'ParenExpr'): c = c['inner'][0]
            if c.get('kind') != 'DeclRefExpr' or c.get('referencedDecl', {}).get('kind') != 'FunctionDecl': return True
        if (k == 'BinaryOperator' and s.get('opcode') == '=') or k == 'CompoundAssignOperator' or \
                (k == 'UnaryOperator' and s.get('opcode') in ('++', '--')):
            l = s['inner'][0]
            while l.get('kind') == 'ParenExpr': l = l['inner'][0]
            if l.get('kind') == 'MemberExpr': return True
        return any(self.is_guard_stop(c) for c in s.get('inner', []) if isinstance(c, dict))

    def emit_lets(self, lines, depth, k):
        """lines: [(binds, name, expr)] -> nested binds/lets then continuation k(depth)"""
        if not lines: return k(depth)
        (binds, nm, e), more = lines[0], lines[1:]
        return self.with_binds(binds, depth, lambda d: '%slet %s := %s in\n%s' % (self.ind(d), nm, e, self.emit_lets(more, d, k)))

    def has_kind(self, node, kinds):
        if node.get('kind') in kinds: return True
        return any(self.has_kind(c, kinds) for c in node.get('inner', []) if isinstance(c, dict))

    def is_void_noop(self, s):
        c = s
        while c.get('kind') == 'ParenExpr': c = c['inner'][0]
        if c.get('kind') != 'CStyleCastExpr' or c.get('castKind') != 'ToVoid': return False
        c = c['inner'][0]
        while c.get('kind') == 'ParenExpr': c = c['inner'][0]
        return c.get('kind') == 'IntegerLiteral'

    def array_cell(self, lhs, env):
        """`arr[k]` for an out-array parameter and a literal k -> (env key, k)"""
        c = lhs
        while c.get('kind') == 'ParenExpr': c = c['inner'][0]
        if c.get('kind') != 'ArraySubscriptExpr': return None
        b, i = c['inner']
        while b.get('kind') in ('ParenExpr', 'ImplicitCastExpr'): b = b['inner'][0]
        while i.get('kind') in ('ParenExpr', 'ImplicitCastExpr'): i = i['inner'][0]
        if b.get('kind') == 'DeclRefExpr' and b['referencedDecl']['id'] in env and env[b['referencedDecl']['id']]['kind'] == 'outarr':
            if i.get('kind') != 'IntegerLiteral': self.err(lhs, 'out-array subscript is not a literal')
            return b['referencedDecl']['id'], int(i['value'])
        self.err(lhs, 'assignment through a subscript of something that is not a write-only array parameter')

    def lvalue(self, lhs, env):
        """assignable things: an integer local/parameter, or *out for an out-parameter. Returns the env key."""
        c = lhs
        while c.get('kind') == 'ParenExpr': c = c['inner'][0]
        if c.get('kind') == 'DeclRefExpr' and c['referencedDecl']['id'] in env:
            did = c['referencedDecl']['id']
            if env[did]['kind'] != 'int': self.err(lhs, 'assignment to a non-integer variable')
            env[did].setdefault('ty_cell', env[did]['ty']); env[did].setdefault('name_hint', c['referencedDecl']['name'])
            return did
        if c.get('kind') == 'UnaryOperator' and c.get('opcode') == '*':
            p = c['inner'][0]
            while p.get('kind') in ('ParenExpr', 'ImplicitCastExpr'):
                if p.get('kind') == 'ImplicitCastExpr' and p.get('castKind') != 'LValueToRValue': self.err(lhs, 'unsupported pointer expression')
                p = p['inner'][0]
            if p.get('kind') == 'DeclRefExpr' and p['referencedDecl']['id'] in env and env[p['referencedDecl']['id']]['kind'] == 'out':
                did = p['referencedDecl']['id']
                env[did].setdefault('ty_cell', env[did]['ty'][1]); env[did].setdefault('name_hint', p['referencedDecl']['name'])
                return did
        self.err(lhs, 'unsupported assignment target')

    # ------------------------------------------------------------------ expressions
    def wrap(self, t, e):
        return '%s (%s)' % (wrapname(t), e) if not re.match(r'^[A-Za-z0-9_]+$', e) else '%s %s' % (wrapname(t), e)

    def paren(self, e):
        return e if re.match(r'^[A-Za-z0-9_]+$', e) or (e.startswith('(') and self.balanced(e)) else '(' + e + ')'

    @staticmethod
    def balanced(e):
        d = 0
        for i, ch in enumerate(e):
            if ch == '(': d += 1
            elif ch == ')':
                d -= 1
                if d == 0 and i != len(e) - 1: return False
        return True

    def bind(self, binds, lazy, node, opt_expr, hint):
        if self.guard: self.err(node, 'guard translation: the prefix reads memory')
        if lazy: self.err(node, 'read / effectful call inside a lazily evaluated operand (&&, ||, ?:)')
        nm = self.fresh(hint)
        binds.append((nm, opt_expr))
        return nm

    def cond(self, n, env, binds, lazy):
        """translate to a bool"""
        k = n.get('kind')
        if k == 'ParenExpr': return self.cond(n['inner'][0], env, binds, lazy)
        if k == 'BinaryOperator':
            op = n['opcode']
            if op in ('&&', '||'):
                a = self.cond(n['inner'][0], env, binds, lazy)
                b = self.cond(n['inner'][1], env, binds, True)
                return '(%s %s %s)' % (a, op, b)
            if op in ('==', '!=') and parse_type(n['inner'][0]['type'])[0] == 'ptr':
                # pointer compared with the null pointer constant only
                a, b = n['inner']
                if self.is_null(a): a, b = b, a
                if not self.is_null(b): self.err(n, 'pointer comparison with something other than the null constant')
                z = '(%s =? 0)' % self.ptr_addr(a, env, binds, lazy)
                return z if op == '==' else 'negb ' + z
            if op in ('<', '<=', '>', '>=', '==', '!='):
                ta, tb = parse_type(n['inner'][0]['type']), parse_type(n['inner'][1]['type'])
                if ta != tb or ta[0] != 'int': self.err(n, 'comparison of operands of different or non-integer types')
                a = self.paren(self.val(n['inner'][0], env, binds, lazy))
                b = self.paren(self.val(n['inner'][1], env, binds, lazy))
                # a > b is emitted as b < a, a >= b as b <= a (only <? <=? =? appear in the output)
                if op == '<': return '(%s <? %s)' % (a, b)
                if op == '<=': return '(%s <=? %s)' % (a, b)
                if op == '>': return '(%s <? %s)' % (b, a)
                if op == '>=': return '(%s <=? %s)' % (b, a)
                if op == '==': return '(%s =? %s)' % (a, b)
                return 'negb (%s =? %s)' % (a, b)
        if k == 'UnaryOperator' and n.get('opcode') == '!':
            return 'negb %s' % self.paren(self.cond(n['inner'][0], env, binds, lazy))
        t = parse_type(n['type'])
        if t[0] == 'ptr': return 'negb (%s =? 0)' % self.ptr_addr(n, env, binds, lazy)
        if t[0] != 'int': self.err(n, 'condition of non-integer type')
        return 'negb (%s =? 0)' % self.paren(self.val(n, env, binds, lazy))

    def is_null(self, n):
        while n.get('kind') in ('ParenExpr', 'ImplicitCastExpr', 'CStyleCastExpr'):
            if n.get('kind') != 'ParenExpr' and n.get('castKind') not in ('NullToPointer', 'NoOp', 'BitCast'): return False
            n = n['inner'][0]
        return n.get('kind') == 'IntegerLiteral' and n.get('value') == '0'

    def ptr_addr(self, n, env, binds, lazy):
        """numeric value of a byte pointer, for null tests: only pointers that have not been advanced"""
        base, off = self.ptr(n, env, binds, lazy)
        if off is not None: self.err(n, 'null test of an advanced pointer')
        return 'p_addr %s' % self.paren(base)

    def val(self, n, env, binds, lazy):
        """translate an integer-typed rvalue to a Z expression"""
        k = n.get('kind')
        if k == 'ParenExpr': return self.val(n['inner'][0], env, binds, lazy)
        if k == 'ConstantExpr': return self.val(n['inner'][0], env, binds, lazy)
        t = parse_type(n['type'])
        if t[0] != 'int': self.err(n, 'expression of non-integer type %s in integer context' % (n['type'].get('qualType')))
        if k == 'IntegerLiteral':
            v = int(n['value'])
            lo, hi = (-(1 << (t[1] - 1)), (1 << (t[1] - 1)) - 1) if t[2] else (0, (1 << t[1]) - 1)
            if not lo <= v <= hi: self.err(n, 'literal out of the range of its type')
            return str(v)
        if k == 'CharacterLiteral':
            return str(int(n['value']))
        if k == 'UnaryExprOrTypeTraitExpr':
            if n.get('name') != 'sizeof' or 'argType' not in n: self.err(n, 'only sizeof(type) is supported')
            return str(sizeof_type(parse_type(n['argType'])))
        if k == 'DeclRefExpr':
            rd = n['referencedDecl']
            if rd.get('kind') == 'EnumConstantDecl':
                return self.tr.enum_const(rd['name'], self, n)
            self.err(n, 'reference to %s outside an lvalue-to-rvalue conversion' % rd.get('name'))
        if k in ('ImplicitCastExpr', 'CStyleCastExpr'):
            ck, sub = n.get('castKind'), n['inner'][0]
            if ck == 'LValueToRValue': return self.load(sub, env, binds, lazy, t)
            if ck == 'NoOp': return self.val(sub, env, binds, lazy)
            if ck == 'IntegralCast':
                st = parse_type(sub['type'])
                if st[0] != 'int': self.err(n, 'integral cast from a non-integer')
                e = self.val(sub, env, binds, lazy)
                if re.match(r'^-?[0-9]+$', e):      # cast of a literal: the wrap is computed here (exact)
                    v = int(e) % (1 << t[1])
                    if t[2] and v >= (1 << (t[1] - 1)): v -= 1 << t[1]
                    return str(v) if v >= 0 else '(%d)' % v
                return self.wrap(t, e)
            if ck == 'FloatingToIntegral':
                f = self.fconst(sub)                      # constant expressions only, evaluated exactly (IEEE binary32/64)
                v = int(f)                                # C truncates towards zero
                lo, hi = (-(1 << (t[1] - 1)), (1 << (t[1] - 1)) - 1) if t[2] else (0, (1 << t[1]) - 1)
                if f != f or not lo <= v <= hi: self.err(n, 'floating constant out of the range of the integer type')
                return str(v) if v >= 0 else '(%d)' % v
            if ck == 'PointerToIntegral':
                base, off = self.ptr(sub, env, binds, lazy)
                return self.wrap(t, 'p_addr %s' % self.paren(base) + ('' if off is None else ' + %s' % self.paren(off)))
            self.err(n, 'unsupported cast kind %s' % ck)
        if k == 'UnaryOperator':
            op, sub = n['opcode'], n['inner'][0]
            if op == '!': return 'Z.b2z (%s)' % self.cond(n, env, binds, lazy)
            st = parse_type(sub['type'])
            if st != t: self.err(n, 'unary operand type differs from result type')
            a = self.val(sub, env, binds, lazy)
            if op == '-': return self.wrap(t, '- %s' % self.paren(a))
            if op == '~': return self.wrap(t, 'Z.lnot %s' % self.paren(a))
            if op == '+': return a
            self.err(n, 'unsupported unary operator %s' % op)
        if k == 'BinaryOperator':
            op = n['opcode']
            if op in ('<', '<=', '>', '>=', '==', '!=', '&&', '||'):
                return 'Z.b2z %s' % self.paren(self.cond(n, env, binds, lazy))
            if op in ('=', ',') or op.endswith('='): self.err(n, 'assignment / comma inside an expression')
            a = self.val(n['inner'][0], env, binds, lazy)
            b = self.val(n['inner'][1], env, binds, lazy)
            return self.binop(n, op, t, a, parse_type(n['inner'][0]['type']), b, parse_type(n['inner'][1]['type']), n['inner'][1])
        if k == 'ConditionalOperator':
            c = self.cond(n['inner'][0], env, binds, lazy)
            for s in n['inner'][1:]:
                if parse_type(s['type']) != t: self.err(n, 'conditional operand type differs from result type')
            ba, bb = [], []
            a = self.val(n['inner'][1], env, ba, False)
            b = self.val(n['inner'][2], env, bb, False)
            if not ba and not bb: return '(if %s then %s else %s)' % (c, a, b)
            # a branch reads memory: the conditional is built at the option level, so that only the chosen branch reads
            oa = self.with_binds(ba, 0, lambda d: 'Some %s' % self.paren(a)).replace('\n', ' ')
            ob = self.with_binds(bb, 0, lambda d: 'Some %s' % self.paren(b)).replace('\n', ' ')
            return self.bind(binds, lazy, n, '(if %s then %s else %s)' % (c, oa, ob), 'r')
        if k == 'CallExpr':
            cn = self.callee_name(n)
            args = n['inner'][1:]
            if cn in READ_PRIMS:
                self.tr.check_read_prim(cn)
                if len(args) != 2: self.err(n, 'read primitive with %d arguments' % len(args))
                base, off = self.ptr(args[0], env, binds, lazy)
                x = self.val(args[1], env, binds, lazy)
                pos = x if off is None else '%s + %s' % (self.paren(off), self.paren(x))
                return self.bind(binds, lazy, n, '%s %s %s' % (READ_PRIMS[cn][0], self.paren(base), self.paren(pos)), 'r')
            if cn not in self.tr.done: self.err(n, 'call of %s, which is not a translated leaf or a read primitive' % cn)
            callee = self.tr.done[cn]
            if callee.get('loop'): self.err(n, 'call of a leaf that contains a loop')
            if callee['outs']: self.err(n, 'call of a leaf with out-parameters')
            if len(args) != len(callee['params']): self.err(n, 'argument count mismatch')
            av = []
            for a_, (pn, pt, _) in zip(args, callee['params']):
                if pt == 'Z': av.append(self.paren(self.val(a_, env, binds, lazy)))
                elif pt == 'cptr':
                    base, off = self.ptr(a_, env, binds, lazy)
                    if off is not None: self.err(n, 'advanced pointer passed to a leaf')
                    av.append(self.paren(base))
                else:
                    av.append(self.paren(self.structptr(a_, env)))
            call = 'c_%s %s' % (cn, ' '.join(av))
            if callee['effect']: return self.bind(binds, lazy, n, call, 'r')
            return '(' + call + ')'
        self.err(n, 'unsupported expression')

    def fconst(self, n):
        """value of a floating CONSTANT expression (literals, + - * /, casts between float and double, integer literals),
        each operation rounded to its own type; anything else is an error"""
        import struct
        k = n.get('kind')
        if k == 'ParenExpr': return self.fconst(n['inner'][0])
        t = parse_type(n['type'])
        if t[0] != 'float': self.err(n, 'not a floating constant expression')

        def rnd(x):
            if t[1] == 64: return x
            try:
                return struct.unpack('f', struct.pack('f', x))[0]
            except OverflowError:
                self.err(n, 'floating constant overflows')
        if k == 'FloatingLiteral':
            d = float(n['value'])
            x = rnd(d)
            # clang prints about 9 (17) significant digits, not always correctly rounded: the printed decimal must lie well
            # within half an ulp of the value we take (relative 2^-25 for binary32), so that it identifies the literal
            if abs(x - d) > abs(d) * (1.5e-8 if t[1] == 32 else 1e-16):
                self.err(n, 'floating literal is not identified by its printed value')
            return x
        if k == 'BinaryOperator' and n['opcode'] in ('+', '-', '*', '/'):
            for c in n['inner']:
                if parse_type(c['type']) != t: self.err(n, 'mixed floating types')
            a, b = self.fconst(n['inner'][0]), self.fconst(n['inner'][1])
            if n['opcode'] == '/' and b == 0: self.err(n, 'floating division by zero')
            # one double operation followed by rounding to binary32 is the correctly rounded binary32 operation
            return rnd({'+': a + b, '-': a - b, '*': a * b, '/': a / b if b else 0.0}[n['opcode']])
        if k in ('ImplicitCastExpr', 'CStyleCastExpr') and n.get('castKind') == 'FloatingCast':
            return rnd(self.fconst(n['inner'][0]))
        if k in ('ImplicitCastExpr', 'CStyleCastExpr') and n.get('castKind') == 'IntegralToFloating':
            c = n['inner'][0]
            while c.get('kind') in ('ParenExpr',): c = c['inner'][0]
            if c.get('kind') != 'IntegerLiteral': self.err(n, 'not a floating constant expression')
            return rnd(float(int(c['value'])))
        self.err(n, 'not a floating constant expression')

    def binop(self, n, op, t, a, ta, b, tb, rhs_node):
        if op in ('+', '-', '*', '&', '|', '^', '/', '%'):
            if ta != t or tb != t: self.err(n, 'binary operand types differ from the result type')
        pa, pb = self.paren(a), self.paren(b)
        if op in ('+', '-', '*'): return self.wrap(t, '%s %s %s' % (pa, op, pb))
        if op in ('&', '|', '^'):
            f = {'&': 'Z.land', '|': 'Z.lor', '^': 'Z.lxor'}[op]
            return self.wrap(t, '%s %s %s' % (f, pa, pb))
        if op in ('/', '%') and t[2]:
            # signed: C truncates towards zero (Z.quot / Z.rem); two literals are folded here (exact)
            la, lb = re.match(r'^\(?(-?[0-9]+)\)?$', a), re.match(r'^\(?(-?[0-9]+)\)?$', b)
            if la and lb and int(lb.group(1)) != 0:
                x, y = int(la.group(1)), int(lb.group(1))
                q = abs(x) // abs(y) * (1 if (x >= 0) == (y >= 0) else -1)
                v = q if op == '/' else x - q * y
                lo, hi = -(1 << (t[1] - 1)), (1 << (t[1] - 1)) - 1
                if not lo <= v <= hi: self.err(n, 'constant division overflows')
                return str(v) if v >= 0 else '(%d)' % v
            return self.wrap(t, '%s %s %s' % ({'/': 'Z.quot', '%': 'Z.rem'}[op], pa, pb))
        if op in ('/', '%'):
            return self.wrap(t, '%s %s %s' % (pa, {'/': '/', '%': 'mod'}[op], pb))
        if op in ('<<', '>>'):
            if t[2] or ta != t: self.err(n, 'shift of a signed value')
            c = rhs_node
            while c.get('kind') in ('ParenExpr', 'ImplicitCastExpr'): c = c['inner'][0]
            if c.get('kind') != 'IntegerLiteral' or not 0 <= int(c['value']) < t[1]: self.err(n, 'shift count is not a literal below the width')
            f = 'Z.shiftl' if op == '<<' else 'Z.shiftr'
            return self.wrap(t, '%s %s %s' % (f, pa, c['value']))
        self.err(n, 'unsupported binary operator %s' % op)

    def load(self, lv, env, binds, lazy, t):
        """rvalue of an lvalue expression of integer type t"""
        c = lv
        while c.get('kind') == 'ParenExpr': c = c['inner'][0]
        k = c.get('kind')
        if k == 'DeclRefExpr':
            did = c['referencedDecl']['id']
            if did not in env: self.err(lv, 'reference to %s, which is not a parameter or local' % c['referencedDecl'].get('name'))
            if env[did]['kind'] != 'int' or env[did]['ty'] != t: self.err(lv, 'variable used at a type other than its own')
            if env[did]['val'] is None: self.err(lv, 'read of %s before it is assigned' % c['referencedDecl'].get('name'))
            return env[did]['val']
        if k == 'MemberExpr':
            if not c.get('isArrow'): self.err(lv, 'member access with `.`')
            rec = self.structptr(c['inner'][0], env)
            sname = parse_type(c['inner'][0]['type'])[1][1]
            info = self.tr.records[sname]
            f = c['name']
            if f not in info['fields']: self.err(lv, 'field %s is not modelled' % f)
            if info['fields'][f] != t: self.err(lv, 'field %s used at a type other than its own' % f)
            return '%s%s %s' % (info['prefix'], f, self.paren(rec))
        if k == 'ArraySubscriptExpr':
            if t not in (('int', 8, False), ('int', 8, True)): self.err(lv, 'subscript read of an element type other than (u)int8 / char')
            base, off = self.ptr(c['inner'][0], env, binds, lazy, need_elem=t)
            it = parse_type(c['inner'][1]['type'])
            if it[0] != 'int': self.err(lv, 'non-integer index')
            i = self.val(c['inner'][1], env, binds, lazy)
            pos = i if off is None else '%s + %s' % (self.paren(off), self.paren(i))
            r = self.bind(binds, lazy, lv, 'p_rd8 %s %s' % (self.paren(base), self.paren(pos)), 'r')
            return self.wrap(t, r) if t[2] else r        # the byte read as a (signed) char
        if k == 'UnaryOperator' and c.get('opcode') == '*':
            sub = c['inner'][0]
            st = parse_type(sub['type'])
            q = sub
            while q.get('kind') in ('ParenExpr', 'ImplicitCastExpr'):
                if q.get('kind') == 'ImplicitCastExpr' and q.get('castKind') != 'LValueToRValue': break
                q = q['inner'][0]
            if q.get('kind') == 'DeclRefExpr' and q['referencedDecl']['id'] in env and env[q['referencedDecl']['id']]['kind'] == 'out':
                did = q['referencedDecl']['id']          # *out read back: the current content of the cell
                if env[did]['ty'][1] != t: self.err(lv, 'out-parameter read at a type other than its own')
                return self.getvar_raw(env, did)
            if st[0] == 'ptr' and st[1] in (('int', 8, False), ('int', 8, True)) and st[1] == t:
                base, off = self.ptr(sub, env, binds, lazy, need_elem=t)
                r = self.bind(binds, lazy, lv, 'p_rd8 %s %s' % (self.paren(base), off if off is not None else '0'), 'r')
                return self.wrap(t, r) if t[2] else r
            self.err(lv, 'unsupported dereference')
        self.err(lv, 'unsupported lvalue')

    def structptr(self, n, env):
        c = n
        while c.get('kind') in ('ParenExpr', 'ImplicitCastExpr'):
            if c.get('kind') == 'ImplicitCastExpr' and c.get('castKind') not in ('LValueToRValue', 'NoOp'): self.err(n, 'unsupported struct pointer expression')
            c = c['inner'][0]
        if c.get('kind') == 'DeclRefExpr' and c['referencedDecl']['id'] in env and env[c['referencedDecl']['id']]['kind'] == 'struct':
            return env[c['referencedDecl']['id']]['val']
        self.err(n, 'unsupported struct pointer expression')

    def ptr(self, n, env, binds, lazy, need_elem=None):
        """byte pointer expression -> (cptr expression, offset expression | None). Pointer arithmetic only on uint8_t*."""
        k = n.get('kind')
        t = parse_type(n['type'])
        if t[0] != 'ptr' or t[1] not in BYTE_ELEMS: self.err(n, 'unsupported pointer type')
        if need_elem and t[1] != need_elem: self.err(n, 'pointer element type differs from the type read through it')
        if k == 'ParenExpr': return self.ptr(n['inner'][0], env, binds, lazy)
        if k in ('ImplicitCastExpr', 'CStyleCastExpr'):
            ck, sub = n.get('castKind'), n['inner'][0]
            if ck == 'LValueToRValue':
                c = sub
                while c.get('kind') == 'ParenExpr': c = c['inner'][0]
                if c.get('kind') == 'DeclRefExpr':
                    did = c['referencedDecl']['id']
                    if did in env and env[did]['kind'] == 'ptr':
                        if env[did]['val'] is None: self.err(n, 'use of an unassigned pointer')
                        return env[did]['val'], env[did].get('off')
                    self.err(n, 'unsupported pointer variable')
                if c.get('kind') == 'MemberExpr' and c.get('isArrow'):
                    rec = self.structptr(c['inner'][0], env)
                    sname = parse_type(c['inner'][0]['type'])[1][1]
                    info = self.tr.records[sname]
                    if info['fields'].get(c['name']) != 'cptr': self.err(n, 'field %s is not a modelled byte pointer' % c['name'])
                    return '%s%s %s' % (info['prefix'], c['name'], self.paren(rec)), None
                self.err(n, 'unsupported pointer lvalue')
            if ck in ('BitCast', 'NoOp'): return self.ptr(sub, env, binds, lazy)
            self.err(n, 'unsupported pointer cast %s' % ck)
        if k == 'BinaryOperator' and n.get('opcode') == '+':
            a, b = n['inner']
            if t[1] not in (('int', 8, False), ('int', 8, True)): self.err(n, 'pointer arithmetic on a pointer whose element is not one byte')
            if parse_type(a['type'])[0] != 'ptr': a, b = b, a
            base, off = self.ptr(a, env, binds, lazy, need_elem=t[1])
            if parse_type(b['type'])[0] != 'int': self.err(n, 'pointer + non-integer')
            i = self.val(b, env, binds, lazy)
            return base, (i if off is None else '%s + %s' % (self.paren(off), self.paren(i)))
        self.err(n, 'unsupported pointer expression')


CPTR_DECL = ('(* a byte pointer: its numeric value and the three read primitives, offsets relative to the pointer *)\n'
             'Record cptr := { p_addr : Z; p_rd8 : Z -> option Z; p_rd16 : Z -> option Z; p_rd32 : Z -> option Z }.\n')


FRES_DECL = ('(* result of a function with loops: the loops run on an explicit fuel *)\n'
             'Inductive fres (R : Type) : Type := OutOfFuel | Ret (r : R).\nArguments OutOfFuel {R}.\nArguments Ret {R} r.\n')


class Translator:
    def __init__(self, family, repo='/repo', consts_v=None):
        self.fam = FAMILIES[family]
        self.family = family
        self.repo = repo
        self.ast = Ast(repo, self.fam['src'])
        self.done = {}
        self.records = {}
        self.checked_prims = set()
        self.consts = None
        if self.fam.get('enum_prefix'):
            p = consts_v or os.path.join(os.path.dirname(os.path.dirname(os.path.abspath(__file__))), 'coq', 'Generated', 'Consts.v')
            self.consts = set(re.findall(r'^Definition (\w+)', open(p).read(), flags=re.M))

    def enum_const(self, name, f, node):
        ep = self.fam.get('enum_prefix')
        if not ep or not name.startswith(ep[0]): f.err(node, 'enum constant %s has no Consts.v counterpart' % name)
        cn = ep[1] + name[len(ep[0]):]
        if cn not in self.consts: f.err(node, 'enum constant %s: %s is not defined in Generated/Consts.v' % (name, cn))
        return cn

    def check_read_prim(self, name):
        """the designated read primitive must be `return <pe-reader>((uint8_t *)p + base);`"""
        if name in self.checked_prims: return
        d = self.ast.funcs.get(name)
        if d is None: raise LeafError('read primitive %s not found' % name)
        ps = [p for p in d['inner'] if p.get('kind') == 'ParmVarDecl']
        body = [c for c in d['inner'] if c.get('kind') == 'CompoundStmt'][0].get('inner', [])
        ok = len(ps) == 2 and len(body) == 1 and body[0].get('kind') == 'ReturnStmt'
        if ok:
            e = body[0]['inner'][0]
            while e.get('kind') in ('ParenExpr', 'ImplicitCastExpr'): e = e['inner'][0]
            ok = e.get('kind') == 'CallExpr'
            if ok:
                c = e['inner'][0]
                while c.get('kind') in ('ParenExpr', 'ImplicitCastExpr'): c = c['inner'][0]
                ok = c.get('kind') == 'DeclRefExpr' and c['referencedDecl'].get('name') == READ_PRIMS[name][1] and len(e['inner']) == 2
            if ok:
                a = e['inner'][1]
                while a.get('kind') in ('ParenExpr', 'ImplicitCastExpr'): a = a['inner'][0]
                ok = a.get('kind') == 'BinaryOperator' and a.get('opcode') == '+'
                if ok:
                    l, r = a['inner']
                    while l.get('kind') in ('ParenExpr', 'ImplicitCastExpr', 'CStyleCastExpr'): l = l['inner'][0]
                    while r.get('kind') in ('ParenExpr', 'ImplicitCastExpr'): r = r['inner'][0]
                    ok = (l.get('kind') == 'DeclRefExpr' and l['referencedDecl']['id'] == ps[0]['id'] and
                          r.get('kind') == 'DeclRefExpr' and r['referencedDecl']['id'] == ps[1]['id'] and
                          parse_type(ps[1]['type']) == ('int', 32, False))
        if not ok: raise LeafError('read primitive %s no longer has the form `return %s((uint8_t *)p + base);`' % (name, READ_PRIMS[name][1]))
        self.checked_prims.add(name)

    def record(self, sname, coqname, prefix, only=None):
        d = self.ast.records.get(sname)
        if d is None: raise LeafError('struct %s not found' % sname)
        fields, lines = {}, []
        for f in d.get('inner', []):
            if f.get('kind') != 'FieldDecl': continue
            if only is not None and f['name'] not in only: continue
            if f.get('isBitfield'): raise LeafError('struct %s: bit-field %s' % (sname, f['name']))
            t = self.ast.resolve_typedefs(f['type'].get('desugaredQualType', f['type']['qualType']))
            if t[0] == 'int':
                fields[f['name']] = t
                lines.append('%s%s : Z  (* %s *)' % (prefix, f['name'], f['type']['qualType'].replace('*)', '* )')))
            elif t[0] == 'ptr' and t[1][0] == 'void':
                fields[f['name']] = 'cptr'
                lines.append('%s%s : cptr  (* %s *)' % (prefix, f['name'], f['type']['qualType'].replace('*)', '* )')))
            else:
                raise LeafError('struct %s: member %s of unsupported type %s' % (sname, f['name'], f['type']['qualType']))
        if only is not None and set(only) - set(fields): raise LeafError('struct %s: members %s not found' % (sname, sorted(set(only) - set(fields))))
        self.records[sname] = {'coq': coqname, 'prefix': prefix, 'fields': fields}
        return 'Record %s := {\n  %s\n}.\n' % (coqname, ';\n  '.join(lines))

    def run(self):
        out = ['(* GENERATED by translators/cleaf_to_coq.py (%s) from %s - do not edit.' % (self.family, self.fam['src']),
               '   clang JSON AST -> Gallina; every arithmetic node is wrapped with the wrap of its own C type.',
               '   See the header of the translator for the subset and the conventions. *)',
               'From Flatcc.Common Require Import Wrap.'] + self.fam['imports'] + ['Local Open Scope Z_scope.', 'Local Open Scope bool_scope.', '']
        out.append(CPTR_DECL)
        out.append(FRES_DECL)
        for sname, (cn, pf) in self.fam.get('structs', {}).items():
            out.append(self.record(sname, cn, pf))
        for sname, (cn, pf, only) in self.fam.get('struct_fields', {}).items():
            out.append(self.record(sname, cn, pf, only))
        for fn in self.fam['functions']:
            d = self.ast.funcs.get(fn)
            if d is None: raise LeafError('function %s not found in %s' % (fn, self.fam['src']))
            f = Func(self, d)
            text = f.translate()
            self.done[fn] = {'effect': f.effect, 'params': f.params, 'outs': f.outs, 'rty': f.rty, 'loop': f.has_loop}
            out.append(text)
        for fn in self.fam.get('guards', []):
            d = self.ast.funcs.get(fn)
            if d is None: raise LeafError('function %s not found in %s' % (fn, self.fam['src']))
            out.append(Func(self, d, guard=True).translate())
        text = '\n'.join(out)
        if 'fres' not in text.replace(FRES_DECL, ''): text = text.replace(FRES_DECL + '\n', '')
        if not re.search(r'\bcptr\b', text.replace(CPTR_DECL, '')):
            text = text.replace(CPTR_DECL, '')
        return text


def generate(family, repo='/repo'):
    return Translator(family, repo).run()


if __name__ == '__main__':
    fam = sys.argv[1] if len(sys.argv) > 1 else 'verifier'
    repo = '/repo'
    if '--repo' in sys.argv: repo = sys.argv[sys.argv.index('--repo') + 1]
    try:
        sys.stdout.write(generate(fam, repo))
    except LeafError as e:
        sys.stderr.write('cleaf_to_coq: %s\n' % e)
        sys.exit(1)
