#include LEAF_SRC
#include "leaf_wit_common.h"
/* a C string exactly as long as its terminator: the bytes of the witness up to and including the first NUL (or an
   appended one); a read past the terminator is a heap overflow under ASan */
static char *wit_str(const char *hex)
{
    size_t n = strcmp(hex, "-") == 0 ? 0 : strlen(hex) / 2, i, m = 0;
    unsigned int v;
    char *s;
    for (i = 0; i < n; ++i) { sscanf(hex + 2 * i, "%2x", &v); if (v == 0) break; ++m; }
    s = (char *)malloc(m + 1);
    for (i = 0; i < m; ++i) { sscanf(hex + 2 * i, "%2x", &v); s[i] = (char)v; }
    s[m] = 0;
    return s;
}
/* fid argument list: -1 = NULL | 0 b0 b1 ... = string | (typed) 1 h */
static char *wit_fid(int argc, char **argv, int at)
{
    int i, m = 0;
    char *s;
    if (S(argv[at]) == -1) return 0;
    for (i = at + 1; i < argc && U(argv[i]) != 0; ++i) ++m;
    s = (char *)malloc((size_t)m + 1);
    for (i = 0; i < m; ++i) s[i] = (char)U(argv[at + 1 + i]);
    s[m] = 0;
    return s;
}
int main(int argc, char **argv)
{
    unsigned char *b;
    size_t bs;
    int r;
    if (IS("flatbuffers_type_hash_from_string")) { printf("%u\n", (unsigned)flatbuffers_type_hash_from_string(wit_str(argv[2]))); return 0; }
    if (IS("flatbuffers_type_hash_from_name")) { printf("%u\n", (unsigned)flatbuffers_type_hash_from_name(wit_str(argv[2]))); return 0; }
    if (IS("flatbuffers_type_hash_from_identifier")) { b = wit_buf(argv[2], 0); printf("%u\n", (unsigned)flatbuffers_type_hash_from_identifier((const char *)b)); return 0; }
    if (IS("flatbuffers_identifier_from_type_hash")) {
        flatbuffers_fid_t out;
        flatbuffers_identifier_from_type_hash((flatbuffers_thash_t)U(argv[3]), out);
        printf("%u\n", (unsigned)((uint8_t)out[0] + 256u * (uint8_t)out[1] + 65536u * (uint8_t)out[2] + 16777216u * (uint8_t)out[3])); return 0; }
    /* header acceptors: 1000000 + accepted size | error code; the buffer address is argv[3] modulo 16 */
    b = wit_buf(argv[2], (size_t)(U(argv[3]) % 16)); bs = wit_len;
    if (IS("flatcc_verify_buffer_header")) { r = flatcc_verify_buffer_header(b, bs, wit_fid(argc, argv, 4)); printf("%ld\n", r ? (long)r : 1000000L + (long)bs); return 0; }
    if (IS("flatcc_verify_buffer_header_with_size")) { r = flatcc_verify_buffer_header_with_size(b, &bs, wit_fid(argc, argv, 4)); printf("%ld\n", r ? (long)r : 1000000L + (long)bs); return 0; }
    if (IS("flatcc_verify_typed_buffer_header")) { r = flatcc_verify_typed_buffer_header(b, bs, (flatbuffers_thash_t)U(argv[5])); printf("%ld\n", r ? (long)r : 1000000L + (long)bs); return 0; }
    if (IS("flatcc_verify_typed_buffer_header_with_size")) { r = flatcc_verify_typed_buffer_header_with_size(b, &bs, (flatbuffers_thash_t)U(argv[5])); printf("%ld\n", r ? (long)r : 1000000L + (long)bs); return 0; }
    return 3;
}
