#include LEAF_SRC
#include "leaf_wit_common.h"
static int wit_emitted;
static int wit_emit(void *ctx, const flatcc_iovec_t *iov, int iov_count, flatbuffers_soffset_t offset, size_t len)
{ (void)ctx; (void)iov; (void)iov_count; (void)offset; (void)len; wit_emitted = 1; return 0; }
int main(int argc, char **argv)
{
    flatcc_builder_t B;
    iov_state_t iov;
    (void)argc;
    memset(&B, 0, sizeof(B)); memset(&iov, 0, sizeof(iov));
    B.emit = wit_emit;
    if (IS("alignup_uoffset")) { printf("%u\n", (unsigned)alignup_uoffset((uoffset_t)U(argv[3]), (size_t)U(argv[4]))); return 0; }
    if (IS("front_pad")) { B.emit_start = (flatcc_builder_ref_t)S(argv[3]); printf("%u\n", (unsigned)front_pad(&B, (uoffset_t)U(argv[4]), (uint16_t)U(argv[5]))); return 0; }
    if (IS("back_pad")) { B.emit_end = (flatcc_builder_ref_t)S(argv[3]); printf("%u\n", (unsigned)back_pad(&B, (uint16_t)U(argv[4]))); return 0; }
    /* guards: 1 = the call is refused before the emitter is called, 0 = it goes through (the return value alone does not
       tell: emit_back returns ref + 1, which is 0 for ref = -1) */
    if (IS("emit_front")) { B.emit_start = (flatcc_builder_ref_t)S(argv[3]); iov.len = (size_t)U(argv[4]); (void)emit_front(&B, &iov); printf("%d\n", !wit_emitted); return 0; }
    if (IS("emit_back")) { B.emit_end = (flatcc_builder_ref_t)S(argv[3]); iov.len = (size_t)U(argv[4]); (void)emit_back(&B, &iov); printf("%d\n", !wit_emitted); return 0; }
    return 3;
}
