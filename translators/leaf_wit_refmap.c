#include LEAF_SRC
#include "leaf_wit_common.h"
int main(int argc, char **argv)
{
    (void)argc;
    if (IS("_flatcc_refmap_hash")) { printf("%llu\n", (unsigned long long)_flatcc_refmap_hash((const void *)(size_t)U(argv[3]))); return 0; }
    if (IS("_flatcc_refmap_above_load_factor")) { printf("%llu\n", (unsigned long long)_flatcc_refmap_above_load_factor((size_t)U(argv[3]), (size_t)U(argv[4]))); return 0; }
    return 3;
}
