#!/usr/bin/env python3
"""T3 (C10): generated `<schema>_json_parser.h`  ->  TrieAst terms, plus the declared-name tables parsed
independently from the `.fbs`.

Two independent halves:
  * parse_header(text): recovers, for every parser function that contains a name trie, the decision code as a
    term of coq/Trie/TrieAst.v, purely from the regular statement shapes gen_trie / gen_prefix_trie emit.  A line
    that is not one of the known shapes is a TranslateError - never a guess.  Handlers are reduced to a key:
      table  : 2*id (+1 for the union type handler)      from flatcc_builder_table_add[_offset] / flatcc_json_parser_union*
      struct : byte offset                                from `struct_base + N`
      enum   : signed value                               from `*value = UINT64_C(V), *value_sign = S;`
      scope  : index of the target enum parser            from `buf = <CName>_parse_json_enum(`
  * parse_fbs(text): a small parser for the schema subset used by gen/c10_schemas and the random generator
    (namespace, enum, union, table, struct, root_type, attributes id/deprecated), computing the expected
    name -> key tables for every dictionary flatcc builds (tables, structs, enums/unions, local scopes, global scope).

emit_coq(...) writes coq/Generated/Tries_C10.v; emit_text(...) the same data for the extracted driver.
"""
import re, sys, os


class TranslateError(Exception):
    pass


# ----------------------------------------------------------------------------------------------- AST (python tuples)
# ('u',) ('goto', l) ('lt', c, t1, t2) ('eq', c, t1, t2) ('mask', m, tag, t1, t2) ('match', n, h, tf) ('adv', t) ('guard', l, tp, tr)

def coq_term(t, ind=2):
    k = t[0]
    if k == 'u': return 'TUnmatched'
    if k == 'goto': return '(TGoto %d)' % t[1]
    if k == 'lt': return '(TIfLt %d %s %s)' % (t[1], coq_term(t[2]), coq_term(t[3]))
    if k == 'eq': return '(TIfEq %d %s %s)' % (t[1], coq_term(t[2]), coq_term(t[3]))
    if k == 'mask': return '(TIfMask %d %d %s %s)' % (t[1], t[2], coq_term(t[3]), coq_term(t[4]))
    if k == 'match': return '(TMatch %d%%nat %s %s)' % (t[1], '(%d)' % t[2], coq_term(t[3]))
    if k == 'adv': return '(TAdvance %s)' % coq_term(t[1])
    if k == 'guard': return '(TGuard %d %s %s)' % (t[1], coq_term(t[2]), coq_term(t[3]))
    raise TranslateError('bad term %r' % (t,))


def sexp(t):
    k = t[0]
    if k == 'u': return 'u'
    if k == 'goto': return '(goto %d)' % t[1]
    if k == 'lt': return '(lt %d %s %s)' % (t[1], sexp(t[2]), sexp(t[3]))
    if k == 'eq': return '(eq %d %s %s)' % (t[1], sexp(t[2]), sexp(t[3]))
    if k == 'mask': return '(mask %d %d %s %s)' % (t[1], t[2], sexp(t[3]), sexp(t[4]))
    if k == 'match': return '(match %d %d %s)' % (t[1], t[2], sexp(t[3]))
    if k == 'adv': return '(adv %s)' % sexp(t[1])
    if k == 'guard': return '(guard %d %s %s)' % (t[1], sexp(t[2]), sexp(t[3]))
    raise TranslateError('bad term %r' % (t,))


def names_text(names):
    """names: list of (bytes, key) -> 'hex:key,hex:key' ('-' when empty)"""
    return ','.join('%s:%d' % (n.hex(), k) for n, k in names) or '-'


def names_coq(names):
    return '[' + '; '.join('([%s], (%d))' % ('; '.join(str(b) for b in n), k) for n, k in names) + ']'


# ----------------------------------------------------------------------------------------------- header parser
_cmt = re.compile(r'/\*.*?\*/')
RE_LT = re.compile(r'^if \(w < 0x([0-9a-f]+)\) \{$')
RE_EQ = re.compile(r'^if \(w == 0x([0-9a-f]+)\) \{$')
RE_MASK = re.compile(r'^if \(\(w & 0x([0-9a-f]+)\) == 0x([0-9a-f]+)\) \{$')
RE_MATCH = re.compile(r'^buf = flatcc_json_parser_match_(symbol|constant|scope)\(ctx, \(mark = buf\), end, (\d+)(, aggregate)?\);$')
RE_GOTO = re.compile(r'^goto pfguard(\d+);$')
RE_GOTOEND = re.compile(r'^goto endpfguard(\d+);$')
RE_LABEL = re.compile(r'^pfguard(\d+):$')
RE_ENDLABEL = re.compile(r'^endpfguard(\d+):$')
L_ADV1 = 'buf += 8;'
L_PART = 'w = flatcc_json_parser_symbol_part(buf, end);'
L_UNM_FIELD = 'buf = flatcc_json_parser_unmatched_symbol(ctx, buf, end);'
L_UNM_RET = 'return unmatched;'

RE_FN = re.compile(r'^static const char \*(\w+?)_(parse_json_table|parse_json_struct_inline|parse_json_enum|json_parser_enum)(_layer\d+)?\(flatcc_json_parser_t \*ctx, const char \*buf, const char \*end,?(.*)$')


def _brace_delta(line):
    """net brace count of a C line ignoring braces inside character / string literals"""
    s = re.sub(r"'(\\.|[^'\\])'", "''", line)
    s = re.sub(r'"(\\.|[^"\\])*"', '""', s)
    return s.count('{') - s.count('}')


class _P:
    def __init__(self, lines, kind, fname, cname_index):
        self.l, self.i, self.kind, self.fname, self.cidx = lines, 0, kind, fname, cname_index

    def err(self, what):
        ctx = ' | '.join(self.l[max(0, self.i - 2):self.i + 3])
        raise TranslateError('%s: %s at statement %d: %s' % (self.fname, what, self.i, ctx))

    def peek(self):
        return self.l[self.i] if self.i < len(self.l) else None

    def take(self):
        x = self.peek()
        if x is None: self.err('unexpected end of function')
        self.i += 1
        return x

    def expect(self, s):
        x = self.take()
        if x != s:
            self.i -= 1
            self.err('expected `%s`, found `%s`' % (s, x))

    def seq(self):
        t = self.stmt()
        m = RE_GOTOEND.match(self.peek() or '')
        if m:
            lab = int(m.group(1)); self.take()
            m2 = RE_LABEL.match(self.take())
            if not m2 or int(m2.group(1)) != lab: self.i -= 1; self.err('expected pfguard%d:' % lab)
            tr = self.seq()
            m3 = RE_ENDLABEL.match(self.take())
            if not m3 or int(m3.group(1)) != lab: self.i -= 1; self.err('expected endpfguard%d:' % lab)
            self.expect('(void)0;')
            return ('guard', lab, t, tr)
        return t

    def ifelse(self):
        a = self.seq(); self.expect('} else {'); b = self.seq(); self.expect('}')
        return a, b

    def stmt(self):
        x = self.take()
        m = RE_LT.match(x)
        if m:
            a, b = self.ifelse(); return ('lt', int(m.group(1), 16), a, b)
        m = RE_EQ.match(x)
        if m:
            a, b = self.ifelse(); return ('eq', int(m.group(1), 16), a, b)
        m = RE_MASK.match(x)
        if m:
            a, b = self.ifelse(); return ('mask', int(m.group(1), 16), int(m.group(2), 16), a, b)
        m = RE_MATCH.match(x)
        if m:
            what, n, agg = m.group(1), int(m.group(2)), m.group(3)
            want = {'table': 'symbol', 'struct': 'symbol', 'enum': 'constant', 'scope': 'scope'}[self.kind]
            if what != want or (what == 'constant') != bool(agg):
                self.i -= 1; self.err('match function %s not the one of a %s trie' % (what, self.kind))
            y = self.take()
            if y not in ('if (mark != buf) {', 'if (buf != mark) {'): self.i -= 1; self.err('expected the matched test')
            depth, body = 1, []
            while True:
                z = self.take()
                if z == '} else {' and depth == 1: break
                depth += _brace_delta(z)
                if depth < 1: self.i -= 1; self.err('handler block closed without else')
                body.append(z)
            h = self.handler_key(body)
            tf = self.seq(); self.expect('}')
            return ('match', n, h, tf)
        if x == L_ADV1:
            self.expect(L_PART)
            return ('adv', self.seq())
        if x == L_UNM_FIELD:
            if self.kind not in ('table', 'struct'): self.i -= 1; self.err('field unmatched action in %s trie' % self.kind)
            return ('u',)
        if x == L_UNM_RET:
            if self.kind not in ('enum', 'scope'): self.i -= 1; self.err('`return unmatched` in %s trie' % self.kind)
            return ('u',)
        m = RE_GOTO.match(x)
        if m: return ('goto', int(m.group(1)))
        self.i -= 1
        self.err('unrecognised statement `%s`' % x)

    def handler_key(self, body):
        txt = '\n'.join(body)
        if self.kind == 'table':
            keys = []
            for m in re.finditer(r'flatcc_builder_table_add\(ctx->ctx, (\d+), \d+, \d+\)', txt): keys.append(2 * int(m.group(1)))
            for m in re.finditer(r'flatcc_builder_table_add_offset\(ctx->ctx, (\d+)\)', txt): keys.append(2 * int(m.group(1)))
            for m in re.finditer(r'flatcc_json_parser_union(?:_vector)?\(ctx, buf, end, \d+, (\d+), h_unions, \w+\)', txt): keys.append(2 * int(m.group(1)))
            for m in re.finditer(r'flatcc_json_parser_union_type(?:_vector)?\(ctx, buf, end, \d+, (\d+), h_unions, symbolic_parsers, ', txt): keys.append(2 * int(m.group(1)) + 1)
        elif self.kind == 'struct':
            keys = [int(m.group(1)) for m in re.finditer(r'\(size_t\)struct_base \+ (\d+)\)', txt)]
        elif self.kind == 'enum':
            keys = []
            for m in re.finditer(r'\*value = UINT64_C\((\d+)\), \*value_sign = ([01]);', txt):
                v = int(m.group(1)); keys.append(-v if m.group(2) == '1' else v)
            if len(body) != 1: self.err('enum handler is not a single assignment: %r' % body)
        else:
            # `buf = X_parse_json_enum(ctx, buf, end, ...);`  or, with the inner result tested,
            # `buf = X_parse_json_enum(ctx, (mark = buf), end, ...);` `if (buf == mark) return unmatched;`
            keys = []
            m = re.match(r'^buf = (\w+)_parse_json_enum\(ctx, (buf|\(mark = buf\)), end, value_type, value, aggregate\);$', body[0]) if body else None
            if not m: self.err('scope handler is not a call of an enum parser: %r' % body)
            if m.group(1) not in self.cidx: self.err('scope handler calls unknown enum parser %s' % m.group(1))
            keys.append(self.cidx[m.group(1)])
            if m.group(2) == 'buf':
                if len(body) != 1: self.err('scope handler is not a single call: %r' % body)
            elif body[1:] not in (['if (buf == mark) return unmatched;'], ['if (buf == mark) {', 'return unmatched;', '}']):
                self.err('scope handler: unrecognised test of the inner result: %r' % body)
        if len(keys) != 1:
            self.err('handler does not identify exactly one target (found %r) in: %s' % (keys, txt[:300]))
        return keys[0]


def parse_header(text, cname_index):
    """-> dict function-name -> {'kind': table|struct|enum|scope, 'trie': term or None (empty dictionary)}"""
    raw = text.split('\n')
    out = {}
    i = 0
    while i < len(raw):
        m = RE_FN.match(raw[i])
        if not m or raw[i].rstrip().endswith(';'):
            i += 1; continue
        # prototype continuation lines end with ';' : skip those
        j = i
        while j < len(raw) and raw[j].strip() != '{' and not raw[j].rstrip().endswith(';'): j += 1
        if j >= len(raw) or raw[j].strip() != '{':
            i = j + 1; continue
        fname = m.group(1) + '_' + m.group(2) + (m.group(3) or '')
        if m.group(3) and not m.group(1).endswith('_global'): raise TranslateError('%s: layered trie outside a global scope parser' % fname)
        kind = {'parse_json_table': 'table', 'parse_json_struct_inline': 'struct', 'parse_json_enum': 'enum', 'json_parser_enum': 'scope'}[m.group(2)]
        # function body: up to the line that is exactly '}'
        k = j + 1
        body = []
        while k < len(raw) and raw[k] != '}':
            body.append(raw[k]); k += 1
        stripped = [_cmt.sub('', b).strip() for b in body]
        stripped = [b for b in stripped if b != '']
        first = [n for n, b in enumerate(stripped) if b == L_PART]
        if not first and kind == 'scope' and stripped and stripped[0] == 'const char *k;':
            # a global scope parser whose names are spread over layers: tries each layer function in turn
            n, ok = len(stripped) - 2, stripped[-1] == 'return buf;'
            for L in range(n):
                ok = ok and stripped[1 + L] == 'if (buf != (k = %s_layer%d(ctx, buf, end, value_type, value, aggregate))) return k;' % (fname, L)
            if not ok or n < 2: raise TranslateError('%s: unrecognised layer chain: %r' % (fname, stripped))
            out[fname] = {'kind': kind, 'trie': None, 'layers': n}
            i = k + 1; continue
        if not first:
            # empty dictionary: the generator emits no trie
            markers = ('buf = flatcc_json_parser_unmatched_symbol(ctx, buf, end);', 'return buf;')
            if not any(b.startswith(markers[0]) or b.startswith('return buf;') for b in stripped):
                raise TranslateError('%s: neither a trie nor an empty-dictionary body' % fname)
            if kind == 'table':
                # a table without names still has to step over the opening quote of every member name before it calls the
                # unmatched action
                j0 = [n for n, b in enumerate(stripped) if b == L_UNM_FIELD]
                if len(j0) != 1 or stripped[j0[0] - 1] != 'buf = flatcc_json_parser_symbol_start(ctx, buf, end);':
                    raise TranslateError('%s: unmatched action of a table without names is not preceded by symbol_start' % fname)
            out[fname] = {'kind': kind, 'trie': None}
            i = k + 1; continue
        start = first[0] + 1
        if kind in ('table', 'struct'):
            ends = [n for n, b in enumerate(stripped) if b.startswith('buf = flatcc_json_parser_object_end(ctx, buf, end')]
            if len(ends) != 1: raise TranslateError('%s: object_end not found once' % fname)
            stop = ends[0]
            if stripped[first[0] - 1] != 'buf = flatcc_json_parser_symbol_start(ctx, buf, end);':
                raise TranslateError('%s: symbol_part not preceded by symbol_start' % fname)
        else:
            if stripped[-1] != 'return buf;': raise TranslateError('%s: does not end in return buf' % fname)
            stop = len(stripped) - 1
            if 'const char *unmatched = buf;' not in stripped[:first[0]]:
                raise TranslateError('%s: `unmatched` is not the entry buf' % fname)
        p = _P(stripped[start:stop], kind, fname, cname_index)
        t = p.seq()
        if p.i != len(p.l): p.err('trailing statements after the trie')
        out[fname] = {'kind': kind, 'trie': t}
        i = k + 1
    return out


# ----------------------------------------------------------------------------------------------- .fbs side
SCALARS = {'bool': 1, 'byte': 1, 'ubyte': 1, 'int8': 1, 'uint8': 1, 'short': 2, 'ushort': 2, 'int16': 2, 'uint16': 2,
           'int': 4, 'uint': 4, 'int32': 4, 'uint32': 4, 'float': 4, 'float32': 4, 'long': 8, 'ulong': 8, 'int64': 8,
           'uint64': 8, 'double': 8, 'float64': 8}


def parse_fbs(text):
    """one file -> {'decls': [ {kind, ns (list), name, ...} ], 'root': name, 'includes': [file names]}"""
    text = re.sub(r'//[^\n]*', '', text)
    toks = re.findall(r'"[^"]*"|[A-Za-z_][A-Za-z0-9_.]*|-?\d+|[{}:;,=()\[\]]', text)
    pos = [0]

    def peek(): return toks[pos[0]] if pos[0] < len(toks) else None

    def take(x=None):
        t = peek()
        if t is None or (x is not None and t != x): raise TranslateError('fbs: expected %r, found %r at token %d' % (x, t, pos[0]))
        pos[0] += 1
        return t

    def attrs():
        a = {}
        if peek() == '(':
            take('(')
            while peek() != ')':
                k = take()
                v = True
                if peek() == ':': take(':'); v = take()
                a[k] = v
                if peek() == ',': take(',')
            take(')')
        return a

    ns, decls, root, includes = [], [], None, []
    while peek() is not None:
        t = take()
        if t == 'include':
            includes.append(os.path.basename(take().strip('"'))); take(';')
        elif t == 'namespace':
            if peek() == ';': ns = []
            else: ns = take().split('.')
            take(';')
        elif t == 'root_type':
            root = take(); take(';')
        elif t == 'enum':
            name = take(); take(':'); base = take(); ea = attrs(); take('{')
            syms, nxt = [], 0
            while peek() != '}':
                s = take()
                if peek() == '=': take('='); nxt = int(take())
                # (bit_flags): the declared number is the bit position
                syms.append((s, (1 << nxt) if 'bit_flags' in ea else nxt)); nxt += 1
                if peek() == ',': take(',')
            take('}')
            decls.append({'kind': 'enum', 'ns': list(ns), 'name': name, 'base': base, 'syms': syms, 'bit_flags': 'bit_flags' in ea})
        elif t == 'union':
            name = take(); attrs(); take('{')
            syms, nxt = [('NONE', 0)], 1
            while peek() != '}':
                s = take()
                syms.append((s.split('.')[-1], nxt)); nxt += 1
                if peek() == ',': take(',')
            take('}')
            decls.append({'kind': 'union', 'ns': list(ns), 'name': name, 'syms': syms})
        elif t in ('table', 'struct'):
            name = take(); attrs(); take('{')
            fields = []
            while peek() != '}':
                f = take(); take(':')
                vec = False
                if peek() == '[':
                    take('['); ty = take(); take(']'); vec = True
                else:
                    ty = take()
                default = None
                if peek() == '=': take('='); default = take()
                a = attrs(); take(';')
                fields.append({'name': f, 'type': ty, 'vec': vec, 'default': default, 'attrs': a})
            take('}')
            decls.append({'kind': t, 'ns': list(ns), 'name': name, 'fields': fields})
        else:
            raise TranslateError('fbs: unexpected token %r' % t)
    return {'decls': decls, 'root': root, 'includes': includes}


BUNDLE_MARK = '//// file: '


def split_bundle(text, base):
    """A schema of several files is carried as one text: the root file first, every other file after a line
    `//// file: <name>.fbs`.  -> ordered dict file base name -> text"""
    files, cur = {base: []}, base
    for line in text.split('\n'):
        if line.startswith(BUNDLE_MARK):
            cur = line[len(BUNDLE_MARK):].strip()
            if cur.endswith('.fbs'): cur = cur[:-4]
            files[cur] = []
        else: files[cur].append(line)
    return {k: '\n'.join(v) + '\n' for k, v in files.items()}


def join_bundle(files, base):
    return files[base] + ''.join('%s%s.fbs\n%s' % (BUNDLE_MARK, k, v) for k, v in files.items() if k != base)


def parse_bundle(text, base):
    """-> {'decls' (every declaration of every file, tagged 'file'), 'root', 'files' [base names], 'visible' {file: set of files}}"""
    files = split_bundle(text, base)
    per = {k: parse_fbs(v) for k, v in files.items()}
    decls = []
    order, seen = [], set()
    def visit(f):
        if f in seen: return
        seen.add(f)
        for i in per[f]['includes']:
            i = i[:-4] if i.endswith('.fbs') else i
            if i not in per: raise TranslateError('fbs: included file %s is not part of the schema bundle' % i)
            visit(i)
        order.append(f)
    visit(base)
    for f in order:
        for d in per[f]['decls']:
            d['file'] = f; decls.append(d)
    vis = {}
    def closure(f):
        if f in vis: return vis[f]
        vis[f] = {f}
        for i in per[f]['includes']:
            i = i[:-4] if i.endswith('.fbs') else i
            vis[f] |= closure(i)
        return vis[f]
    for f in order: closure(f)
    return {'decls': decls, 'root': per[base]['root'], 'files': order, 'visible': vis}


def cname(d):
    return '_'.join(d['ns'] + [d['name']])


def resolve(schema, ns, ty):
    """type reference resolution as the flatbuffers schema language does: innermost namespace outwards"""
    parts = ty.split('.')
    for k in range(len(ns), -1, -1):
        want_ns, want = ns[:k] + parts[:-1], parts[-1]
        for d in schema['decls']:
            if d['name'] == want and d['ns'] == want_ns: return d
    return None


def dictionaries(schema, basename):
    """Expected name tables.  -> (cnames, dict function-name -> {'kind', 'names': [(bytes, key)], 'decl': ...})"""
    enums = [d for d in schema['decls'] if d['kind'] in ('enum', 'union')]
    cnames = sorted(cname(d) for d in enums)
    cidx = {c: i for i, c in enumerate(cnames)}
    out = {}
    for d in schema['decls']:
        if d['kind'] == 'table':
            names, nid = [], 0
            for f in d['fields']:
                ref = None if f['type'] in SCALARS or f['type'] == 'string' else resolve(schema, d['ns'], f['type'])
                if ref is None and f['type'] not in SCALARS and f['type'] != 'string':
                    raise TranslateError('fbs: unresolved type %s' % f['type'])
                is_union = ref is not None and ref['kind'] == 'union'
                if 'id' in f['attrs']:
                    fid = int(f['attrs']['id'])
                else:
                    fid = nid + (1 if is_union else 0)
                nid = fid + 1
                f['id'], f['is_union'], f['ref'] = fid, is_union, ref
                if 'deprecated' in f['attrs']: continue
                names.append((f['name'].encode(), 2 * fid))
                if is_union: names.append((f['name'].encode() + b'_type', 2 * fid + 1))
            out[cname(d) + '_parse_json_table'] = {'kind': 'table', 'names': names, 'decl': d}
        elif d['kind'] == 'struct':
            names, off, maxal = [], 0, 1
            for f in d['fields']:
                if f['type'] in SCALARS: sz = SCALARS[f['type']]
                else:
                    ref = resolve(schema, d['ns'], f['type'])
                    if ref is None or ref['kind'] != 'enum': raise TranslateError('fbs: struct member type %s not supported by the translator' % f['type'])
                    sz = SCALARS[ref['base']]
                if f['vec']: raise TranslateError('fbs: vector in struct')
                off = (off + sz - 1) // sz * sz
                f['offset'], f['size'] = off, sz
                maxal = max(maxal, sz)
                if 'deprecated' not in f['attrs']: names.append((f['name'].encode(), off))
                off += sz
            d['size'] = (off + maxal - 1) // maxal * maxal
            out[cname(d) + '_parse_json_struct_inline'] = {'kind': 'struct', 'names': names, 'decl': d}
        else:
            out[cname(d) + '_parse_json_enum'] = {'kind': 'enum', 'names': [(s.encode(), v) for s, v in d['syms']], 'decl': d}
    # scope dictionaries, per generated file F: one local scope dictionary per namespace (the enum / union types of that
    # namespace VISIBLE to F: declared in F or in a file F includes, directly or not), one global dictionary (all visible)
    allns = {tuple(d['ns']) for d in schema['decls']} | {()}
    for F in schema.get('files', [basename]):
        vis = schema.get('visible', {}).get(F, {F})
        venums = [d for d in enums if d.get('file', F) in vis]
        for ns in allns:
            fn = '%s_local_%sjson_parser_enum' % (F, ''.join(x + '_' for x in ns))
            out[fn] = {'kind': 'scope', 'names': [(d['name'].encode(), cidx[cname(d)]) for d in venums if tuple(d['ns']) == ns],
                       'decl': None, 'ns': list(ns), 'file': F}
        gnames = [('.'.join(d['ns'] + [d['name']]).encode(), cidx[cname(d)]) for d in venums]
        lay = scope_layers([n for n, _ in gnames])
        gfn = '%s_global_json_parser_enum' % F
        if max(lay.values(), default=0) == 0:
            out[gfn] = {'kind': 'scope', 'names': gnames, 'decl': None, 'global': True, 'file': F}
        else:
            # a qualified enum name that is also the namespace of another enum is looked up in a later layer
            nl = max(lay.values()) + 1
            out[gfn] = {'kind': 'scope', 'names': [], 'decl': None, 'global': True, 'file': F, 'layers': nl}
            for L in range(nl):
                out['%s_layer%d' % (gfn, L)] = {'kind': 'scope', 'names': [(n, k) for n, k in gnames if lay[n] == L], 'decl': None,
                                                'global': True, 'file': F, 'layer': L}
    for fn, d in out.items():
        if d.get('decl') is not None: d['file'] = d['decl'].get('file', basename)
    return cnames, out


def scope_layers(names):
    """layer of every qualified name: 0 unless name + '.' is a prefix of another name, then one more than the deepest such"""
    lay = {}
    for n in sorted(names, key=lambda x: -len(x)):
        deeper = [lay[m] for m in names if m.startswith(n + b'.')]
        lay[n] = 1 + max(deeper) if deeper else 0
    return lay


def translate(fbs_text, headers, basename):
    """fbs_text: the schema (bundle); headers: {file base name: text of <file>_json_parser.h} (or the text, for a single file).
    -> (schema, entries {'fn', 'kind', 'dotted', 'trie' (term or None), 'names' [(bytes,key)], 'decl', 'file'}) in a stable order.
    Raises TranslateError when headers and schema do not describe the same set of dictionaries."""
    if isinstance(headers, str): headers = {basename: headers}
    schema = parse_bundle(fbs_text, basename)
    cnames, dicts = dictionaries(schema, basename)
    cidx = {c: i for i, c in enumerate(cnames)}
    hdr = {}
    for F in schema['files']:
        if F not in headers: raise TranslateError('no generated parser header for schema file %s' % F)
        h = parse_header(headers[F], cidx)
        for fn, v in h.items():
            if fn in hdr: raise TranslateError('parser function %s generated twice' % fn)
            v['file'] = F; hdr[fn] = v
    # a generator that does not separate a qualified enum name from the namespace of the same name emits ONE global trie
    # over all names: translate it as such (the checker then rejects the trie, the dynamic tier finds the rejected input)
    for F in schema['files']:
        gfn = '%s_global_json_parser_enum' % F
        d = dicts.get(gfn)
        if d and d.get('layers') and gfn in hdr and hdr[gfn].get('layers') is None and hdr[gfn]['trie'] is not None:
            for L in range(d['layers']):
                d['names'] += dicts.pop('%s_layer%d' % (gfn, L))['names']
            d['names'].sort(); d['unlayered'] = d.pop('layers')
    res = []
    for fn in sorted(dicts):
        d = dicts[fn]
        if fn not in hdr:
            if d['kind'] == 'scope' and not d['names']:
                continue      # scopes without enums that the generator did not visit
            raise TranslateError('parser function %s expected from the schema is not in the generated header' % fn)
        h = hdr[fn]
        if h['kind'] != d['kind']: raise TranslateError('%s: kind mismatch' % fn)
        if h['file'] != d['file']: raise TranslateError('%s: generated into %s, expected in %s' % (fn, h['file'], d['file']))
        if h.get('layers') != d.get('layers'):
            raise TranslateError('%s: layer chain of %s layers generated, %s expected' % (fn, h.get('layers'), d.get('layers')))
        if h['trie'] is None and d['names']:
            raise TranslateError('%s: schema declares %d names but the generated parser has no trie' % (fn, len(d['names'])))
        if h['trie'] is not None and not d['names']:
            raise TranslateError('%s: generated parser has a trie for an empty dictionary' % fn)
        dotted = any(b'.' in n for n, _ in d['names'])
        res.append({'fn': fn, 'kind': d['kind'], 'dotted': dotted, 'trie': h['trie'], 'names': d['names'], 'decl': d.get('decl'),
                    'global': d.get('global', False), 'ns': d.get('ns'), 'file': d['file'], 'layers': d.get('layers'), 'layer': d.get('layer'), 'unlayered': d.get('unlayered')})
    extra = [fn for fn in hdr if fn not in dicts and not fn.endswith('_parse_json_struct')]
    if extra: raise TranslateError('generated header has parser functions the schema does not explain: %s' % extra)
    return schema, res


def emit_coq(per_schema):
    """per_schema: list of (schema basename, entries) -> text of coq/Generated/Tries_C10.v"""
    o = ['(* GENERATED by translators/trie_h_to_coq.py from the parsers the current flatcc emits for gen/c10_schemas/*.fbs.',
         '   Do not edit: checks/c10.py rewrites this file on every run. *)',
         'From Flatcc.Trie Require Import TrieAst.', 'Local Open Scope Z_scope.', '']
    groups = {'fields': [], 'enums': [], 'scopes_local': [], 'scopes_global': []}
    for base, entries in per_schema:
        k = 0
        for e in entries:
            if e['trie'] is None: continue
            tn, nn = 't_%s_%d' % (base, k), 'n_%s_%d' % (base, k)
            o.append('(* %s.fbs: %s (%s dictionary, %d names) *)' % (base, e['fn'], e['kind'], len(e['names'])))
            o.append('Definition %s : trie :=\n  %s.' % (tn, coq_term(e['trie'])))
            o.append('Definition %s : names :=\n  %s.' % (nn, names_coq(e['names'])))
            g = {'table': 'fields', 'struct': 'fields', 'enum': 'enums'}.get(e['kind']) or ('scopes_global' if e['global'] else 'scopes_local')
            groups[g].append('(%s, %s)' % (tn, nn))
            k += 1
    o.append('')
    doc = {'fields': 'table and struct field dictionaries (terminator test: flatcc_json_parser_match_symbol)',
           'enums': 'enum and union symbol dictionaries (flatcc_json_parser_match_constant)',
           'scopes_local': 'local scope dictionaries: enum type names of one namespace (flatcc_json_parser_match_scope)',
           'scopes_global': 'global scope dictionaries: namespace-qualified enum type names, may contain dots (flatcc_json_parser_match_scope)'}
    for g in ('fields', 'enums', 'scopes_local', 'scopes_global'):
        o.append('(* %s *)' % doc[g])
        o.append('Definition tries_%s : list (trie * names) :=\n  [' % g + ';\n   '.join(groups[g]) + '].')
    o.append('')
    return '\n'.join(o)


if __name__ == '__main__':
    # usage: trie_h_to_coq.py schema.fbs schema_json_parser.h  -> prints the s-expression form
    fbs, hdr = sys.argv[1], sys.argv[2]
    base = os.path.basename(fbs)[:-4]
    _, ents = translate(open(fbs).read(), open(hdr).read(), base)   # single-file schemas only
    for e in ents:
        print(e['fn'], e['kind'], 'dotted' if e['dotted'] else 'ident')
        print('  ', sexp(e['trie']) if e['trie'] else '(empty)')
        print('  ', names_text(e['names']))
