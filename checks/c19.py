"""C19 - Number to text and back is exact and range-checked.

1. Re-check Properties_C19.vo (theorems about Num/NumModel.v: digit-pair printers, accumulation loop with the exact
   wrap test, flatcc_json_parser_integer, coerce_*, typed parsers, print->parse identity; float oracle sanity).
2. Correspondence: extracted model (modelrun_num) vs. /repo's CURRENT code (harness/num_diff.c: pprintint.h,
   pparseint.h, json_parser.c, flatcc_json_parser.h, generated parser/printer for gen/c19num.fbs), same request lines.
3. Independently of the model, every case is judged against the property's own statement with python big integers
   (value denoted by the text vs. result / error), so that a defect shows up as a property violation with the failing
   text as replay.
4. Floats: "testing with a verified oracle": C print -> C parse round trips must be bit exact and the printed text must
   lie in the round-to-nearest-even interval of the value according to the extracted Coq oracle `rounds_to`
   (cross-checked against python's correctly rounded float()). Grisu3 itself is not modelled.
"""
import os, re, json
from . import lib
from . import c19_util as U

# KNOWN FINDING (not fixed in /repo, see known_findings.txt and design.d/C19.md): grisu3_diy_fp_encode_double declares a
# truncated result exact for doubles with biased exponent 2..11 (2^-1021 <= |x| < 2^-1011). Only failures inside that
# class get the specific keys below; every other float/double failure keeps its generic key.
GRISU_CLASS = 'grisu3-diy-fp:biased-exp-2..11'


def in_grisu_class(bits64):
    return 2 <= ((bits64 >> 52) & 0x7ff) <= 11


def parse_double_key(text, want_bits, got_bits):
    """key for "parse of this decimal text gave got_bits, correct rounding gives want_bits". The result of
    grisu3_diy_fp_encode_double is only ever used when the value is below 2^-1010 (biased exponent <= 11; everything else
    goes to strtod), and there it shows three symptoms of the known finding; anything else keeps the generic key."""
    generic = 'corr:parse-double-rounding'
    be = (want_bits >> 52) & 0x7ff
    # pure fractions with leading zeros after the point (0.000ddd): own class (defect fixed in /repo 301c0cf: the zeros were
    # counted as digits); the known low-range one-ulp symptom below keeps its own key, everything else of this shape goes here
    lfz = LFZ_RE.match(text) is not None
    mask0 = (1 << 63) - 1
    if lfz and not (be <= 11 and abs(got_bits - want_bits) == 1 and (got_bits & mask0) != 0 and (want_bits & mask0) != 0):
        return 'parse-double:leading-fraction-zeros'
    if be > 11: return generic
    mask = (1 << 63) - 1
    # exactly one ulp between two NON-ZERO values of the same sign (a value flushed to zero is never the known finding)
    if abs(got_bits - want_bits) == 1 and (got_bits & mask) != 0 and (want_bits & mask) != 0 and (got_bits >> 63) == (want_bits >> 63):
        return generic + ':grisu3-diy-fp:' + ('biased-exp-2..11' if be >= 2 else 'denormal-one-ulp')
    # surplus fractional zeros counted into the exponent (grisu3_parse_double): needs >= 20 mantissa digits and a fraction;
    # the result is the value times a power of ten
    mant = re.split('[eE]', text.lstrip('-'))[0]
    if '.' in mant and len(mant.replace('.', '').lstrip('0')) >= 20:
        w, g = U.bits2d(want_bits & ~(1 << 63)), U.bits2d(got_bits & ~(1 << 63))
        if w > 0 and g > w and (got_bits >> 63) == (want_bits >> 63) and U.finite64(got_bits):
            import math
            k = int(round(math.log10(g / w)))
            if k >= 1 and abs(g - w * 10.0 ** k) <= max(2e-323 * 10.0 ** k, 1e-9 * g):
                return generic + ':grisu3-surplus-fraction-zeros:below-2^-1010'
    return generic


LFZ_RE = re.compile(r'^-?0\.0+[0-9]')


def grisu_ub_key(fname, lno, msg):
    """UBSan reports inside grisu3_diy_fp_encode_double (located by the function's line range in the current sources) are keyed
    by function + kind of report; reports anywhere else keep file:line keys"""
    try:
        src = open(os.path.join(lib.REPO, 'include', 'flatcc', 'portable', fname)).read().split('\n')
    except OSError:
        return None
    start = end = None
    for n, l in enumerate(src, 1):
        if start is None and l.startswith('static int grisu3_diy_fp_encode_double('): start = n
        elif start is not None and l.startswith('}'): end = n; break
    if start is None or end is None or not (start <= lno <= end): return None
    if msg.startswith('shift exponent -1 is negative'): kind = 'shift'
    elif msg.startswith('shift exponent') and 'too large' in msg: kind = 'shift-too-large'
    elif msg.startswith('signed integer overflow'): kind = 'int-overflow'
    else: return None
    return 'grisu3-parse-ub:diy_fp_encode_double-' + kind


TERMS = [b',', b'}', b']', b' ', b'\n', b'\t', b'\r', b'']       # what the JSON scanner allows after a number; b'' = end of buffer
TWO64 = 2 ** 64


def run(ctx):
    rng = ctx.rng
    import threading
    # Print Assumptions over the 64 theorems takes ~40 s of single-core time: it runs beside the builds and the case runs
    thm = {}

    def theorems():
        try: thm['ok'] = ctx.check_theorems()
        except Exception as e: thm['exc'] = e
    tth = threading.Thread(target=theorems); tth.start()

    # ------------------------------------------------------------------ build the implementation side
    gdir = os.path.join(ctx.bdir, 'gen'); os.makedirs(gdir, exist_ok=True)
    # unaligned loads are a documented platform assumption of the JSON parser (FLATCC_ALLOW_UNALIGNED_ACCESS);
    # signed overflow / shift reports are made recoverable so that the run continues and the reports are collected
    san_extra = ['-fno-sanitize=alignment', '-fsanitize-recover=signed-integer-overflow,shift']
    hsrc = os.path.join(lib.ROOT, 'harness', 'num_diff.c')
    incs = ['-I' + gdir, '-I' + os.path.join(lib.ROOT, 'harness')]
    srcs = ['src/runtime/builder.c', 'src/runtime/emitter.c', 'src/runtime/refmap.c', 'src/runtime/json_parser.c', 'src/runtime/json_printer.c']
    built, berr = {}, []

    def guarded(f):
        def g():
            try: f()
            except Exception as e: berr.append(e)
        return g

    def b_gen():
        rc, out = ctx.gen(os.path.join(lib.ROOT, 'gen', 'c19num.fbs'), gdir, opts=('-a', '--json'))
        if rc != 0: raise lib.BuildFailure('flatcc -a --json gen/c19num.fbs', out)
    # (ctx.rt_objs puts the sanitizer group after the extra flags, which would re-enable what is switched off here)
    def b_san(): built['san'] = U.compile_objs(ctx, srcs, 'rt_san', True, ['-DNDEBUG'], san_extra)
    def b_fast(): built['fast'] = U.compile_objs(ctx, srcs, 'rt_fast', False, ['-DNDEBUG'], [], opt='-O2')
    th = [threading.Thread(target=guarded(f)) for f in (b_gen, b_san, b_fast)]
    for t in th: t.start()
    for t in th: t.join()
    if berr: raise berr[0]
    exes = {}
    def l_san(): exes['san'] = ctx.cc([hsrc] + built['san'], os.path.join(ctx.bdir, 'num_diff_san'), san=True, defs=['-DNDEBUG'], incs=incs, extra=san_extra)
    def l_fast(): exes['fast'] = ctx.cc([hsrc] + built['fast'], os.path.join(ctx.bdir, 'num_diff_fast'), san=False, defs=['-DNDEBUG'], incs=incs, opt='-O2')
    th = [threading.Thread(target=guarded(f)) for f in (l_san, l_fast)]
    for t in th: t.start()
    for t in th: t.join()
    if berr: raise berr[0]
    exe_san, exe_fast = exes['san'], exes['fast']
    model = ctx.modelrun('num')

    both = []          # (klass, line): same request to model and implementation
    impl_only = []     # (klass, line)
    doc_expect = {}    # json document line -> (family key, expected dict or None for "must be rejected", description)

    def add(klass, line): both.append((klass, line))

    # ------------------------------------------------------------------ replay of a recorded violation
    if ctx.replay_in:
        rep = json.load(open(ctx.replay_in))
        for l in rep.get('harness_lines') or [rep.get('harness_line')]:
            if not l: continue
            if l.split()[0] in ('rtf', 'rtd', 'sd', 'sf', 'jd', 'jf', 'json', 'phex', 'phtyp', 'isweep', 'irand64', 'fsweep32', 'frand64'):
                impl_only.append(('replay', l))
            else:
                add('replay', l)
        ctx.log('replay of %s: %d line(s)' % (ctx.replay_in, len(both) + len(impl_only)))
    else:
        gen_cases(ctx, rng, add, impl_only, doc_expect)

    # ------------------------------------------------------------------ run
    blines = [l for _, l in both]
    mres, _ = U.par_lines(model, blines)
    ilines = blines + [l for _, l in impl_only]
    ires, ierrs = U.par_lines(exe_san, ilines)
    if len(mres) != len(blines) or len(ires) != len(ilines):
        raise lib.CheckError('line protocol out of step: %d/%d model, %d/%d impl' % (len(mres), len(blines), len(ires), len(ilines)))
    for k, l in both + impl_only: ctx.count(l, klass=k)
    ctx.log('lines: %d model+impl, %d impl only' % (len(blines), len(impl_only)))

    oracle_q = []     # (description, model request, expected reply, violation key, replay dict)
    for (klass, line), m, i in zip(both, mres, ires):
        judge_both(ctx, klass, line, m, i)
    for (klass, line), i in zip(impl_only, ires[len(blines):]):
        judge_impl_only(ctx, klass, line, i, doc_expect, oracle_q)

    # verified float oracle on the texts the C code printed / parsed
    if oracle_q:
        ores, _ = U.par_lines(model, [q[1] for q in oracle_q])
        nd = 0
        for qi, ((desc, req, want, key, rp), got) in enumerate(zip(oracle_q, ores)):
            ctx.count(req, klass='float_oracle')
            f = req.split()
            pyv = None
            if f[0] == 'rt' and (qi % 4 == 0 or got != want):      # python re-implementation: every 4th query and every failing one
                pyv = '1' if U.py_rounds_to(int(f[2]), int(f[1]), int(f[3]), int(f[4]), int(f[5])) else '0'
                if pyv != got:
                    ctx.violation('corr:float-oracle', 'extracted oracle %s and its python re-implementation %s disagree on `%s`' % (got, pyv, req), {'model_line': req})
            if got != want:
                nd += 1
                rp = dict(rp); rp.update({'oracle_request': req, 'oracle_reply': got, 'oracle_expected': want})
                ctx.violation(key, desc, rp)
        ctx.log('float oracle queries: %d, disagreements: %d' % (len(oracle_q), nd))

    # sanitizer reports collected from the recoverable checks
    for shard, err in ierrs:
        for fname, lno, msg in U.ubsan_reports(err):
            if msg.startswith('negation of'): key = 'signed-min-negation-ub'
            elif fname == 'grisu3_parse.h' and grisu_ub_key(fname, lno, msg): key = grisu_ub_key(fname, lno, msg)
            else: key = 'ubsan:%s:%d' % (fname, lno)
            if any(v['key'] == key for v in ctx.violations): continue
            trig = U.find_trigger(exe_san, shard, fname, lno)
            ctx.violation(key, 'undefined behaviour reported by UBSan at %s:%d: %s (input: %s)' % (fname, lno, msg, trig),
                          {'harness_line': trig, 'ubsan': '%s:%d: %s' % (fname, lno, msg)})

    # ------------------------------------------------------------------ large sweeps inside the harness (plain -O2 build)
    if not ctx.replay_in:
        sweeps(ctx, rng, exe_fast, exe_san, model)

    tth.join()
    if 'exc' in thm: raise thm['exc']
    if not thm.get('ok'):
        ctx.broken_obligation('Properties_C19.vo', getattr(ctx, 'broken', {}))

    ctx.sample({'case': both[0][1], 'model': mres[0], 'impl': ires[0]} if both else {'case': ilines[0], 'impl': ires[0]})
    for want_cmd in ('jtyp', 'pi', 'coerce'):
        for (k, l), m, i in zip(both, mres, ires):
            if l.startswith(want_cmd) and k != 'exhaustive16':
                ctx.sample({'case': l, 'model': m, 'impl': i}); break
    for (k, l), i in zip(impl_only, ires[len(blines):]):
        if l.startswith('rtd'):
            ctx.sample({'case': l, 'impl': i, 'text': U.unhx(i.split()[0]).decode('latin1')}); break

    ctx.trusted = lib.DEFAULT_TRUSTED + [
        'python big-integer / Fraction oracles in checks/c19.py (value denoted by a decimal text, type ranges)',
        'libc snprintf as the reference inside the in-harness sweeps (isweep/irand64); python float() as cross-check of double parsing',
        'Num/FloatOracle.v rounds_to: definition of round-to-nearest-even intervals (sanity theorems and IEEE corner-case examples only)']
    ctx.assumptions = ['little-endian x86-64 host, two\'s complement, IEEE-754 binary32/binary64 float/double',
                       'float parsers are given one readable byte after the text (contract of grisu3_parse_double: "reads up to len + 1 bytes")',
                       'glibc strtod (the fallback of grisu3_parse) is part of the implementation under test',
                       'print_* callers provide a buffer of at least the printed length + 1']
    ctx.finish_args = dict(
        rule='cases: exhaustive 8- and 16-bit values (print, parse back with both parsers); 32/64-bit grid (10^k, 2^k +-1, type limits, '
             'every digit count, digit-pair patterns, pseudo-random); decimal texts up to 25 digits with leading zeros, signs, float characters '
             'and every terminator the JSON scanner allows (and end of buffer on exact-size heap blocks); coerce grid per type; whole JSON '
             'documents through the generated parser and printer; float/double round trips on boundary grid, powers of two and ten +-1 ulp, '
             'denormals, pseudo-random, judged by the extracted rounds_to oracle; in-harness sweeps (32-bit stride / full in thorough, all float32 '
             'patterns in thorough). distinct = distinct request lines; non-trivial = every line reaches the function under test',
        explanation='theorems of Properties_C19 re-checked; extracted model compared with the implementation line by line; every case judged '
                    'against the property statement with python big integers; floats: testing with a verified oracle (not a proof of Grisu3)')


# ====================================================================== case generation
def gen_cases(ctx, rng, add, impl_only, doc_expect):
    T = ctx.thorough
    # ---- exhaustive 8 and 16 bit: print, parse back with pparseint and the JSON typed parser
    for w in (8, 16):
        for n in range(2 ** w):
            s = n - 2 ** w if n >= 2 ** (w - 1) else n
            k = 'exhaustive%d' % w
            add(k, 'pu %d %d' % (w, n)); add(k, 'pi %d %d' % (w, s))
            tu, ts = str(n).encode(), str(s).encode()
            add(k, 'ptyp u%d %s' % (w, U.hx(tu))); add(k, 'ptyp i%d %s' % (w, U.hx(ts)))
            add(k, 'jtyp u%d %s' % (w, U.hx(tu + TERMS[n % 8]))); add(k, 'jtyp i%d %s' % (w, U.hx(ts + TERMS[(n >> 3) % 8])))
    # ---- 32 / 64 bit grid
    vals = set()
    for k in range(0, 21):
        for d in (-1, 0, 1): vals.add(10 ** k + d)
    for k in range(0, 65):
        for d in (-2, -1, 0, 1): vals.add(2 ** k + d)
    for digits in range(1, 21):
        for _ in range(200 if T else 25): vals.add(rng.randrange(10 ** (digits - 1), 10 ** digits))
        for pat in ('9' * digits, '1' + '0' * (digits - 1), ('90' * digits)[:digits], ('09' * digits)[1:digits + 1], ('10' * digits)[:digits], '5' * digits):
            vals.add(int(pat))
    for lo, hi in U.TYPES.values():
        for d in (-1, 0, 1): vals.add(abs(lo) + d); vals.add(hi + d)
    vals = sorted(v for v in vals if v >= 0)
    for w in (32, 64):
        for v in vals:
            if v < 2 ** w:
                add('grid%d' % w, 'pu %d %d' % (w, v))
                add('grid%d' % w, 'ptyp u%d %s' % (w, U.hx(str(v).encode())))
                add('grid%d' % w, 'jtyp u%d %s' % (w, U.hx(str(v).encode() + rng.choice(TERMS))))
            for s in (v, -v):
                if -2 ** (w - 1) <= s < 2 ** (w - 1):
                    add('grid%d' % w, 'pi %d %d' % (w, s))
                    add('grid%d' % w, 'ptyp i%d %s' % (w, U.hx(str(s).encode())))
                    add('grid%d' % w, 'jtyp i%d %s' % (w, U.hx(str(s).encode() + rng.choice(TERMS))))
    # ---- decimal texts: every typed parser, boundaries, >= 2^64 (wrap candidates), leading zeros, signs, float notation
    texts = set()
    mags = set()
    for lo, hi in U.TYPES.values():
        for d in (-2, -1, 0, 1, 2): mags.add(abs(lo) + d); mags.add(hi + d)
    for d in range(-3, 40): mags.add(TWO64 + d)
    for k in (19, 20, 21, 22, 24, 25): mags.add(10 ** k); mags.add(10 ** k - 1)
    for lead in range(1, 10): mags.add(lead * 10 ** 19); mags.add(lead * 10 ** 19 + rng.randrange(10 ** 19))
    mags.add(30000000000000000000)
    for _ in range(3000 if T else 400):
        nd = rng.choice([1, 2, 3, 5, 10, 15, 18, 19, 20, 20, 20, 20, 21, 21, 22, 23, 24, 25])
        mags.add(rng.randrange(10 ** (nd - 1), 10 ** nd))
    # numbers whose 64-bit wrap lands above the previous partial value (the case `x0 > x` cannot see)
    for _ in range(2000 if T else 300):
        x0 = rng.randrange(TWO64 // 10 + 1, 10 ** 19)
        d = rng.randrange(10)
        mags.add(x0 * 10 + d)
    mags = sorted(m for m in mags if m >= 0)
    for m in mags:
        s = str(m).encode()
        texts.add(s); texts.add(b'-' + s)
        if rng.random() < 0.15: texts.add(b'0' * rng.choice([1, 2, 7, 30]) + s)
        if rng.random() < 0.1: texts.add(b'-' + b'0' * rng.choice([1, 3]) + s)
    specials = [b'', b'-', b'--1', b'+1', b'- 1', b'-0', b'0', b'00', b'-00', b'000000000000000000000000000', b'-a', b'a', b' 1', b'1 ', b'true', b'false',
                b'truex', b'nul', b'0x10', b'1_000', b'1,2', b'12.', b'12.5', b'1e5', b'1E5', b'1e', b'12p3', b'12P', b'-1.0', b'-1e0', b'0.0', b'255.0', b'1.',
                b'18446744073709551615.0', b'18446744073709551616e0', b'9' * 25, b'9' * 40, b'1' + b'0' * 64, b'-' + b'9' * 25]
    for s in specials: texts.add(s)
    first = [b'30000000000000000000', b'-30000000000000000000', b'18446744073709551616', b'18446744073709551615']
    texts = first + sorted(texts - set(first))
    types = list(U.TYPES)
    for t in texts:
        term = rng.choice(TERMS)
        add('text_jint', 'jint ' + U.hx(t + term))
        add('text_pint', 'pint ' + U.hx(t))
        neg, digits, rest = U.split_int_text(t)
        near = []
        if digits:
            v = -int(digits) if neg else int(digits)
            near = [ty for ty, (lo, hi) in U.TYPES.items() if min(abs(v - lo), abs(v - hi)) <= 3]
        for ty in sorted(set(near + (types if (T or len(t) < 6 or t in specials) else rng.sample(types, 3)))):
            add('text_jtyp', 'jtyp %s %s' % (ty, U.hx(t + term)))
            add('text_ptyp', 'ptyp %s %s' % (ty, U.hx(t + (term if rng.random() < 0.3 else b''))))
        if t in specials or rng.random() < 0.05:
            add('text_jtyp', 'jtyp bool ' + U.hx(t + term))
    # ---- digit COUNT (1..25, with and without leading zeros) x every class of following character, all entry points and widths
    #      (a fast path keyed on the number of digits must not lose the overflow test or the trailing-character test)
    tails = [b'', b' ', b',', b']', b'}', b'\n', b'\t', b':', b'.', b'.5', b'.0', b'e', b'e5', b'e+5', b'e-5', b'E', b'E5', b'p', b'p3', b'P', b'P-3',
             b'x', b'a', b'L', b'_', b'-', b'+', b'"', b'\0']
    for nd in range(1, 26):
        variants = [str(rng.randrange(10 ** (nd - 1), 10 ** nd)), '1' + '0' * (nd - 1), '9' * nd,
                    ('%0' + str(nd) + 'd') % rng.randrange(0, min(128, 10 ** nd)), ('%0' + str(nd) + 'd') % rng.randrange(0, min(2 ** 31, 10 ** nd))]
        if nd >= 19: variants.append(str(min(10 ** nd - 1, max(10 ** (nd - 1), 18446744073709551615 + rng.choice([-1, 0, 1]))))[:nd] if nd == 20 else str(rng.randrange(10 ** (nd - 1), 10 ** nd)))
        for ds in dict.fromkeys(variants):
            for sg in (b'', b'-'):
                for tl in tails:
                    t = sg + ds.encode() + tl
                    add('count_x_tail', 'pint ' + U.hx(t)); add('count_x_tail', 'jint ' + U.hx(t))
                    for ty in (types if (T or tl[:1] in (b'.', b'e', b'E', b'p', b'P') or rng.random() < 0.25) else rng.sample(types, 2)):
                        add('count_x_tail', 'ptyp %s %s' % (ty, U.hx(t))); add('count_x_tail', 'jtyp %s %s' % (ty, U.hx(t)))
    # ---- hex entry points of pparseint.h (parse_hex_integer, parse_hex_<type>): implementation-side oracle only (python big
    #      integers; there is no Coq model of the hex parser). Significant digit count x leading zeros x first/second digit x sign.
    hexes = set()
    for nd in range(1, 21):
        reps = 12 if nd >= 15 else 3
        for _ in range(reps):
            hexes.add('%x' % rng.randrange(16 ** (nd - 1), 16 ** nd))
        hexes.add('f' * nd); hexes.add('1' + '0' * (nd - 1)); hexes.add('8' + '0' * (nd - 1)); hexes.add('7' + 'f' * (nd - 1))
        if nd >= 2:
            for d1 in range(1, 16):      # first digit d1, second digit >= d1: the wrapped value stays above the previous partial value
                d2 = rng.randrange(d1, 16)
                hexes.add('%x%x' % (d1, d2) + ''.join(rng.choice('0123456789abcdef') for _ in range(nd - 2)))
                if nd >= 16: hexes.add('%x%x' % (d1, d2) + '0' * (nd - 2)); hexes.add('%x' % d1 + 'f' * (nd - 1))
    for lo, hi in U.TYPES.values():
        for d in (-1, 0, 1, 2):
            hexes.add('%x' % (abs(lo) + d)); hexes.add('%x' % (hi + d))
    for v in (TWO64 - 1, TWO64, TWO64 + 1, TWO64 + 0x10, 2 * TWO64 - 1, 0x12000000000000000, 0x1FFFFFFFFFFFFFFFF, 0xFFFFFFFFFFFFFFFFF, 2 ** 63 - 1, 2 ** 63, 2 ** 63 + 1):
        hexes.add('%x' % v)
    hlines = []
    for h in sorted(hexes):
        forms = [h]
        if rng.random() < 0.5: forms.append('0' * rng.choice([1, 2, 3, 16, 20]) + h)
        for f in forms:
            for sg in ('', '-'):
                body = f.upper() if rng.random() < 0.3 else f
                t = (sg + rng.choice(['0x', '0x', '0X']) + body).encode() + rng.choice([b'', b'', b' ', b',', b';', b'}', b'g', b'x'])
                hlines.append(t)
    for t in [b'', b'-', b'0', b'0x', b'-0x', b'0xg', b'-0xg', b'x10', b'0x1.8', b'0x1p3', b'0x1P3', b'-0x1.', b'0xffffffffffffffff.8', b'0x10000000000000000p1',
              b'0x0', b'-0x0', b'0x00000000000000000000', b'0xFFFFFFFFFFFFFFFF', b'-0xFFFFFFFFFFFFFFFF', b'-0x8000000000000000', b'-0x8000000000000001', b'0x7fffffffffffffff',
              b'0x8000000000000000', b'12', b'-12', b'0b1']:
        hlines.append(t)
    for t in hlines:
        impl_only.append(('hex_text', 'phex ' + U.hx(t)))
        for ty in (types if (T or len(t) >= 17 or rng.random() < 0.3) else rng.sample(types, 2)):
            impl_only.append(('hex_text', 'phtyp %s %s' % (ty, U.hx(t))))
    # ---- coerce grid
    cvals = set([0, 1, 2, 2 ** 63 - 1, 2 ** 63, 2 ** 63 + 1, TWO64 - 1, TWO64 - 2])
    for lo, hi in U.TYPES.values():
        for d in (-2, -1, 0, 1, 2): cvals.add(abs(lo) + d); cvals.add(hi + d)
    for _ in range(200 if T else 40): cvals.add(rng.getrandbits(rng.choice([3, 8, 9, 16, 17, 32, 33, 63, 64])))
    for ty in types + ['bool']:
        for v in sorted(c for c in cvals if 0 <= c < TWO64):
            for ng in (0, 1): add('coerce', 'coerce %s %d %d' % (ty, ng, v))
    # ---- whole JSON documents through the generated parser and printer
    fields = {'u8': 'u8', 'i8': 'i8', 'u16': 'u16', 'i16': 'i16', 'u32': 'u32', 'i32': 'i32', 'u64': 'u64', 'i64': 'i64'}
    doc_texts = [t for t in texts if U.split_int_text(t)[1] and not t.startswith(b'-0') and not (t.startswith(b'0') and len(t) > 1)]
    for t in (doc_texts if T else rng.sample(doc_texts, min(len(doc_texts), 500))):
        neg, digits, rest = U.split_int_text(t)
        if rest not in (b'', b'.0', b'e0', b'.5', b'.'): continue
        v = -int(digits) if neg else int(digits)
        near = [ty for ty, (lo, hi) in U.TYPES.items() if min(abs(v - lo), abs(v - hi)) <= 3] or [rng.choice(types)]
        for ty in near:
            lo, hi = U.TYPES[ty]
            ws1, ws2 = rng.choice(['', ' ', '\n', '\t']), rng.choice(['', ' ', '\r\n', '\t '])
            doc = ('{%s"%s":%s' % (ws1, fields[ty], ws1)).encode() + t + ('%s}' % ws2).encode()
            line = 'json ' + U.hx(doc)
            okv = (lo <= v <= hi) and rest == b'' and not (neg and lo == 0)
            doc_expect[line] = ('json', ty, {fields[ty]: v} if okv else None, abs(v), 'field %s = %s' % (ty, t.decode('latin1')))
            impl_only.append(('json_doc', line))
    for nd in range(1, 26):
        for ds in (str(rng.randrange(10 ** (nd - 1), 10 ** nd)), ('%0' + str(nd) + 'd') % rng.randrange(1, min(100, 10 ** nd)) if nd > 1 else '7'):
            for tl in ('.5', '.0', 'e1', 'E1', 'e-1'):
                for ty in (types if T else rng.sample(types, 3)):
                    sg = '-' if (ty[0] == 'i' and rng.random() < 0.5) else ''
                    doc = ('{"%s":%s%s%s}' % (fields[ty], sg, ds, tl)).encode()
                    line = 'json ' + U.hx(doc)
                    doc_expect[line] = ('json', ty, None, 0, 'field %s = %s%s%s (fraction/exponent notation)' % (ty, sg, ds, tl))
                    impl_only.append(('json_doc_count_x_tail', line))
    # ---- union type codes given as NUMBERS ("u_type": 1, "uv_type": [1, 2]): an 8-bit field, same rule as ubyte: stored exactly or refused
    body_of = {1: '{"x":5}', 2: '{"y":5}'}
    ucodes = [0, 1, 2, 3, 100, 254, 255, 256, 257, 258, 259, 511, 512, 513, 514, 65536, 65537, 65538, 2 ** 32 + 1, 2 ** 32 + 2, TWO64 - 255, TWO64 + 1, TWO64 + 257,
              -1, -2, -255, -254, -256, -257]
    for _ in range(40 if T else 10): ucodes.append(rng.randrange(1, 2 ** rng.choice([9, 16, 24, 33, 62])) * 256 + rng.choice([1, 2]))
    uforms = [(str(c), c) for c in ucodes] + [('1e3', None), ('257.0', None), ('1.0', None), ('"257"', None), ('"1"', None), ('00257', 257), ('01', 1), ('-0', None), ('2e0', None)]
    for txt, code in uforms:
        fits = code is not None and 0 <= code <= 255
        b = body_of.get((code if code is not None else 1) % 256, '{}')
        docs = ['{"u_type":%s,"u":%s}' % (txt, b), '{"u":%s,"u_type": %s }' % (b, txt), '{"u_type":%s}' % txt]
        for doc in docs:
            line = 'json ' + U.hx(doc.encode())
            doc_expect[line] = ('jsonu', 'u_type', [code] if fits else None, abs(code) if code is not None else 0, 'union type code %s' % txt)
            impl_only.append(('json_union_type', line))
        for other in (1, 2):
            codes = [other, code] if rng.random() < 0.5 else [code, other]
            ts = [txt if c is code else str(c) for c in codes]
            bodies = [body_of.get((c if c is not None else 1) % 256, 'null') for c in codes]
            for doc in ('{"uv_type":[%s],"uv":[%s]}' % (','.join(ts), ','.join(bodies)), '{"uv":[%s],"uv_type":[%s]}' % (','.join(bodies), ', '.join(ts))):
                line = 'json ' + U.hx(doc.encode())
                doc_expect[line] = ('jsonu', 'uv_type', codes if fits else None, abs(code) if code is not None else 0, 'union type vector element %s' % txt)
                impl_only.append(('json_union_type', line))
    for _ in range(60 if T else 15):
        n = rng.randint(1, 6)
        xs = [rng.choice([0, 1, -1, 2 ** 31 - 1, -2 ** 31, rng.randrange(-2 ** 31, 2 ** 31)]) for _ in range(n)]
        sep = rng.choice([',', ', ', ' ,', ' , ', ',\n'])
        doc = ('{"vi32":[%s%s%s]}' % (rng.choice(['', ' ']), sep.join(str(x) for x in xs), rng.choice(['', ' ', '\n']))).encode()
        line = 'json ' + U.hx(doc); doc_expect[line] = ('json', 'vi32', {'vi32': xs}, 0, 'vector'); impl_only.append(('json_doc', line))
        ys = [rng.choice([0, TWO64 - 1, rng.getrandbits(64)]) for _ in range(n)]
        doc = ('{"vu64":[%s]}' % sep.join(str(y) for y in ys)).encode()
        line = 'json ' + U.hx(doc); doc_expect[line] = ('json', 'vu64', {'vu64': ys}, 0, 'vector'); impl_only.append(('json_doc', line))
    # ---- floats: round trips of targeted bit patterns
    f32 = set(); f64 = set()
    for be in range(0, 255):
        for fr in (0, 1, 2, 0x7fffff, 0x7ffffe, 0x400000, rng.getrandbits(23), rng.getrandbits(23)): f32.add((be << 23) | fr)
    for be in range(0, 2047):
        for fr in (0, 1, (1 << 52) - 1, rng.getrandbits(52)) + ((2, (1 << 52) - 2, 1 << 51, rng.getrandbits(52)) if (T or be < 70 or be > 1980 or 1000 < be < 1100) else ()):
            f64.add((be << 52) | fr)
    for k in range(-330, 310):    # nearest doubles to powers of ten, +- 1 ulp
        try: d = float('1e%d' % k)
        except OverflowError: continue
        b = U.d2bits(d)
        if U.finite64(b):
            for dd in (-1, 0, 1):
                if 0 <= b + dd and U.finite64(b + dd): f64.add(b + dd)
    for k in range(-46, 39):
        b = U.f2bits(float('1e%d' % k)) if k >= -45 else 1
        for dd in (-1, 0, 1):
            if 0 <= b + dd and U.finite32(b + dd): f32.add(b + dd)
    for _ in range(4000 if T else 600):
        f32.add(rng.getrandbits(31)); f64.add(rng.getrandbits(63))
        f64.add(rng.getrandbits(52))                               # denormal
        f64.add((rng.randrange(1, 16) << 52) | rng.getrandbits(52))  # lowest binades
    # bottom of the range, always, both signs: least denormals, largest denormal, DBL_MIN / FLT_MIN +- a few ulps
    for b in [1, 2, 3, 4, 5, 7, 8] + [0x000fffffffffffff + d for d in range(-3, 4)] + [0x0010000000000000 + d for d in range(0, 4)]:
        f64.add(b); f64.add(b | (1 << 63))
    for b in [1, 2, 3, 4, 5, 7, 8] + [0x007fffff + d for d in range(-3, 4)] + [0x00800000 + d for d in range(0, 4)]:
        f32.add(b); f32.add(b | 0x80000000)
    f64.add(32242815376328263)           # 1.6509595210255934e-306: the recorded replay of the known grisu3 finding
    f64.add(9223372069417456422)         # -1.6088101828e-313: its (rare) denormal variant
    f32 = sorted(b for b in f32 if U.finite32(b)); f64 = sorted(b for b in f64 if U.finite64(b))
    f64.remove(32242815376328263); f64.insert(0, 32242815376328263)
    for b in f32:
        impl_only.append(('float_rt', 'rtf %d' % b))
        if rng.random() < 0.3: impl_only.append(('float_rt', 'rtf %d' % (b | 0x80000000)))
    for b in f64:
        impl_only.append(('double_rt', 'rtd %d' % b))
        if rng.random() < 0.3: impl_only.append(('double_rt', 'rtd %d' % (b | (1 << 63))))
    # ---- floats: decimal texts to the double / float parsers (correct rounding, overflow to error)
    ftexts = set(['0', '-0', '0.0', '1', '-1', '0.1', '0.5', '1e0', '1E0', '1e+0', '1e-0', '123456789012345678', '1e22', '1e23', '9007199254740993', '9007199254740995',
                  '1.7976931348623157e308', '1.7976931348623158e308', '1.7976931348623159e308', '1e308', '1e309', '1e400', '-1e400', '4.9e-324', '5e-324', '2.4703282292062327e-324',
                  '2.4703282292062328e-324', '2.5e-324', '1e-400', '3.4028234e38', '3.4028235e38', '3.4028236e38', '3.5e38', '1e39', '1.4e-45', '7e-46', '7.1e-46', '1e-46',
                  '8.408273894908684e-308', '1.6509595210255934e-306', '8981.02305e-317', '5329518.9303924732580e-318',
                  # spellings around the least denormal 2^-1074 = 4.94065645841246544e-324 and its half 2.470328229206232720e-324
                  '-5e-324', '-4.9e-324', '4.94065645841246544e-324', '4.9406564584124654e-324', '49.4e-325', '494e-326', '0.5e-323', '1e-323', '-1e-323', '1.5e-323',
                  '9.9e-324', '7.4e-324', '7.5e-324', '3e-324', '2.5e-324', '2.47032822920623272e-324', '2.47032822920623273e-324', '-2.4703282292062328e-324',
                  '2.4e-324', '1e-324', '9e-325', '2.2250738585072011e-308', '2.2250738585072009e-308', '1.4012984643e-45', '7.1e-46', '7.0e-46', '1.17549435e-38', '1.17549429e-38', '6.665684465322710663031095e-307', '2.2250738585072014e-308', '2.225073858507201e-308', '0.000001', '100', '1000000', '123.456', '0.30000000000000004'])
    for _ in range(3000 if T else 500):
        nd = rng.choice([1, 2, 5, 9, 15, 16, 17, 17, 18, 19, 20, 21, 25])
        ds = str(rng.randrange(10 ** (nd - 1), 10 ** nd))
        if nd > 1 and rng.random() < 0.6:
            p = rng.randrange(1, nd); ds = ds[:p] + '.' + ds[p:]
        e = rng.choice([None, None, rng.randint(-30, 30), rng.randint(-340, 310), rng.randint(-320, -290), rng.randint(290, 310)])
        s = ('-' if rng.random() < 0.2 else '') + ds + ('' if e is None else rng.choice(['e', 'E']) + (rng.choice(['', '+']) if e >= 0 else '') + str(e))
        ftexts.add(s)
    for nd in range(1, 26):
        for ds in (str(rng.randrange(10 ** (nd - 1), 10 ** nd)), '9' * nd, '1' + '0' * (nd - 1), ('9007199254740993' + '0' * 25)[:nd], ('18446744073709551615' + '9' * 10)[:nd]):
            for ex in (None, 0, 1, -1, 22 - nd, 23 - nd, 22, 23, -22, -23, 308 - nd, -324):
                ftexts.add(ds + ('' if ex is None else 'e%d' % ex))
            if nd > 1:
                p = rng.randrange(1, nd)
                for ex in (None, 21, 22, 23, -5):
                    ftexts.add(ds[:p] + '.' + ds[p:] + ('' if ex is None else 'e%d' % ex))
    for s in ('1e22', '1e23', '9007199254740992', '9007199254740993', '9007199254740991e22', '9007199254740992e22', '9007199254740993e22', '9007199254740991e23',
              '8.98846567431158e307', '1e-22', '1e-23', '123456789012345678e-18', '1234567890123456789e-19', '12345678901234567890e-20', '123456789012345678901e-21'):
        ftexts.add(s)
    # ---- class leading-fraction-zeros: 0.<z zeros><1..17 digits>[e<+-k>], both signs (the zeros must scale the value, not count as digits)
    lfz_texts = set()
    for z in list(range(0, 31)) + [100, 300] + list(range(320, 346)) + [349, 400, 900]:
        dss = ['1', '5', '9', '12345678901234567', str(rng.randrange(1, 10 ** rng.randint(1, 17))), str(rng.randrange(10 ** 16, 10 ** 17))]
        if T: dss += [str(rng.randrange(1, 10 ** rng.randint(1, 17))) for _ in range(6)]
        for ds in dss:
            base = '0.' + '0' * z + ds
            exps = [None, rng.choice([None, 'e-5', 'e5', 'e+22', 'e23', 'e-22', 'e-23', 'e%d' % z, 'e+%d' % (z + 1), 'e%d' % (z + len(ds)), 'E%d' % max(0, z - 300), 'e-%d' % rng.randint(1, 340)])]
            for ex in dict.fromkeys(exps):
                t = ('-' if rng.random() < 0.25 else '') + base + (ex or '')
                if len(t) < 990: lfz_texts.add(t)
    for s in sorted(lfz_texts):
        term = rng.choice([b',', b'}', b']', b' ', b'\n'])
        impl_only.append(('leading_fraction_zeros', 'sd ' + U.hx(s.encode() + term)))
        impl_only.append(('leading_fraction_zeros', 'jd ' + U.hx(s.encode() + term)))
        if rng.random() < 0.5:
            impl_only.append(('leading_fraction_zeros', 'sf ' + U.hx(s.encode() + term)))
            impl_only.append(('leading_fraction_zeros', 'jf ' + U.hx(s.encode() + term)))
    for s in rng.sample(sorted(lfz_texts), 40):
        doc = ('{"d": %s}' % s).encode()
        line = 'json ' + U.hx(doc); doc_expect[line] = ('jsonf', 'd', s, 0, 'field d = %s' % s[:60]); impl_only.append(('leading_fraction_zeros', line))
    for s in sorted(ftexts):
        term = rng.choice([b',', b'}', b']', b' ', b'\n'])
        impl_only.append(('double_text', 'sd ' + U.hx(s.encode() + term)))
        impl_only.append(('double_text', 'jd ' + U.hx(s.encode() + term)))
        if rng.random() < 0.5:
            impl_only.append(('float_text', 'sf ' + U.hx(s.encode() + term)))
            impl_only.append(('float_text', 'jf ' + U.hx(s.encode() + term)))
    for s in sorted(rng.sample(sorted(ftexts), 60)):
        for fld in ('d', 'f'):
            doc = ('{"%s": %s}' % (fld, s)).encode()
            line = 'json ' + U.hx(doc); doc_expect[line] = ('jsonf', fld, s, 0, 'field %s = %s' % (fld, s)); impl_only.append(('json_doc', line))


# ====================================================================== judging
def viol(ctx, key, what, line, model=None, impl=None, extra=None):
    rp = {'harness_line': line, 'model': model, 'impl': impl}
    try:
        f = line.split()
        if f[0] in ('jint', 'pint', 'sd', 'sf', 'jd', 'jf', 'json'): rp['text'] = U.unhx(f[1]).decode('latin1')
        elif f[0] in ('jtyp', 'ptyp'): rp['text'] = U.unhx(f[2]).decode('latin1')
    except Exception:
        pass
    if extra: rp.update(extra)
    ctx.nviol_calls = getattr(ctx, 'nviol_calls', 0) + 1
    ctx.violation(key, what, rp)


def judge_both(ctx, klass, line, m, i):
    f = line.split()
    cmd = f[0]
    if i.startswith('CRASH'):
        viol(ctx, 'crash:%s' % cmd, 'sanitizer abort / crash in `%s`: %s' % (line[:100], i[:300]), line, m, i); return
    pv = None
    if cmd in ('pu', 'pi'):
        n = int(f[2]); s = str(n).encode()
        want = '%d %s' % (len(s), U.hx(s + b'\0'))
        if i != want:
            pv = ('print:%s%s' % (cmd, f[1]), 'print_%sint%s(%d) left %r (returned %s), canonical decimal is %r' % ('u' if cmd == 'pu' else '', f[1], n, U.unhx(i.split()[1]) if len(i.split()) > 1 else i, i.split()[0], s))
    elif cmd in ('jint', 'pint', 'jtyp', 'ptyp'):
        ty = f[1] if cmd in ('jtyp', 'ptyp') else None
        text = U.unhx(f[-1])
        if ty != 'bool':
            pv = prop_int_parse(cmd, ty, text, i)
    elif cmd == 'coerce':
        pv = prop_coerce(f[1], int(f[2]), int(f[3]), i)
    if pv:
        viol(ctx, pv[0], pv[1], line, m, i)
    elif m != i:
        viol(ctx, 'corr:%s' % cmd, 'model and implementation disagree on `%s`: model %s, implementation %s' % (line[:140], m, i), line, m, i)


def prop_int_parse(cmd, ty, text, irep):
    """the property's own reading of an integer text vs. what the implementation answered; None = consistent"""
    neg, digits, rest = U.split_int_text(text)
    if not digits: return None                      # not an integer text: the property says nothing
    mag = int(digits); v = -mag if neg else mag
    fam = 'json' if cmd[0] == 'j' else 'parse'
    cty = ('uint' + ty[1:] if ty[0] == 'u' else 'int' + ty[1:]) if ty else ''
    fn = {'jint': 'flatcc_json_parser_integer', 'pint': 'parse_integer', 'jtyp': 'flatcc_json_parser_%s' % cty, 'ptyp': 'parse_%s' % cty}[cmd]
    floaty = rest[:1] in (b'.', b'e', b'E')
    other_reject = fam == 'parse' and rest[:1] in (b'p', b'P')      # pparseint.h also refuses hex-float exponents
    ok = irep.startswith('OK')
    shown = text[:60].decode('latin1')
    consumed_want = len(digits) + (1 if neg else 0)
    if ty is None:
        if ok:
            _, ineg, x, k = irep.split()
            if floaty: return ('%s-integer-accepts-float-notation' % fam, '%s accepted "%s" (fraction/exponent notation) as an integer' % (fn, shown))
            if mag >= TWO64: return ('%s-integer-wrap' % fam, '%s("%s"): the text denotes %d >= 2^64 but %s was returned without overflow error' % (fn, shown, mag, x))
            if int(x) != mag or int(ineg) != int(neg) or int(k) != consumed_want:
                return ('%s-integer-wrong-value' % fam, '%s("%s") returned sign %s value %s consumed %s' % (fn, shown, ineg, x, k))
        elif mag < TWO64 and not floaty and not other_reject:
            return ('%s-integer-rejects-valid' % fam, '%s("%s") = %s although the value fits 64 bits' % (fn, shown, irep))
        return None
    lo, hi = U.TYPES[ty]
    if ok:
        _, val, k = irep.split()
        if floaty: return ('%s-integer-accepts-float-notation' % fam, '%s accepted "%s" (fraction/exponent notation) as an integer' % (fn, shown))
        if not (lo <= v <= hi):
            key = '%s-integer-wrap' % fam if mag >= TWO64 else '%s-narrowing:%s' % (fam, ty)
            return (key, '%s("%s"): the text denotes %d, outside [%d, %d], but %s was stored without overflow/underflow error' % (fn, shown, v, lo, hi, val))
        if int(val) != v or int(k) != consumed_want:
            return ('%s-wrong-value:%s' % (fam, ty), '%s("%s") stored %s (consumed %s), the text denotes %d' % (fn, shown, val, k, v))
    elif lo <= v <= hi and not floaty and not other_reject and not (neg and lo == 0):
        return ('%s-rejects-valid:%s' % (fam, ty), '%s("%s") = %s although %d lies within the type' % (fn, shown, irep, v))
    return None


HEX_RE = re.compile(rb'^(-?)0[xX]([0-9a-fA-F]*)(.*)$', re.S)


def prop_hex_parse(cmd, ty, text, irep):
    """pparseint.h hex parsers against the property (exact big integers): a text [-]0x<hex digits> denoting a value outside the
    target type (or >= 2^64) must give OVERFLOW / UNDERFLOW, never a wrapped value; '.', 'p', 'P' after the digits (hex float
    notation) must not be accepted; a value inside the type written with at most 16 hex digits must be accepted."""
    m = HEX_RE.match(text)
    if not m or not m.group(2): return None          # not a hex integer text: the property says nothing
    neg, digits, rest = bool(m.group(1)), m.group(2), m.group(3)
    mag = int(digits, 16); v = -mag if neg else mag
    cty = ('uint' + ty[1:] if ty[0] == 'u' else 'int' + ty[1:]) if ty else ''
    fn = 'parse_hex_integer' if ty is None else 'parse_hex_%s' % ('uint' if ty == 'u32' else cty)
    floaty = rest[:1] in (b'.', b'p', b'P')
    ok = irep.startswith('OK')
    shown = text[:60].decode('latin1')
    consumed_want = len(digits) + 2 + (1 if neg else 0)
    if irep.startswith('ODD') or irep.startswith('CRASH'):
        return ('parse-hex-odd', '%s("%s") = %s' % (fn, shown, irep))
    if ty is None:
        if ok:
            _, ineg, x, k = irep.split()
            if floaty: return ('parse-hex-integer-accepts-float-notation', '%s accepted "%s" (hex fraction/exponent notation) as an integer' % (fn, shown))
            if mag >= TWO64: return ('parse-hex-integer-wrap', '%s("%s"): the text denotes %d >= 2^64 but %s was returned without overflow error' % (fn, shown, mag, x))
            if int(x) != mag or int(ineg) != int(neg) or int(k) != consumed_want:
                return ('parse-hex-integer-wrong-value', '%s("%s") returned sign %s value %s consumed %s' % (fn, shown, ineg, x, k))
        elif mag < TWO64 and len(digits) <= 16 and not floaty:
            return ('parse-hex-integer-rejects-valid', '%s("%s") = %s although the value fits 64 bits' % (fn, shown, irep))
        return None
    lo, hi = U.TYPES[ty]
    if ok:
        _, val, k = irep.split()
        if floaty: return ('parse-hex-integer-accepts-float-notation', '%s accepted "%s" (hex fraction/exponent notation) as an integer' % (fn, shown))
        if not (lo <= v <= hi):
            key = 'parse-hex-integer-wrap' if mag >= TWO64 else 'parse-hex-narrowing:%s' % ty
            return (key, '%s("%s"): the text denotes %d, outside [%d, %d], but %s was stored without overflow/underflow error' % (fn, shown, v, lo, hi, val))
        if int(val) != v or int(k) != consumed_want:
            return ('parse-hex-wrong-value:%s' % ty, '%s("%s") stored %s (consumed %s), the text denotes %d' % (fn, shown, val, k, v))
    elif lo <= v <= hi and len(digits) <= 16 and not floaty and not (neg and lo == 0):
        return ('parse-hex-rejects-valid:%s' % ty, '%s("%s") = %s although %d lies within the type' % (fn, shown, irep, v))
    return None


def prop_coerce(ty, neg, value, irep):
    if ty == 'bool': return None
    lo, hi = U.TYPES[ty]
    v = -value if neg else value
    if irep.startswith('OK'):
        got = int(irep.split()[1])
        if not (lo <= v <= hi):
            return ('coerce-narrowing:%s' % ty, 'flatcc_json_parser_coerce_%s(sign=%d, value=%d) stored %d: %d is outside [%d, %d] and must be rejected' % (ty, neg, value, got, v, lo, hi))
        if got != v:
            return ('coerce-wrong-value:%s' % ty, 'coerce_%s(sign=%d, value=%d) stored %d instead of %d' % (ty, neg, value, got, v))
    elif lo <= v <= hi and not (neg and lo == 0):
        return ('coerce-rejects-valid:%s' % ty, 'coerce_%s(sign=%d, value=%d) = %s although %d lies within the type' % (ty, neg, value, irep, v))
    return None


def judge_impl_only(ctx, klass, line, i, doc_expect, oracle_q):
    f = line.split()
    cmd = f[0]
    if i.startswith('CRASH'):
        viol(ctx, 'crash:%s' % cmd, 'sanitizer abort / crash in `%s`: %s' % (line[:100], i[:300]), line, None, i); return
    if cmd in ('rtf', 'rtd'):
        w = 32 if cmd == 'rtf' else 64
        bits = int(f[1]); r = i.split()
        text = U.unhx(r[0]).decode('latin1')
        pbits, pk, jb, jk = r[1], r[2], r[3], r[4]
        name = 'float' if w == 32 else 'double'
        val = U.bits2f(bits) if w == 32 else U.bits2d(bits)
        if int(pbits) != bits or int(pk) != len(text):
            rkey = '%s-roundtrip' % name
            m63 = (1 << 63) - 1
            if (w == 64 and int(pk) == len(text) and abs(int(pbits) - bits) == 1 and ((bits >> 52) & 0x7ff) <= 11
                    and (int(pbits) & m63) != 0 and (bits & m63) != 0 and (int(pbits) >> 63) == (bits >> 63)):
                rkey += ':' + (GRISU_CLASS if in_grisu_class(bits) else 'grisu3-diy-fp:denormal-one-ulp')
            viol(ctx, rkey, 'print_%s(bits %d = %r) = "%s", parse_%s gives bits %s (consumed %s of %d): print then parse is not the identity'
                 % (name, bits, val, text, name, pbits, pk, len(text)), line, None, i, {'text': text})
        elif jb != str(bits) or int(jk) != len(text):
            viol(ctx, '%s-roundtrip-json' % name, 'print_%s(bits %d = %r) = "%s", flatcc_json_parser_%s gives %s (consumed %s)' % (name, bits, val, text, name, jb, jk), line, None, i, {'text': text})
        parts = U.dec_parts(text)
        if parts is None:
            viol(ctx, 'print-%s-format' % name, 'print_%s(bits %d) printed "%s", not a plain decimal number' % (name, bits, text), line, None, i)
        else:
            ng, m, e = parts
            desc = 'print_%s(bits %d = %r) printed "%s", which does not round to that value (verified oracle rounds_to%d)' % (name, bits, val, text, w)
            oracle_q.append((desc, 'rt %d %d %d %d %d' % (w, bits, ng, m, e), '1', 'print-%s-text' % name, {'harness_line': line, 'text': text}))
            if w == 32:     # the printer prints (double)f: the text must round to that double as well
                oracle_q.append((desc + ' [as double]', 'rt 64 %d %d %d %d' % (U.d2bits(val), ng, m, e), '1', 'print-float-text', {'harness_line': line, 'text': text}))
            # python's own correctly rounded conversion as an independent cross-check of the expected bits
            pyb = U.d2bits(float(text)) if w == 64 else U.f2bits(float(text))
            if pyb != bits:
                viol(ctx, 'print-%s-text' % name, desc + ' [python float() gives bits %d]' % pyb, line, None, i, {'text': text})
        return
    if cmd in ('sd', 'jd', 'sf', 'jf'):
        w = 64 if cmd[1] == 'd' else 32
        raw = U.unhx(f[1]); text = raw[:-1].decode('latin1')
        parts = U.dec_parts(text)
        if parts is None: return
        ng, m, e = parts
        try: d = float(text)
        except (OverflowError, ValueError): d = float('-inf') if ng else float('inf')
        if w == 64:
            over = d in (float('inf'), float('-inf')); want_bits = None if over else U.d2bits(d)
        else:
            over = abs(d) >= 3.4028235677973366e38; want_bits = None if over else U.f2bits(d)
        okr = i.startswith('OK')
        name = {'sd': 'parse_double', 'sf': 'parse_float', 'jd': 'flatcc_json_parser_double', 'jf': 'flatcc_json_parser_float'}[cmd]
        if over:
            # out of range must be reported: the portable parsers return an infinity (parse_float: and buf), the JSON parsers an overflow error
            # float targets (the narrower type): must be refused. double targets: the portable parser returns an infinity by
            # design and flatcc_json_parser_double passes it on; the property does not constrain that, only a finite result is wrong
            if cmd in ('jf', 'sf') and okr:
                viol(ctx, 'float-overflow-accepted', '%s("%s") = %s: the value is outside the finite range of float and must be rejected' % (name, text, i), line, None, i)
            elif cmd in ('sd', 'jd') and okr:
                b = int(i.split()[1])
                if U.finite64(b):
                    viol(ctx, 'float-overflow-accepted', '%s("%s") gave finite bits %d for an out-of-range value' % (name, text, b), line, None, i)
            return
        if not okr:
            viol(ctx, 'float-rejects-valid', '%s("%s") = %s although the value is finite in the type' % (name, text, i), line, None, i); return
        _, b, k = i.split()
        if int(k) != len(text):
            viol(ctx, 'corr:float-consumed', '%s("%s") consumed %s of %d characters' % (name, text, k, len(text)), line, None, i); return
        if w == 64:
            oracle_q.append(('%s("%s") = bits %s, but the text does not round (to nearest even) to that double' % (name, text, b),
                             'rt 64 %s %d %d %d' % (b, ng, m, e), '1',
                             parse_double_key(text, want_bits, int(b)), {'harness_line': line, 'text': text, 'python_float_bits': want_bits}))
        elif int(b) != want_bits:
            # float = (float)(double) by design; judged against the same two-step rounding
            viol(ctx, 'parse-double:leading-fraction-zeros' if LFZ_RE.match(text) else 'corr:parse-float-rounding',
                 '%s("%s") = bits %s, two-step rounding gives %d' % (name, text[:80], b, want_bits), line, None, i)
        return
    if cmd in ('phex', 'phtyp'):
        pv = prop_hex_parse(cmd, f[1] if cmd == 'phtyp' else None, U.unhx(f[-1]), i)
        if pv: viol(ctx, pv[0], pv[1], line, None, i, {'text': U.unhx(f[-1]).decode('latin1')})
        return
    if cmd == 'json':
        exp = doc_expect.get(line)
        if exp is None: return
        fam, ty, want, mag, desc = exp
        doc = U.unhx(f[1]).decode('latin1')
        if fam == 'jsonu':
            # union type code(s): `want` is the list of codes that fit 8 bits (then: refused, or stored exactly) or None (must be refused)
            names = {0: 'NONE', 1: 'A', 2: 'B'}
            if not i.startswith('OK'): return
            printed = U.unhx(i.split()[1]).decode('latin1')
            if want is None:
                key = 'json-integer-wrap' if mag >= TWO64 else 'json-narrowing:union-type'
                viol(ctx, key, 'generated parser accepted %s (%s does not fit the 8-bit union type or is not an integer) and stored %s' % (doc, desc, printed), line, None, i)
                return
            try: got = json.loads(printed).get(ty, None)
            except ValueError:
                viol(ctx, 'json-doc-print', 'printer output is not JSON: %s' % printed, line, None, i); return
            if ty == 'u_type':
                okv = got in (want[0], names.get(want[0])) or (want[0] == 0 and got is None)
            else:
                okv = isinstance(got, list) and len(got) == len(want) and all(g in (w, names.get(w)) for g, w in zip(got, want))
            if not okv:
                viol(ctx, 'json-wrong-value:union-type', 'parse + print of %s gives %s = %s, the text says %s' % (doc, ty, got, want), line, None, i)
            return
        if fam == 'jsonf':
            s = want
            try: d = float(s)
            except (OverflowError, ValueError): d = float('inf')
            over = (abs(d) == float('inf')) if ty == 'd' else abs(d) >= 3.4028235677973366e38
            if over and ty == 'd': return        # infinity passed on: not constrained by the property
            if over:
                if i.startswith('OK'): viol(ctx, 'float-overflow-accepted', 'generated parser accepted %s (out of range for the field) and printed %s' % (doc, U.unhx(i.split()[1]).decode('latin1')), line, None, i)
                return
            if not i.startswith('OK'):
                viol(ctx, 'float-rejects-valid', 'generated parser rejected %s: %s' % (doc, i), line, None, i); return
            got = json.loads(U.unhx(i.split()[1]).decode('latin1')).get(ty, 0.0)
            same = (U.d2bits(float(got)) == U.d2bits(d)) if ty == 'd' else (U.f2bits(float(got)) == U.f2bits(d))
            stored = d if ty == 'd' else U.bits2f(U.f2bits(d))
            if stored == 0.0: same = float(got) == 0.0   # a zero (of either sign) is the default and is not stored
            if not same:
                viol(ctx, parse_double_key(s, U.d2bits(d), U.d2bits(float(got))) if ty == 'd' else 'corr:parse-float-rounding', 'parse + print of %s gives %r, expected %r' % (doc, got, d), line, None, i)
            return
        if want is None:
            if i.startswith('OK'):
                key = 'json-integer-wrap' if mag >= TWO64 else 'json-doc-accepts:%s' % ty
                viol(ctx, key, 'generated parser accepted %s (%s is outside the field type or not an integer) and printed %s' % (doc, desc, U.unhx(i.split()[1]).decode('latin1')), line, None, i)
            return
        if not i.startswith('OK'):
            viol(ctx, 'json-doc-rejects:%s' % ty, 'generated parser rejected %s: %s' % (doc, i), line, None, i); return
        printed = U.unhx(i.split()[1]).decode('latin1')
        try: got = json.loads(printed)
        except ValueError:
            viol(ctx, 'json-doc-print', 'printer output is not JSON: %s' % printed, line, None, i); return
        for k, v in want.items():
            g = got.get(k, 0 if not isinstance(v, list) else [])
            if g != v:
                viol(ctx, 'json-doc-value:%s' % ty, 'parse + print of %s gives %s = %s, expected %s' % (doc, k, g, v), line, None, i)
        return
    if cmd in ('isweep', 'irand64', 'fsweep32', 'frand64'):
        r = i.split()
        if r[0] != 'DONE' or int(r[2]) != 0:
            viol(ctx, 'sweep:%s' % cmd, 'in-harness sweep `%s` reports %s' % (line, i), line, None, i)


# ====================================================================== sweeps
def sweeps(ctx, rng, exe_fast, exe_san, model):
    T = ctx.thorough
    lines = []
    if T:
        step = 2 ** 32 // 16
        for s in range(16): lines.append(('sweep_int32_all', 'isweep 32 %d %d 1' % (s * step, (s + 1) * step), step))
        for s in range(16): lines.append(('sweep_float32_all', 'fsweep32 %d %d 1' % (s * step, (s + 1) * step), step))
        for s in range(16): lines.append(('sweep_int64_random', 'irand64 %d 20000000' % (ctx.seed * 100 + s), 20000000))
        for s in range(16): lines.append(('sweep_double_random', 'frand64 %d 10000000' % (ctx.seed * 100 + s), 10000000))
    else:
        off = rng.randrange(0, 1021)
        for s in range(16):
            lo = s * (2 ** 32 // 16)
            lines.append(('sweep_int32_stride', 'isweep 32 %d %d 1021' % (lo + off, lo + 2 ** 32 // 16), (2 ** 32 // 16) // 1021))
            lines.append(('sweep_float32_stride', 'fsweep32 %d %d 4099' % (lo + off, lo + 2 ** 32 // 16), (2 ** 32 // 16) // 4099))
            lines.append(('sweep_int64_random', 'irand64 %d 200000' % (ctx.seed * 100 + s), 200000))
            lines.append(('sweep_double_random', 'frand64 %d 100000' % (ctx.seed * 100 + s), 100000))
    # one process per sweep line, 16 at a time
    import threading
    res = [None] * len(lines)

    def work(k):
        res[k] = U._run_chunk(exe_fast, [lines[k][1]], 3000)
    pending = list(range(len(lines)))
    while pending:
        batch, pending = pending[:16], pending[16:]
        th = [threading.Thread(target=work, args=(k,)) for k in batch]
        for t in th: t.start()
        for t in th: t.join()
    follow = []
    for (klass, line, n), (rep, err) in zip(lines, res):
        r = (rep[0] if rep else 'CRASH').split()
        if r[0] != 'DONE':
            viol(ctx, 'sweep:%s' % line.split()[0], 'in-harness sweep `%s` did not finish: %s %s' % (line, rep, err[-300:]), line, None, str(rep)); continue
        ctx.count(line, klass=klass, n=int(r[1]))
        if int(r[2]) != 0:
            first = int(r[3]); cmd = line.split()[0]
            ctx.log('sweep %s: %s mismatches, first at %d (code %s)' % (line, r[2], first, r[4]))
            if cmd in ('isweep', 'irand64'):
                w = 32 if cmd == 'isweep' else 64
                s = first - 2 ** w if first >= 2 ** (w - 1) else first
                follow += [('pu %d %d' % (w, first), True), ('pi %d %d' % (w, s), True),
                           ('ptyp u%d %s' % (w, U.hx(str(first).encode())), True), ('ptyp i%d %s' % (w, U.hx(str(s).encode())), True),
                           ('jtyp u%d %s' % (w, U.hx(str(first).encode() + b'}')), True), ('jtyp i%d %s' % (w, U.hx(str(s).encode() + b'}')), True)]
            else:
                follow.append((('rtf %d' if cmd == 'fsweep32' else 'rtd %d') % first, False))
                if cmd == 'frand64' and len(r) >= 9:
                    if int(r[5]) != 0:
                        ctx.log('sweep %s: %s mismatches outside the known grisu3 classes, first at %s' % (line, r[5], r[6]))
                        follow.append(('rtd %s' % r[6], False))
                    if int(r[7]) != 0:
                        ctx.log('sweep %s: %s one-ulp denormal mismatches, first at %s' % (line, r[7], r[8]))
                        follow.append(('rtd %s' % r[8], False))
            ctx.sweep_bad = getattr(ctx, 'sweep_bad', []) + [(line, rep[0])]
    if follow:
        nv = getattr(ctx, 'nviol_calls', 0)
        bl = [l for l, b in follow if b]; il = [l for l, b in follow if not b]
        mres, _ = U.par_lines(model, bl)
        ires, _ = U.par_lines(exe_san, bl + il)
        oq = []
        for l, m, i in zip(bl, mres, ires): judge_both(ctx, 'sweep_followup', l, m, i)
        for l, i in zip(il, ires[len(bl):]): judge_impl_only(ctx, 'sweep_followup', l, i, {}, oq)
        if getattr(ctx, 'nviol_calls', 0) == nv:
            for line, rep in ctx.sweep_bad:
                viol(ctx, 'sweep:%s' % line.split()[0], 'in-harness sweep `%s` reports mismatches (%s) that the line-by-line replay does not reproduce' % (line, rep), line, None, rep)
