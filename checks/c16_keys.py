"""C16: which key field the DEFAULT <T>_vec_sort / _vec_find / _vec_scan (and hence the recursive sorter) use.
One generated schema holds a table for every declaration order x id assignment x primary_key choice of two key fields
(int, string) and a plain field, with and without explicit ids, plus multi-key structs. Oracle (flatcc documentation /
monster_test.fbs): the field carrying `primary_key`, else the key field with the lowest id (tables) / first declared key (structs).
The generated reader must define the default entry points by exactly that field (and only once), the header must compile,
and a second primary_key attribute in one table or struct must be rejected."""
import os, re, itertools
from . import lib


def build_schema(rng):
    decls, expect = ['attribute "primary_key";', 'attribute "sorted";'], {}
    fields = [('a', 'int', True), ('b', 'string', True), ('c', 'ubyte', False)]
    k = 0
    for order in itertools.permutations(range(3)):
        for ids in [None] + list(itertools.permutations(range(3))):
            for prim in (None, 'a', 'b'):
                name = 'K%d' % k; k += 1
                fs = []
                for pos in order:
                    fn, ty, iskey = fields[pos]
                    at = []
                    if ids is not None: at.append('id: %d' % ids[pos])
                    if iskey: at.append('primary_key' if prim == fn else 'key')
                    fs.append('%s:%s%s;' % (fn, ty, ' (%s)' % ', '.join(at) if at else ''))
                decls.append('table %s { %s }' % (name, ' '.join(fs)))
                if prim: exp = prim
                else:
                    idof = {fields[p][0]: (ids[p] if ids is not None else order.index(p)) for p in range(3)}
                    exp = min(('a', 'b'), key=lambda f: idof[f])
                expect[name] = exp
    # three keys, one of another width, the primary declared first / last, lower / higher ids
    for i, (o, ids, prim) in enumerate([((0, 1, 2), (2, 1, 0), 'x'), ((0, 1, 2), (0, 1, 2), 'z'), ((2, 1, 0), (1, 0, 2), 'y'), ((1, 0, 2), (2, 0, 1), None),
                                         ((2, 0, 1), (1, 2, 0), 'z'), ((0, 2, 1), (2, 1, 0), None)]):
        f3 = [('x', 'ulong'), ('y', 'short'), ('z', 'string')]
        name = 'M%d' % i
        fs = ['%s:%s (id: %d, %s);' % (f3[p][0], f3[p][1], ids[p], 'primary_key' if prim == f3[p][0] else 'key') for p in o]
        decls.append('table %s { %s }' % (name, ' '.join(fs)))
        expect[name] = prim or min(('x', 'y', 'z'), key=lambda f: ids['xyz'.index(f)])
    # structs: primary_key or the first declared key
    for i, (o, prim) in enumerate([((0, 1), None), ((1, 0), None), ((0, 1), 'q'), ((1, 0), 'p'), ((0, 1), 'p'), ((1, 0), 'q')]):
        f2 = [('p', 'int'), ('q', 'ushort')]
        name = 'S%d' % i
        fs = ['%s:%s (%s);' % (f2[p][0], f2[p][1], 'primary_key' if prim == f2[p][0] else 'key') for p in o]
        decls.append('struct %s { %s }' % (name, ' '.join(fs)))
        expect[name] = prim or f2[o[0]][0]
    # a holder with sorted vectors of some of them so that the recursive sorter is generated too
    pick = rng.sample(sorted(expect), 8)
    decls.append('table Holder { %s }' % ' '.join('v%d:[%s] (sorted);' % (i, n) for i, n in enumerate(pick)))
    decls.append('root_type Holder;')
    return '\n'.join(decls) + '\n', expect


REJECT = [
    ('two primary_key attributes in a table', 'attribute "primary_key";\ntable T { a:int (primary_key); b:string (primary_key); }\nroot_type T;\n'),
    ('two primary_key attributes in a table (ids, second has the lower id)', 'attribute "primary_key";\ntable T { a:int (id: 1, primary_key); b:ulong (id: 0, primary_key); c:int (id: 2, key); }\nroot_type T;\n'),
    ('two primary_key attributes in a table after a key', 'attribute "primary_key";\ntable T { k:int (key); a:int (primary_key); b:string (primary_key); }\nroot_type T;\n'),
    ('two primary_key attributes in a struct', 'attribute "primary_key";\nstruct S { a:int (primary_key); b:short (primary_key); }\ntable T { s:S; }\nroot_type T;\n'),
    ('key and primary_key on the same field', 'attribute "primary_key";\ntable T { a:int (key, primary_key); }\nroot_type T;\n'),
]


def defaults_in(txt, name):
    """fields the generated reader uses for the default sort / find / scan of type `name`."""
    sort = re.findall(r'#define %s_vec_sort %s_vec_sort_by_(\w+)\b' % (name, name), txt)
    find = re.findall(r'__flatbuffers_define_default_find_by_(?:scalar|string)_field\(%s, (\w+)[,)]' % name, txt)
    scan = re.findall(r'__flatbuffers_define_default_scan_by_(?:scalar|string)_field\(%s, (\w+)[,)]' % name, txt)
    return sort, find, scan


def run(ctx):
    d = os.path.join(ctx.bdir, 'keys'); os.makedirs(d, exist_ok=True)
    text, expect = build_schema(ctx.rng)
    p = os.path.join(d, 'keys.fbs'); open(p, 'w').write(text)
    rc, out = ctx.gen(p, d, opts=('-a',))
    if rc != 0:
        ctx.violation('default-key:flatcc-fails', 'flatcc rejects a schema of multi-key tables: ' + ' '.join(out.split())[:300], {'schema': text})
    else:
        txt = open(os.path.join(d, 'keys_reader.h')).read()
        lines = {l.split('{')[0].split()[1]: l for l in text.split('\n') if l.startswith(('table K', 'table M', 'struct S'))}
        for name, exp in expect.items():
            ctx.count('default-key ' + lines[name], klass='default_key')
            sort, find, scan = defaults_in(txt, name)
            if sort != [exp] or find != [exp] or scan != [exp]:
                ctx.violation('default-key:wrong-field', 'default %s_vec_sort / _vec_find / _vec_scan use %s / %s / %s, the primary key is `%s`: %s' % (
                    name, sort, find, scan, exp, lines[name]),
                    {'schema': 'attribute "primary_key";\n' + lines[name] + '\n', 'type': name, 'expected_default_key': exp, 'generated_sort_find_scan': [sort, find, scan],
                     'how': 'flatcc -a; read `#define T_vec_sort T_vec_sort_by_<f>` and __flatbuffers_define_default_find/scan_by_*_field(T, <f>) in the generated reader'})
        tc = os.path.join(d, 't.c'); open(tc, 'w').write('#include "keys_reader.h"\nint main(void) { return 0; }\n')
        rc, out = lib.sh(['gcc', '-std=c11', '-Werror=implicit-function-declaration', '-fsyntax-only', '-I%s/include' % lib.REPO, '-I' + d, tc], timeout=120)
        if rc != 0:
            ctx.violation('default-key:generated-code-does-not-compile', 'reader for multi-key tables does not compile: ' + ' | '.join(l for l in out.split('\n') if 'error' in l)[:400], {'schema': text})
    for i, (what, text2) in enumerate(REJECT):
        dd = os.path.join(d, 'rej%d' % i); os.makedirs(dd, exist_ok=True)
        p = os.path.join(dd, 'rej.fbs'); open(p, 'w').write(text2)
        rc, out = ctx.gen(p, dd, opts=('-a',))
        ctx.count('reject ' + text2, klass='default_key_reject')
        if rc == 0:
            ctx.violation('default-key:ambiguous-schema-accepted', 'flatcc accepts a schema with %s (the default sort / find key is then ambiguous)' % what,
                          {'schema': text2, 'expect_rejected': True, 'how': 'flatcc -a must fail'})
    ctx.sample({'default_key_schema_head': text[:300]})


def replay(ctx, rep):
    d = os.path.join(ctx.bdir, 'keys_replay'); os.makedirs(d, exist_ok=True)
    p = os.path.join(d, 'keys.fbs'); open(p, 'w').write(rep['schema'])
    rc, out = ctx.gen(p, d, opts=('-a',))
    ctx.count(rep['schema'], klass='replay')
    if rep.get('expect_rejected'):
        if rc == 0: ctx.violation(rep['key'], 'replay: schema still accepted', {'schema': rep['schema']})
        return
    if rc != 0:
        ctx.violation(rep['key'], 'replay: flatcc fails: ' + out[:300], {'schema': rep['schema']}); return
    got = defaults_in(open(os.path.join(d, 'keys_reader.h')).read(), rep['type'])
    if any(g != [rep['expected_default_key']] for g in got):
        ctx.violation(rep['key'], 'replay: default sort/find/scan of %s use %s, primary key is %s' % (rep['type'], got, rep['expected_default_key']), {'schema': rep['schema']})
