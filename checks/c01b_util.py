"""C01 (printer half) helpers: tie between the extracted JSON-printer read model (coq/Verifier/PrinterModel.v ->
build/modelrun_printerwalk, protocol in ocaml/printerwalk/driver.ml) and the generated JSON printer of /repo.

API
    hexs(b)                                         bytes -> hex text ('-' for empty), the form both protocols use
    printer_walk_check(ctx, cases, chunk=20000)     model walk over ACCEPTED buffers; returns the non-OK ones
    printer_error_replies(replies)                  indices of `vw` harness replies 'V 0 W ok -<n>' (printer's own error)
    printer_error_code(reply)                       n of 'V 0 W ok -<n>' or None
    build_print_only_harness(ctx, S, name, fl)      -> (exe, None) | (None, error text); harness/print_only_main.c.in
    run_print_only(exe, lines, jobs=16, ...)        crash-resilient parallel runner of `pw` lines -> replies
    po_result(reply)                                ('ok', plen) | ('err', code) | ('crash', class) | ('other', text)
    crash_class(stderr)                             'asan:heap-buffer-overflow' | 'ubsan:misaligned' | ...

Why run_print_only and not lib.run_harness_resilient: the print-only harness flushes "P" BEFORE it prints, so a
sanitizer abort leaves an unterminated "P" as the last line of stdout.  lib.run_harness_resilient counts that
partial line as the reply of the crashing line, then records CRASH for the NEXT line and never runs it (checked by
experiment: see c01b_selftest.py part 0).  run_print_only strips the partial "P" and attributes the crash to the
line that produced it.
"""
import os, re
from concurrent.futures import ThreadPoolExecutor
from . import lib
from gen import c01gen


def hexs(b):
    """hex text of bytes; '-' for the empty buffer (both line protocols use '-')"""
    if isinstance(b, str): return b if b else '-'
    b = bytes(b)
    return b.hex() if b else '-'


# ---------------------------------------------------------------------------------------------- model side
def printer_walk_check(ctx, cases, chunk=20000):
    """Run the printer read model over buffers that the C verifier ACCEPTED.

    cases: list of (desc, root, variant, addr, hexbytes)
        desc      schema descriptor text (`T|... U|...`, what c01.py sends to `schema`): c01gen.expected_descriptor(S)
                  (= desc_e; the printer, like the reader, is generated from the schema) or dc['desc'] (T2)
        root      'T/<table index>' or 'S/<size>/<align>'   (second component of c01.roots_of)
        variant   'p' plain | 's' size-prefixed (the model starts at byte 4 with bufsiz = len - 4)
        addr      int, address of byte 0 modulo 256
        hexbytes  hex text ('-' or '' for empty) or bytes
    Every distinct descriptor is registered once per model invocation (`schema d<k> <desc>`); all `pwalk` requests go
    through ctx.run_model('printerwalk', lines) in one invocation per `chunk` cases.
    Returns [(index, case, reply)] for every case whose reply is not exactly 'OK':
        'ERR <e>'            the printer raises its own error e (2 = deep recursion) -> the walk did not finish
        'BAD <pos> <w> <al>' first read outside the buffer or misaligned
        'FUEL' / 'EXC ...'   model budget / driver exception (machinery problem)
        'NOTWF'              (or whatever `schema` answered) the descriptor registration did not answer OK
    Empty input -> [] without starting the model.

    How checks/c01.py calls it (inside run(), after `replies` is complete; every accepted case has
    il = 'vw <rootname> <v> <am> <hex>' and wl = 'walk <name>_e <rootdesc> <v> <am> <hex>'):

        pidx = [i for i, (c, ir) in enumerate(zip(cases, replies)) if ir.startswith('V 0') and c[0].startswith('vw')]
        pcs = [(desc_e,) + tuple(cases[i][2].split()[2:6]) for i in pidx]         # (desc, rootdesc, v, am, hx)
        for j, pc, reply in c01b_util.printer_walk_check(ctx, [(d, r, v, int(am), hx) for d, r, v, am, hx in pcs]):
            il, vl, wl, klass = cases[pidx[j]]
            ctx.violation('printer-walk-model:%s' % klass, 'verifier accepted a buffer on which the JSON printer model makes an out-of-range '
                          'or misaligned read or gives up (%s)' % reply, {'schema_fbs': c01gen.render_fbs(S), 'harness_line': il, 'model_pwalk': reply})
        for i in c01b_util.printer_error_replies(replies): ...   # 'V 0 W ok -2': printer's own error on an accepted buffer
    """
    bad = []
    cases = list(cases)
    for c0 in range(0, len(cases), chunk):
        part = cases[c0:c0 + chunk]
        names, lines = {}, []
        for desc, root, v, addr, hx in part:
            if desc not in names:
                names[desc] = 'd%d' % len(names)
                lines.append('schema %s %s' % (names[desc], desc))
        ns = len(lines)
        for desc, root, v, addr, hx in part:
            lines.append('pwalk %s %s %s %d %s' % (names[desc], root, v, int(addr), hexs(hx)))
        res = ctx.run_model('printerwalk', lines)
        wf = dict(zip(names.keys(), res[:ns]))       # dict order = registration order
        for k, (case, rep) in enumerate(zip(part, res[ns:])):
            if wf[case[0]] != 'OK':
                bad.append((c0 + k, case, wf[case[0]] if wf[case[0]] else 'NOTWF'))
            elif rep != 'OK':
                bad.append((c0 + k, case, rep))
    return bad


_PERR = re.compile(r'^V 0 W ok -(\d+)\b')


def printer_error_code(reply):
    m = _PERR.match(reply)
    return int(m.group(1)) if m else None


def printer_error_replies(replies):
    """indices of `vw` harness replies of the form 'V 0 W ok -<n> ...': the verifier accepted the buffer and the
    generated printer ran clean but raised its OWN error n (1 bad_input, 2 deep_recursion, 3 overflow).  On an
    accepted buffer this is a property violation (the printer gave up: with -2 the walk did not finish within the
    printer's nesting limit).  checks/c01.py should report these, e.g. under 'printer-error:<n>:<klass>'."""
    return [i for i, r in enumerate(replies) if _PERR.match(r)]


# ---------------------------------------------------------------------------------------------- implementation side
def build_print_only_harness(ctx, S, name, fl):
    """Generate reader + JSON printer for schema AST S with the freshly built flatcc into build/<pid>/<name>_po/ and
    compile harness/print_only_main.c.in against it exactly like c01.build_schema_harness compiles the verify+walk
    harness (clang, ASan+UBSan, -DNDEBUG, fl['objs'] = ctx.rt_objs(san=True, defs=['-DNDEBUG'])).
    Returns (exe, None) or (None, error text).  Roots: every table and every struct of S by name."""
    d = os.path.join(ctx.bdir, name + '_po'); os.makedirs(d, exist_ok=True)
    fbs = os.path.join(d, name + '.fbs'); open(fbs, 'w').write(c01gen.render_fbs(S))
    rc, out = ctx.gen(fbs, d, opts=('-a', '--json'))
    if rc != 0:
        return None, 'flatcc rejected generated schema: ' + out[:500]
    tmpl = open(os.path.join(lib.ROOT, 'harness', 'print_only_main.c.in')).read()
    pd = []
    for r in [t['name'] for t in S['tables']] + list(S['struct_order']):
        pd.append('            else if (!strcmp(root, "%s")) { printf("P"); fflush(stdout); plen = %s_print_json_as_root(&ctx, rb, rlen, 0); }' % (r, r))
    src = tmpl.replace('@@SCHEMA@@', name).replace('@@PRINT_DISPATCH@@', '\n'.join(pd))
    cpath = os.path.join(d, 'main.c'); open(cpath, 'w').write(src)
    exe = os.path.join(d, 'pw')
    ctx.cc([cpath] + fl['objs'], exe, san=True, defs=['-DNDEBUG'], incs=['-I' + d, '-I' + os.path.join(lib.ROOT, 'harness')])
    return exe, None


# big redzones: an over-read of up to 2 KiB past the exact-size input block cannot land in another live block
PO_ENV = {'ASAN_OPTIONS': 'detect_leaks=0:abort_on_error=0:allocator_may_return_null=1:redzone=2048:max_redzone=2048:symbolize=0',
          'UBSAN_OPTIONS': 'print_stacktrace=0'}
PO_ENV_SYM = {'ASAN_OPTIONS': 'detect_leaks=0:abort_on_error=0:allocator_may_return_null=1:redzone=2048:max_redzone=2048',
              'UBSAN_OPTIONS': 'print_stacktrace=1'}
_DONE = re.compile(r'^(P -?\d+|BADROOT|BAD)$')


def crash_class(err):
    m = re.search(r'ERROR: AddressSanitizer: (\S+)', err)
    if m: return 'asan:' + m.group(1)
    m = re.search(r'runtime error: (.*)', err)
    if m: return 'ubsan:misaligned' if 'misaligned' in m.group(1) else 'ubsan:' + '_'.join(m.group(1).split()[:4])
    if 'timeout' in err: return 'timeout'
    return 'unknown'


def _err_summary(err):
    keep = [l.strip() for l in err.split('\n') if 'ERROR' in l or 'runtime error' in l or l.strip().startswith('#') or 'located' in l or 'SUMMARY' in l]
    return ' | '.join(keep[:8])[:900]


def _run_po_seq(exe, lines, timeout, env):
    replies, start, guard = [], 0, 0
    while start < len(lines):
        rc, out, err = lib.sh2([exe], input='\n'.join(lines[start:]) + '\n', timeout=timeout, env=env)
        if rc == 124 and len(lines) - start > 1:
            # timeout with stdout lost: one line at a time so that only the slow line is charged
            for l in lines[start:]: replies.extend(_run_po_seq(exe, [l], timeout, env))
            return replies
        res = out.split('\n')
        if res and res[-1] == '': res.pop()
        partial = bool(res) and res[-1] == 'P'          # unterminated "P": the crash marker of the line that printed it
        if partial: res.pop()
        res = res[:len(lines) - start]
        bad = [r for r in res if not _DONE.match(r)]
        if bad: raise lib.CheckError('print-only harness: unexpected reply %r' % bad[0][:200])
        replies.extend(res)
        done = start + len(res)
        if done >= len(lines): break
        replies.append('CRASH %s %s rc=%s | %s' % (crash_class(err), 'after-P' if partial else 'before-P', rc, _err_summary(err)))
        start = done + 1
        guard += 1
        if guard > 100000: raise lib.CheckError('print-only harness: too many restarts')
    return replies


def run_print_only(exe, lines, jobs=16, per_proc=32, timeout=120, symbolize=False):
    """Feed `pw ...` lines to a print-only harness.  Returns one reply per line, in order:
         'P <plen or -err>'  the printer returned
         'CRASH <class> after-P rc=<rc> | <sanitizer report lines>'   ASan/UBSan (or a signal) killed the process while printing
         'CRASH <class> before-P ...'  the process died before "P" (never expected: hex decoding only)
         'BADROOT' / 'BAD'
       The lines are cut into pieces of per_proc lines; pieces run in `jobs` parallel processes; after a crash the
       rest of the piece continues in a new process.  ASan runs with 2 KiB redzones (PO_ENV)."""
    lines = list(lines)
    if not lines: return []
    env = PO_ENV_SYM if symbolize else PO_ENV
    pieces = [lines[i:i + per_proc] for i in range(0, len(lines), per_proc)]
    with ThreadPoolExecutor(max_workers=max(1, jobs)) as ex:
        parts = list(ex.map(lambda p: _run_po_seq(exe, p, timeout, env), pieces))
    out = [r for p in parts for r in p]
    if len(out) != len(lines): raise lib.CheckError('print-only harness: %d replies for %d lines' % (len(out), len(lines)))
    return out


def po_result(reply):
    """('ok', plen) | ('err', printer error code) | ('crash', crash class) | ('other', reply)"""
    m = re.match(r'^P (-?\d+)$', reply)
    if m:
        n = int(m.group(1))
        return ('ok', n) if n >= 0 else ('err', -n)
    if reply.startswith('CRASH'):
        return ('crash', reply.split()[1] if len(reply.split()) > 1 else 'unknown')
    return ('other', reply)


# ---------------------------------------------------------------------------------------------- schema facts
def struct_extents(S):
    """name -> (size, align, extent, tailpad): extent = end offset of the last byte that a member-by-member read of
    the struct touches (the generated struct printer reads members, never the padding)."""
    ext = {}
    for nm in S['struct_order']:
        st = S['structs'][nm]
        size, align, offs = c01gen.struct_layout(st['members'], S['structs'], st.get('force_align', 0))
        e = 0
        for (m, ty), o in zip(st['members'], offs):
            e = max(e, o + (c01gen.SCALARS[ty] if ty in c01gen.SCALARS else ext[ty][2]))
        ext[nm] = (st['size'], st['align'], e, st['size'] - e)
    return ext
