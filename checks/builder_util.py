"""Shared machinery of the builder checks (C02, C03, C15): schema corpus, .fbs / descriptor rendering,
value-tree generation, build-script generation (harness ops + model commands), expected renderings,
an independent FlatBuffers encoder (different layout choices) and generated C glue (verify / dump)."""
import struct, os

SCALAR = {'char': 1, 'bool': 1, 'byte': 1, 'ubyte': 1, 'short': 2, 'ushort': 2, 'int': 4, 'uint': 4, 'float': 4,
          'long': 8, 'ulong': 8, 'double': 8}
CTYPE = {'char': 'char', 'bool': 'uint8_t', 'byte': 'int8_t', 'ubyte': 'uint8_t', 'short': 'int16_t', 'ushort': 'uint16_t',
         'int': 'int32_t', 'uint': 'uint32_t', 'float': 'float', 'long': 'int64_t', 'ulong': 'uint64_t', 'double': 'double'}
PACK = {'char': 'b', 'bool': 'B', 'byte': 'b', 'ubyte': 'B', 'short': 'h', 'ushort': 'H', 'int': 'i', 'uint': 'I', 'float': 'f',
        'long': 'q', 'ulong': 'Q', 'double': 'd'}
UOFFSET_MAX = 0xffffffff


def hx(b):
    return bytes(b).hex() if len(b) else '-'


# ----------------------------------------------------------------------------------------- schema DSL
class Enum:
    def __init__(self, name, base, members):
        self.name, self.base, self.members = name, base, members      # members: [(name, value)]


class Struct:
    def __init__(self, name, fields, force_align=None):
        self.name, self.fields, self.force_align = name, fields, force_align   # fields: [(name, type)], type: scalar|enum|struct|(type, n)


class Union:
    def __init__(self, name, members):
        self.name, self.members = name, members                        # [(member name, type)]: table | struct | 'string'; codes 1..n


class Field:
    def __init__(self, name, type, default=None, required=False, nested=None, id=None, deprecated=False, optional=False):
        self.name, self.type, self.default, self.required, self.nested = name, type, default, required, nested
        self.id, self.deprecated, self.optional = id, deprecated, optional


class Table:
    def __init__(self, name, fields):
        self.name, self.fields = name, fields


class Schema:
    def __init__(self, name, decls, root, ident=None):
        self.name, self.root, self.ident = name, root, ident
        self.enums = {d.name: d for d in decls if isinstance(d, Enum)}
        self.structs = {d.name: d for d in decls if isinstance(d, Struct)}
        self.unions = {d.name: d for d in decls if isinstance(d, Union)}
        self.tables = {d.name: d for d in decls if isinstance(d, Table)}
        self.decls = decls
        self.table_index = {n: i for i, n in enumerate(self.tables)}
        self.union_index = {n: i for i, n in enumerate(self.unions)}
        self._layout = {}
        for t in self.tables.values():          # assign ids like flatcc: declaration order, a union takes two
            if any(f.id is not None for f in t.fields):
                continue
            nid = 0
            for f in t.fields:
                if self.kind(f.type) in ('union', 'uvec'):
                    nid += 1
                f.id = nid
                nid += 1

    # ---- type classification
    def scalar_size(self, t):
        if t in SCALAR: return SCALAR[t]
        if t in self.enums: return SCALAR[self.enums[t].base]
        return None

    def base_scalar(self, t):
        return self.enums[t].base if t in self.enums else t

    def kind(self, t):
        if isinstance(t, str) and t.startswith('['):
            e = t[1:-1]
            if e == 'string': return 'strvec'
            if e in self.tables: return 'tabvec'
            if e in self.unions: return 'uvec'
            return 'vec'
        if t == 'string': return 'string'
        if t in self.tables: return 'table'
        if t in self.unions: return 'union'
        if t in self.structs: return 'struct'
        if self.scalar_size(t): return 'scalar'
        raise ValueError(t)

    def struct_layout(self, name):
        """(size, align, [(member name, offset, type, size)]) with FlatBuffers struct rules."""
        if name in self._layout: return self._layout[name]
        s = self.structs[name]
        off, al, members = 0, 1, []
        for fname, ft in s.fields:
            sz, a = self.inline_size_align(ft)
            off = (off + a - 1) // a * a
            members.append((fname, off, ft, sz))
            off += sz
            al = max(al, a)
        if s.force_align: al = max(al, s.force_align)
        size = (off + al - 1) // al * al
        self._layout[name] = (size, al, members)
        return self._layout[name]

    def inline_size_align(self, t):
        if isinstance(t, tuple):
            sz, a = self.inline_size_align(t[0])
            return sz * t[1], a
        if t in self.structs:
            size, al, _ = self.struct_layout(t)
            return size, al
        sz = self.scalar_size(t)
        return sz, sz

    def struct_arg_leaves(self, t, base=0):
        """[(offset, scalar type)] of the leaves of a struct in declaration order = the argument list of the generated <Struct>_create /
        _assign; None when the struct (or a nested one) has a fixed-length array member"""
        r = []
        for _, off, ft, _ in self.struct_layout(t)[2]:
            if isinstance(ft, tuple): return None
            if ft in self.structs:
                x = self.struct_arg_leaves(ft, base + off)
                if x is None: return None
                r += x
            else: r.append((base + off, ft))
        return r

    def struct_leaves(self, t, base=0):
        """[(offset, size)] of the leaf scalars of an inline type in declaration order (padding excluded)."""
        if isinstance(t, tuple):
            sz, _ = self.inline_size_align(t[0])
            r = []
            for i in range(t[1]): r += self.struct_leaves(t[0], base + i * sz)
            return r
        if t in self.structs:
            r = []
            for _, off, ft, _ in self.struct_layout(t)[2]: r += self.struct_leaves(ft, base + off)
            return r
        return [(base, self.scalar_size(t))]

    def live_fields(self, tname):
        return [f for f in self.tables[tname].fields if not f.deprecated]

    # ---- rendering
    def fbs(self):
        def ty(t):
            if isinstance(t, tuple): return '[%s:%d]' % (ty(t[0]), t[1])
            return t
        out = []
        for d in self.decls:
            if isinstance(d, Enum):
                out.append('enum %s:%s { %s }' % (d.name, d.base, ', '.join('%s = %d' % m for m in d.members)))
            elif isinstance(d, Struct):
                fa = ' (force_align: %d)' % d.force_align if d.force_align else ''
                out.append('struct %s%s { %s }' % (d.name, fa, ' '.join('%s:%s;' % (n, ty(t)) for n, t in d.fields)))
            elif isinstance(d, Union):
                out.append('union %s { %s }' % (d.name, ', '.join(('%s:%s' % (n, t)) if n != t else t for n, t in d.members)))
            else:
                explicit = getattr(d, 'explicit_ids', False)
                fs = []
                for f in d.fields:
                    attrs = []
                    if explicit: attrs.append('id: %d' % f.id)
                    if f.required: attrs.append('required')
                    if f.deprecated: attrs.append('deprecated')
                    if f.nested: attrs.append('nested_flatbuffer: "%s"' % f.nested)
                    dv = ''
                    if f.optional: dv = ' = null'
                    elif f.default is not None: dv = ' = %s' % f.default
                    fs.append('%s:%s%s%s;' % (f.name, f.type, dv, (' (%s)' % ', '.join(attrs)) if attrs else ''))
                out.append('table %s { %s }' % (d.name, ' '.join(fs)))
        out.append('root_type %s;' % self.root)
        if self.ident: out.append('file_identifier "%s";' % self.ident)
        return '\n'.join(out) + '\n'

    def field_kind_desc(self, f):
        k = self.kind(f.type)
        if k in ('scalar', 'struct'):
            return 's:%d:%d' % self.inline_size_align(f.type)
        if k == 'string': return 'str'
        if k == 'vec':
            if f.nested:
                if f.nested in self.tables: return 'nt:1:%d' % self.table_index[f.nested]
                size, al, _ = self.struct_layout(f.nested)
                return 'ns:%d:%d' % (size, al)
            sz, al = self.inline_size_align(f.type[1:-1])
            return 'v:%d:%d:%d' % (sz, al, UOFFSET_MAX // sz)
        if k == 'strvec': return 'sv'
        if k == 'table': return 't:%d' % self.table_index[f.type]
        if k == 'tabvec': return 'tv:%d' % self.table_index[f.type[1:-1]]
        if k == 'union': return 'u:%d' % self.union_index[f.type]
        if k == 'uvec': return 'uv:%d' % self.union_index[f.type[1:-1]]
        raise ValueError(k)

    def descriptor(self):
        ts = []
        for t in self.tables.values():
            fs = ['%d,%d,%s' % (f.id, 1 if f.required else 0, self.field_kind_desc(f)) for f in t.fields if not f.deprecated]
            ts.append(';'.join(fs) if fs else '-')
        us = []
        for u in self.unions.values():
            ms = []
            for code, (_, mt) in enumerate(u.members, 1):
                if mt == 'string': ms.append('%d,str' % code)
                elif mt in self.tables: ms.append('%d,t:%d' % (code, self.table_index[mt]))
                else: ms.append('%d,s:%d:%d' % ((code,) + self.struct_layout(mt)[:2]))
            us.append(';'.join(ms))
        return ('|'.join(ts) if ts else '-') + '#' + ('|'.join(us) if us else '-')

    def root_desc(self, root=None):
        root = root or self.root
        if root in self.tables: return 't:%d' % self.table_index[root]
        return 's:%d:%d' % self.struct_layout(root)[:2]

    def default_bytes(self, f):
        """little-endian bytes an accessor returns for an absent scalar field"""
        bt = self.base_scalar(f.type)
        d = f.default
        if d is None or f.optional: d = 0
        if isinstance(d, str):
            if d in ('true', 'false'): d = 1 if d == 'true' else 0
            elif f.type in self.enums: d = dict(self.enums[f.type].members)[d]
            else: d = float(d) if bt in ('float', 'double') else int(d)
        return struct.pack('<' + PACK[bt], d)


# ----------------------------------------------------------------------------------------- corpus
def corpus():
    S = []
    # 1. scalars of all sizes, defaults, enum, vectors of each scalar, required string, file identifier
    S.append(Schema('bscal', [
        Enum('Color', 'byte', [('Red', 0), ('Green', 1), ('Blue', 7)]),
        # enums of EVERY underlying type with members at the type's boundaries: table field, vector element, struct member, fixed-array element
        Enum('EB', 'byte', [('Lo', -128), ('M1', -1), ('Z', 0), ('Hi', 127)]),
        Enum('EUB', 'ubyte', [('Z', 0), ('P7', 128), ('Hi', 255)]),
        Enum('ES', 'short', [('Lo', -32768), ('M1', -1), ('Z', 0), ('Hi', 32767)]),
        Enum('EUS', 'ushort', [('Z', 0), ('P15', 32768), ('Hi', 65535)]),
        Enum('EI', 'int', [('Lo', -2147483648), ('M1', -1), ('Z', 0), ('Hi', 2147483647)]),
        Enum('EUI', 'uint', [('Z', 0), ('P31', 2147483648), ('Hi', 4294967295)]),
        Enum('EL', 'long', [('Lo', -9223372036854775808), ('M32', -4294967296), ('M1', -1), ('Z', 0), ('P31', 2147483648), ('P32', 4294967296), ('Hi', 9223372036854775807)]),
        Enum('EUL', 'ulong', [('Z', 0), ('P32', 4294967296), ('P63', 9223372036854775808), ('Hi', 18446744073709551615)]),
        Struct('En', [('l', 'EL'), ('b', 'EB'), ('u', 'EUL'), ('w', ('EL', 2)), ('h', 'ES'), ('i', 'EUI')]),
        Struct('Pt', [('x', 'short'), ('y', 'byte')]),
        Table('Sc', [
            Field('b', 'bool', 'true'), Field('i8', 'byte', '-3'), Field('u8', 'ubyte'), Field('i16', 'short', '-300'),
            Field('u16', 'ushort', '65535'), Field('i32', 'int', '-2147483648'), Field('u32', 'uint', '4294967295'),
            Field('f32', 'float', '1.5'), Field('i64', 'long', '-9223372036854775807'), Field('u64', 'ulong', '18446744073709551615'),
            Field('f64', 'double', '-0.25'), Field('c', 'Color', 'Green'), Field('name', 'string', required=True),
            Field('vb', '[bool]'), Field('v8', '[ubyte]'), Field('v16', '[short]'), Field('v32', '[uint]'), Field('vf', '[float]'),
            Field('v64', '[long]'), Field('vd', '[double]'), Field('vc', '[Color]'), Field('p', 'Pt'), Field('vp', '[Pt]'),
            Field('opt', 'int', optional=True), Field('optf', 'double', optional=True),
            # defaults that need all 17 significant digits / 9 for float
            Field('oc', 'Color', optional=True), Field('ou8', 'ubyte', optional=True), Field('ob', 'bool', optional=True),
            Field('f17', 'double', '0.30000000000000004'), Field('g17', 'double', '123456789.12345679'), Field('f9', 'float', '16777217.5'),
            Field('eb', 'EB', 'M1'), Field('eub', 'EUB'), Field('es', 'ES'), Field('eus', 'EUS', 'Hi'), Field('ei', 'EI', 'Lo'), Field('eui', 'EUI'),
            Field('el', 'EL', 'P32'), Field('eul', 'EUL', 'Hi'), Field('el0', 'EL'), Field('oel', 'EL', optional=True),
            Field('vel', '[EL]'), Field('veul', '[EUL]'), Field('vei', '[EI]'), Field('veb', '[EB]'), Field('veus', '[EUS]'),
            Field('en', 'En'), Field('ven', '[En]')]),
    ], 'Sc', ident='SCAL'))
    # 2. structs with alignment 1..16 and force_align, nested structs, fixed arrays, struct roots
    S.append(Schema('bstru', [
        Struct('B1', [('a', 'ubyte')]),
        Struct('B3', [('a', 'ubyte'), ('b', 'ubyte'), ('c', 'ubyte')]),
        Struct('H2', [('a', 'ushort'), ('b', 'B1')]),
        Struct('W4', [('a', 'float'), ('h', 'H2')]),
        Struct('D8', [('a', 'byte'), ('d', 'double'), ('w', 'W4')]),
        Struct('A16', [('x', 'int'), ('y', 'double')], force_align=16),
        Struct('Arr', [('v', ('short', 3)), ('s', ('B3', 2)), ('z', 'ulong')]),
        Struct('A64', [('q', 'ubyte')], force_align=64),
        Struct('A128', [('h', 'short')], force_align=128),
        Struct('A256', [('w', 'int')], force_align=256),
        # a nested struct that is NOT the last member (and two levels of it): members after it take the arguments after ALL of its leaves
        # fixed-length char arrays: N bytes kept as they are (embedded NULs included), copied by every by-pointer / by-argument style
        Struct('Nm', [('tag', ('char', 8)), ('n', 'ushort'), ('c3', ('char', 3))]),
        Struct('P2', [('x', 'short'), ('y', 'int')]),
        Struct('Mk', [('at', 'P2'), ('id', 'int'), ('k', 'ubyte')]),
        Struct('Mk2', [('a', 'ubyte'), ('m', 'Mk'), ('p', 'P2'), ('z', 'ushort'), ('q', 'B3'), ('e', 'double')]),
        Table('St', [
            Field('b1', 'B1'), Field('d8', 'D8'), Field('a16', 'A16'), Field('arr', 'Arr'), Field('vb3', '[B3]'),
            Field('va16', '[A16]'), Field('vd8', '[D8]'), Field('h2', 'H2'), Field('a64', 'A64'), Field('va64', '[A64]'),
            Field('tag', 'ubyte', '9'), Field('a128', 'A128'), Field('a256', 'A256'), Field('va256', '[A256]'),
            Field('mk', 'Mk'), Field('mk2', 'Mk2'), Field('vmk', '[Mk]'), Field('vmk2', '[Mk2]'),
            Field('nm', 'Nm'), Field('vnm', '[Nm]')]),
    ], 'St'))
    # 3. tables of tables, vectors of tables and strings, recursion, explicit permuted ids, deprecated field
    t3 = Table('Node', [
        Field('kids', '[Node]', id=3), Field('name', 'string', id=0), Field('left', 'Node', id=5), Field('w', 'long', '7', id=1),
        Field('old', 'int', id=2, deprecated=True), Field('tags', '[string]', id=4), Field('right', 'Node', id=6),
        Field('leaf', 'Leaf', id=7), Field('k', 'ubyte', id=8)])
    t3.explicit_ids = True
    S.append(Schema('btabl', [
        Table('Leaf', [Field('v', 'int'), Field('s', 'string')]),
        t3,
    ], 'Node', ident='NODE'))
    # 4. unions of tables / structs / strings, union vectors, required fields
    S.append(Schema('bunio', [
        Struct('S1', [('a', 'ubyte')]),
        Struct('S3', [('a', 'ubyte'), ('b', 'ubyte'), ('c', 'ubyte')]),
        Struct('S8', [('d', 'double')]),
        Struct('S16', [('x', 'int'), ('y', 'double')], force_align=16),
        # (the union is declared before the tables using it: with the union declared after table Ub the generated reader
        #  does not compile - Any_union_type_t is used before its typedef; reported to the C07 owner)
        Union('Any', [('Ua', 'Ua'), ('Ub', 'Ub'), ('S1', 'S1'), ('S3', 'S3'), ('S8', 'S8'), ('S16', 'S16'), ('str', 'string')]),
        Table('Ua', [Field('v', 'int'), Field('w', 'S16')]),
        Table('Ub', [Field('s', 'string'), Field('more', 'Any')]),
        Table('Un', [Field('u', 'Any'), Field('x', 'short'), Field('uv', '[Any]'), Field('u2', 'Any'), Field('name', 'string'),
                     Field('uv2', '[Any]')]),
    ], 'Un'))
    # 5. nested buffers with table and struct targets, nested in nested
    S.append(Schema('bnest', [
        Struct('N16', [('x', 'int'), ('y', 'double')], force_align=16),
        Struct('N1', [('a', 'ubyte'), ('b', 'ubyte')]),
        Table('Inner', [Field('v', 'long'), Field('s', 'string'), Field('deep', '[ubyte]', nested='Outer'), Field('a', 'N16'),
                        Field('vs', '[short]'), Field('vl', '[long]'), Field('va', '[N16]')]),
        Table('Outer', [Field('id', 'int'), Field('nt', '[ubyte]', nested='Inner'), Field('ns', '[ubyte]', nested='N16'),
                        Field('name', 'string'), Field('nt2', '[ubyte]', nested='Inner'), Field('ns1', '[ubyte]', nested='N1'),
                        Field('child', 'Inner'), Field('d', 'double')]),
    ], 'Outer', ident='NEST'))
    # 6. mixed: everything in one table, required offsets, struct with alignment 32
    S.append(Schema('bmixd', [
        Enum('E16', 'ushort', [('A', 1), ('B', 500)]),
        Struct('V3', [('x', 'float'), ('y', 'float'), ('z', 'float')]),
        Struct('A32', [('m', 'long')], force_align=32),
        Table('Item', [Field('n', 'string', required=True), Field('e', 'E16', 'B'), Field('pos', 'V3')]),
        Union('Thing', [('Item', 'Item'), ('V3', 'V3'), ('txt', 'string')]),
        Table('Mix', [
            Field('items', '[Item]', required=True), Field('one', 'Item'), Field('t', 'Thing'), Field('ts', '[Thing]'),
            Field('blob', '[ubyte]', nested='Item'), Field('big', 'A32'), Field('bigs', '[A32]'), Field('words', '[string]'),
            Field('flag', 'bool'), Field('cnt', 'ulong', '1'), Field('pv', '[V3]')]),
    ], 'Mix', ident='MIXD'))
    # 7. a wide table of same-size fields, many sibling instances that differ only in WHICH high-id fields are present
    #    (vtables of equal length and table size with equal leading entries: exercises the vtable cache comparison)
    S.append(Schema('bwide', [
        Table('W', [Field('f%d' % i, 'int', str(i)) for i in range(30)]),
        # a table whose inline data can be sized byte-exactly (blocks of 100 bytes + single bytes) with a union in the middle:
        # the data stack (256 bytes, doubling) is grown between the two slot reservations of <T>_<u>_add
        Struct('B100', [('d', ('ubyte', 100))]),
        Struct('B50', [('d', ('ubyte', 50))]),
        Union('WAny', [('W', 'W'), ('txt', 'string')]),
        Table('WU', [Field('k%d' % i, 'B100') for i in range(5)] + [Field('h0', 'B50')] + [Field('c%d' % i, 'ubyte') for i in range(64)] +
                    [Field('u', 'WAny'), Field('tail', 'ushort'), Field('name', 'string')]),
        # pairs of table types with identical field positions and a last field of different width: vtables equal except for the table size,
        # each pair in ONE bucket of flatcc's 64 bucket vtable cache when the fields are added in declaration order
        Table('PA', [Field('a', 'ubyte'), Field('b', 'ubyte'), Field('c', 'uint'), Field('d', 'ushort')]),
        Table('PB', [Field('a', 'ubyte'), Field('b', 'ubyte'), Field('c', 'uint'), Field('d', 'uint')]),
        Table('PC', [Field('a', 'ushort'), Field('b', 'ushort'), Field('c', 'uint'), Field('d', 'ubyte')]),
        Table('PD', [Field('a', 'ushort'), Field('b', 'ushort'), Field('c', 'uint'), Field('d', 'uint')]),
        Table('PE', [Field('a', 'uint'), Field('b', 'uint'), Field('c', 'ulong'), Field('d', 'ubyte')]),
        Table('PF', [Field('a', 'uint'), Field('b', 'uint'), Field('c', 'ulong'), Field('d', 'ushort')]),
        Table('PG', [Field('a', 'ulong'), Field('b', 'uint'), Field('c', 'uint'), Field('d', 'ubyte')]),
        Table('PH', [Field('a', 'ulong'), Field('b', 'uint'), Field('c', 'uint'), Field('d', 'ushort')]),
        Table('WR', [Field('ws', '[W]'), Field('tag', 'int'), Field('ws2', '[W]'), Field('names', '[string]'), Field('names2', '[string]')] +
                    [Field(n.lower(), '[%s]' % n) for n in ('PA', 'PB', 'PC', 'PD', 'PE', 'PF', 'PG', 'PH')]),
    ], 'WR'))
    return S


def union_realloc_value(s, rng, inline):
    """table WU (schema bwide) with exactly `inline` bytes of inline data added before the union field"""
    F = {f.name: f for f in s.tables['WU'].fields}
    k, m = inline // 100, inline % 100
    h = 0
    if m > 64: h, m = 1, m - 50
    if k > 5: raise ValueError(inline)
    fields = [(F['k%d' % i], Node('bytes', bytes(rng.getrandbits(8) for _ in range(100)))) for i in range(k)]
    if h: fields.append((F['h0'], Node('bytes', bytes(rng.getrandbits(8) for _ in range(50)))))
    fields += [(F['c%d' % i], Node('bytes', bytes([rng.randint(1, 255)]))) for i in range(m)]
    if rng.random() < 0.5:
        wf = s.tables['W'].fields
        member = (1, Node('table', 'W', [(wf[0], Node('bytes', struct.pack('<i', 77))), (wf[3], Node('bytes', struct.pack('<i', -5)))]))
    else:
        member = (2, Node('str', b'union\0text'))
    fields.append((F['u'], Node('union', member[0], member[1], 'WAny')))
    fields.append((F['tail'], Node('bytes', struct.pack('<H', rng.randint(1, 65535)))))
    fields.append((F['name'], Node('str', b'wu%d' % inline)))
    return Node('table', 'WU', fields)


def wide_value(s, rng, count=130, vary_end=False):
    """root of schema bwide: `count` W tables with fields f0..f13 and f29 present and 6 of f14..f28, distinct patterns
    (vary_end: f0..f(k-1) and 1..6 of fk..f29 for a random k: vtables of many different lengths, 12..64 bytes)"""
    fields = s.tables['W'].fields
    seen, ws = set(), []
    while len(ws) < count:
        if vary_end:
            k = rng.randrange(2, 24)
            pat = tuple(sorted(rng.sample(range(k, 30), rng.randrange(1, 7))))
            if (k, pat) in seen: continue
            seen.add((k, pat))
            ids = list(range(k)) + list(pat)
        else:
            pat = tuple(sorted(rng.sample(range(14, 29), 6)))
            if pat in seen: continue
            seen.add(pat)
            ids = list(range(14)) + list(pat) + [29]
        ws.append(Node('table', 'W', [(fields[i], Node('bytes', struct.pack('<i', rng.randint(-2 ** 31, 2 ** 31 - 1) if rng.random() < 0.5 else 1000 + i))) for i in ids]))
    wr = s.tables['WR'].fields
    names = [Node('str', b'n%d' % i + (b'\0x' if i % 7 == 0 else b'')) for i in range(rng.choice([65, 80, 100]))]
    # ws / ws2 and names / names2 hold the same elements: built from ONE reference array (create_offset_vector called twice)
    return Node('table', 'WR', [(wr[0], Node('offvec', ws)), (wr[1], Node('bytes', struct.pack('<i', len(ws)))), (wr[2], Node('offvec', list(ws))),
                                (wr[3], Node('offvec', names)), (wr[4], Node('offvec', list(names)))])


def many_nested_value(s, rng, levels):
    """root of schema bnest with about 4 * levels nested buffers (34..80 and more in ONE build): at every level an Outer with a plain child
    Inner {v, s}, nt = nested Inner {v, s, deep = nested Outer of the next level}, nt2 = nested Inner {v, s}, and sometimes ns1 = nested
    struct N1; every Inner {v, s} and every Outer has the same field set (same vtable bytes), so buffers with nest ids n and n + 34, n + 64 ..
    ask the vtable cache for vtables it already holds for the parent / a sibling"""
    inner_f = {f.name: f for f in s.tables['Inner'].fields}
    outer_f = {f.name: f for f in s.tables['Outer'].fields}

    def nopts(): return {'with_size': False, 'ident': rng.choice([None, None, b'NSTD']), 'block_align': 0, 'style': 'se',
                         'embed_align': 0, 'embed_block_align': 0, 'embed_with_size': False}

    def inner(deep=None):
        b = [(inner_f['v'], Node('bytes', struct.pack('<q', rng.randrange(1, 1 << 62)))), (inner_f['s'], Node('str', b'i%d' % rng.randrange(1000)))]
        if deep is not None: b.append((inner_f['deep'], Node('nested', 'Outer', deep, nopts())))
        return Node('table', 'Inner', b)

    def outer(level):
        b = [(outer_f['id'], Node('bytes', struct.pack('<i', 1000 + level))),
             (outer_f['child'], inner()),                     # a plain table of the enclosing buffer with the shape of the nested roots, built first
             (outer_f['nt'], Node('nested', 'Inner', inner(outer(level + 1) if level + 1 < levels else None), nopts())),
             (outer_f['nt2'], Node('nested', 'Inner', inner(), nopts()))]
        if level % 3 == 1: b.append((outer_f['ns1'], Node('nested', 'N1', Node('bytes', bytes([rng.randrange(256), rng.randrange(256)]), 'N1'), nopts())))
        b.append((outer_f['name'], Node('str', b'o%d' % level)))
        return Node('table', 'Outer', b)
    return outer(0)


def pair_value(s, rng):
    """root of schema bwide: the table types PA..PH (pairs PA/PB, PC/PD, PE/PF, PG/PH: same field positions, last field of another width),
    every field present and non-zero, 1..2 instances per type, the types in random order (narrower first / wider first)"""
    sizes = {'ubyte': 1, 'ushort': 2, 'uint': 4, 'ulong': 8}
    wr = {f.name: f for f in s.tables['WR'].fields}
    names = ['PA', 'PB', 'PC', 'PD', 'PE', 'PF', 'PG', 'PH']
    rng.shuffle(names)
    fields = []
    for n in names:
        if rng.random() < 0.15: continue
        inst = [Node('table', n, [(f, Node('bytes', bytes(rng.randrange(1, 256) for _ in range(sizes[f.type])))) for f in s.tables[n].fields])
                for _ in range(rng.choice([1, 1, 2]))]
        fields.append((wr[n.lower()], Node('offvec', inst)))
    fields.append((wr['tag'], Node('bytes', struct.pack('<i', rng.randrange(1, 1 << 31)))))
    return Node('table', 'WR', fields)


# ----------------------------------------------------------------------------------------- value trees
class Node:
    """kind: bytes | str | vec | table | offvec | union | uvec | nested"""
    __slots__ = ('kind', 'a', 'b', 'c')

    def __init__(self, kind, a=None, b=None, c=None):
        self.kind, self.a, self.b, self.c = kind, a, b, c


BOUNDARY = {1: [0, 1, 0x7f, 0x80, 0xff], 2: [0, 1, 0x7fff, 0x8000, 0xffff], 4: [0, 1, 0x7fffffff, 0x80000000, 0xffffffff, 0x7f800000, 0x7fc00001],
            8: [0, 1, 0x7fffffffffffffff, 0x8000000000000000, 0xffffffffffffffff, 0x7ff0000000000000, 0x7ff8000000000001, 0x8000000000000001]}


class ValueGen:
    def __init__(self, schema, rng, maxdepth=4, size=1.0):
        self.s, self.rng, self.maxdepth, self.size = schema, rng, maxdepth, size
        self.pool = [{}]     # per buffer scope: type -> [nodes] for sharing

    def scalar(self, t):
        sz = self.s.scalar_size(t)
        bt = self.s.base_scalar(t)
        r = self.rng
        if bt == 'bool': return bytes([r.choice([0, 1])])
        if t in self.s.enums and r.random() < 0.8:
            v = r.choice(self.s.enums[t].members)[1]
            return struct.pack('<' + PACK[bt], v)
        if r.random() < 0.5: return r.choice(BOUNDARY[sz]).to_bytes(sz, 'little')
        return bytes(r.getrandbits(8) for _ in range(sz))

    def inline(self, t):
        """bytes of a scalar / struct / fixed array with zero padding"""
        if isinstance(t, tuple):
            if t[0] == 'char':
                # [char:N] is N bytes, zero padded but NOT zero terminated: embedded NULs (with text after them), no NUL at all, all NUL
                r = self.rng
                return bytes(r.choice([0, 0, r.randrange(1, 256), r.choice(b'ABCxyz')]) for _ in range(t[1])) if r.random() < 0.8 else bytes(r.randrange(1, 256) for _ in range(t[1]))
            return b''.join(self.inline(t[0]) for _ in range(t[1]))
        if t in self.s.structs:
            size, al, members = self.s.struct_layout(t)
            b = bytearray(size)
            for _, off, ft, sz in members: b[off:off + sz] = self.inline(ft)
            return bytes(b)
        return self.scalar(t)

    def count(self, big=False):
        r = self.rng
        if big and r.random() < 0.04: return r.randint(65, 110)      # beyond 64 references (256 bytes)
        return r.choice([0, 1, 1, 2, 3, 3, 5, r.randint(0, int(12 * self.size) + 1)])

    def string(self):
        r = self.rng
        n = r.choice([0, 1, 2, 3, 4, 5, 7, 8, 9, r.randint(0, int(40 * self.size) + 1)])
        if r.random() < 0.7: return bytes(r.choice(b'abcdefghijklmnopqrstuvwxyz0123456789 _') for _ in range(n))
        return bytes(r.choice([0, 0, 0xff, 0x80, r.getrandbits(8)]) for _ in range(n))

    def shared(self, key, make):
        pool = self.pool[-1].setdefault(key, [])
        if pool and self.rng.random() < 0.2: return self.rng.choice(pool)
        n = make()
        pool.append(n)
        return n

    def value(self, t, depth, nested=None):
        s, r = self.s, self.rng
        k = s.kind(t)
        if k in ('scalar', 'struct'): return Node('bytes', self.inline(t))
        if k == 'string': return self.shared('string', lambda: Node('str', self.string()))
        if k == 'vec':
            if nested:
                return self.nested(nested, depth)
            e = t[1:-1]
            return self.shared(t, lambda: Node('vec', [self.inline(e) for _ in range(self.count())], e))
        if k == 'strvec': return Node('offvec', [self.value('string', depth) for _ in range(self.count(big=True))])
        if k == 'table': return self.shared(t, lambda: self.table(t, depth))
        if k == 'tabvec':
            n = self.count() if depth < self.maxdepth else 0
            return Node('offvec', [self.value(t[1:-1], depth + 1) for _ in range(n)])
        if k == 'union': return self.union(t, depth)
        if k == 'uvec':
            n = self.count()
            return Node('uvec', [self.union_elem(t[1:-1], depth) for _ in range(n)], t[1:-1])
        raise ValueError(k)

    def union_elem(self, u, depth):
        """(code, node | None)"""
        r = self.rng
        members = self.s.unions[u].members
        cands = [(c, mt) for c, (_, mt) in enumerate(members, 1) if not (mt in self.s.tables and depth >= self.maxdepth)]
        if not cands or r.random() < 0.15: return (0, None)
        c, mt = r.choice(cands)
        if mt == 'string': return (c, self.value('string', depth + 1))
        if mt in self.s.tables: return (c, self.value(mt, depth + 1))
        return (c, Node('bytes', self.inline(mt), mt))      # struct member: created with create_struct

    def union(self, u, depth):
        c, n = self.union_elem(u, depth)
        return Node('union', c, n, u)

    def table(self, tname, depth):
        s, r = self.s, self.rng
        fields = []
        for f in s.live_fields(tname):
            k = s.kind(f.type)
            recursive = k in ('table', 'tabvec', 'union', 'uvec') or f.nested
            p = 0.75 if not recursive else (0.6 if depth < self.maxdepth else 0.0)
            if getattr(self, 'full', False) and (not recursive or depth < self.maxdepth): p = 1.0
            if f.required: p = 1.0
            if r.random() < p:
                if k == 'table' and depth >= self.maxdepth and f.required: pass
                fields.append((f, self.value(f.type, depth + 1, nested=f.nested)))
        return Node('table', tname, fields)

    def nested(self, root, depth):
        """a nested buffer whose root is table/struct `root`"""
        r = self.rng
        self.pool.append({})
        if root in self.s.tables:
            v = self.table(root, depth + 1) if depth < self.maxdepth else Node('table', root, [
                (f, self.value(f.type, depth + 5)) for f in self.s.live_fields(root) if f.required])
        else:
            v = Node('bytes', self.inline(root), root)
        self.pool.pop()
        opts = {'with_size': r.random() < 0.15, 'ident': r.choice([None, None, None, b'NSTD', b'\x01\x00\x00\x00', b'\x00\xbc\xf7\x76']),   # last: a type hash whose first byte on the wire is zero
                'block_align': r.choice([0, 0, 0, 8, 64]), 'style': 'embed' if r.random() < getattr(self, 'embed_bias', 0.25) else 'se'}
        # flatcc_builder_embed_buffer arguments (used when the node ends up embedded): align 1..256 (0 = the content's own), block_align
        # 0 (inherit) or 1..256, with_size flag
        opts['embed_align'] = r.choice([0, 0, 1, 2, 4, 8, 16, 32, 64, 128, 256])
        opts['embed_block_align'] = r.choice([0, 0, 0, 1, 2, 4, 8, 16, 32, 64, 128, 256])
        opts['embed_with_size'] = r.random() < getattr(self, 'embed_ws_bias', 0.2)
        return Node('nested', root, v, opts)


# ----------------------------------------------------------------------------------------- expected renderings
def render_dec(s, n):
    """what Spec.decode returns (ocaml/builder/driver.ml show_value)"""
    k = n.kind
    if k == 'bytes': return 'b' + hx(n.a)
    if k == 'str': return 's' + hx(n.a)
    if k == 'vec': return 'v[' + ','.join(hx(e) for e in n.a) + ']'
    if k == 'offvec': return 'o[' + ','.join(render_dec(s, e) for e in n.a) + ']'
    if k == 'union': return 'u%d:%s' % (n.a, render_dec(s, n.b))
    if k == 'uvec': return 'U[' + ','.join('%d:%s' % (c, render_dec(s, e) if e is not None else '-') for c, e in n.a) + ']'
    if k == 'nested': return 'n(' + render_dec(s, n.b) + ')'
    if k == 'table':
        present = {f.name: v for f, v in n.b}
        out = []
        for f in s.live_fields(n.a):
            if f.name not in present: continue
            v = present[f.name]
            if v.kind == 'union' and v.a == 0: continue
            out.append('%d=%s' % (f.id, render_dec(s, v)))
        return 't{' + ';'.join(out) + '}'
    raise ValueError(k)


def leaves_hex(s, t, b):
    return ','.join(hx(b[o:o + z]) for o, z in s.struct_leaves(t))


def render_dump(s, n, t=None):
    """what the generated-reader dump prints: every scalar field with presence flag and value (default when
    absent), structs leaf by leaf through the struct accessors, everything else when present"""
    k = n.kind
    if k == 'bytes': return 'b' + (leaves_hex(s, t, n.a) if t in s.structs else hx(n.a))
    if k == 'str': return 's' + hx(n.a)
    if k == 'vec':
        e = n.b
        return 'v[' + ','.join((leaves_hex(s, e, x) if e in s.structs else hx(x)) for x in n.a) + ']'
    if k == 'offvec': return 'o[' + ','.join(render_dump(s, e) for e in n.a) + ']'
    if k == 'union':
        mt = s.unions[n.c].members[n.a - 1][1]
        return 'u%d:%s' % (n.a, render_dump(s, n.b, mt))
    if k == 'uvec':
        out = []
        for c, e in n.a:
            out.append('%d:%s' % (c, render_dump(s, e, s.unions[n.b].members[c - 1][1]) if e is not None else '-'))
        return 'U[' + ','.join(out) + ']'
    if k == 'nested': return 'n(' + render_dump(s, n.b, n.a) + ')'
    if k == 'table':
        present = {f.name: v for f, v in n.b}
        out = []
        for f in s.live_fields(n.a):
            fk = s.kind(f.type)
            v = present.get(f.name)
            if fk == 'scalar':
                if f.optional:
                    out.append('%d=%s' % (f.id, ('+b' + hx(v.a)) if v is not None else '~null'))
                else:
                    out.append('%d=%sb%s' % (f.id, '+' if v is not None else '~', hx(v.a if v is not None else s.default_bytes(f))))
                continue
            if v is None: continue
            if v.kind == 'union' and v.a == 0: continue
            out.append('%d=%s' % (f.id, render_dump(s, v, f.type if fk == 'struct' else None)))
        return 't{' + ';'.join(out) + '}'
    raise ValueError(k)


def has_nested(n):
    k = n.kind
    if k in ('bytes', 'str', 'vec'): return False
    if k == 'offvec': return any(has_nested(e) for e in n.a)
    if k == 'union': return n.b is not None and has_nested(n.b)
    if k == 'uvec': return any(e is not None and has_nested(e) for _, e in n.a)
    if k == 'nested': return True
    if k == 'table': return any(has_nested(v) for _, v in n.b)
    raise ValueError(k)


def has_sized_nested_aligned(s, n):
    """does the value contain a nested buffer built with the with_size flag (buffer aligned to its length field, so the
    vector DATA is 4 mod the alignment) whose content needs an alignment above 4?  flatcc's verifier checks vector / struct
    alignment relative to the nested data start and rejects exactly this layout (known finding)."""
    k = n.kind
    if k in ('bytes', 'str', 'vec'): return False
    if k == 'offvec': return any(has_sized_nested_aligned(s, e) for e in n.a)
    if k == 'union': return n.b is not None and has_sized_nested_aligned(s, n.b)
    if k == 'uvec': return any(e is not None and has_sized_nested_aligned(s, e) for _, e in n.a)
    if k == 'nested': return (bool(n.c['with_size']) and req_align(s, n.b, n.a) > 4) or has_sized_nested_aligned(s, n.b)
    if k == 'table': return any(has_sized_nested_aligned(s, v) for _, v in n.b)
    raise ValueError(k)


def has_sized_nested(n):
    """does the value contain a nested buffer built with the with_size flag (aligned to its length field)?"""
    k = n.kind
    if k in ('bytes', 'str', 'vec'): return False
    if k == 'offvec': return any(has_sized_nested(e) for e in n.a)
    if k == 'union': return n.b is not None and has_sized_nested(n.b)
    if k == 'uvec': return any(e is not None and has_sized_nested(e) for _, e in n.a)
    if k == 'nested': return bool(n.c['with_size']) or has_sized_nested(n.b)
    if k == 'table': return any(has_sized_nested(v) for _, v in n.b)
    raise ValueError(k)


def value_depth(n):
    k = n.kind
    if k in ('bytes', 'str', 'vec'): return 0
    if k == 'offvec': return max([value_depth(e) for e in n.a] + [0])
    if k == 'union': return value_depth(n.b) if n.b is not None else 0
    if k == 'uvec': return max([value_depth(e) for _, e in n.a if e is not None] + [0])
    if k == 'nested': return 1 + value_depth(n.b)
    if k == 'table': return 1 + max([value_depth(v) for _, v in n.b] + [0])
    raise ValueError(k)


# ----------------------------------------------------------------------------------------- build scripts
class ScriptGen:
    """Turns a value tree into a harness op list (real API calls, styles chosen per node) and the model's
    create-level command list.  Registers are numbered in completion order on both sides."""

    def __init__(self, schema, rng, styles=True):
        self.s, self.rng, self.styles = schema, rng, styles
        self.h, self.m = [], []
        self.nreg = 0
        self.memo = [{}]
        self.opaque = set()      # registers whose value the implementation side cannot observe
        self.spare = {}          # second vectors created from one reference array, waiting for a use
        self.corder = None       # {table: add order inside the generated <T>_create} (create_order)
        self.thash = None        # {root name: type hash} of the schema
        self.gen_api = False     # use the generated builder api for tables (needs the per-schema glue harness)
        self.kinds = {}          # statistics: op style histogram

    def pick(self, opts):
        return self.rng.choice(opts) if self.styles else opts[0]

    def new(self, n=1):
        r = self.nreg
        self.nreg += n
        return r

    def stat(self, k):
        self.kinds[k] = self.kinds.get(k, 0) + 1

    def string(self, b):
        st = self.pick(['c', 's', 'e', 't'] + (['n'] if 0 not in b else []))
        self.h.append('S:%s:%s' % (st, hx(b))); self.m.append('S:' + hx(b)); self.stat('S' + st)
        return self.new()

    def vector(self, elems, esize, align):
        st = self.pick(['c', 'p', 'a', 'e', 't'])
        maxc = UOFFSET_MAX // esize
        data = b''.join(elems)
        self.h.append('V:%s:%d:%d:%d:%d:%s' % (st, esize, align, maxc, len(elems), hx(data)))
        self.m.append('V:%d:%d:%d:%d:%s' % (esize, align, maxc, len(elems), hx(data))); self.stat('V' + st)
        return self.new()

    def struct(self, b, align):
        st = self.pick(['c', 's'])
        self.h.append('R:%s:%d:%s' % (st, align, hx(b))); self.m.append('R:%d:%s' % (align, hx(b))); self.stat('R' + st)
        return self.new()

    def offvec(self, regs):
        key = (len(self.memo), tuple(regs))
        if regs and key in self.spare:
            self.stat('O2-second-use')
            return self.spare.pop(key)          # the second vector made from the same reference array
        st = self.pick(['c', 'd', 'p', 'a', 't'])
        if len(regs) > 64 and (not self.styles or self.rng.random() < 0.6): st = '2'
        rs = ','.join(map(str, regs)) if regs else '-'
        self.h.append('O:%s:%s' % (st, rs)); self.m.append('O:' + rs); self.stat('O' + st)
        if st == '2':
            # create_offset_vector(B, refs, n) twice with the SAME (const) reference array: two vectors sharing their elements
            self.m.append('O:' + rs)
            r = self.new(2)
            self.spare[key] = r + 1
            return r
        return self.new()

    def uvec(self, elems):
        st = self.pick(['c', 'd', 'p', 'a', 't'])
        es = ','.join('%d/%s' % (c, '-' if r is None else r) for c, r in elems) if elems else '-'
        self.h.append('U:%s:%s' % (st, es)); self.m.append('U:' + es); self.stat('U' + st)
        r = self.new(2)
        return r, r + 1          # values, types

    def node(self, n, t=None):
        """emit the object for value node n (of inline/offset type t where needed); returns its register"""
        key = id(n)
        if key in self.memo[-1] and n.kind in ('str', 'vec', 'table'):
            self.stat('shared')
            return self.memo[-1][key]
        s = self.s
        k = n.kind
        if k == 'str': r = self.string(n.a)
        elif k == 'vec':
            sz, al = s.inline_size_align(n.b)
            r = self.vector(n.a, sz, al)
        elif k == 'bytes':          # struct as an object (union member / root)
            size, al, _ = s.struct_layout(n.b)
            r = self.struct(n.a, al)
        elif k == 'offvec': r = self.offvec([self.node(e) for e in n.a])
        elif k == 'table': r = self.table(n)
        elif k == 'nested': r = self.nested(n)
        else: raise ValueError(k)
        self.memo[-1][key] = r
        return r

    def c_equal(self, t, a, b):
        """C's `v == V` on the field type (the test the generated <T>_<f>_add uses for default elision)"""
        bt = self.s.base_scalar(t)
        if bt in ('float', 'double'):
            x, y = struct.unpack('<' + PACK[bt], a)[0], struct.unpack('<' + PACK[bt], b)[0]
            return x == y          # -0.0 == 0.0, NaN != NaN
        return a == b

    def table_create(self, n):
        """<T>_create(B, every field as an argument): add calls in the order of the generated body (ct->ordered_members);
        returns None when the value cannot be passed that way (an absent struct / optional scalar / offset field)"""
        s = self.s
        fields = s.tables[n.a].fields
        order = (self.corder or {}).get(n.a)
        if order is None or any(f.deprecated for f in fields): return None
        present = {f.name: v for f, v in n.b}
        for f in fields:
            k = s.kind(f.type)
            if f.name not in present and (k in ('struct', 'string', 'vec', 'strvec', 'table', 'tabvec') or (k == 'scalar' and f.optional)):
                return None
        self.stat('Tcreate')
        args, regs, kept = [], {}, []
        for f in fields:
            k = s.kind(f.type)
            v = present.get(f.name)
            if k == 'scalar': args.append(hx(v.a if v is not None else s.default_bytes(f)))
            elif k == 'struct': args.append(hx(v.a))
            elif k == 'union':
                r = None if (v is None or v.b is None) else self.node(v.b)
                regs[f.name] = r
                args.append('%d/%s' % (v.a if v is not None else 0, '-' if r is None else r))
            elif k == 'uvec':
                if v is None: args.append('-/-'); regs[f.name] = None
                else:
                    rv, rt = self.uvec([(c, None if e is None else self.node(e)) for c, e in v.a])
                    regs[f.name] = (rt, rv); args.append('%d/%d' % (rt, rv))
            else:
                r = self.node(v); regs[f.name] = r; args.append(str(r))
        byname = {f.name: f for f in fields}
        madds = []
        for fname, how in order:
            f = byname[fname]; k = s.kind(f.type); v = present.get(fname)
            if k == 'scalar':
                val = v.a if v is not None else s.default_bytes(f)
                if (not f.optional) and self.c_equal(f.type, val, s.default_bytes(f)):
                    continue
                sz, al = s.inline_size_align(f.type)
                madds.append('i/%d/%d/%d/%s' % (f.id, sz, al, hx(val)))
            elif k == 'struct':
                sz, al = s.inline_size_align(f.type)
                madds.append('i/%d/%d/%d/%s' % (f.id, sz, al, hx(v.a)))
            elif k == 'union':
                if v is None or v.a == 0: continue
                if how == 'add_value': madds.append('o/%d/%d' % (f.id, regs[fname]))
                elif how == 'add_type': madds.append('i/%d/1/1/%02x' % (f.id - 1, v.a))
                else: madds.append('i/%d/1/1/%02x' % (f.id - 1, v.a)); madds.append('o/%d/%d' % (f.id, regs[fname]))
            elif k == 'uvec':
                if regs[fname] is None: continue
                rt, rv = regs[fname]
                madds.append('o/%d/%d' % (f.id - 1, rt)); madds.append('o/%d/%d' % (f.id, rv))
            else:
                madds.append('o/%d/%d' % (f.id, regs[fname]))
        for f in fields:
            v = present.get(f.name)
            if v is None: continue
            if s.kind(f.type) == 'scalar' and (not f.optional) and self.c_equal(f.type, v.a, s.default_bytes(f)): continue
            kept.append((f, v))
        n.b = kept
        self.h.append('Gc:%d:%s' % (s.table_index[n.a], ','.join(args) if args else '-'))
        self.m.append('T:' + (';'.join(madds) if madds else '-'))
        return self.new()

    def table_gen(self, n):
        """the table through the GENERATED api: <T>_start, <T>_<f>_add / _force_add (default elision), <T>_end"""
        s, rng = self.s, self.rng
        if rng.random() < getattr(self, 'create_bias', 0.35):
            r = self.table_create(n)
            if r is not None: return r
        t = s.table_index[n.a]
        lf = s.live_fields(n.a)
        fidx = {f.name: j for j, f in enumerate(lf)}
        adds = list(n.b)
        if not getattr(self, 'keep_order', False): rng.shuffle(adds)
        self.stat('Tgenerated')
        self.h.append('Gs:%d' % t)
        madds, kept = [], []
        for f, v in adds:
            k = s.kind(f.type)
            j = fidx[f.name]
            if k == 'scalar':
                force = (not f.optional) and rng.random() < 0.25
                self.h.append('%s:%d:%d:%s' % ('Gf' if force else 'Ga', t, j, hx(v.a)))
                if (not force) and (not f.optional) and self.c_equal(f.type, v.a, s.default_bytes(f)):
                    self.stat('elided-default')
                    continue                     # elided: reads back as absent (= the default)
                sz, al = s.inline_size_align(f.type)
                madds.append('i/%d/%d/%d/%s' % (f.id, sz, al, hx(v.a))); kept.append((f, v))
            elif k == 'struct':
                sz, al = s.inline_size_align(f.type)
                by_args = s.struct_arg_leaves(f.type) and rng.random() < 0.5      # <T>_<f>_create(B, leaves..) instead of _add(B, pointer)
                self.h.append('%s:%d:%d:%s' % ('GA' if by_args else 'Ga', t, j, hx(v.a)))
                if by_args: self.stat('struct_field_create_by_args')
                madds.append('i/%d/%d/%d/%s' % (f.id, sz, al, hx(v.a))); kept.append((f, v))
            elif k == 'union':
                r = None if v.b is None else self.node(v.b)
                self.h.append('Gu:%d:%d:%d:%s' % (t, j, v.a, '-' if r is None else r))
                if v.a != 0:
                    madds.append('i/%d/1/1/%02x' % (f.id - 1, v.a)); madds.append('o/%d/%d' % (f.id, r))
                kept.append((f, v))
            elif k == 'uvec' and rng.random() < 0.6:
                # <T>_<f>_start, per element <T>_<f>_<Member>_push / _push_create / _push_create_str(n) / _push_start..end /
                # _push_clone / _push_slice (string members inline), <T>_<f>_push(NONE), <T>_<f>_end
                u = f.type[1:-1]
                members = s.unions[u].members
                elems2 = []
                for c, e in v.a:
                    if c and members[c - 1][1] == 'string': elems2.append((c, Node('str', e.a)))
                    else: elems2.append((c, e))
                v = Node('uvec', elems2, v.b)
                pre = {}
                for idx, (c, e) in enumerate(v.a):
                    if c and members[c - 1][1] != 'string': pre[idx] = self.node(e)
                els, mel = [], []
                for idx, (c, e) in enumerate(v.a):
                    if c == 0:
                        els.append('0/x/-'); mel.append('0/-')
                    elif members[c - 1][1] == 'string':
                        st = rng.choice(['p', 'c', 'b', 'k', 'l'] + (['s', 'n'] if 0 not in e.a else []))
                        els.append('%d/%s/%s' % (c, st, hx(e.a))); self.stat('GX' + st)
                        self.m.append('S:' + hx(e.a)); r = self.new(); self.opaque.add(r); mel.append('%d/%d' % (c, r))
                    else:
                        els.append('%d/r/%d' % (c, pre[idx])); mel.append('%d/%d' % (c, pre[idx]))
                self.h.append('GX:%d:%d:%s' % (t, j, ','.join(els) if els else '-'))
                self.m.append('U:' + (','.join(mel) if mel else '-')); rv = self.new(2); rt = rv + 1; self.opaque.update([rv, rt])
                madds.append('o/%d/%d' % (f.id - 1, rt)); madds.append('o/%d/%d' % (f.id, rv)); kept.append((f, v))
            elif k == 'uvec':
                rv, rt = self.uvec([(c, None if e is None else self.node(e)) for c, e in v.a])
                self.h.append('Gv:%d:%d:%d:%d' % (t, j, rt, rv))
                madds.append('o/%d/%d' % (f.id - 1, rt)); madds.append('o/%d/%d' % (f.id, rv)); kept.append((f, v))
            elif v.kind == 'nested' and rng.random() < (1.0 if getattr(self, 'nest_only', False) else 0.6):
                # the GENERATED routes of a nested_flatbuffer field (see gen_glue_build, op Gn)
                idw = int.from_bytes(s.ident.encode(), 'little') if s.ident else 0
                variants = ['n', 'N']
                if v.a in s.structs:
                    variants += ['s', 'S', 'k', 'K'] + (['c', 'C'] if flat_struct(s, v.a) else [])
                forced = getattr(self, 'nest_only', False)
                var = rng.choice(['n', 'N']) if forced else rng.choice(variants)
                self.stat('nested_generated_' + var)
                v.c['with_size'] = False; v.c['style'] = 'gen'
                if var in 'nN':
                    # <field>_nest(B, data, size, align): an existing buffer; align 0 / too small is raised to the struct's alignment
                    # (struct target) resp. defaults to 8 (table target)
                    def plain(x):
                        if x.kind == 'nested': x.c['with_size'] = False; x.c['style'] = 'se'; x.c['ident'] = None; plain(x.b)
                        elif x.kind == 'table':
                            for _, y in x.b: plain(y)
                        elif x.kind == 'offvec':
                            for e in x.a: plain(e)
                        elif x.kind == 'union' and x.b is not None: plain(x.b)
                        elif x.kind == 'uvec':
                            for _, e in x.a:
                                if e is not None: plain(e)
                    plain(v.b); v.c['indep'] = True
                    enc = IndepEncoder(s, rng, extra_pad=False)
                    data = enc.buffer(v.a, v.b, False, None)
                    if v.a in s.structs:
                        A = s.struct_layout(v.a)[1]
                        arg = rng.choice([0, 1, 4]) if forced else rng.choice([0, 0, 1, 4, A, 2 * A])
                        eff = max(arg, A)
                    else:
                        arg = rng.choice([0, enc.maxal, max(enc.maxal, 16)]) if enc.maxal <= 8 else rng.choice([enc.maxal, 2 * enc.maxal])
                        eff = arg if arg else 8
                    # the source bytes at an address 0 / 4 / 1 / 2 / 8 / 12 modulo 256: the placement must not depend on it
                    self.h.append('Gn:%d:%d:%s:%s:%d:%d' % (t, j, var, hx(data), arg, rng.choice([0, 4, 4, 1, 2, 8, 12])))
                    self.m.append('V:1:%d:%d:%d:%s' % (eff, UOFFSET_MAX, len(data), hx(data))); rb = self.new(); self.opaque.add(rb)
                else:
                    size, al, _ = s.struct_layout(v.a)
                    self.h.append('Gn:%d:%d:%s:%s:0' % (t, j, var, hx(v.b.a)))
                    # buffer_start(id), the struct, buffer_end; the _typed_ variants (C create, K clone, S start/end) pass the
                    # type identifier (the pinned generator passed the FILE identifier in _start_as_typed_root of a nested struct
                    # root: defect repaired in /repo, see known_findings.txt C17 typed-root:nested_stored_identifier_is_type_hash)
                    idm = (self.thash or {}).get(v.a, 0) if var in 'CKS' else idw
                    self.m.append('B:%d:0:0' % idm)
                    self.m.append('R:%d:%s' % (al, hx(v.b.a))); rs = self.new()
                    self.m.append('E:%d' % rs); rb = self.new()
                    self.opaque.update([rs, rb])
                madds.append('o/%d/%d' % (f.id, rb)); kept.append((f, v))
            elif k == 'string' and rng.random() < 0.6:
                # <T>_<f>_create / _create_str / _create_strn / _start+append+_end / _clone / _slice (a private copy of the value:
                # the call does not return the reference, so the object cannot be shared)
                v = Node('str', v.a)
                st = rng.choice(['c', 'b', 'k', 'l'] + (['s', 'n'] if 0 not in v.a else []))
                self.h.append('GS:%d:%d:%s:%s' % (t, j, st, hx(v.a))); self.stat('GS' + st)
                self.m.append('S:' + hx(v.a)); r = self.new(); self.opaque.add(r)
                madds.append('o/%d/%d' % (f.id, r)); kept.append((f, v))
            elif k == 'vec' and not f.nested and rng.random() < 0.6:
                v = Node('vec', list(v.a), v.b)
                sz, al = s.inline_size_align(v.b)
                st = rng.choice(['c', 'p', 'e', 'a', 't'] + (['k', 'k', 'k'] if v.b in s.structs and s.struct_arg_leaves(v.b) else []))
                data = b''.join(v.a)
                self.h.append('GV:%d:%d:%s:%d:%s' % (t, j, st, len(v.a), hx(data))); self.stat('GV' + st)
                self.m.append('V:%d:%d:%d:%d:%s' % (sz, al, UOFFSET_MAX // sz, len(v.a), hx(data))); r = self.new(); self.opaque.add(r)
                madds.append('o/%d/%d' % (f.id, r)); kept.append((f, v))
            elif k == 'strvec' and rng.random() < 0.6:
                v = Node('offvec', [Node('str', e.a) for e in v.a])
                els, regs = [], []
                for e in v.a:
                    st = rng.choice(['p', 'c', 'b', 'k', 'l'] + (['s', 'n'] if 0 not in e.a else []))
                    els.append('%s/%s' % (st, hx(e.a))); self.stat('GW' + st)
                    self.m.append('S:' + hx(e.a)); r = self.new(); self.opaque.add(r); regs.append(r)
                self.h.append('GW:%d:%d:%s' % (t, j, ','.join(els) if els else '-'))
                self.m.append('O:' + (','.join(map(str, regs)) if regs else '-')); r = self.new(); self.opaque.add(r)
                madds.append('o/%d/%d' % (f.id, r)); kept.append((f, v))
            else:
                r = self.node(v)
                self.h.append('Go:%d:%d:%d' % (t, j, r)); madds.append('o/%d/%d' % (f.id, r)); kept.append((f, v))
        self.h.append('Ge:%d' % t)
        self.m.append('T:' + (';'.join(madds) if madds else '-'))
        n.b = kept
        return self.new()

    def table(self, n):
        if getattr(self, 'gen_api', False) and self.rng.random() < 0.7:
            return self.table_gen(n)
        s, rng = self.s, self.rng
        adds = list(n.b)
        if self.styles: rng.shuffle(adds)
        interleaved = self.styles and rng.random() < 0.5
        self.stat('Tinterleaved' if interleaved else 'Tbottomup')
        madds = []
        # start_table(count): count must exceed the largest id used; normally the number of fields of the table type
        full = max(f.id for f in s.tables[n.a].fields) + 1
        used = max([f.id for f, _ in adds] + [-1]) + 1
        count = self.pick([full, full, used, full + 3])
        if interleaved:
            self.h.append('Ts:%d' % count)

        def child_regs(f, v):
            k = v.kind
            if k == 'union': return None if v.b is None else self.node(v.b)
            if k == 'uvec': return self.uvec([(c, None if e is None else self.node(e)) for c, e in v.a])
            return self.node(v)

        pre = {}
        if not interleaved:
            for f, v in adds:
                if s.kind(f.type) not in ('scalar', 'struct'): pre[f.name] = child_regs(f, v)
            self.h.append('Ts:%d' % count)
        for f, v in adds:
            k = s.kind(f.type)
            if k in ('scalar', 'struct'):
                sz, al = s.inline_size_align(f.type)
                self.h.append('Ti:%s:%d:%d:%d:%s' % (self.pick(['a', 'c']), f.id, sz, al, hx(v.a)))
                madds.append('i/%d/%d/%d/%s' % (f.id, sz, al, hx(v.a)))
                continue
            r = pre[f.name] if not interleaved else child_regs(f, v)
            if k == 'union':
                self.h.append('Tu:%d:%d:%s' % (f.id, v.a, '-' if r is None else r))
                if r is not None: madds.append('o/%d/%d' % (f.id, r))
                madds.append('i/%d/1/1/%02x' % (f.id - 1, v.a))
            elif k == 'uvec':
                rv, rt = r
                self.h.append('Tv:%d:%d:%d' % (f.id, rt, rv))
                madds.append('o/%d/%d' % (f.id - 1, rt)); madds.append('o/%d/%d' % (f.id, rv))
            else:
                self.h.append('To:%d:%d' % (f.id, r)); madds.append('o/%d/%d' % (f.id, r))
            if f.required: self.h.append('K:%d' % f.id)
        self.h.append('Te')
        self.m.append('T:' + (';'.join(madds) if madds else '-'))
        if rng.random() < getattr(self, 'reserve_bias', 0.0): self.reserve_rewrite()
        return self.new()

    def reserve_rewrite(self):
        """the table frame that was just closed (its Ts .. Te in self.h): start_table with a count SMALLER than the ids used (0, 1 or a random
        smaller one) and flatcc_builder_reserve_table (op Tr) before every add whose id is not below what is reserved so far, plus reserve calls at
        random points (before / between / after the adds) with counts below, equal to and above the current one, 0 and large. No effect on the
        layout (flatcc_builder.h), so the model script is unchanged; plain_script() gives the script without these calls."""
        rng, h = self.rng, self.h
        depth, k = 0, len(h) - 1
        while k >= 0:                                   # the matching Ts
            op = h[k].split(':')[0]
            if op == 'Te': depth += 1
            elif op == 'Ts':
                depth -= 1
                if depth == 0: break
            k -= 1
        if k < 0: return
        full = int(h[k].split(':')[1])
        start = rng.choice([0, 1, rng.randrange(0, full + 1)])
        out, reserved, depth = ['Ts:%d' % start], start, 0

        def extra():
            c = rng.choice([0, max(reserved - 1, 0), reserved, reserved + 3, rng.choice([500, 2000])])
            out.append('Tr:%d' % c)
            return max(reserved, c)
        for op in h[k + 1:]:
            f = op.split(':')
            if f[0] == 'Ts': depth += 1
            if depth == 0 and f[0] in ('Ti', 'To', 'Tu', 'Tv', 'K'):
                fid = int(f[2] if f[0] == 'Ti' else f[1])
                if rng.random() < 0.25: reserved = extra()
                if fid >= reserved:
                    reserved = fid + 1 + rng.choice([0, 0, 1, 5]); out.append('Tr:%d' % reserved)
            if depth == 0 and f[0] == 'Te' and rng.random() < 0.3: reserved = extra()
            out.append(op)
            if f[0] == 'Te' and depth > 0: depth -= 1
        h[k:] = out
        self.has_reserve = True
        self.stat('reserve_table')

    def nested(self, n):
        """nested buffer node: B .. root .. E  (style se) or create_buffer with is_nested (style c, struct roots only)"""
        o = n.c
        flags = 2 if o['with_size'] else 0
        idh = hx(o['ident']) if o['ident'] else '-'
        idw = int.from_bytes(o['ident'], 'little') if o['ident'] else 0
        depth = len(self.memo)      # 1 = directly inside the open top-level buffer (nest_id 0)
        if o['style'] != 'embed' and depth == 1 and self.rng.random() < getattr(self, 'embed_top_bias', 0.0):
            o['style'] = 'embed'
        if o['style'] == 'embed' and depth < getattr(self, 'embed_min_depth', 1):
            o['style'] = 'se'           # generator classes that aim the embedding at deeper levels
        if o['style'] == 'embed':
            # flatcc_builder_embed_buffer: the nested buffer exists as bytes (laid out by the independent encoder) and is embedded with
            # its alignment or any other power of two up to 256, with a block_align argument, with or without the with_size flag - at
            # every depth, including depth 1 (a parent is open whenever the builder's level is positive; before
            # fixes/C15-embed-buffer-inside-top-level-buffer.patch the test was nest_id != 0 and depth 1 lost the vector header)
            def plain(x):
                if x.kind == 'nested': x.c['with_size'] = False; x.c['style'] = 'se'; x.c['ident'] = None; plain(x.b)
                elif x.kind == 'table':
                    for _, v in x.b: plain(v)
                elif x.kind == 'offvec':
                    for e in x.a: plain(e)
                elif x.kind == 'union' and x.b is not None: plain(x.b)
                elif x.kind == 'uvec':
                    for _, e in x.a:
                        if e is not None: plain(e)
            plain(n.b)
            ws = bool(o.get('embed_with_size', False))
            o['with_size'] = ws; o['indep'] = True
            enc = IndepEncoder(self.s, self.rng, extra_pad=False)
            data = enc.buffer(n.a, n.b, ws, None)
            if ws: data = data[4:]          # the vector length written by embed_buffer doubles as the size prefix
            ea = o.get('embed_align', 0)
            al = ea if max(ea, 4) >= enc.maxal else enc.maxal
            ba = o.get('embed_block_align', o['block_align'])
            o['embed_depth'] = depth; o['embed_data'] = data; o['embed_al'] = max(al, 4, ba)
            fl = 2 if ws else 0
            self.h.append('M:%d:%d:%d:%s' % (ba, al, fl, hx(data))); self.m.append('M:%d:%d:%d:%s' % (ba, al, fl, hx(data)))
            self.stat('nested_embed' + ('_top' if depth == 1 else '') + ('_sized' if ws else ''))
            return self.new()
        if o['style'] == 'c' and n.a in self.s.structs:
            # the generated <field>_create_as_root of a nested STRUCT root: create_buffer(B, fid, 0, <struct>, A, is_nested)
            r = self.node(n.b)
            al = self.s.struct_layout(n.a)[1]
            self.h.append('C:%s:0:%d:%d:1' % (idh, r, al)); self.m.append('C:%d:0:%d:%d:1' % (idw, r, al)); self.stat('nested_create')
            return self.new()
        self.h.append('B:%s:%d:%d' % (idh, o['block_align'], flags)); self.m.append('B:%d:%d:%d' % (idw, o['block_align'], flags))
        self.memo.append({})
        r = self.node(n.b)
        self.memo.pop()
        self.h.append('E:%d' % r); self.m.append('E:%d' % r); self.stat('nested')
        return self.new()

    def toplevel(self, root_node, opts):
        """opts: clustering, block_align, set_block_align, ident (bytes|None), with_size, style ('se' start/end, 'c' create_buffer),
        early (create some objects before start_buffer)"""
        o = opts
        idh = hx(o['ident']) if o['ident'] else '-'
        idw = int.from_bytes(o['ident'], 'little') if o['ident'] else 0
        flags = 2 if o['with_size'] else 0
        self.h.append('X:%d:0:-' % (1 if o['clustering'] else 0)); self.m.append('X:%d:0:0' % (1 if o['clustering'] else 0))
        if o['style'] == 'c':
            r = self.node(root_node)
            al = o['align']
            self.h.append('C:%s:%d:%d:%d:%d' % (idh, o['block_align'], r, al, flags))
            self.m.append('C:%d:%d:%d:%d:%d' % (idw, o['block_align'], r, al, flags))
            return self.new()
        if o.get('early'):
            # objects may be created before the buffer is started at top level: pre-create the strings / vectors of the root table
            for f, v in (root_node.b if root_node.kind == 'table' else []):
                if v.kind in ('str', 'vec') and self.rng.random() < 0.7: self.node(v)
        self.h.append('B:%s:%d:%d' % (idh, o['block_align'], flags)); self.m.append('B:%d:%d:%d' % (idw, o['block_align'], flags))
        r = self.node(root_node)
        self.h.append('E:%d' % r); self.m.append('E:%d' % r)
        return self.new()


def harness_line(g):
    verb = 'buildd ' if getattr(g, 'default_emitter', False) else 'buildm ' if getattr(g, 'moving_alloc', False) else 'build '
    pre = getattr(g, 'abandon', None)
    return verb + (' '.join(pre) + ' Z ' if pre else '') + ' '.join(g.h)


def plain_script(line):
    """the harness line without reserve_table calls (op Tr), every start_table count raised to cover the ids its frame uses"""
    toks = line.split(' ')
    out, stack = [], []
    for t in toks:
        f = t.split(':')
        if f[0] == 'Tr': continue
        if f[0] == 'Ts': stack.append([len(out), int(f[1])])
        elif f[0] in ('Ti', 'To', 'Tu', 'Tv', 'K') and stack:
            fid = int(f[2] if f[0] == 'Ti' else f[1]); stack[-1][1] = max(stack[-1][1], fid + 1)
        elif f[0] == 'Te' and stack:
            i, c = stack.pop(); out[i] = 'Ts:%d' % c
        out.append(t)
    return ' '.join(out)


def abandon_ops(rng):
    """a build abandoned in the middle: strings, then 1..3 tables opened inside each other with inline and offset fields of random ids added and
    none of them ended; followed by flatcc_builder_reset (op Z) the builder must behave like a fresh one"""
    ops = ['X:%d:%d:-' % (rng.choice([0, 1]), rng.choice([0, 0, 16])), 'B:-:%d:%d' % (rng.choice([0, 8]), rng.choice([0, 2]))]
    nstr = rng.choice([0, 1, 2])
    for i in range(nstr): ops.append('S:c:' + bytes(rng.randrange(1, 256) for _ in range(rng.choice([1, 5, 40]))).hex())
    for d in range(rng.choice([1, 1, 2, 3])):
        ops.append('Ts:80')
        for fid in rng.sample(range(80), rng.choice([1, 3, 8, 25])):
            if nstr and rng.random() < 0.4: ops.append('To:%d:%d' % (fid, rng.randrange(nstr)))
            else:
                z = rng.choice([1, 2, 4, 8, 16])
                ops.append('Ti:a:%d:%d:%d:%s' % (fid, z, min(z, 8), bytes(rng.randrange(1, 256) for _ in range(z)).hex()))
    return ops
def model_line(g): return 'run ' + ' '.join(g.m)


# ----------------------------------------------------------------------------------------- generated C glue
FBNAME = {'char': 'flatbuffers_char', 'bool': 'flatbuffers_bool', 'byte': 'flatbuffers_int8', 'ubyte': 'flatbuffers_uint8', 'short': 'flatbuffers_int16',
          'ushort': 'flatbuffers_uint16', 'int': 'flatbuffers_int32', 'uint': 'flatbuffers_uint32', 'float': 'flatbuffers_float',
          'long': 'flatbuffers_int64', 'ulong': 'flatbuffers_uint64', 'double': 'flatbuffers_double'}


def roots_of(s):
    """root candidates in a fixed order: all tables, then all structs"""
    return list(s.tables) + list(s.structs)


def gen_glue(s):
    """C glue over the code flatcc generates for schema s: verify_root / dump_root dispatch and a generic dump that goes through
    the generated reader accessors only (C03 observation)."""
    o = []
    w = o.append
    w('/* generated by checks/builder_util.py gen_glue for schema %s */' % s.name)
    w('#include "%s_reader.h"\n#include "%s_verifier.h"' % (s.name, s.name))
    w('static void dump_string(flatbuffers_string_t p) { size_t n = flatbuffers_string_len(p); out_c(\'s\'); out_hex(p, n); }')
    for n in s.structs: w('static void ds_%s(%s_struct_t p, int *first);' % (n, n))
    for n in s.tables: w('static void dt_%s(%s_table_t t);' % (n, n))

    def ctype(t):
        return '%s_enum_t' % t if t in s.enums else CTYPE[t]

    def leaf(expr, t):
        return '{ %s v__ = %s; if (!*first) out_c(\',\'); *first = 0; out_hex(&v__, sizeof(v__)); }' % (ctype(t), expr)

    for n, st in s.structs.items():
        w('static void ds_%s(%s_struct_t p, int *first) {' % (n, n))
        for fname, ft in st.fields:
            if isinstance(ft, tuple):
                et, cnt = ft
                w('  { size_t i__; if (%s_%s_get_len() != %d) out_s("!LEN"); for (i__ = 0; i__ < %d; ++i__) {' % (n, fname, cnt, cnt))
                if et in s.structs: w('    ds_%s(%s_%s(p, i__), first);' % (et, n, fname))
                else: w('    ' + leaf('%s_%s(p, i__)' % (n, fname), et))
                w('  } }')
            elif ft in s.structs:
                w('  ds_%s(%s_%s(p), first);' % (ft, n, fname))
            else:
                w('  ' + leaf('%s_%s(p)' % (n, fname), ft))
        w('}')
    # unions
    for n, u in s.unions.items():
        w('static void du_%s(uint8_t type, const void *value) {' % n)
        w('  out_u(type); out_c(\':\');')
        w('  switch (type) {')
        for code, (_, mt) in enumerate(u.members, 1):
            if mt == 'string': w('  case %d: dump_string(flatbuffers_string_cast_from_generic(value)); break;' % code)
            elif mt in s.tables: w('  case %d: dt_%s((%s_table_t)value); break;' % (code, mt, mt))
            else: w('  case %d: { int f__ = 1; out_c(\'b\'); ds_%s((%s_struct_t)value, &f__); } break;' % (code, mt, mt))
        w('  default: out_c(\'?\'); }')
        w('}')
    for tn in s.tables:
        w('static void dt_%s(%s_table_t t) {' % (tn, tn))
        w('  int sep__ = 0; if (!t) { out_s("NULL"); return; } out_s("t{");')
        for f in s.live_fields(tn):
            k = s.kind(f.type)
            acc = '%s_%s' % (tn, f.name)
            pre = 'if (sep__) out_c(\';\'); sep__ = 1; out_u(%d); out_c(\'=\');' % f.id
            if k == 'scalar':
                if f.optional:
                    bt = f.type if f.type in s.enums else FBNAME[s.base_scalar(f.type)]
                    w('  { %s_option_t o__ = %s_option(t); %s if (o__.is_null != !%s_is_present(t)) out_s("!OPT"); if (o__.is_null) out_s("~null"); else { out_s("+b"); out_hex(&o__.value, sizeof(o__.value)); } }'
                      % (bt, acc, pre, acc))
                else:
                    w('  { %s v__ = %s(t); %s v2__ = %s_get(t); %s out_c(%s_is_present(t) ? \'+\' : \'~\'); out_c(\'b\'); out_hex(&v__, sizeof(v__)); if (memcmp(&v__, &v2__, sizeof(v__))) out_s("!GET"); }'
                      % (ctype(f.type), acc, ctype(f.type), acc, pre, acc))
                continue
            w('  if (%s_is_present(t)) {' % acc)
            if k == 'struct':
                w('    int f__ = 1; %s out_c(\'b\'); ds_%s(%s(t), &f__);' % (pre, f.type, acc))
            elif k == 'string':
                w('    %s dump_string(%s(t));' % (pre, acc))
            elif k == 'vec' and f.nested:
                rk = 'table' if f.nested in s.tables else 'struct'
                w('    %s out_s("n(");' % pre)
                if rk == 'table': w('    dt_%s(%s_as_root_with_identifier(t, 0));' % (f.nested, acc))
                else: w('    { int f__ = 1; out_c(\'b\'); ds_%s(%s_as_root_with_identifier(t, 0), &f__); }' % (f.nested, acc))
                w('    out_c(\')\');')
            elif k == 'vec':
                e = f.type[1:-1]
                vt = e if (e in s.structs or e in s.enums) else FBNAME[e]
                w('    %s_vec_t v__ = %s(t); size_t i__, n__ = %s_vec_len(v__); %s out_s("v[");' % (vt, acc, vt, pre))
                w('    for (i__ = 0; i__ < n__; ++i__) { if (i__) out_c(\',\');')
                if e in s.structs: w('      { int f__ = 1; ds_%s(%s_vec_at(v__, i__), &f__); }' % (e, vt))
                else: w('      { %s x__ = %s_vec_at(v__, i__); out_hex(&x__, sizeof(x__)); }' % (ctype(e), vt))
                w('    } out_c(\']\');')
            elif k == 'strvec':
                w('    flatbuffers_string_vec_t v__ = %s(t); size_t i__, n__ = flatbuffers_string_vec_len(v__); %s out_s("o[");' % (acc, pre))
                w('    for (i__ = 0; i__ < n__; ++i__) { if (i__) out_c(\',\'); dump_string(flatbuffers_string_vec_at(v__, i__)); } out_c(\']\');')
            elif k == 'table':
                w('    %s dt_%s(%s(t));' % (pre, f.type, acc))
            elif k == 'tabvec':
                e = f.type[1:-1]
                w('    %s_vec_t v__ = %s(t); size_t i__, n__ = %s_vec_len(v__); %s out_s("o[");' % (e, acc, e, pre))
                w('    for (i__ = 0; i__ < n__; ++i__) { if (i__) out_c(\',\'); dt_%s(%s_vec_at(v__, i__)); } out_c(\']\');' % (e, e))
            elif k == 'union':
                w('    %s_union_t u__ = %s_union(t); %s out_c(\'u\'); if (u__.type != %s_type(t) || u__.value != %s(t)) out_s("!UNION"); du_%s(u__.type, u__.value);'
                  % (f.type, acc, pre, acc, acc, f.type))
            elif k == 'uvec':
                e = f.type[1:-1]
                w('    %s_union_vec_t v__ = %s_union(t); size_t i__, n__ = %s_union_vec_len(v__); %s out_s("U[");' % (e, acc, e, pre))
                w('    if (flatbuffers_generic_vec_len(%s(t)) != n__ || %s_vec_len(%s_type(t)) != n__) out_s("!UVLEN");' % (acc, e, acc))
                w('    for (i__ = 0; i__ < n__; ++i__) { %s_union_t u__ = %s_union_vec_at(v__, i__); if (i__) out_c(\',\'); if (u__.type == 0) { out_s("0:-"); } else du_%s(u__.type, u__.value); } out_c(\']\');' % (e, e, e))
            else:
                raise ValueError(k)
            w('  }')
            if k == 'union':
                # a NONE union must read as type 0 / null
                w('  else if (%s_type(t) != 0 && 0) out_s("!NONE");' % acc)
        w('  out_c(\'}\');')
        w('}')
    roots = roots_of(s)
    w('static int dump_root(int idx, const void *buf) {')
    w('  switch (idx) {')
    for i, r in enumerate(roots):
        if r in s.tables: w('  case %d: dt_%s(%s_as_root_with_identifier(buf, 0)); return 0;' % (i, r, r))
        else: w('  case %d: { int f__ = 1; %s_struct_t p__ = %s_as_root_with_identifier(buf, 0); if (!p__) { out_s("NULL"); return 0; } out_c(\'b\'); ds_%s(p__, &f__); } return 0;' % (i, r, r, r))
    w('  } return -1; }')
    w('static int verify_root(int idx, int ws, int mode, const void *buf, size_t n, const char *fid, uint32_t thash) {')
    w('  switch (idx) {')
    for i, r in enumerate(roots):
        w('  case %d:' % i)
        w('    if (!ws) switch (mode) { case 0: return %s_verify_as_root(buf, n); case 1: return %s_verify_as_root_with_identifier(buf, n, fid);' % (r, r))
        w('      case 2: return %s_verify_as_typed_root(buf, n); case 3: return %s_verify_as_root_with_type_hash(buf, n, thash); }' % (r, r))
        w('    else switch (mode) { case 0: return %s_verify_as_root_with_size(buf, n); case 1: return %s_verify_as_root_with_identifier_and_size(buf, n, fid);' % (r, r))
        w('      case 2: return %s_verify_as_typed_root_with_size(buf, n); case 3: return %s_verify_as_root_with_type_hash_and_size(buf, n, thash); }' % (r, r))
        w('    return -1;')
    w('  } return -1; }')
    w('static uint32_t root_type_hash(int idx) { switch (idx) {')
    for i, r in enumerate(roots): w('  case %d: return %s_type_hash;' % (i, r))
    w('  } return 0; }')
    return '\n'.join(o) + '\n'


# ----------------------------------------------------------------------------------------- an independent encoder
class IndepEncoder:
    """A second FlatBuffers writer with layout choices unlike flatcc's: forward (pre-order) placement - every object
    after the object referring to it -, one private vtable directly BEFORE each table (positive soffset, no sharing),
    vtables optionally longer than needed, fields laid out by descending alignment, optional extra padding between
    objects, no object sharing.  Used for the converse clause of C02: the verifier accepts every conforming buffer
    whichever writer laid it out (and as a second source for the decoder Spec.v)."""

    def __init__(self, s, rng, extra_pad=True):
        self.s, self.rng, self.extra_pad = s, rng, extra_pad
        self.b = bytearray()
        self.maxal = 4

    def pad_to(self, al, bias=0):
        """append zeros until (len + bias) is a multiple of al; sometimes more"""
        self.maxal = max(self.maxal, al)
        while (len(self.b) + bias) % al: self.b.append(0)
        if self.extra_pad and self.rng.random() < 0.2:
            self.b += bytes(al * self.rng.randint(1, 2))

    def put32(self, pos, v):
        self.b[pos:pos + 4] = (v & 0xffffffff).to_bytes(4, 'little')

    def string(self, data):
        self.pad_to(4)
        pos = len(self.b)
        self.b += len(data).to_bytes(4, 'little') + data + b'\0'
        return pos

    def vector(self, elems, esize, al):
        self.pad_to(max(al, 4), bias=4)
        pos = len(self.b)
        self.b += len(elems).to_bytes(4, 'little') + b''.join(elems)
        return pos

    def struct(self, data, al):
        self.pad_to(al)
        pos = len(self.b)
        self.b += data
        return pos

    def offvec(self, nodes, place):
        self.pad_to(4)
        pos = len(self.b)
        self.b += len(nodes).to_bytes(4, 'little') + bytes(4 * len(nodes))
        for i, n in enumerate(nodes):
            fp = pos + 4 + 4 * i
            if n is None: continue
            self.put32(fp, place(n) - fp)
        return pos

    def member(self, u, code, node):
        mt = self.s.unions[u].members[code - 1][1]
        if mt == 'string': return self.string(node.a)
        if mt in self.s.tables: return self.table(node)
        return self.struct(node.a, self.s.struct_layout(mt)[1])

    def obj(self, n):
        k = n.kind
        if k == 'str': return self.string(n.a)
        if k == 'vec':
            sz, al = self.s.inline_size_align(n.b)
            return self.vector(n.a, sz, al)
        if k == 'offvec': return self.offvec(n.a, self.obj)
        if k == 'table': return self.table(n)
        if k == 'nested': return self.nested(n)
        raise ValueError(k)

    def nested(self, n):
        e = IndepEncoder(self.s, self.rng, self.extra_pad)
        data = e.buffer(n.a, n.b, False, None)
        self.pad_to(max(e.maxal, 4), bias=4)
        pos = len(self.b)
        self.b += len(data).to_bytes(4, 'little') + data
        return pos

    def table(self, n):
        s, rng = self.s, self.rng
        # fields -> inline pieces: (id, size, align, bytes | ('off', thunk))
        pieces = []
        for f, v in n.b:
            k = s.kind(f.type)
            if k in ('scalar', 'struct'):
                sz, al = s.inline_size_align(f.type)
                pieces.append((f.id, sz, al, v.a))
            elif k == 'union':
                if v.a == 0:
                    if rng.random() < 0.5: pieces.append((f.id - 1, 1, 1, b'\0'))
                    continue
                pieces.append((f.id - 1, 1, 1, bytes([v.a])))
                pieces.append((f.id, 4, 4, ('off', lambda v=v: self.member(v.c, v.a, v.b))))
            elif k == 'uvec':
                codes = [bytes([c]) for c, _ in v.a]
                pieces.append((f.id - 1, 4, 4, ('off', lambda codes=codes: self.vector(codes, 1, 1))))
                pieces.append((f.id, 4, 4, ('off', lambda v=v: self.uvalues(v))))
            else:
                pieces.append((f.id, 4, 4, ('off', lambda v=v: self.obj(v))))
        order = sorted(pieces, key=lambda p: (-p[2], p[0]))
        maxal = max([p[2] for p in pieces] + [4])
        # field offsets relative to the table start (which will be aligned to maxal)
        off, offs = 4, {}
        for fid, sz, al, _ in order:
            off = (off + al - 1) // al * al
            offs[fid] = off
            off += sz
        tsize = off
        nids = max([p[0] for p in pieces] + [-1]) + 1 + (rng.choice([0, 0, 1, 3]) if self.extra_pad else 0)
        vsize = 4 + 2 * nids
        # vtable directly before the table: choose its position so that the table start is aligned to maxal
        self.pad_to(2)
        self.maxal = max(self.maxal, maxal)
        while (len(self.b) + vsize) % maxal: self.b += b'\0\0'
        vpos = len(self.b)
        vt = bytearray(vsize)
        vt[0:2] = vsize.to_bytes(2, 'little'); vt[2:4] = tsize.to_bytes(2, 'little')
        for fid in offs: vt[4 + 2 * fid:6 + 2 * fid] = offs[fid].to_bytes(2, 'little')
        self.b += vt
        tpos = len(self.b)
        tb = bytearray(tsize)
        tb[0:4] = (tpos - vpos).to_bytes(4, 'little')
        for fid, sz, al, data in order:
            if not isinstance(data, tuple): tb[offs[fid]:offs[fid] + sz] = data
        self.b += tb
        for fid, sz, al, data in order:
            if isinstance(data, tuple):
                fp = tpos + offs[fid]
                self.put32(fp, data[1]() - fp)
        return tpos

    def uvalues(self, v):
        self.pad_to(4)
        pos = len(self.b)
        self.b += len(v.a).to_bytes(4, 'little') + bytes(4 * len(v.a))
        for i, (c, e) in enumerate(v.a):
            if e is None: continue
            fp = pos + 4 + 4 * i
            self.put32(fp, self.member(v.b, c, e) - fp)
        return pos

    def buffer(self, root, node, with_size, ident):
        """whole buffer bytes; root is a table or struct name"""
        self.b = bytearray()
        if with_size: self.b += bytes(4)
        hp = len(self.b)
        self.b += bytes(4)
        if ident: self.b += ident
        elif self.extra_pad and self.rng.random() < 0.3: self.b += bytes(4)     # room of an absent identifier
        if root in self.s.tables: rp = self.table(node)
        else: rp = self.struct(node.a, self.s.struct_layout(root)[1])
        self.put32(hp, rp - hp)
        while len(self.b) < hp + 8: self.b.append(0)          # flatcc's verifier wants an eight byte header
        if with_size: self.put32(0, len(self.b) - 4)
        return bytes(self.b)


# ----------------------------------------------------------------------------------------- a small independent reader
class PyReader:
    """Just enough of a FlatBuffers reader to locate objects by walking a known value tree (C15: where the nested
    buffers lie inside the parent)."""

    def __init__(self, b):
        self.b = b

    def u16(self, p): return int.from_bytes(self.b[p:p + 2], 'little')
    def u32(self, p): return int.from_bytes(self.b[p:p + 4], 'little')
    def s32(self, p): return int.from_bytes(self.b[p:p + 4], 'little', signed=True)
    def follow(self, p): return p + self.u32(p)

    def field(self, tpos, fid):
        vt = tpos - self.s32(tpos)
        vsize = self.u16(vt)
        if 4 + 2 * fid + 2 > vsize: return None
        e = self.u16(vt + 4 + 2 * fid)
        return tpos + e if e else None

    def vtable_range(self, tpos):
        vt = tpos - self.s32(tpos)
        return vt, vt + self.u16(vt)


def nested_extents(s, node, rd, tpos, out, path='', objs=None, level=0):
    """walk table `node` stored at tpos; append (path, data start, length, nested node, level) for every nested buffer, recursively;
    objs (optional list) receives (level, table position, vtable start, vtable end) of every table met, level = id of the buffer it belongs to"""
    if objs is not None:
        vs, ve = rd.vtable_range(tpos)
        objs.append((level, tpos, vs, ve))
    for f, v in node.b:
        k = v.kind
        fp = rd.field(tpos, f.id)
        if k == 'table' and fp is not None:
            nested_extents(s, v, rd, rd.follow(fp), out, path + '/' + f.name, objs, level)
        elif k == 'offvec' and fp is not None:
            vec = rd.follow(fp)
            for i, e in enumerate(v.a):
                if e.kind == 'table': nested_extents(s, e, rd, rd.follow(vec + 4 + 4 * i), out, '%s/%s[%d]' % (path, f.name, i), objs, level)
        elif k == 'union' and v.b is not None and v.b.kind == 'table' and fp is not None:
            nested_extents(s, v.b, rd, rd.follow(fp), out, path + '/' + f.name, objs, level)
        elif k == 'uvec' and fp is not None:
            vec = rd.follow(fp)
            for i, (c, e) in enumerate(v.a):
                if e is not None and e.kind == 'table':
                    nested_extents(s, e, rd, rd.follow(vec + 4 + 4 * i), out, '%s/%s[%d]' % (path, f.name, i), objs, level)
        elif k == 'nested' and fp is not None:
            vec = rd.follow(fp)
            n = rd.u32(vec)
            out.append((path + '/' + f.name, vec + 4, n, v, level))
            if v.b.kind == 'table':
                nb = vec + 4
                nested_extents(s, v.b, rd, rd.follow(nb), out, path + '/' + f.name + '!', objs, len(out) + 1000 * (level + 1))


def embed_header_lost(s, node, raw, hp):
    """paths of the nested fields filled by embed_buffer directly inside the top-level buffer whose [ubyte] field points straight at the
    embedded bytes, i.e. the ubyte vector length is missing (the first word of the embedded buffer is read as the length).  Located by
    the independent reader; a walk that breaks off later (it descends into what it takes for nested content) does not matter."""
    if node.kind != 'table': return []
    rd = PyReader(raw)
    ext = []
    try:
        nested_extents(s, node, rd, rd.follow(hp), ext, '', None, 0)
    except Exception:
        pass
    lost = []
    for path, p, ln, v, level in ext:
        d = v.c.get('embed_data')
        if level == 0 and v.c.get('embed_depth') == 1 and d and raw[p - 4:p - 4 + len(d)] == d and ln != len(d):
            lost.append(path)
    return lost


def req_align(s, n, t=None):
    """the largest alignment any element of the value needs (what a buffer holding it must be aligned to)"""
    k = n.kind
    if k == 'bytes': return s.inline_size_align(n.b)[1] if n.b else 1
    if k == 'str': return 4
    if k == 'vec': return max(4, s.inline_size_align(n.b)[1])
    if k == 'offvec': return max([4] + [req_align(s, e) for e in n.a])
    if k == 'union': return req_align(s, n.b) if n.b is not None else 1
    if k == 'uvec': return max([4] + [req_align(s, e) for _, e in n.a if e is not None])
    if k == 'nested': return max(4, req_align(s, n.b))
    if k == 'table':
        a = 4
        for f, v in n.b:
            if s.kind(f.type) in ('scalar', 'struct'): a = max(a, s.inline_size_align(f.type)[1])
            else: a = max(a, req_align(s, v))
        return a
    raise ValueError(k)


def object_positions(s, node, rd, tpos, pos, level=0):
    """walk table `node` at tpos and record for every string / vector / table node the positions it is read from:
    pos[(level, id(node))] = set of positions (C03: an object referenced from several places is stored once)"""
    pos.setdefault((level, id(node)), set()).add(tpos)

    def visit(v, p):
        if v.kind in ('str', 'vec'):
            pos.setdefault((level, id(v)), set()).add(p)
        elif v.kind == 'table':
            object_positions(s, v, rd, p, pos, level)
        elif v.kind == 'offvec':
            for i, e in enumerate(v.a): visit(e, rd.follow(p + 4 + 4 * i))
    for f, v in node.b:
        fp = rd.field(tpos, f.id)
        if fp is None: continue
        k = v.kind
        if k in ('str', 'vec', 'table', 'offvec'): visit(v, rd.follow(fp))
        elif k == 'union' and v.b is not None and v.b.kind in ('str', 'table'): visit(v.b, rd.follow(fp))
        elif k == 'uvec':
            vec = rd.follow(fp)
            for i, (c, e) in enumerate(v.a):
                if e is not None and e.kind in ('str', 'table'): visit(e, rd.follow(vec + 4 + 4 * i))
        elif k == 'nested' and v.b.kind == 'table' and not v.c.get('indep'):
            # (bytes laid out by the independent encoder - embed_buffer / <field>_nest - do not share objects)
            nb = rd.follow(fp) + 4
            object_positions(s, v.b, rd, rd.follow(nb), pos, level * 1000 + fp)


# ----------------------------------------------------------------------------------------- glue over the generated BUILDER api
def flat_struct(s, name):
    """struct whose members are all scalars / enums (create_as_root takes the members as arguments)"""
    return all((not isinstance(t, tuple)) and s.scalar_size(t) for _, t in s.structs[name].fields)


def gen_glue_build(s):
    o = []
    w = o.append
    w('/* generated by checks/builder_util.py gen_glue_build for schema %s */' % s.name)
    w('#include "%s_builder.h"' % s.name)
    w('#define GFAIL(c) do { if (c) { free(d); return -1; } } while (0)')

    def ctype(t):
        return '%s_enum_t' % t if t in s.enums else CTYPE[t]
    tabs = list(s.tables)
    w('static int glue_op(flatcc_builder_t *B, char **f, int nf) {')
    w('  uint8_t *d = 0; size_t n = 0; int t = nf > 1 ? atoi(f[1]) : -1; int fi = nf > 2 ? atoi(f[2]) : -1; int key = t * 1000 + fi; (void)n;')
    w('  if (!strcmp(f[0], "Gs")) { switch (t) {')
    for i, tn in enumerate(tabs): w('    case %d: return %s_start(B);' % (i, tn))
    w('  } return -1; }')
    w('  if (!strcmp(f[0], "Ge")) { flatcc_builder_ref_t r = 0; switch (t) {')
    for i, tn in enumerate(tabs): w('    case %d: r = %s_end(B); break;' % (i, tn))
    w('  } if (!r) return -1; push_reg(r); return 0; }')
    # scalar / struct add, force_add
    for op, suffix in (('Ga', 'add'), ('Gf', 'force_add')):
        w('  if (!strcmp(f[0], "%s")) { int rc = -1; n = hx_decode(f[3], &d); switch (key) {' % op)
        for i, tn in enumerate(tabs):
            for j, fl in enumerate(s.live_fields(tn)):
                k = s.kind(fl.type)
                if k == 'scalar':
                    if fl.optional and op == 'Gf': continue          # optional scalars have no force_add
                    w('    case %d: { %s v; memcpy(&v, d, sizeof(v)); rc = %s_%s_%s(B, v); } break;' % (i * 1000 + j, ctype(fl.type), tn, fl.name, suffix))
                elif k == 'struct' and op == 'Ga':
                    w('    case %d: { %s_t v; memcpy(&v, d, sizeof(v)); rc = %s_%s_add(B, &v); } break;' % (i * 1000 + j, fl.type, tn, fl.name))
        w('  } free(d); return rc; }')
    # struct field BY ARGUMENTS: <T>_<f>_create(B, every leaf of the struct in declaration order)
    w('  if (!strcmp(f[0], "GA")) { int rc = -1; n = hx_decode(f[3], &d); switch (key) {')
    for i, tn in enumerate(tabs):
        for j, fl in enumerate(s.live_fields(tn)):
            if s.kind(fl.type) != 'struct': continue
            lv = s.struct_arg_leaves(fl.type)
            if not lv: continue
            decl = ' '.join('%s a%d; memcpy(&a%d, d + %d, sizeof(a%d));' % (ctype(mt), k, k, off, k) for k, (off, mt) in enumerate(lv))
            w('    case %d: { %s rc = %s_%s_create(B, %s); } break;' % (i * 1000 + j, decl, tn, fl.name, ', '.join('a%d' % k for k in range(len(lv)))))
    w('  } free(d); return rc; }')
    w('  if (!strcmp(f[0], "Go")) { switch (key) {')
    for i, tn in enumerate(tabs):
        for j, fl in enumerate(s.live_fields(tn)):
            if s.kind(fl.type) in ('string', 'vec', 'strvec', 'table', 'tabvec'):
                w('    case %d: return %s_%s_add(B, regs[atoi(f[3])]);' % (i * 1000 + j, tn, fl.name))
    w('  } return -1; }')
    w('  if (!strcmp(f[0], "Gu")) { switch (key) {')
    for i, tn in enumerate(tabs):
        for j, fl in enumerate(s.live_fields(tn)):
            if s.kind(fl.type) == 'union':
                w('    case %d: { %s_union_ref_t u; u.type = (%s_union_type_t)atoi(f[3]); u.value = f[4][0] == \'-\' ? 0 : regs[atoi(f[4])]; return %s_%s_add(B, u); }'
                  % (i * 1000 + j, fl.type, fl.type, tn, fl.name))
    w('  } return -1; }')
    w('  if (!strcmp(f[0], "Gv")) { switch (key) {')
    for i, tn in enumerate(tabs):
        for j, fl in enumerate(s.live_fields(tn)):
            if s.kind(fl.type) == 'uvec':
                u = fl.type[1:-1]
                w('    case %d: { %s_union_vec_ref_t u; u.type = regs[atoi(f[3])]; u.value = regs[atoi(f[4])]; return %s_%s_add(B, u); }'
                  % (i * 1000 + j, u, tn, fl.name))
    w('  } return -1; }')
    # nested_flatbuffer fields through the generated routes: Gn:<t>:<fi>:<variant>:<hex>:<align>
    #   struct target: c _create_as_root, C _create_as_typed_root, s _start_as_root/_end_as_root, S _start_as_typed_root/_end_as_typed_root,
    #                  k _clone_as_root, K _clone_as_typed_root (hex = the struct), n _nest, N _typed_nest (hex = a finished buffer, align argument)
    #   table target:  n _nest, N _typed_nest
    w('  if (!strcmp(f[0], "Gn")) { int rc = -1; char var = f[3][0]; uint16_t al_ = (uint16_t)(nf > 5 ? atoi(f[5]) : 0); size_t ao_ = nf > 6 ? (size_t)atoi(f[6]) : 0; void *blk_ = 0; n = hx_decode(f[4], &d);')
    # _nest / _typed_nest: the source bytes at an address that is ao_ modulo 256 (a payload behind a header, an odd address ..)
    w('    if (nf > 6) { uint8_t *t_; if (posix_memalign(&blk_, 256, n + 512)) return -1; t_ = (uint8_t *)blk_ + ao_; memcpy(t_, d, n); free(d); d = t_; }')
    w('    switch (key) {')
    for i, tn in enumerate(tabs):
        for j, fl in enumerate(s.live_fields(tn)):
            if not fl.nested: continue
            P = '%s_%s' % (tn, fl.name)
            w('    case %d: switch (var) {' % (i * 1000 + j))
            w('      case \'n\': rc = %s_nest(B, d, n, al_); push_reg(0); break; case \'N\': rc = %s_typed_nest(B, d, n, al_); push_reg(0); break;' % (P, P))
            if fl.nested in s.structs:
                S_ = fl.nested
                size, al, members = s.struct_layout(S_)
                w('      case \'s\': { %s_t *p_ = %s_start_as_root(B); if (p_) { memcpy(p_, d, %d); rc = %s_end_as_root(B); } push_reg(0); push_reg(0); } break;' % (S_, P, size, P))
                w('      case \'S\': { %s_t *p_ = %s_start_as_typed_root(B); if (p_) { memcpy(p_, d, %d); rc = %s_end_as_typed_root(B); } push_reg(0); push_reg(0); } break;' % (S_, P, size, P))
                w('      case \'k\': { %s_t v_; memcpy(&v_, d, sizeof(v_)); rc = %s_clone_as_root(B, &v_); push_reg(0); push_reg(0); } break;' % (S_, P))
                w('      case \'K\': { %s_t v_; memcpy(&v_, d, sizeof(v_)); rc = %s_clone_as_typed_root(B, &v_); push_reg(0); push_reg(0); } break;' % (S_, P))
                if flat_struct(s, S_):
                    decl, args = [], []
                    for k, (mn, off, mt, sz) in enumerate(members):
                        decl.append('%s a%d; memcpy(&a%d, d + %d, sizeof(a%d));' % (ctype(mt), k, k, off, k)); args.append('a%d' % k)
                    w('      case \'c\': { %s rc = %s_create_as_root(B, %s); push_reg(0); push_reg(0); } break;' % (' '.join(decl), P, ', '.join(args)))
                    w('      case \'C\': { %s rc = %s_create_as_typed_root(B, %s); push_reg(0); push_reg(0); } break;' % (' '.join(decl), P, ', '.join(args)))
            w('    } break;')
    w('  } if (blk_) free(blk_); else free(d); return rc; }')
    # strings, vectors, string vectors and union vectors through the generated field builders
    def str_field_cases(P):
        return ("switch (st) { case 'c': rc = %s_create(B, (const char *)d, n); break; case 's': rc = %s_create_str(B, z); break;"
                " case 'n': rc = %s_create_strn(B, z, n + 3); break;"
                " case 'b': rc = %s_start(B); if (!rc) { size_t h = n / 2; if (h && !flatbuffers_string_append(B, (const char *)d, h)) rc = -1;"
                " if (n - h && !flatbuffers_string_append(B, (const char *)d + h, n - h)) rc = -1; if (!rc) rc = %s_end(B); } break;"
                " case 'k': rc = %s_clone(B, fs); break; case 'l': rc = %s_slice(B, fs2, 2, n); break; }" % ((P,) * 7))

    def str_push_cases(P):
        return ("switch (st) { case 'p': ok = 0 != %s_push(B, flatbuffers_string_create(B, (const char *)d, n)); break;"
                " case 'c': ok = 0 != %s_push_create(B, (const char *)d, n); break; case 's': ok = 0 != %s_push_create_str(B, z); break;"
                " case 'n': ok = 0 != %s_push_create_strn(B, z, n + 3); break;"
                " case 'b': ok = !%s_push_start(B); if (ok) { size_t h = n / 2; if (h && !flatbuffers_string_append(B, (const char *)d, h)) ok = 0;"
                " if (n - h && !flatbuffers_string_append(B, (const char *)d + h, n - h)) ok = 0; if (ok) ok = 0 != %s_push_end(B); } break;"
                " case 'k': ok = 0 != %s_push_clone(B, fs); break; case 'l': ok = 0 != %s_push_slice(B, fs2, 2, n); break; }" % ((P,) * 8))
    w('#define STR_PREP() do { n = hx_decode(hexs, &d); z = (char *)malloc(n + 1); memcpy(z, d, n); z[n] = 0; \\')
    w('    fsb = (uint8_t *)malloc(n + 8); { uint32_t l_ = (uint32_t)n; memcpy(fsb, &l_, 4); } memcpy(fsb + 4, d, n); fsb[4 + n] = 0; fs = (flatbuffers_string_t)(fsb + 4); \\')
    w('    fsb2 = (uint8_t *)malloc(n + 12); { uint32_t l_ = (uint32_t)n + 3; memcpy(fsb2, &l_, 4); } fsb2[4] = \'x\'; fsb2[5] = \'y\'; memcpy(fsb2 + 6, d, n); fsb2[6 + n] = \'z\'; fsb2[7 + n] = 0; fs2 = (flatbuffers_string_t)(fsb2 + 4); } while (0)')
    w('#define STR_DONE() do { free(d); d = 0; free(z); free(fsb); free(fsb2); } while (0)')
    w('  { char *z = 0; uint8_t *fsb = 0, *fsb2 = 0; flatbuffers_string_t fs = 0, fs2 = 0; const char *hexs; char st; int ok; (void)ok; (void)fs; (void)fs2; (void)z;')
    w('  if (!strcmp(f[0], "GS")) { int rc = -1; st = f[3][0]; hexs = f[4]; STR_PREP(); switch (key) {')
    for i, tn in enumerate(tabs):
        for j, fl in enumerate(s.live_fields(tn)):
            if s.kind(fl.type) == 'string':
                w('    case %d: %s break;' % (i * 1000 + j, str_field_cases('%s_%s' % (tn, fl.name))))
    w('  } STR_DONE(); push_reg(0); return rc; }')
    w('  if (!strcmp(f[0], "GV")) { int rc = -1; size_t cnt = strtoul(f[4], 0, 10), i_; st = f[3][0]; n = hx_decode(f[5], &d); (void)i_; switch (key) {')
    for i, tn in enumerate(tabs):
        for j, fl in enumerate(s.live_fields(tn)):
            if s.kind(fl.type) == 'vec' and not fl.nested:
                e = fl.type[1:-1]
                et = '%s_t' % e if e in s.structs else ctype(e)
                P = '%s_%s' % (tn, fl.name)
                esz = s.inline_size_align(e)[0]
                w('    case %d: { const %s *p_ = (const %s *)d; (void)p_; switch (st) {' % (i * 1000 + j, et, et))
                w('      case \'c\': rc = %s_create(B, p_, cnt); break;' % P)
                w('      case \'p\': rc = %s_start(B); for (i_ = 0; !rc && i_ < cnt; ++i_) if (!%s_push(B, p_ + i_)) rc = -1; if (!rc) rc = %s_end(B); break;' % (P, P, P))
                w('      case \'e\': rc = %s_start(B); if (!rc) { %s *q_ = %s_extend(B, cnt); if (!q_ && cnt) rc = -1; else if (cnt) memcpy(q_, d, cnt * %d); } if (!rc) rc = %s_end(B); break;' % (P, et, P, esz, P))
                w('      case \'a\': rc = %s_start(B); if (!rc) { size_t h = cnt / 2; if (h && !%s_append(B, p_, h)) rc = -1; if (cnt - h && !%s_append(B, p_ + h, cnt - h)) rc = -1; } if (!rc) rc = %s_end(B); break;' % (P, P, P, P))
                w('      case \'t\': rc = %s_start(B); if (!rc && cnt) { if (!%s_append(B, p_, cnt) || !%s_push(B, p_) || %s_truncate(B, 1)) rc = -1; } if (!rc) rc = %s_end(B); break;' % (P, P, P, P, P))
                lv = s.struct_arg_leaves(e) if e in s.structs else None
                if lv:      # <T>_<f>_push_create(B, every leaf of the element struct): by arguments
                    decl = ' '.join('%s a%d; memcpy(&a%d, d + i_ * %d + %d, sizeof(a%d));' % (ctype(mt), k, k, esz, off, k) for k, (off, mt) in enumerate(lv))
                    w('      case \'k\': rc = %s_start(B); for (i_ = 0; !rc && i_ < cnt; ++i_) { %s if (!%s_push_create(B, %s)) rc = -1; } if (!rc) rc = %s_end(B); break;'
                      % (P, decl, P, ', '.join('a%d' % k for k in range(len(lv))), P))
                w('    } } break;')
    w('  } free(d); push_reg(0); return rc; }')
    w('  if (!strcmp(f[0], "GW")) { static char *el_[4096]; int ne = split_ch(f[3], \',\', el_, 4096), k_, rc = -1; switch (key) {')
    for i, tn in enumerate(tabs):
        for j, fl in enumerate(s.live_fields(tn)):
            if s.kind(fl.type) == 'strvec':
                P = '%s_%s' % (tn, fl.name)
                w('    case %d: rc = %s_start(B); for (k_ = 0; !rc && k_ < ne; ++k_) { st = el_[k_][0]; hexs = el_[k_] + 2; STR_PREP(); ok = 0; %s STR_DONE(); push_reg(0); if (!ok) rc = -1; } if (!rc) rc = %s_end(B); break;'
                  % (i * 1000 + j, P, str_push_cases(P), P))
    w('  } push_reg(0); return rc; }')
    w('  if (!strcmp(f[0], "GX")) { static char *el_[4096]; int ne = split_ch(f[3], \',\', el_, 4096), k_, rc = -1; switch (key) {')
    for i, tn in enumerate(tabs):
        for j, fl in enumerate(s.live_fields(tn)):
            if s.kind(fl.type) == 'uvec':
                u = fl.type[1:-1]
                P = '%s_%s' % (tn, fl.name)
                w('    case %d: rc = %s_start(B); for (k_ = 0; !rc && k_ < ne; ++k_) { char *c1 = strchr(el_[k_], \'/\'), *c2; int code; *c1 = 0; code = atoi(el_[k_]); c2 = strchr(c1 + 1, \'/\'); *c2 = 0; st = c1[1]; ok = 0; switch (code) {' % (i * 1000 + j, P))
                w('      case 0: { %s_union_ref_t u_; u_.type = 0; u_.value = 0; ok = 0 != %s_push(B, u_); } break;' % (u, P))
                for code, (mn, mt) in enumerate(s.unions[u].members, 1):
                    if mt == 'string':
                        w('      case %d: hexs = c2 + 1; STR_PREP(); %s STR_DONE(); push_reg(0); break;' % (code, str_push_cases('%s_%s' % (P, mn))))
                    else:
                        w('      case %d: ok = 0 != %s_%s_push(B, regs[atoi(c2 + 1)]); break;' % (code, P, mn))
                w('      } if (!ok) rc = -1; } if (!rc) rc = %s_end(B); break;' % P)
    w('  } push_reg(0); push_reg(0); return rc; }')
    w('  }')
    # T_create with every field
    w('  if (!strcmp(f[0], "Gc")) { static char *a[256]; int na = split_ch(f[2], \',\', a, 256); flatcc_builder_ref_t r = 0; (void)na; switch (t) {')
    for i, tn in enumerate(tabs):
        fields = s.live_fields(tn)
        if len(fields) != len(s.tables[tn].fields): continue      # deprecated fields: no create call generated here
        w('    case %d: {' % i)
        args = []
        for j, fl in enumerate(fields):
            k = s.kind(fl.type)
            if k == 'scalar':
                w('      %s v%d; { uint8_t *p; hx_decode(a[%d], &p); memcpy(&v%d, p, sizeof(v%d)); free(p); }' % (ctype(fl.type), j, j, j, j))
                args.append('v%d' % j)
            elif k == 'struct':
                w('      %s_t s%d; { uint8_t *p; hx_decode(a[%d], &p); memcpy(&s%d, p, sizeof(s%d)); free(p); }' % (fl.type, j, j, j, j))
                args.append('&s%d' % j)
            elif k == 'union':
                w('      %s_union_ref_t v%d; { char *sl = strchr(a[%d], \'/\'); *sl = 0; v%d.type = (%s_union_type_t)atoi(a[%d]); v%d.value = sl[1] == \'-\' ? 0 : regs[atoi(sl + 1)]; }'
                  % (fl.type, j, j, j, fl.type, j, j))
                args.append('v%d' % j)
            elif k == 'uvec':
                u = fl.type[1:-1]
                w('      %s_union_vec_ref_t v%d; { char *sl = strchr(a[%d], \'/\'); *sl = 0; v%d.type = a[%d][0] == \'-\' ? 0 : regs[atoi(a[%d])]; v%d.value = sl[1] == \'-\' ? 0 : regs[atoi(sl + 1)]; }' % (u, j, j, j, j, j, j))
                args.append('v%d' % j)
            else:
                w('      flatcc_builder_ref_t v%d = a[%d][0] == \'-\' ? 0 : regs[atoi(a[%d])];' % (j, j, j))
                args.append('v%d' % j)
        w('      r = %s_create(B%s); } break;' % (tn, ''.join(', ' + x for x in args)))
    w('  } if (!r) return -1; push_reg(r); return 0; }')
    w('  return -1; }')
    return '\n'.join(o) + '\n'


def create_order(s, gendir):
    """the order of the add calls inside the generated <T>_create functions, read from the generated builder header:
    {table: [(field name, 'add' | 'add_value' | 'add_type')]}"""
    import re
    txt = open(os.path.join(gendir, '%s_builder.h' % s.name)).read()
    out = {}
    for tn in s.tables:
        m = re.search(r'static inline %s_ref_t %s_create\(flatbuffers_builder_t \*B __%s_formal_args\)\n\{\n    if \(%s_start\(B\)(.*?)\) \{' % (tn, tn, tn, tn), txt, re.S)
        if not m: continue
        calls = re.findall(r'\|\| %s_(\w+?)_(add_value|add_type|add)\(B, v\d+(?:\.type)?\)' % tn, m.group(1))
        out[tn] = calls
    return out
