"""C15, nested root types from an INCLUDED schema file (used by checks/c15.py).

Schema pair gen/builder/incl_parent.fbs (file_identifier "PRNT") including incl_child.fbs (file_identifier "CHLD"): the nested
root types Child (table) and Pos (struct) are declared in the include, Parent / Local in the including file. Random nestings are
built by harness/nested_incl.c through every GENERATED nested-root builder (<field>_start_as_root / _start_as_typed_root /
_clone_as_root / _clone_as_typed_root / _create_as_root / _create_as_typed_root / _nest, levels of Parent-in-Parent around them).
On the finished bytes, independently of the generated code: every nested vector is located by a small reader written here, copied
out, and must (a) carry the identifier of the NESTED type - the file identifier of the file that declares it, or its type hash for
the typed variants (FNV-1a of the name, computed here), (b) start at a multiple of the alignment its content needs, (c) be accepted
standalone by the generated <NestedType>_verify_as_root / _as_typed_root (identifier checked) and (d) read back the values through
<NestedType>_as_root / _as_typed_root."""
import os, struct
from . import lib

CHILD_FBS = '''// nested payload types, a schema file of its own with its own file identifier (included by incl_parent.fbs)
struct Pos { x: double; y: float; k: ubyte; }
table Leaf { v: ushort; }
table Child {
  id: uint;
  pos: Pos;
  tag: string;
  leaf: [ubyte] (nested_flatbuffer: "Leaf");
}
root_type Child;
file_identifier "CHLD";
'''
PARENT_FBS = '''// parent schema with a different file identifier; the nested root types Child and Pos come from the include
include "incl_child.fbs";
table Local { v: ushort; }
table Parent {
  name: string;
  payload: [ubyte] (nested_flatbuffer: "Child");
  spos: [ubyte] (nested_flatbuffer: "Pos");
  again: [ubyte] (nested_flatbuffer: "Parent");
  local: [ubyte] (nested_flatbuffer: "Local");
  seq: uint;
}
root_type Parent;
file_identifier "PRNT";
'''
FILE_ID = {'Parent': b'PRNT', 'Local': b'PRNT', 'Child': b'CHLD', 'Pos': b'CHLD', 'Leaf': b'CHLD'}     # the file that declares the type


def fnv1a(name):
    h = 2166136261
    for c in name.encode():
        h = ((h ^ c) * 16777619) & 0xffffffff
    return h


# variant -> (field id in Parent, nested type, typed, generated call family, alignment the content needs)
VARIANTS = {'s': (1, 'Child', False, 'payload_start_as_root', 8), 't': (1, 'Child', True, 'payload_start_as_typed_root', 8),
            'c': (1, 'Child', False, 'payload_clone_as_root', 8), 'C': (1, 'Child', True, 'payload_clone_as_typed_root', 8),
            'n': (1, 'Child', False, 'payload_nest', 8),
            'p': (2, 'Pos', False, 'spos_create_as_root', 8), 'P': (2, 'Pos', True, 'spos_create_as_typed_root', 8),
            'q': (2, 'Pos', False, 'spos_start_as_root', 8), 'Q': (2, 'Pos', True, 'spos_start_as_typed_root', 8),
            'r': (2, 'Pos', False, 'spos_clone_as_root', 8), 'R': (2, 'Pos', True, 'spos_clone_as_typed_root', 8),
            'l': (4, 'Local', False, 'local_start_as_root', 4), 'L': (4, 'Local', True, 'local_start_as_typed_root', 4)}
LEVELS = {'a': (False, 'again_start_as_root'), 'A': (True, 'again_start_as_typed_root'), 'c': (False, 'again_clone_as_root'), 'C': (True, 'again_clone_as_typed_root')}


def u16(b, o):
    if o < 0 or o + 2 > len(b): raise IndexError(o)
    return int.from_bytes(b[o:o + 2], 'little')


def u32(b, o):
    if o < 0 or o + 4 > len(b): raise IndexError(o)
    return int.from_bytes(b[o:o + 4], 'little')


def root_table(b):
    return u32(b, 0)


def field_pos(b, t, fid):
    vt = t - int.from_bytes(b[t:t + 4], 'little', signed=True)
    if 4 + 2 * fid + 2 > u16(b, vt): return None
    o = u16(b, vt + 4 + 2 * fid)
    return t + o if o else None


def nested_vec(b, t, fid):
    p = field_pos(b, t, fid)
    if p is None: return None
    v = p + u32(b, p)
    n = u32(b, v)
    if v + 4 + n > len(b): raise IndexError(v)
    return v + 4, n


def run(ctx):
    rng = ctx.rng
    d = os.path.join(ctx.bdir, 'gen_incl'); os.makedirs(d, exist_ok=True)
    for name, text in (('incl_child.fbs', CHILD_FBS), ('incl_parent.fbs', PARENT_FBS)):
        open(os.path.join(d, name), 'w').write(text)
        ref = os.path.join(lib.ROOT, 'gen', 'builder', name)
        try:
            if not os.path.exists(ref) or open(ref).read() != text: open(ref, 'w').write(text)
        except OSError:
            pass
    rc, out = ctx.gen(os.path.join(d, 'incl_parent.fbs'), d, opts=('-a',), extra_inc=[d])
    if rc != 0:
        ctx.violation('schema-rejected:incl_parent', 'flatcc rejected the include pair incl_parent.fbs / incl_child.fbs: ' + out[:300], {'schema': PARENT_FBS + CHILD_FBS}); return 0
    hdir = os.path.join(lib.ROOT, 'harness')
    try:
        exe = ctx.cc([os.path.join(hdir, 'nested_incl.c')] + ctx.rt_objs(san=True, defs=['-DNDEBUG']), os.path.join(d, 'nested_incl'),
                     san=True, defs=['-DNDEBUG'], incs=['-I' + hdir, '-I' + d])
    except lib.BuildFailure as e:
        ctx.violation('generated-code-does-not-compile:incl_parent', 'code generated for the include pair does not compile: ' + str(e)[-400:], {'schema': PARENT_FBS + CHILD_FBS}); return 0
    H = lib.Harness(exe)
    ids = lib.run_harness_resilient(H, ['ids'])[0]
    want = ' '.join('%s=%s/%08x' % (t, FILE_ID[t].decode(), fnv1a(t)) for t in ('Parent', 'Child', 'Pos', 'Local', 'Leaf'))
    ctx.count('ids', klass='nested-include-constants')
    if ids != want:
        ctx.violation('nested-include:identifier-constants', 'generated <Type>_file_identifier / _type_hash constants differ from the declaring file\'s identifier / FNV-1a of the name: %s, expected %s' % (ids, want),
                      {'harness': 'harness/nested_incl.c', 'request': 'ids', 'schema': PARENT_FBS + CHILD_FBS})
    n = 160 if not ctx.thorough else 2500
    reqs = []
    for i in range(n):
        depth = rng.choice([0, 0, 1, 1, 2, 3]) if not ctx.thorough else rng.choice([0, 1, 2, 3, 5, 8])
        levels = ''.join(rng.choice('aAcC') for _ in range(depth))
        v = list(VARIANTS)[i % len(VARIANTS)] if i < 3 * len(VARIANTS) else rng.choice(list(VARIANTS) + ['-'])
        ident, seq, k = rng.choice([0, 1, 42, 0xffffffff, rng.randrange(1 << 32)]), rng.randrange(1 << 31), rng.randrange(256)
        tag = bytes(rng.randrange(1, 256) for _ in range(rng.choice([0, 1, 3, 8, 30])))
        reqs.append((levels, v, ident, seq, k, tag, 'build %s %s %d %d %d %s' % (levels or '-', v, ident, seq, k, tag.hex() or '-')))
    res = lib.run_harness_resilient(H, [r[-1] for r in reqs])
    items = []          # (request record, what, path, nested bytes, expected read reply or None)
    for (levels, v, ident, seq, k, tag, line), r in zip(reqs, res):
        ctx.count(line, klass='nested-include-build')
        base = {'harness': 'harness/nested_incl.c (schemas gen/builder/incl_parent.fbs, incl_child.fbs)', 'request': line}
        if r.startswith('CRASH'):
            ctx.violation('nested-include:crash', 'sanitizer report while building nested buffers of an included root type: ' + r[:300], base); continue
        if not r.startswith('OK '):
            ctx.violation('nested-include:build-failed', 'a generated nested-root builder call fails: ' + r[:100], base); continue
        raw = bytes.fromhex(r[3:])
        base['buffer_hex'] = raw.hex()
        need = VARIANTS[v][4] if v != '-' else 4
        try:
            if raw[4:8] != b'PRNT':
                ctx.violation('nested-include:identifier:Parent_start_as_root', 'top-level Parent buffer carries identifier %r' % raw[4:8], base)
            b, absoff, path = raw, 0, ''
            for li, lc in enumerate(levels):
                typed, fam = LEVELS[lc]
                nv = nested_vec(b, root_table(b), 3)
                path += '/again'
                if nv is None:
                    ctx.violation('nested-include:missing:' + fam, 'nested field %s absent in the finished buffer' % path, base); b = None; break
                p, ln = nv
                nb = b[p:p + ln]; absoff += p
                exp = struct.pack('<I', fnv1a('Parent')) if typed else FILE_ID['Parent']
                if nb[4:8] != exp:
                    ctx.violation('nested-include:identifier:' + fam, 'nested Parent %s built with Parent_%s carries identifier %s, expected %s' % (path, fam, nb[4:8].hex(), exp.hex()), dict(base, path=path))
                if absoff % need:
                    ctx.violation('nested-include:misaligned:' + fam, 'nested Parent %s starts at offset %d of the top-level buffer; its content needs alignment %d' % (path, absoff, need), dict(base, path=path))
                items.append((base, 'parentT' if typed else 'parent', path, nb, 'seq=%d' % ((seq + li + 1) & 0xffffffff), fam))
                b = nb
            if b is None or v == '-': continue
            fid, ty, typed, fam, al = VARIANTS[v]
            nv = nested_vec(b, root_table(b), fid)
            path += '/' + fam.split('_')[0]
            if nv is None:
                ctx.violation('nested-include:missing:' + fam, 'nested field %s absent in the finished buffer' % path, base); continue
            p, ln = nv
            nb = b[p:p + ln]; absoff += p
            exp = struct.pack('<I', fnv1a(ty)) if typed else FILE_ID[ty]
            if nb[4:8] != exp:
                ctx.violation('nested-include:identifier:' + fam,
                              'nested %s %s built with Parent_%s carries identifier %s (%r); a root of type %s carries %s (%s)' % (
                                  ty, path, fam, nb[4:8].hex(), nb[4:8], ty, exp.hex(), 'its type hash' if typed else 'the file identifier of the schema file that declares it'),
                              dict(base, path=path, nested_hex=nb.hex()))
            if absoff % al:
                ctx.violation('nested-include:misaligned:' + fam, 'nested %s %s starts at offset %d of the top-level buffer; its content needs alignment %d' % (ty, path, absoff, al), dict(base, path=path))
            x = '%.17g' % (1.5 + ident)
            if ty == 'Child': er = 'id=%d x=%s y=-2.5 k=%d tag=%s leaf=' % (ident, x, k, tag.hex() or '-')
            elif ty == 'Pos': er = 'x=%s y=-2.5 k=%d' % (x, k)
            else: er = 'v=%d' % (ident & 0xffff)
            items.append((base, ty.lower() + ('T' if typed else ''), path, nb, er, fam))
            if ty == 'Child':           # the Leaf nested in the Child (same file as the Child)
                lv = nested_vec(nb, root_table(nb), 3)
                if lv is None:
                    ctx.violation('nested-include:missing:leaf_start_as_root', 'nested field %s/leaf absent' % path, base)
                else:
                    lb = nb[lv[0]:lv[0] + lv[1]]
                    if lb[4:8] != FILE_ID['Leaf']:
                        ctx.violation('nested-include:identifier:leaf_start_as_root', 'nested Leaf %s/leaf carries identifier %s' % (path, lb[4:8].hex()), dict(base, path=path + '/leaf'))
                    items.append((base, 'leaf', path + '/leaf', lb, None, 'leaf_start_as_root'))
        except (IndexError, KeyError) as e:
            ctx.violation('nested-include:walk-failed', 'independent reader cannot locate the nested buffers in the finished parent: %r' % e, base)
    vl = ['verify %s %s' % (w, nb.hex() or '-') for _, w, _, nb, _, _ in items]
    rl = ['read %s %s' % (w, nb.hex() or '-') for _, w, _, nb, er, _ in items if er is not None]
    vres = lib.run_harness_resilient(H, vl)
    rres = iter(lib.run_harness_resilient(H, rl))
    for (base, w, path, nb, er, fam), line, r in zip(items, vl, vres):
        ctx.count(line, klass='nested-include-extraction')
        b2 = dict(base, path=path, nested_hex=nb.hex(), verify_request=line[:3000])
        if not r.startswith('0 '):
            ctx.violation('nested-include:standalone-rejected:' + fam, 'nested buffer %s copied out of the parent is rejected by the generated %s verifier of its root type: %s' % (
                path, {'T': 'as_typed_root'}.get(w[-1], 'as_root'), r[:120]), b2)
        if er is not None:
            rr = next(rres)
            if not (rr.startswith(er) if er.endswith('leaf=') else rr == er) or rr.endswith('leaf=-1'):
                ctx.violation('nested-include:reads-differently:' + fam, 'nested buffer %s copied out of the parent reads back %s through the generated reader of its root type, expected %s' % (path, rr[:150], er), b2)
    return len(reqs)
