"""C05, document layer: tie between coq/Json/PrinterText.v (+ Json/ParserModel.v; extracted: build/modelrun_jsonprint) and the
generated printers / parsers of gen/c04_schema.fbs (roots Leaf, Rec, Req) and gen/c04b_schema.fbs (roots Doc, Item), harness/c05b_rt.c.

    c05b_hook(ctx, n=None) -> statistics

Value trees of the fragment (random + boundary: every integer limit of every width, bools, enum members and non-members, empty / long
strings with escapes, NULs and high bytes, empty vectors, nesting up to the parser's level limit, every presence subset of the small
tables, explicit defaults) are turned into (a) a source JSON document from which the C side builds the buffer B0 (parser with
force_add, so explicit defaults stay present) and (b) the model's value tree.  For every printer setting (flag bits incl. pretty /
nonstrict, indent) the REAL generated printer prints B0 and the text is compared BYTE FOR BYTE with the model's print_root; the text is
then parsed by the real generated parser under a parser flag set and compared with the model's parse_root of the model's text: accept /
reject, error code and location, end_loc, and Spec.decode_root of the C-built buffer B1 = the model's value.
Independently of the model the statements of Properties_C05b are tested on the implementation: a printed text must be accepted, the
reparsed buffer must verify and reprint identically (under the theorem's side condition), strict output must satisfy the Coq
recognizer rfc8259_document and python's json.loads.
"""
import os, json
from . import lib
from . import c04_util as U
from . import c04b_util as B

ROOT = lib.ROOT
PMAX = 100            # FLATCC_JSON_PRINT_MAX_LEVELS (read from the tree below)


def print_max_levels():
    import re
    txt = open(os.path.join(lib.REPO, 'include/flatcc/flatcc_rtconfig.h')).read()
    m = re.search(r'#define\s+FLATCC_JSON_PRINT_MAX_LEVELS\s+(\d+)', txt)
    return int(m.group(1)) if m else None


# ---------------------------------------------------------------------------------------------- schema side
def enum_descriptor(suite):
    out = []
    for ti, tn in enumerate(suite.frag):
        for fid, (f, t, d) in enumerate(suite.tables[tn]):
            et = t[1] if isinstance(t, tuple) else t
            if isinstance(et, str) and et in suite.enums and not suite.enums[et]['flags']:
                ms = ','.join('%d=%s' % (v, k.encode().hex()) for k, v in suite.enums[et]['syms'].items())
                out.append('%d:%d:%s' % (ti, fid, ms))
    return ';'.join(out) if out else '-'


def int_range(suite, t):
    if t in suite.enums: t = suite.enums[t]['base']
    if t == 'bool': return (0, 1)
    return U.INT_RANGES[t]


def scalar_bytes(suite, t, v):
    sz, _ = suite.sty(t)
    return (int(v) & ((1 << (8 * sz)) - 1)).to_bytes(sz, 'little').hex()


def hx(b):
    return b.hex() if b else '-'


def model_tree(suite, tn, v):
    """the value tree in the token format of ocaml/jsonprint/driver.ml"""
    out = []

    def val(t, x):
        if isinstance(t, tuple):
            et = t[1]
            if et == 'string':
                out.append('O%d' % len(x))
                for s in x: out.append('S' + hx(s))
            elif et in suite.tables:
                out.append('O%d' % len(x))
                for y in x: tab(et, y)
            else:
                out.append('V%d' % len(x))
                for y in x: out.append(scalar_bytes(suite, et, y))
        elif t == 'string': out.append('S' + hx(x))
        elif t in suite.tables: tab(t, x)
        else: out.append('B' + scalar_bytes(suite, t, x))

    def tab(tn, v):
        fs = [(i, f, t) for i, (f, t, d) in enumerate(suite.tables[tn]) if f in v]
        out.append('T%d' % len(fs))
        for i, f, t in fs:
            out.append(str(i)); val(t, v[f])
    tab(tn, v)
    return ';'.join(out)


def src_string(s):
    out = bytearray(b'"')
    for c in s:
        if c == 0x22: out += b'\\"'
        elif c == 0x5c: out += b'\\\\'
        elif c < 0x20: out += b'\\u00%02x' % c
        else: out.append(c)
    out += b'"'
    return bytes(out)


def src_json(suite, tn, v):
    """source document: every number as a number (enums too), members in declaration order, compact"""
    def val(t, x):
        if isinstance(t, tuple):
            return b'[' + b','.join(val(t[1], y) for y in x) + b']'
        if t == 'string': return src_string(x)
        if t in suite.tables: return tab(t, x)
        if t == 'bool': return b'true' if x else b'false'
        return str(int(x)).encode()

    def tab(tn, v):
        return b'{' + b','.join(b'"' + f.encode() + b'":' + val(t, v[f]) for f, t, d in suite.tables[tn] if f in v) + b'}'
    return tab(tn, v)


def has_symbol(suite, tn, v, pbits):
    """does the printer print an enum symbol somewhere (noenum off, value is a member)?  the parser MODEL stops on those"""
    if (pbits & 2) and not (pbits & 32): return False
    def val(t, x):
        if isinstance(t, tuple): return any(val(t[1], y) for y in x)
        if t in suite.tables: return tab(t, x)
        if t in suite.enums: return int(x) in suite.enums[t]['syms'].values()
        return False
    def tab(tn, v):
        force = bool(pbits & 8)
        for f, t, d in suite.tables[tn]:
            if f in v:
                if val(t, v[f]): return True
            elif force and isinstance(t, str) and t in suite.enums and int(d) in suite.enums[t]['syms'].values():
                return True
        return False
    return tab(tn, v)


def strings_utf8(suite, tn, v):
    def val(t, x):
        if isinstance(t, tuple): return all(val(t[1], y) for y in x)
        if t == 'string': return B_utf8(x)
        if t in suite.tables: return all(val(ft, x[f]) for f, ft, d in suite.tables[t] if f in x)
        return True
    return val(tn, v)


def B_utf8(bs):
    try:
        bs.decode('utf-8'); return True
    except UnicodeDecodeError:
        return False


# ---------------------------------------------------------------------------------------------- value trees
STR_POOL = [b'', b'a', b'abc', b'a"b', b'\\', b'\\\\"', b'\n\r\t\x08\x0c', b'\x00', b'a\x00b', b'\x01\x1f', b'\x7f', b'\x7f\x80\xff', 'é€😀'.encode(), b'/',
            b'</script>', b' ' * 17, b'x' * 70, b'"' * 9, b'{"a":1}', b'[1,2]', b'true', b'\xc3', b'\xed\xa0\x80', b'tail\\', b'\x1f' * 5 + b'z']


def gen_string(rng, utf8):
    g = U.Gen(rng, text='utf8' if utf8 else 'mixed')
    if rng.random() < 0.4:
        s = rng.choice(STR_POOL)
        if utf8 and not B_utf8(s): s = b'ok'
        return s
    return g.string(rng.choice([4, 12, 40]))


def gen_scalar(rng, suite, t, limit=None):
    if t == 'bool': return rng.random() < 0.5
    lo, hi = int_range(suite, t)
    if limit is not None: return [lo, lo + 1, hi, hi - 1, 0, -1 if lo < 0 else 1][limit]
    if t in suite.enums and rng.random() < 0.7: return rng.choice(list(suite.enums[t]['syms'].values()))
    r = rng.random()
    if r < 0.3: return rng.choice([lo, lo + 1, hi, hi - 1, 0, -1 if lo < 0 else 1])
    if r < 0.7:
        c = [x for x in U.BOUNDARY_INTS(lo, hi) if lo <= x <= hi]
        return rng.choice(c)
    return rng.randint(lo, hi)


def gen_table(rng, suite, tn, depth, maxdepth, utf8, p=None, limit=None, defaults=0.15):
    p = rng.choice([0.1, 0.3, 0.6, 1.0]) if p is None else p
    out = {}
    for f, t, d in suite.tables[tn]:
        req = (tn, f) in suite.required
        if not req and rng.random() > p: continue
        et = t[1] if isinstance(t, tuple) else t
        nested = et in suite.tables
        if nested and depth >= maxdepth:
            if not req: continue
        if isinstance(t, tuple):
            n = rng.choice([0, 0, 1, 2, 3, rng.randint(0, 6)])
            if nested and depth + 1 >= maxdepth: n = 0
            if et == 'string': out[f] = [gen_string(rng, utf8) for _ in range(n)]
            elif nested: out[f] = [gen_table(rng, suite, et, depth + 1, maxdepth, utf8, p=rng.choice([0.1, 0.4]), limit=limit) for _ in range(n)]
            else: out[f] = [gen_scalar(rng, suite, et, limit) for _ in range(n)]
        elif t == 'string': out[f] = gen_string(rng, utf8)
        elif nested: out[f] = gen_table(rng, suite, t, depth + 1, maxdepth, utf8, p=rng.choice([0.1, 0.4]), limit=limit)
        else:
            out[f] = d if (rng.random() < defaults and t != 'bool') else gen_scalar(rng, suite, t, limit)
            if t == 'bool': out[f] = bool(d) if rng.random() < defaults else out[f]
    return out


def chain(suite, tn, field, n, bottom):
    """n nested tables of type tn through the table field `field`; `bottom` = the fields of the innermost one"""
    v = dict(bottom)
    for _ in range(n - 1): v = {field: v}
    return v


def vec_chain(suite, tn, field, n, bottom):
    v = dict(bottom)
    for _ in range(n - 1): v = {field: [v]}
    return v


def presence_subsets(suite, tn, proto):
    """every subset of the non-required fields of a small table, values from proto"""
    names = [f for f, t, d in suite.tables[tn]]
    opt = [f for f in names if (tn, f) not in suite.required]
    out = []
    for m in range(1 << len(opt)):
        keep = {f for i, f in enumerate(opt) if m >> i & 1} | {f for f in names if (tn, f) in suite.required}
        out.append({f: proto[f] for f in names if f in keep})
    return out


PROTO = {
    ('c04', 'Leaf'): {'n': -5, 's': b'a"\n', 'c': 7},
    ('c04', 'Rec'): {'r': {'n': 1}, 'n': 0, 'k': [{}, {'n': 2}]},
    ('c04', 'Req'): {'a': b'', 'b': [], 'c': {}, 'd': 0},
    ('b4', 'Item'): {'id': 0, 'name': b'\\', 'tags': [b'', b'"'], 'ok': True, 'w': 7},
}


def make_trees(rng, thorough, maxlvl):
    """list of (suite, root, tree, klass)"""
    out = []
    S1, S2 = B.SUITE_C04, B.SUITE_B4
    for (sn, tn), proto in PROTO.items():
        suite = S1 if sn == 'c04' else S2
        for v in presence_subsets(suite, tn, proto): out.append((suite, tn, v, 'presence-subsets'))
    # every integer limit of every width, as field and as vector element, all fields present
    for k in range(6):
        for suite, tn in ((S2, 'Doc'), (S1, 'Leaf'), (S1, 'Rec'), (S2, 'Item')):
            v = gen_table(rng, suite, tn, 0, 1, True, p=1.0, limit=k, defaults=0.0)
            out.append((suite, tn, v, 'int-limits'))
    # defaults given explicitly everywhere / nowhere
    for suite, tn in ((S2, 'Doc'), (S1, 'Leaf'), (S2, 'Item')):
        v = {f: (bool(d) if t == 'bool' else d) for f, t, d in suite.tables[tn] if d is not None}
        for f, t, d in suite.tables[tn]:
            if (tn, f) in suite.required: v[f] = b'r'
        out.append((suite, tn, v, 'all-defaults'))
        out.append((suite, tn, {f: x for f, x in v.items() if (tn, f) in suite.required}, 'empty'))
    # strings and vectors at their edges
    for s in STR_POOL + [bytes(range(256)), bytes(range(1, 128)) * 3]:
        out.append((S1, 'Leaf', {'s': s}, 'strings'))
        out.append((S2, 'Doc', {'title': s, 'names': [s, b'', s], 'item': {'name': s, 'tags': [s]}}, 'strings'))
    out.append((S2, 'Doc', {'names': [], 'vb': [], 'vu8': [], 'vi16': [], 'vu64': [], 'vi64': [], 'vk': [], 'items': [], 'subs': []}, 'empty-vectors'))
    out.append((S2, 'Doc', {'vb': [True, False, True], 'vu8': list(range(0, 256, 5)), 'vk': [0, 1, 5, 2, 255], 'vi64': [-2 ** 63, 2 ** 63 - 1, 0], 'vu64': [2 ** 64 - 1, 0, 10 ** 19]},
                'vectors'))
    out.append((S1, 'Req', {'a': b'x', 'b': list(range(-3, 60)), 'c': {'s': b'y'}}, 'vectors'))
    # enum members and non-members
    for c in (1, 2, 7, 0, 3, -128, 127):
        out.append((S1, 'Leaf', {'c': c}, 'enums'))
    for k in (0, 1, 5, 2, 255):
        out.append((S2, 'Doc', {'kind': k, 'vk': [k, 1]}, 'enums'))
    # nesting up to and across the parser's level limit (start_buffer is level 1, every table and every vector one more, an escaped string one more)
    for n in sorted(set([1, 2, 3, 10, 50, maxlvl - 3, maxlvl - 2, maxlvl - 1])):
        if n < 1: continue
        out.append((S1, 'Rec', chain(S1, 'Rec', 'r', n, {'n': n}), 'deep-table-chain'))
        out.append((S2, 'Doc', chain(S2, 'Doc', 'sub', n, {'i32': n}), 'deep-table-chain'))
    for n in sorted(set([2, 5, (maxlvl - 1) // 2 - 1, (maxlvl - 1) // 2, (maxlvl - 1) // 2 + 1])):
        if n < 1: continue
        out.append((S1, 'Rec', vec_chain(S1, 'Rec', 'k', n, {'n': n}), 'deep-vector-chain'))
        out.append((S2, 'Doc', vec_chain(S2, 'Doc', 'subs', n, {}), 'deep-vector-chain'))
    for n in (maxlvl - 3, maxlvl - 2):
        if n < 1: continue
        # the innermost table holds something that needs one more frame: fits at maxlvl - 2 tables, the source itself is refused beyond
        out.append((S2, 'Doc', chain(S2, 'Doc', 'sub', n, {'title': b'q"q'}), 'deep-escaped-string'))
        out.append((S2, 'Doc', chain(S2, 'Doc', 'sub', n, {'vu8': [1]}), 'deep-vector'))
        out.append((S1, 'Rec', chain(S1, 'Rec', 'r', n, {'k': []}), 'deep-vector'))
    # the same chains built with the generated BUILDER API (no parser on the way in): at maxlvl - 1 tables everything fits only when the
    # innermost table holds scalars; a vector / an escaped string there needs one frame more than the parser's limit (finding parser-frame-limit)
    for n in (maxlvl - 2, maxlvl - 1):
        if n < 1: continue
        for what in (0, 1):
            out.append((S1, 'Rec', chain(S1, 'Rec', 'r', n, {'k': []} if what == 1 else {'n': 5}), 'built-deep', (n, what)))
        for what, bottom in ((0, {'i32': 5}), (1, {'vu8': []}), (2, {'title': b'q"q'}), (3, {'names': []})):
            out.append((S2, 'Doc', chain(S2, 'Doc', 'sub', n, bottom), 'built-deep', (n, what)))
    # random trees
    nrand = 260 if thorough else 70
    for i in range(nrand):
        suite, tn = rng.choice([(S1, 'Leaf'), (S1, 'Rec'), (S1, 'Req'), (S2, 'Doc'), (S2, 'Doc'), (S2, 'Doc'), (S2, 'Item')])
        utf8 = i % 3 != 0
        out.append((suite, tn, gen_table(rng, suite, tn, 0, rng.choice([1, 2, 3, 4]), utf8), 'random-utf8' if utf8 else 'random-bytes'))
    return out


PRINTER_BITS = [0, 1, 2, 3, 4, 8, 5, 9, 6, 10, 12, 13, 16, 17, 18, 32, 34, 20, 40, 63]
INDENTS = [-1, 0, 1, 2, 3, 8]
PARSER_FLAGS = [0, 2, 1, 4, 3, 6, 24, 31]


def settings_for(rng, klass, k):
    """(printer bits, indent, parser flags) combinations for the k-th tree"""
    if klass in ('presence-subsets', 'all-defaults', 'empty'):
        return [(pb, ind, pf) for pb in (0, 4, 8, 12, 2, 33) for ind, pf in ((-1, 0), (1, 2))] + [(1, -1, 0), (6, 2, 0), (10, -1, 2), (16, -1, 3)]
    if klass == 'built-deep':
        return [(0, -1, 0), (2, 1, 2)]
    if klass.startswith('deep'):
        return [(0, -1, 0), (3, 1, 2)] if k % 2 else [(2, -1, 2), (18, -1, 4)]
    if klass in ('vectors', 'empty-vectors', 'enums'):
        return [(0, -1, 0), (0, 255, 2), (2, -1, 0), (2, 2, 2), (1, -1, 0), (3, 1, 2), (rng.choice(PRINTER_BITS), 255, rng.choice(PARSER_FLAGS))]
    base = [(0, -1, 0), (0, -1, 2), (2, -1, 0), (2, 2, 2), (1, -1, 0), (3, 1, 2)]
    for _ in range(3):
        base.append((rng.choice(PRINTER_BITS), rng.choice(INDENTS), rng.choice(PARSER_FLAGS)))
    return base


# ---------------------------------------------------------------------------------------------- harness
def build_harness(ctx, suite):
    gdir = os.path.join(ctx.bdir, 'gen_c05b_' + suite.name)
    rc, out = ctx.gen(os.path.join(ROOT, 'gen', suite.fbs), gdir, opts=('-a', '--json'))
    if rc != 0: raise lib.BuildFailure('flatcc -a --json ' + suite.fbs, out)
    return U.build_harness(ctx, 'c05b_rt.c', 'c05b_rt_' + suite.name, gdir, rt=('builder.c', 'emitter.c', 'refmap.c', 'verifier.c', 'json_parser.c', 'json_printer.c'),
                           defs=('-DNDEBUG', '-DC05B_SUITE=%d' % (1 if suite.name == 'c04' else 2)))


def ensure_model(ctx):
    exe = os.path.join(ROOT, 'build', 'modelrun_jsonprint')
    srcs = [os.path.join(ROOT, 'ocaml', 'jsonprint', x) for x in ('model.ml', 'driver.ml')]
    if not os.path.exists(srcs[0]):
        ok, out = ctx.coq_make(['Extract/Extract_jsonprint.vo'])
        if not os.path.exists(srcs[0]): raise lib.CheckError('extraction of the printer-text model failed:\n' + out[-2000:])
    if not os.path.exists(exe) or any(os.path.getmtime(s) > os.path.getmtime(exe) for s in srcs if os.path.exists(s)):
        rc, out = lib.sh([os.path.join(ROOT, 'bin', 'build_modelrun'), 'jsonprint'], timeout=900)
        if not os.path.exists(exe): raise lib.CheckError('modelrun_jsonprint could not be built:\n' + out[-2000:])
    return exe


def run_model_big_stack(ctx, lines, timeout=900):
    """ctx.run_model with the stack limit raised: the extracted list functions are not tail recursive and a deep tree printed with
    indent 255 is a list of several hundred thousand bytes"""
    import subprocess, resource
    def raise_stack():
        soft, hard = resource.getrlimit(resource.RLIMIT_STACK)
        try: resource.setrlimit(resource.RLIMIT_STACK, (hard, hard))
        except Exception: pass
    r = subprocess.run([ctx.modelrun('jsonprint')], input='\n'.join(lines) + '\n', timeout=timeout, stdout=subprocess.PIPE, stderr=subprocess.PIPE, text=True,
                       preexec_fn=raise_stack)
    if r.returncode != 0: raise lib.CheckError('modelrun_jsonprint failed rc=%s: %s' % (r.returncode, r.stderr[-2000:]))
    res = r.stdout.split('\n')
    if res and res[-1] == '': res.pop()
    if len(res) != len(lines): raise lib.CheckError('modelrun_jsonprint: %d replies for %d requests' % (len(res), len(lines)))
    return res


def api_flags(pbits, indent):
    """what flatcc_json_printer_set_flags(bits) followed by set_indent (when indent >= 0) leaves in the context"""
    ns = bool(pbits & 32)
    ind = 2 if (pbits & 16 or ns) else 0
    if indent >= 0: ind = indent & 255
    return {'unquote': bool(pbits & 1) or ns, 'noenum': bool(pbits & 2) and not ns, 'skip': bool(pbits & 4), 'force': bool(pbits & 8), 'indent': ind}


def round_trip_check(ctx, cases):
    """cases: (suite, root, tree, klass, pbits, indent, pflags).  Returns (mismatches, stats)."""
    ensure_model(ctx)
    maxlvl = B.parse_max_levels() or 100
    pmax = print_max_levels() or 100
    stats = {'cases': len(cases), 'compared_text': 0, 'compared_parse': 0, 'symbolic': 0, 'source_refused': 0, 'model_noprint': 0, 'strict': 0, 'maxlvl': maxlvl, 'pmax': pmax}
    mism = []
    by_suite = {}
    for i, c in enumerate(cases): by_suite.setdefault(c[0].name, []).append(i)
    creps = [None] * len(cases)
    for sn, idx in by_suite.items():
        suite = cases[idx[0]][0]
        H = build_harness(ctx, suite)
        reqs = [('deep %s %d %d %d %d %d' % (cases[i][1], cases[i][4], cases[i][5], cases[i][6], cases[i][7][0], cases[i][7][1])) if len(cases[i]) > 7 else
                ('rt %s %d %d %d %s' % (cases[i][1], cases[i][4], cases[i][5], cases[i][6], hx(src_json(suite, cases[i][1], cases[i][2])))) for i in idx]
        for i, q, r in zip(idx, reqs, U.run_resilient(H, reqs)): creps[i] = (q, r)
    mreqs = []
    for c, (q, rep) in zip(cases, creps):
        suite, root, tree, klass, pbits, indent, pflags = c[:7]
        f = rep.split()
        b0 = f[10] if f[:1] == ['RT'] and len(f) >= 11 else '-'
        b1 = f[8] if f[:1] == ['RT'] and len(f) >= 11 else '-'
        mreqs.append('rt %d %d %d %d %d %d %d %s %s %s %s %s' % (maxlvl, pmax, suite.frag.index(root), pbits, indent, pflags, suite.ident_word,
                                                               suite.descriptor(), enum_descriptor(suite), model_tree(suite, root, tree), b0, b1))
    mreps = run_model_big_stack(ctx, mreqs) if mreqs else []
    for c, (q, rep), mrep in zip(cases, creps, mreps):
        suite, root, tree, klass, pbits, indent, pflags = c[:7]
        built = len(c) > 7          # B0 comes from the builder API (no source document, no parser limit on the way in)
        src = b'(built with the generated builder API: chain of %d tables, bottom kind %d)' % c[7] if built else src_json(suite, root, tree)
        fl = api_flags(pbits, indent)
        replay = {'harness': 'c05b_rt_' + suite.name, 'harness_line': q if len(q) < 6000 else q[:6000] + '...', 'root': root, 'printer_bits': pbits, 'indent': indent,
                  'parser_flags': pflags, 'source_json': src[:1500].decode('latin-1'), 'class': klass, 'c_reply': rep[:600], 'model_reply': mrep[:600]}

        def bad(key, what):
            mism.append({'key': '%s:%s' % (key, root), 'what': what, 'replay': replay})
        m = mrep.split()
        if rep.startswith(('CRASH', 'HANG')) or ' ASAN ' in rep:
            bad('harness-abnormal', 'round-trip harness: ' + rep[:300]); continue
        f = rep.split()
        if m[:1] == ['EXC'] or m[:1] == ['BAD']:
            bad('model-reply', 'unexpected model reply %s' % mrep[:200]); continue
        mt1 = m[0]
        mtags = {x[0]: x[1:] for x in m if x[:1] in 'RDSPJWNUY' and len(x) >= 2 and x not in ('OK', 'ERR', 'STOP', 'NOPRINT')}
        need = int(mtags.get('N', '0')) if mtags.get('N', '0').lstrip('-').isdigit() else 0
        fits = need + 1 <= maxlvl
        if f[:1] == ['SRC']:
            stats['source_refused'] += 1
            # the source spells the tree with plain numbers: it may only be refused for the level limit
            if fits: bad('source-document-refused', 'the source document of a tree that needs %d levels is refused: %s' % (need + 1, rep))
            continue
        if f[:1] != ['RT'] or len(f) < 11:
            bad('harness-reply', 'unexpected harness reply ' + rep[:200]); continue
        prc, ct1, p1, perr, ploc, pend, v1, b1, teq = int(f[1]), f[2], int(f[3]), int(f[4]), int(f[5]), int(f[6]), int(f[7]), f[8], f[9]
        replay['printed'] = (bytes.fromhex(ct1) if ct1 != '-' else b'')[:1500].decode('latin-1')
        if mtags.get('S') == '0':
            bad('source-tree-differs', 'Spec.decode_root of the buffer built from the source document is not the value tree handed to the model (generator / decoder)'); continue
        if mtags.get('W') != '1':
            bad('generator-ill-typed', 'the generated tree is not well typed for the model (wt_table false)'); continue
        # ---- printing
        if mt1 == 'NOPRINT':
            stats['model_noprint'] += 1
            if prc >= 0: bad('printer-depth', 'the model printer refuses the tree (table nesting above FLATCC_JSON_PRINT_MAX_LEVELS - 1) but the C printer returned %d' % prc)
            continue
        if prc < 0:
            bad('print-error', 'the generated printer failed with %d on a verified buffer the model prints' % prc); continue
        stats['compared_text'] += 1
        if ct1 != mt1:
            a = bytes.fromhex(ct1) if ct1 != '-' else b''; b_ = bytes.fromhex(mt1) if mt1 != '-' else b''
            k = next((i for i in range(min(len(a), len(b_))) if a[i] != b_[i]), min(len(a), len(b_)))
            bad('printed-text-differs', 'generated printer and print_root differ at byte %d (settings %r): C %r, model %r' % (k, fl, a[max(0, k - 30):k + 30], b_[max(0, k - 30):k + 30]))
            continue
        t1 = bytes.fromhex(ct1) if ct1 != '-' else b''
        # ---- strict output: Coq recognizer + python
        if not fl['unquote']:
            u8 = strings_utf8(suite, root, tree)
            if u8:
                stats['strict'] += 1
                if mtags.get('J') != '1':
                    bad('strict-document-recognizer', 'rfc8259_document rejects the quoted output of a tree with UTF-8 strings (C05_strict_document): %r' % t1[:200])
                try:
                    json.loads(t1.decode('utf-8'))
                except Exception as e:
                    bad('strict-json', 'quoted output is not accepted by python json.loads: %s' % e)
        # ---- parsing
        sym = has_symbol(suite, root, tree, pbits)
        if p1 != 0 and not fits and built and m[1:2] == ['ERR'] and (str(perr), str(ploc)) == (m[2], m[3]):
            # FINDING (C05_round_trip_beyond_level_limit_refuted): B0 verifies and prints, its text is refused for the builder frame limit
            stats['frame_limit'] = stats.get('frame_limit', 0) + 1
            stats.setdefault('frame_limit_replays', []).append({'harness_line': q, 'needs_levels': need + 1, 'maxlvl': maxlvl, 'c_reply': rep[:300], 'model_reply': mrep[:200],
                                                                 'printed_tail': t1[-60:].decode('latin-1')})
            continue
        if p1 != 0 and fits:
            bad('reparse-fails', 'the printed text of a tree that needs %d <= %d levels is rejected by the generated parser: error %d at %d' % (need + 1, maxlvl, perr, ploc)); continue
        if p1 == 0 and v1 != 0:
            bad('reparse-unverifiable', 'the buffer parsed from the printed text fails verification with %d' % v1); continue
        if mtags.get('Y') in ('0', '1') and (mtags.get('Y') == '1') == sym:
            bad('symbol-prediction', 'wt_table under the actual settings says %s, the tree %s an enum symbol' % (mtags.get('Y'), 'prints' if sym else 'does not print'))
        if m[1:2] == ['STOP']:
            if m[2] == '2' and sym and mtags.get('Y') == '0': stats['symbolic'] += 1
            else: bad('model-stop-%s' % m[2], 'parser model stopped on printer output (%s)' % ('symbolic constant' if m[2] == '2' else 'read outside / fuel'))
            if p1 == 0 and teq == '0' and reprint_expected(fl, pflags, suite, root, tree):
                bad('reprint-differs', 'printing the reparsed buffer gives a different text')
            continue
        stats['compared_parse'] += 1
        if m[1:2] == ['OK']:
            if p1 != 0: bad('c-rejects-model-accepts', 'generated parser rejects its printer\'s text (error %d at %d), the model accepts' % (perr, ploc)); continue
            if int(m[2]) != pend: bad('end-loc-differs', 'C end_loc %d, model %s' % (pend, m[2]))
            if mtags.get('R') != '1': bad('model-reparse-value', 'the model parse of the printed text is not reparse_table of the tree (contradicts C05_document_round_trip)')
            if mtags.get('D') == '0': bad('value-differs', 'Spec.decode_root of the C-built reparsed buffer is not the model\'s parsed value')
            exp = reprint_expected(fl, pflags, suite, root, tree)
            if exp and mtags.get('P') != '1': bad('model-reprint', 'the model reprint differs although the side condition of C05_reprint_identical holds')
            if exp and teq == '0': bad('reprint-differs', 'printing the reparsed buffer gives a different text (settings %r, parser flags %d)' % (fl, pflags))
            if teq in '01' and mtags.get('P') in ('0', '1') and teq != mtags.get('P'):
                bad('reprint-model-differs', 'reprint equality: C %s, model %s' % (teq, mtags.get('P')))
        elif m[1:2] == ['ERR']:
            if p1 == 0: bad('c-accepts-model-rejects', 'generated parser accepts the printed text, the model reports error %s at %s' % (m[2], m[3])); continue
            if (str(perr), str(ploc)) != (m[2], m[3]): bad('error-differs', 'C error %d at %d, model error %s at %s' % (perr, ploc, m[2], m[3]))
            if fits: bad('model-rejects-fitting-tree', 'the model rejects a tree that needs %d <= %d levels (contradicts C05_document_round_trip)' % (need + 1, maxlvl))
    return mism, stats


def has_present_default(suite, tn, v):
    for f, t, d in suite.tables[tn]:
        if f not in v: continue
        et = t[1] if isinstance(t, tuple) else t
        if isinstance(t, tuple):
            if et in suite.tables and any(has_present_default(suite, et, y) for y in v[f]): return True
        elif t in suite.tables:
            if has_present_default(suite, t, v[f]): return True
        elif t != 'string' and d is not None and int(v[f]) == int(d): return True
    return False


def reprint_expected(fl, pflags, suite, root, tree):
    """side condition of C05_reprint_identical"""
    if fl['skip'] and fl['force']: return False
    return bool(pflags & 2) or fl['skip'] or fl['force'] or not has_present_default(suite, root, tree)


def c05b_hook(ctx, n=None):
    """Entry point for checks/c05.py (after ctx.check_theorems(prop_module='Properties_C05b')).  Returns True when ctx.replay_in names a record
    of this layer (it is replayed here), else the statistics."""
    if ctx.replay_in:
        rp = json.load(open(ctx.replay_in))
        if not str(rp.get('harness', '')).startswith('c05b_rt_'): return None
        suite = B.SUITE_C04 if rp['harness'].endswith('c04') else B.SUITE_B4
        line = rp.get('harness_line', '')
        rep = U.run_resilient(build_harness(ctx, suite), [line])[0]
        ctx.log('replay request:', line[:300]); ctx.log('implementation reply:', rep[:600])
        ctx.log('recorded implementation reply:', str(rp.get('c_reply', ''))[:600]); ctx.log('recorded model reply:', str(rp.get('model_reply', ''))[:300])
        ctx.count(line, klass='replay')
        f = rep.split()
        same = rep[:600] == str(rp.get('c_reply', ''))[:600]
        if same or rep.startswith(('CRASH', 'HANG')) or (f[:1] == ['RT'] and len(f) > 3 and f[3] != '0'):
            ctx.violation(rp.get('key', 'replay'), 'replayed: the implementation answers as recorded: ' + rep[:200], {'harness': rp['harness'], 'harness_line': line, 'c_reply': rep[:600]})
        ctx.finish_args = dict(rule='replay of one recorded request', explanation='replay')
        return True
    rng = ctx.rng
    maxlvl = B.parse_max_levels() or 100
    trees = make_trees(rng, ctx.thorough, maxlvl)
    if n is not None: trees = trees[:n]
    cases = []
    for k, tr in enumerate(trees):
        suite, root, tree, klass = tr[:4]
        for pb, ind, pf in settings_for(rng, klass, k):
            cases.append((suite, root, tree, klass, pb, ind, pf) + tuple(tr[4:5]))
    mism, stats = round_trip_check(ctx, cases)
    for c in cases:
        ctx.count(('c05b:%s:%s:%d:%d:%d:' % (c[0].name, c[1], c[4], c[5], c[6])).encode() + src_json(c[0], c[1], c[2]), klass='document:' + c[3])
    for m in mism:
        ctx.violation('corr:document:' + m['key'], m['what'], m['replay'])
    if stats.get('frame_limit'):
        # C05_round_trip_beyond_level_limit_refuted replayed on the C code (fixes/C05-parser-frame-limit.md).  Always reported as a violation; the
        # framework prints it as KNOWN-FINDING while known_findings.txt lists the key.
        rp = stats['frame_limit_replays'][0]
        what = ('a verified buffer (%d nested tables, the innermost holding a vector / an escaped string) is printed, and the generated parser rejects the printed text with '
                '`runtime`: it needs builder level %d > FLATCC_JSON_PARSE_MAX_LEVELS = %d; %d such cases' % (rp['needs_levels'] - 2, rp['needs_levels'], rp['maxlvl'], stats['frame_limit']))
        ctx.violation('parser-frame-limit', what, rp)      # a KNOWN-FINDING as long as known_findings.txt lists the key
    stats.setdefault('frame_limit', 0)
    ctx.notes.append('document layer: %(cases)d print/parse round trips, %(compared_text)d printed texts compared byte for byte with print_root, %(compared_parse)d parses compared '
                     'with parse_root, %(symbolic)d with enum symbols (parser model outside its fragment: text only), %(source_refused)d sources beyond the level limit, '
                     '%(strict)d strict documents judged by rfc8259_document and json.loads' % stats)
    return stats
