"""Selftest of the generated-parser control-flow model (coq/Json/ParserModel.v, build/modelrun_jsonparser) against the
generated JSON parsers of /repo:      cd /verif && python3 -m checks.c04b_selftest [seed] [n]

Documents for the fragment root types of gen/c04_schema.fbs (Leaf, Rec, Req): rendered value trees in all surface styles
(enums as numbers so that the text stays inside the fragment; the other enum styles are run too and counted `outside`),
all flag subsets, every truncation of some, token mutations, duplicates, missing required fields, unknown fields with and
without skip_unknown, nesting around FLATCC_JSON_PARSE_MAX_LEVELS through table fields and table vectors, escapes at the
nesting limit, hand-made corner cases.  Exit status 1 on any mismatch.  Build output under build/C04b/.
"""
import sys, random, time
from . import lib, c04_util as U, c04b_util as B


def hand_cases():
    out = []
    add = lambda root, txt, flags=0: out.append((root, flags, 1, txt, 'hand'))
    for fl in (0, 1, 2, 3, 4, 7):
        add('Leaf', b'{}', fl); add('Leaf', b'{"n":1}', fl); add('Leaf', b'{"n":0}', fl); add('Leaf', b'{"n":0,"n":0}', fl)
        add('Leaf', b'{"n":1,"n":1}', fl); add('Leaf', b'{"n":1,"n":0}', fl); add('Leaf', b'{"n":0,"n":1}', fl)
        add('Leaf', b'{"s":"a","s":"b"}', fl); add('Leaf', b'{"c":2}', fl); add('Leaf', b'{"c":1,"c":2}', fl); add('Leaf', b'{"c":2,"c":1}', fl)
        add('Leaf', b'{"x":1}', fl); add('Leaf', b'{"x":{"y":[1,2,{"z":"q"}]},"n":5}', fl); add('Leaf', b'{x:1,n:2}', fl)
        add('Leaf', b'{"n":1,}', fl); add('Leaf', b'{,}', fl); add('Leaf', b' {}', fl); add('Leaf', b'{} trailing', fl); add('Leaf', b'{}}', fl)
        add('Leaf', b'{"nn":1}', fl); add('Leaf', b'{"n" :1 , "s" : "x" }', fl); add('Leaf', b'{n:1,s:"x",c:7}', fl); add('Leaf', b'{"n":1 "s":"x"}', fl)
        add('Leaf', b'{"s":"a\\nb\\u00e9\\ud83d\\ude00"}', fl); add('Leaf', b'{"s":"a\\qb"}', fl); add('Leaf', b'{"s":"abc', fl); add('Leaf', b'{"s":null}', fl)
        add('Leaf', b'{"n":-9223372036854775808}', fl); add('Leaf', b'{"n":9223372036854775807}', fl); add('Leaf', b'{"n":9223372036854775808}', fl)
        add('Leaf', b'{"n":-9223372036854775809}', fl); add('Leaf', b'{"c":127}', fl); add('Leaf', b'{"c":128}', fl); add('Leaf', b'{"c":-128}', fl); add('Leaf', b'{"c":-129}', fl)
        # digit runs denoting values >= 2^64 (overflow test of /repo HEAD: x > (UINT64_MAX - d) / 10), compared like everything else
        add('Leaf', b'{"n":18446744073709551615}', fl); add('Leaf', b'{"n":18446744073709551616}', fl); add('Leaf', b'{"n":30000000000000000000}', fl)
        add('Leaf', b'{"n":-18446744073709551616}', fl); add('Leaf', b'{"n":99999999999999999999999}', fl); add('Leaf', b'{"n":000000000000000000000007}', fl)
        add('Leaf', b'{"c":18446744073709551617}', fl); add('Leaf', b'{"n":184467440737095516150,"s":"x"}', fl)
        add('Req', b'{"a":"x","b":[18446744073709551616],"c":{}}', fl); add('Req', b'{"a":"x","b":[1,30000000000000000000,2],"c":{}}', fl)
        add('Req', b'{"a":"x","b":[1],"c":{"n":18446744073709551625}}', fl); add('Req', b'{"a":"x","b":[1],"c":{},"d":-99999999999999999999}', fl)
        add('Leaf', b'{"n":1.5}', fl); add('Leaf', b'{"n":1e3}', fl); add('Leaf', b'{"n":-}', fl); add('Leaf', b'{"n":}', fl); add('Leaf', b'{"n":', fl); add('Leaf', b'{"n"', fl)
        add('Leaf', b'{"n":1', fl); add('Leaf', b'{"n":12', fl); add('Leaf', b'{"s":"', fl); add('Leaf', b'{"s":"\\', fl); add('Leaf', b'{"c":"Red"}', fl); add('Leaf', b'{"c":Red}', fl)
        add('Leaf', b'{"n":true}', fl); add('Leaf', b'{"n":"1"}', fl); add('Leaf', b'{"n":[1]}', fl); add('Leaf', b'{"n":{}}', fl); add('Leaf', b'{"s":1}', fl); add('Leaf', b'[]', fl); add('Leaf', b'', fl)
        add('Req', b'{}', fl); add('Req', b'{"a":"x"}', fl); add('Req', b'{"a":"x","b":[],"c":{}}', fl); add('Req', b'{"a":"x","b":[1,2,3],"c":{"n":4},"d":5}', fl)
        add('Req', b'{"b":[1,2,],"a":"","c":{"s":"q"},}', fl); add('Req', b'{"a":"x","b":[1,,2],"c":{}}', fl); add('Req', b'{"a":"x","b":[1 2],"c":{}}', fl)
        add('Req', b'{"a":"x","b":[2147483647,-2147483648],"c":{}}', fl); add('Req', b'{"a":"x","b":[2147483648],"c":{}}', fl); add('Req', b'{"a":"x","b":[-2147483649],"c":{}}', fl)
        add('Req', b'{"a":"x","b":[1],"b":[2],"c":{}}', fl); add('Req', b'{"a":"x","b":[1],"c":{},"c":{}}', fl); add('Req', b'{"a":"x","b":1,"c":{}}', fl); add('Req', b'{"a":"x","b":[,"c":{}}', fl)
        add('Req', b'{"a":"x","b":[1],"c":{"n":1,"n":2}}', fl); add('Req', b'{"a":"x","b":[1],"c":[]}', fl); add('Req', b'{"a":"x","b":["1"],"c":{}}', fl); add('Req', b'{"a":"x","b":[1', fl)
        add('Req', b'{"a":"x","b":[1],"c":{"zz":1}}', fl); add('Req', b'{"zz":[{"a":1}],"a":"x","b":[],"c":{}}', fl); add('Req', b'{"a":"x","b":[true],"c":{}}', fl)
        add('Rec', b'{"k":[]}', fl); add('Rec', b'{"k":[{}]}', fl); add('Rec', b'{"k":[{},{"n":1},{"k":[{"r":{}}]}],"r":{"n":2},"n":3}', fl); add('Rec', b'{"k":[{},]}', fl)
        add('Rec', b'{"k":[{}{}]}', fl); add('Rec', b'{"k":[1]}', fl); add('Rec', b'{"k":{}}', fl); add('Rec', b'{"r":[]}', fl); add('Rec', b'{"r":{},"r":{}}', fl); add('Rec', b'{"k":[],"k":[]}', fl)
        add('Rec', b'{"r":{"r":{"r":{"n":7}}}}', fl); add('Rec', b'{"r":{"r":{"r":{"n":7}}', fl); add('Rec', b'{"k":[{"k":[{"k":[]}]}]}', fl); add('Rec', b'{"k":[{"k":[{"k":[', fl)
    return out


def deep_cases(maxlvl):
    out = []
    for d in (1, 2, maxlvl - 3, maxlvl - 2, maxlvl - 1, maxlvl, maxlvl + 1, maxlvl + 5):
        if d < 1: continue
        for fl in (0, 1):
            out.append(('Rec', fl, 1, b'{"r":' * (d - 1) + b'{"n":1}' + b'}' * (d - 1), 'deep-table'))
            out.append(('Rec', fl, 1, b'{"r":' * (d - 1) + b'{"k":[]}' + b'}' * (d - 1), 'deep-table-vec'))
            out.append(('Rec', fl, 1, b'{"r":' * (d - 1) + b'{"k":[{}]}' + b'}' * (d - 1), 'deep-table-vec'))
        h = (d + 1) // 2
        out.append(('Rec', 0, 1, b'{"k":[' * (h - 1) + b'{"n":1}' + b']}' * (h - 1), 'deep-vec'))
        out.append(('Rec', 0, 1, b'{"k":[' * (h - 1) + b'{"k":[]}' + b']}' * (h - 1), 'deep-vec'))
        out.append(('Rec', 0, 1, b'{"k":[' * h + b']}' * h, 'deep-vec'))
    # strings with and without escapes / vectors at the deepest allowed table (Req inside is not reachable from Rec: use Leaf via Req)
    for d in (maxlvl - 2, maxlvl - 1, maxlvl):
        for inner in (b'{"a":"x","b":[1],"c":{"s":"plain"}}', b'{"a":"x","b":[1],"c":{"s":"esc\\n"}}', b'{"a":"e\\t","b":[],"c":{}}'):
            out.append(('Req', 0, 1, inner, 'level-leaf'))
    return out


def doc_cases(rng, n):
    g = U.Gen(rng, max_depth=3)
    out = []
    for k in range(n):
        root = rng.choice(B.SUITE_C04.roots)
        v = g.root(root)
        st = U.Style(rng)
        if rng.random() < 0.85: st.enum_mode = 'num'
        txt = U.render_root(root, v, st)
        fl = rng.choice([0, 0, 1, 2, 3, 4, 5, 7, rng.randrange(32)])
        fid = rng.choice([0, 1])
        out.append((root, fl, fid, txt, 'valid'))
        r = rng.random()
        if r < 0.25:
            step = 1 if len(txt) < 120 else max(1, len(txt) // 60)
            for cut in range(0, len(txt), step): out.append((root, fl, fid, txt[:cut], 'truncated'))
        elif r < 0.75:
            for _ in range(4): out.append((root, fl, fid, U.mutate(rng, txt), 'mutated'))
        else:
            # unknown member injected
            toks = txt[1:]
            inj = rng.choice([b'"zz":1,', b'"zz":{"a":[1,{"b":null}]},', b'zz:"s",', b'"n_":[],', b'"zz":tru,'])
            out.append((root, fl, fid, b'{' + inj + toks, 'unknown'))
            out.append((root, fl | 1, fid, b'{' + inj + toks, 'unknown-skip'))
    return out


def gdoc_cases(rng, suite, n):
    """generic documents for a suite: valid, truncated, mutated, unknown members, duplicated members"""
    g = U.Gen(rng)
    out = []
    for k in range(n):
        root = rng.choice(suite.roots)
        v = B.gen_table(rng, suite, root, 0, g)
        st = U.Style(rng)
        if rng.random() < 0.85: st.enum_mode = 'num'
        txt = B.render_table(suite, root, v, st)
        if len(txt) > 5000: continue           # the list-based extracted model is quadratic in the number of objects
        fl = rng.choice([0, 0, 1, 2, 3, 4, 5, 7, rng.randrange(32)])
        fid = rng.choice([0, 1])
        out.append((root, fl, fid, txt, 'g-valid'))
        r = rng.random()
        if r < 0.2:
            step = 1 if len(txt) < 150 else max(1, len(txt) // 50)
            for cut in range(0, len(txt), step): out.append((root, fl, fid, txt[:cut], 'g-truncated'))
        elif r < 0.7:
            for _ in range(4): out.append((root, fl, fid, U.mutate(rng, txt), 'g-mutated'))
        elif r < 0.85:
            inj = rng.choice([b'"zz":1,', b'"zz":{"a":[1,{"b":null}]},', b'zz:"s",', b'"nam_":[],', b'"name888":1,', b'"name888899":1,', b'"a_long_field_name_":1,',
                              b'"a_long_field_name_xyz":[],', b'"n":1,', b'"i":2,', b'"idx":3,'])
            out.append((root, fl, fid, b'{' + inj + txt[1:], 'g-unknown'))
            out.append((root, fl | 1, fid, b'{' + inj + txt[1:], 'g-unknown-skip'))
        else:
            # the same member twice
            toks = txt[1:-1]
            out.append((root, fl, fid, b'{' + toks + (b',' if toks.strip() and not toks.rstrip().endswith(b',') else b'') + toks + b'}', 'g-duplicated'))
    return out


def b4_hand():
    out = []
    add = lambda root, txt, flags=0: out.append((root, flags, 1, txt, 'b4-hand'))
    for fl in (0, 1, 2, 3, 4):
        for txt in (b'{}', b'{"b":true}', b'{"b":false}', b'{"b":1}', b'{"b":0}', b'{"b":2}', b'{"b":256}', b'{"b":-1}', b'{"b":tru}', b'{"b":truex}', b'{"b":"true"}',
                    b'{"vb":[true,false,1,0,7]}', b'{"vb":[true,]}', b'{"vb":[nope]}', b'{"u8":255}', b'{"u8":256}', b'{"u8":-1}', b'{"i8":-128}', b'{"i8":-129}', b'{"i8":127}',
                    b'{"i8":128}', b'{"i8":-3}', b'{"u16":500}', b'{"u16":65535}', b'{"u16":65536}', b'{"i16":-32768}', b'{"i16":-32769}', b'{"u32":4000000000}',
                    b'{"u32":4294967295}', b'{"u32":4294967296}', b'{"i64":-1}', b'{"i64":0}', b'{"u64":18446744073709551615}', b'{"u64":-0}', b'{"u64":-1}', b'{"i32":-0}',
                    b'{"kind":1}', b'{"kind":5}', b'{"kind":9}', b'{"kind":"K5"}', b'{"kind":K5}', b'{"vk":[0,1,5,200]}', b'{"vk":[K1]}', b'{"names":[]}', b'{"names":["a","b\n",""]}',
                    b'{"names":["a" "b"]}', b'{"names":[1]}', b'{"names":["a",]}', b'{"names":["a\q"]}', b'{"names":["abc', b'{"vu8":[0,255]}', b'{"vu8":[256]}',
                    b'{"vi16":[-32768,32767,0]}', b'{"vu64":[18446744073709551615,0]}', b'{"vi64":[-9223372036854775808,9223372036854775807]}',
                    b'{"item":{"name":"n"}}', b'{"item":{}}', b'{"item":{"name":"n","tags":["t","u"],"ok":false,"w":7,"id":1}}', b'{"item":{"name":"n","ok":true}}',
                    b'{"items":[{"name":"a"},{"name":"b","tags":[]}]}', b'{"items":[{"name":"a"},{}]}', b'{"items":[]}', b'{"items":[{"name":"a"}', b'{"items":{"name":"a"}}',
                    b'{"sub":{"sub":{"subs":[{"b":true},{}]}}}', b'{"subs":[{"subs":[{"subs":[]}]}]}', b'{"na":1,"nam":2,"name8888":3,"name88889":4}', b'{"nam":1,"na":2}',
                    b'{"name888":1}', b'{"name888899":1}', b'{"a_long_field_name_x":"s","a_long_field_name_xy":["t"]}', b'{"a_long_field_name_":1}', b'{"a_long_field_name_xyz":1}',
                    b'{na:1,nam:2,a_long_field_name_x:"q"}', b'{ "na" : 1 , "nam" : 2 }', b'{"na":1,"na":1}', b'{"na":0,"na":0}', b'{"title":"x","title":"y"}',
                    b'{"names":[],"names":[]}', b'{"item":{"name":"a"},"item":{"name":"b"}}', b'{"vb":[],"vb":[]}', b'{"title":"\u00e9\ud83d\ude00\x41\t"}'):
            add('Doc', txt, fl)
        for txt in (b'{"name":"x"}', b'{}', b'{"id":5}', b'{"name":"x","tags":["a","b"],"ok":true,"w":8}', b'{"name":"x","ok":false}', b'{"name":"x","w":7}', b'{"tags":[]}',
                    b'{"name":"x","name":"y"}', b'{"name":null}', b'{"name":"x","zz":1}'):
            add('Item', txt, fl)
    return out


def b4_deep(maxlvl):
    out = []
    for d in (maxlvl - 2, maxlvl - 1, maxlvl, maxlvl + 1):
        pre, post = b'{"sub":' * (d - 2), b'}' * (d - 2)
        for inner in (b'{"title":"plain"}', b'{"title":"esc\n"}', b'{"names":[]}', b'{"names":["p"]}', b'{"names":["e\t"]}', b'{"vb":[]}', b'{"vb":[true]}',
                      b'{"item":{"name":"x"}}', b'{"item":{"name":"x","tags":[]}}', b'{"item":{"name":"x","tags":["t"]}}', b'{"item":{"name":"x","tags":["t\n"]}}',
                      b'{"items":[]}', b'{"items":[{"name":"x"}]}', b'{"b":true}'):
            out.append(('Doc', 0, 1, pre + inner + post, 'b4-deep'))
    return out


def main():
    seed = int(sys.argv[1]) if len(sys.argv) > 1 else lib.mk_seed()
    n = int(sys.argv[2]) if len(sys.argv) > 2 else 400
    t0 = time.time()
    ctx = lib.Ctx('C04b', 'quick', seed, 'other')
    H = B.build_harness(ctx)
    maxlvl = B.parse_max_levels() or 100
    cases = hand_cases() + deep_cases(maxlvl) + doc_cases(ctx.rng, n)
    cases += gdoc_cases(ctx.rng, B.SUITE_C04, n // 2)
    mism, stats = B.parser_model_check(ctx, cases, harness=H)
    hist = {}
    for c in cases: hist[c[4]] = hist.get(c[4], 0) + 1
    print('c04b_selftest: seed %d, suite c04: %d cases %r' % (seed, len(cases), hist))
    print('c04b_selftest: stats %r, %.1f s' % (stats, time.time() - t0))
    H2 = B.SUITE_B4.build_harness(ctx)
    cases2 = b4_hand() + b4_deep(maxlvl) + gdoc_cases(ctx.rng, B.SUITE_B4, n)
    mism2, stats2 = B.parser_model_check(ctx, cases2, harness=H2, suite=B.SUITE_B4)
    hist = {}
    for c in cases2: hist[c[4]] = hist.get(c[4], 0) + 1
    print('c04b_selftest: suite b4: %d cases %r' % (len(cases2), hist))
    print('c04b_selftest: stats %r, %.1f s' % (stats2, time.time() - t0))
    mism = mism + mism2
    keys = {}
    for m in mism: keys.setdefault(m['key'], []).append(m)
    for k, ms in sorted(keys.items()):
        print('MISMATCH %s (%d): %s' % (k, len(ms), ms[0]['what'][:300]))
        print('   C: %s' % ms[0]['replay'].get('c_reply', '')[:200]); print('   M: %s' % ms[0]['replay'].get('model_reply', '')[:200])
    print('c04b_selftest: %s' % ('FAIL (%d mismatches)' % len(mism) if mism else 'ok'))
    sys.exit(1 if mism else 0)


if __name__ == '__main__':
    main()
