"""Selftest of the generated-parser control-flow model (coq/Json/ParserModel.v, build/modelrun_jsonparser) against the
generated JSON parsers of /repo:      cd /verif && python3 -m checks.c04b_selftest [seed] [n]

Documents for the fragment root types of gen/c04_schema.fbs (Leaf, Rec, Req): rendered value trees in all surface styles
(enums as numbers so that the text stays inside the fragment; the other enum styles are run too and counted `outside`),
all flag subsets, every truncation of some, token mutations, duplicates, missing required fields, unknown fields with and
without skip_unknown, nesting around FLATCC_JSON_PARSE_MAX_LEVELS through table fields and table vectors, escapes at the
nesting limit, hand-made corner cases.  Exit status 1 on any mismatch.  Build output under build/C04b/.
"""
import sys, random, time
from . import lib, c04_util as U, c04b_util as B


def hand_cases():
    out = []
    add = lambda root, txt, flags=0: out.append((root, flags, 1, txt, 'hand'))
    for fl in (0, 1, 2, 3, 4, 7):
        add('Leaf', b'{}', fl); add('Leaf', b'{"n":1}', fl); add('Leaf', b'{"n":0}', fl); add('Leaf', b'{"n":0,"n":0}', fl)
        add('Leaf', b'{"n":1,"n":1}', fl); add('Leaf', b'{"n":1,"n":0}', fl); add('Leaf', b'{"n":0,"n":1}', fl)
        add('Leaf', b'{"s":"a","s":"b"}', fl); add('Leaf', b'{"c":2}', fl); add('Leaf', b'{"c":1,"c":2}', fl); add('Leaf', b'{"c":2,"c":1}', fl)
        add('Leaf', b'{"x":1}', fl); add('Leaf', b'{"x":{"y":[1,2,{"z":"q"}]},"n":5}', fl); add('Leaf', b'{x:1,n:2}', fl)
        add('Leaf', b'{"n":1,}', fl); add('Leaf', b'{,}', fl); add('Leaf', b' {}', fl); add('Leaf', b'{} trailing', fl); add('Leaf', b'{}}', fl)
        add('Leaf', b'{"nn":1}', fl); add('Leaf', b'{"n" :1 , "s" : "x" }', fl); add('Leaf', b'{n:1,s:"x",c:7}', fl); add('Leaf', b'{"n":1 "s":"x"}', fl)
        add('Leaf', b'{"s":"a\\nb\\u00e9\\ud83d\\ude00"}', fl); add('Leaf', b'{"s":"a\\qb"}', fl); add('Leaf', b'{"s":"abc', fl); add('Leaf', b'{"s":null}', fl)
        add('Leaf', b'{"n":-9223372036854775808}', fl); add('Leaf', b'{"n":9223372036854775807}', fl); add('Leaf', b'{"n":9223372036854775808}', fl)
        add('Leaf', b'{"n":-9223372036854775809}', fl); add('Leaf', b'{"c":127}', fl); add('Leaf', b'{"c":128}', fl); add('Leaf', b'{"c":-128}', fl); add('Leaf', b'{"c":-129}', fl)
        add('Leaf', b'{"n":1.5}', fl); add('Leaf', b'{"n":1e3}', fl); add('Leaf', b'{"n":-}', fl); add('Leaf', b'{"n":}', fl); add('Leaf', b'{"n":', fl); add('Leaf', b'{"n"', fl)
        add('Leaf', b'{"n":1', fl); add('Leaf', b'{"n":12', fl); add('Leaf', b'{"s":"', fl); add('Leaf', b'{"s":"\\', fl); add('Leaf', b'{"c":"Red"}', fl); add('Leaf', b'{"c":Red}', fl)
        add('Leaf', b'{"n":true}', fl); add('Leaf', b'{"n":"1"}', fl); add('Leaf', b'{"n":[1]}', fl); add('Leaf', b'{"n":{}}', fl); add('Leaf', b'{"s":1}', fl); add('Leaf', b'[]', fl); add('Leaf', b'', fl)
        add('Req', b'{}', fl); add('Req', b'{"a":"x"}', fl); add('Req', b'{"a":"x","b":[],"c":{}}', fl); add('Req', b'{"a":"x","b":[1,2,3],"c":{"n":4},"d":5}', fl)
        add('Req', b'{"b":[1,2,],"a":"","c":{"s":"q"},}', fl); add('Req', b'{"a":"x","b":[1,,2],"c":{}}', fl); add('Req', b'{"a":"x","b":[1 2],"c":{}}', fl)
        add('Req', b'{"a":"x","b":[2147483647,-2147483648],"c":{}}', fl); add('Req', b'{"a":"x","b":[2147483648],"c":{}}', fl); add('Req', b'{"a":"x","b":[-2147483649],"c":{}}', fl)
        add('Req', b'{"a":"x","b":[1],"b":[2],"c":{}}', fl); add('Req', b'{"a":"x","b":[1],"c":{},"c":{}}', fl); add('Req', b'{"a":"x","b":1,"c":{}}', fl); add('Req', b'{"a":"x","b":[,"c":{}}', fl)
        add('Req', b'{"a":"x","b":[1],"c":{"n":1,"n":2}}', fl); add('Req', b'{"a":"x","b":[1],"c":[]}', fl); add('Req', b'{"a":"x","b":["1"],"c":{}}', fl); add('Req', b'{"a":"x","b":[1', fl)
        add('Req', b'{"a":"x","b":[1],"c":{"zz":1}}', fl); add('Req', b'{"zz":[{"a":1}],"a":"x","b":[],"c":{}}', fl); add('Req', b'{"a":"x","b":[true],"c":{}}', fl)
        add('Rec', b'{"k":[]}', fl); add('Rec', b'{"k":[{}]}', fl); add('Rec', b'{"k":[{},{"n":1},{"k":[{"r":{}}]}],"r":{"n":2},"n":3}', fl); add('Rec', b'{"k":[{},]}', fl)
        add('Rec', b'{"k":[{}{}]}', fl); add('Rec', b'{"k":[1]}', fl); add('Rec', b'{"k":{}}', fl); add('Rec', b'{"r":[]}', fl); add('Rec', b'{"r":{},"r":{}}', fl); add('Rec', b'{"k":[],"k":[]}', fl)
        add('Rec', b'{"r":{"r":{"r":{"n":7}}}}', fl); add('Rec', b'{"r":{"r":{"r":{"n":7}}', fl); add('Rec', b'{"k":[{"k":[{"k":[]}]}]}', fl); add('Rec', b'{"k":[{"k":[{"k":[', fl)
    return out


def deep_cases(maxlvl):
    out = []
    for d in (1, 2, maxlvl - 3, maxlvl - 2, maxlvl - 1, maxlvl, maxlvl + 1, maxlvl + 5):
        if d < 1: continue
        for fl in (0, 1):
            out.append(('Rec', fl, 1, b'{"r":' * (d - 1) + b'{"n":1}' + b'}' * (d - 1), 'deep-table'))
            out.append(('Rec', fl, 1, b'{"r":' * (d - 1) + b'{"k":[]}' + b'}' * (d - 1), 'deep-table-vec'))
            out.append(('Rec', fl, 1, b'{"r":' * (d - 1) + b'{"k":[{}]}' + b'}' * (d - 1), 'deep-table-vec'))
        h = (d + 1) // 2
        out.append(('Rec', 0, 1, b'{"k":[' * (h - 1) + b'{"n":1}' + b']}' * (h - 1), 'deep-vec'))
        out.append(('Rec', 0, 1, b'{"k":[' * (h - 1) + b'{"k":[]}' + b']}' * (h - 1), 'deep-vec'))
        out.append(('Rec', 0, 1, b'{"k":[' * h + b']}' * h, 'deep-vec'))
    # strings with and without escapes / vectors at the deepest allowed table (Req inside is not reachable from Rec: use Leaf via Req)
    for d in (maxlvl - 2, maxlvl - 1, maxlvl):
        for inner in (b'{"a":"x","b":[1],"c":{"s":"plain"}}', b'{"a":"x","b":[1],"c":{"s":"esc\\n"}}', b'{"a":"e\\t","b":[],"c":{}}'):
            out.append(('Req', 0, 1, inner, 'level-leaf'))
    return out


def doc_cases(rng, n):
    g = U.Gen(rng, max_depth=3)
    out = []
    for k in range(n):
        root = rng.choice(B.FRAG_ROOTS)
        v = g.root(root)
        st = U.Style(rng)
        if rng.random() < 0.85: st.enum_mode = 'num'
        txt = U.render_root(root, v, st)
        fl = rng.choice([0, 0, 1, 2, 3, 4, 5, 7, rng.randrange(32)])
        fid = rng.choice([0, 1])
        out.append((root, fl, fid, txt, 'valid'))
        r = rng.random()
        if r < 0.25:
            step = 1 if len(txt) < 120 else max(1, len(txt) // 60)
            for cut in range(0, len(txt), step): out.append((root, fl, fid, txt[:cut], 'truncated'))
        elif r < 0.75:
            for _ in range(4): out.append((root, fl, fid, U.mutate(rng, txt), 'mutated'))
        else:
            # unknown member injected
            toks = txt[1:]
            inj = rng.choice([b'"zz":1,', b'"zz":{"a":[1,{"b":null}]},', b'zz:"s",', b'"n_":[],', b'"zz":tru,'])
            out.append((root, fl, fid, b'{' + inj + toks, 'unknown'))
            out.append((root, fl | 1, fid, b'{' + inj + toks, 'unknown-skip'))
    return out


def main():
    seed = int(sys.argv[1]) if len(sys.argv) > 1 else lib.mk_seed()
    n = int(sys.argv[2]) if len(sys.argv) > 2 else 400
    t0 = time.time()
    ctx = lib.Ctx('C04b', 'quick', seed, 'other')
    H = B.build_harness(ctx)
    maxlvl = B.parse_max_levels() or 100
    cases = hand_cases() + deep_cases(maxlvl) + doc_cases(ctx.rng, n)
    mism, stats = B.parser_model_check(ctx, cases, harness=H)
    hist = {}
    for c in cases: hist[c[4]] = hist.get(c[4], 0) + 1
    print('c04b_selftest: seed %d, %d cases %r' % (seed, len(cases), hist))
    print('c04b_selftest: stats %r, %.1f s' % (stats, time.time() - t0))
    keys = {}
    for m in mism: keys.setdefault(m['key'], []).append(m)
    for k, ms in sorted(keys.items()):
        print('MISMATCH %s (%d): %s' % (k, len(ms), ms[0]['what'][:300]))
        print('   C: %s' % ms[0]['replay'].get('c_reply', '')[:200]); print('   M: %s' % ms[0]['replay'].get('model_reply', '')[:200])
    print('c04b_selftest: %s' % ('FAIL (%d mismatches)' % len(mism) if mism else 'ok'))
    sys.exit(1 if mism else 0)


if __name__ == '__main__':
    main()
