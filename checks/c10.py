"""C10 - JSON field, enum and scope names dispatch exactly.

1. Static tier (kernel): generate parsers for gen/c10_schemas/*.fbs with the freshly built flatcc, translate every trie
   (translators/trie_h_to_coq.py) into coq/Generated/Tries_C10.v, re-check Properties_C10.vo: the certified checker
   `check` evaluates to true inside Coq for every generated trie, hence (check_sound) each dispatches exactly on ALL inputs.
2. Dynamic tier: the same corpus + gen/c10_schemas/dyn/*.fbs + seeded random name-set schemas go through translator and the
   EXTRACTED checker (certified-checker verdict without kernel re-check), and through a harness compiled from the generated
   parser + /repo's runtime: every declared name, near misses, unknown names with and without skip_unknown, quoted and
   unquoted, enum symbols bare / type-qualified / namespace-qualified.  Three-way comparison: python transcription of the
   property (oracle), extracted TrieEval on the translated AST (validates the translator), compiled parser.
"""
import os, glob, json, re
from . import lib
from . import c10_util as U
from .c10_util import T3

ERR_UNKNOWN = 13
MODES_OF = {'table': ['symq', 'symu'], 'struct': ['symq', 'symu'], 'enum': ['constq', 'constu'], 'scope': ['scope']}


def hx(b):
    return bytes(b).hex() or '-'


def prepare(ctx, sch):
    """fresh flatcc -> generated headers; translate.  Sets sch.gdir, sch.entries or sch.terr."""
    sch.gdir = os.path.join(ctx.bdir, 'gen', sch.base); os.makedirs(sch.gdir, exist_ok=True)
    for name, txt in sch.files.items():
        open(os.path.join(sch.gdir, name + '.fbs'), 'w').write(txt)
    fbs = os.path.join(sch.gdir, sch.base + '.fbs')
    rc, out = ctx.gen(fbs, sch.gdir, opts=('-a', '--json', '-r'))
    if rc != 0:
        sch.terr = 'flatcc rejected the schema: ' + out[-500:]
        return False
    try:
        hdrs = {}
        for name in sch.files:
            hp = os.path.join(sch.gdir, name + '_json_parser.h')
            if os.path.exists(hp): hdrs[name] = open(hp).read()
        _, sch.entries = T3.translate(sch.text, hdrs, sch.base)
    except T3.TranslateError as e:
        sch.terr = str(e)
    return True


def build_harnesses(ctx, schs):
    # runtime objects with ASan+UBSan but without the alignment check (flatcc reads unaligned words on purpose where the
    # platform allows it; lib.Ctx.objs puts extra flags before the sanitizer flags, so these are compiled here)
    rdir = os.path.join(ctx.bdir, 'rt_san_c10'); os.makedirs(rdir, exist_ok=True)
    objs, jobs = [], []
    for src in ('builder.c', 'emitter.c', 'refmap.c', 'json_parser.c'):
        o = os.path.join(rdir, src[:-2] + '.o'); objs.append(o)
        jobs.append(['clang', '-std=c11', '-O1', '-g', '-w', '-c'] + lib.HOOK_DEFS + ['-DNDEBUG'] + lib.INCS + lib.SAN + ['-fno-sanitize=alignment',
                    os.path.join(lib.REPO, 'src', 'runtime', src), '-o', o])
    lib.par_compile(jobs)
    from concurrent.futures import ThreadPoolExecutor
    def one(s):
        s.exe = os.path.join(s.gdir, 'trie_diff')
        cmd = ['clang', '-std=gnu11', '-O1', '-g', '-w'] + lib.HOOK_DEFS + ['-DNDEBUG'] + lib.INCS + lib.SAN + ['-fno-sanitize=alignment',
               '-I' + s.gdir, '-I' + os.path.join(lib.ROOT, 'harness'), '-DC10_PARSER_HDR="%s_json_parser.h"' % s.base,
               '-DC10_PARSE=%s_parse_json' % s.base, os.path.join(lib.ROOT, 'harness', 'trie_diff.c')] + objs + ['-o', s.exe, '-lm']
        rc, out = lib.sh(cmd, timeout=300)
        s.build_err = None if rc == 0 else out[-1500:]
    with ThreadPoolExecutor(max_workers=12) as ex: list(ex.map(one, schs))
    good = []
    for s in schs:
        if s.build_err:
            ctx.log('generated parser of schema %s does not compile: %s' % (s.base, s.build_err[:300]))
            ctx.violation('generated-parser-does-not-compile', 'the JSON parser flatcc generated for schema %s (%s) is rejected by the C compiler: %s' % (s.base, s.origin, s.build_err[:300]),
                          {'schema_name': s.base, 'schema_fbs': s.text, 'compiler_output': s.build_err})
        else: good.append(s)
    return good


def run_capped(h, lines, max_crashes=6):
    """like lib.run_harness_resilient, but gives up on a schema after a few sanitizer aborts (each restart costs a process
    start under ASan); the remaining lines are answered 'SKIPPED'."""
    replies, start, crashes = [], 0, 0
    while start < len(lines):
        rc, res, err = h.run(lines[start:])
        replies.extend(res[:len(lines) - start])
        done = start + len(res)
        if done >= len(lines): break
        replies.append('CRASH ' + ' '.join(err.strip().split('\n')[:12])[:1500])
        start = done + 1
        crashes += 1
        if crashes >= max_crashes:
            replies.extend(['SKIPPED'] * (len(lines) - len(replies))); break
    return replies[:len(lines)]


# ------------------------------------------------------------------------------------------------ tests
WS = [b' ', b'\t', b'\n', b'\r', b'\r\n', b'  ', b' \n ', b'\n\n\t', b'\t \r\n ', b'\n    ']


def ws(rng, empty_ok=True):
    """JSON whitespace: blank, tab, CR, LF, CRLF, several; possibly none"""
    return b'' if empty_ok and rng.random() < 0.25 else rng.choice(WS)


SKIP_VALUES = [b'1', b'-2.5e3', b'"s"', b'true', b'{}', b'[]', b'{"x":[1,2],"y":{"z":"w"}}', b'[1,{"y":2},"t",[3]]', b'"a \\" b"']


def key_text(name, mode):
    """bytes of the key as written, and the offset of the first name byte in it"""
    if mode == 'q': return b'"' + name + b'":', 1
    if mode == 'u0': return name + b':', 0
    return name + b' :', 0


def field_tests(ctx, sch, rng, per_name, tests):
    paths = U.table_paths(sch)
    for fn, d in sorted(sch.dicts.items()):
        if d['kind'] != 'table' or T3.cname(d['decl']) not in paths: continue
        tdecl, hops = d['decl'], paths[T3.cname(d['decl'])]
        declared = {n for n, _ in d['names']}
        byname = {}
        for f in tdecl['fields']:
            if 'deprecated' in f['attrs']: continue
            byname[f['name'].encode()] = (f, False)
            if f.get('is_union'): byname[f['name'].encode() + b'_type'] = (f, True)
        scalars = [f for f in tdecl['fields'] if 'deprecated' not in f['attrs'] and not f['vec'] and U.field_kind(sch, tdecl, f)[0] == 'scalar' and f['type'] != 'bool']
        pid = U.path_ids(hops)

        def add(klass, inner, flags, want, key_off, mode, wantkey, kind='table', tfn=fn, note=''):
            js = U.wrap(hops, inner)
            tests.append({'klass': klass, 'sch': sch, 'flags': flags, 'path': pid, 'json': js, 'want': want, 'mode': mode,
                          'fn': tfn, 'inner': inner, 'key_off': key_off, 'wantkey': wantkey, 'note': note})

        # ---- every declared name, three key spellings, exact-size and padded text
        for name, (f, is_type) in sorted(byname.items()):
            if is_type: continue     # exercised together with the value field
            val, pre, want = U.value_for(sch, tdecl, f)
            for mode in ('q', 'u0', 'u1'):
                kt, off = key_text(name, mode)
                if f.get('is_union'):
                    tv = pre[pre.index(b':') + 1:-1]          # the type value text
                    # the key under test is spelled in `mode`, its companion key quoted
                    tk, toff = key_text(name + b'_type', mode)
                    qk, _ = key_text(name, 'q')
                    add('exact-union', b'{' + tk + tv + b',' + qk + val + b'}', 0, ('OK', want), 1 + toff, mode, 2 * f['id'] + 1)
                    qt, _ = key_text(name + b'_type', 'q')
                    add('exact-union', b'{' + qt + tv + b',' + kt + val + b'}', 0, ('OK', want), 1 + len(qt) + len(tv) + 1 + off, mode, 2 * f['id'])
                else:
                    inner = b'{' + kt + val + b'}'
                    add('exact', inner, 0, ('OK', want), 1 + off, mode, 2 * f['id'])
                    if mode == 'q' and rng.random() < 0.3:
                        tests.append(dict(tests[-1], json=tests[-1]['json'] + b' ' * 9, klass='exact-padded'))
            # string valued fields: a high byte close to the end of the text (the window loader's slow path)
            if U.field_kind(sch, tdecl, f)[0] == 'string' and not f['vec'] and not hops:
                for mode in ('q', 'u0'):
                    kt, off = key_text(name, mode)
                    add('hibyte-tail', b'{' + kt + b'"\xc3\xa9"}', 0, ('OK', {f['id']: ('present',)}), 1 + off, mode, 2 * f['id'])
        # ---- whitespace (blank, tab, CR, LF, CRLF, several, none) before / after the name, the colon and the value
        plain = [(n, fv) for n, fv in sorted(byname.items()) if not fv[1] and not fv[0].get('is_union')]
        if len(plain) > 10: plain = rng.sample(plain, 10)
        for name, (f, _) in plain:
            val, pre, want = U.value_for(sch, tdecl, f)
            for quoted in (True, False):
                w1, w2, w3, w4 = ws(rng), ws(rng), ws(rng), ws(rng)
                key = (b'"' + name + b'"') if quoted else name
                inner = b'{' + w1 + key + w2 + b':' + w3 + val + w4 + b'}'
                add('ws-exact', inner, 0, ('OK', want), 1 + len(w1) + (1 if quoted else 0), 'q' if quoted else ('u1' if w2 else 'u0'), 2 * f['id'])
        # ---- the text ends right after / inside a declared name (end - buf <= pos: no byte may be read at buf[pos])
        for name in sorted(declared):
            for mode in ('q', 'u0'):
                kt, off = key_text(name, mode)
                inner = b'{' + kt + b'1}'
                full = U.wrap(hops, inner)
                at = full.index(inner) + 1 + off
                for cut in {len(name), len(name) - 1, (len(name) // 8) * 8}:
                    if cut <= 0 and mode == 'u0': continue
                    tests.append({'klass': 'truncated', 'sch': sch, 'flags': 0, 'path': pid, 'json': full[:at + cut], 'want': ('ERR', None), 'mode': mode,
                                  'fn': fn, 'inner': b'', 'key_off': at, 'wantkey': None, 'note': '', 'nomodel': True})
        # ---- near misses and unknown names
        cands = []
        for name in sorted(declared):
            nm = U.near_misses(name, rng, declared)
            if len(nm) > per_name: nm = rng.sample(nm, per_name)
            cands += [(x, 'nearmiss') for x in nm]
        for _ in range(per_name):
            x = U.rand_ident(rng, rng.choice([1, 2, 7, 8, 9, 15, 16, 17, 24, 25, 40]))
            if x not in declared: cands.append((x, 'random-unknown'))
        for x, klass in cands:
            for mode in (('q', 'u0', 'u1') if rng.random() < 0.4 else (rng.choice(['q', 'u0', 'u1']),)):
                kt, off = key_text(x, mode)
                add(klass, b'{' + kt + b'1}', 0, ('ERR', ERR_UNKNOWN), 1 + off, mode, None)
                if scalars:
                    g = rng.choice(scalars)
                    gv, _, gwant = U.value_for(sch, tdecl, g)
                    add(klass + '-skip', b'{' + kt + b'1,"' + g['name'].encode() + b'":' + gv + b'}', 1, ('OK', gwant), 1 + off, mode, None)
                else:
                    add(klass + '-skip', b'{' + kt + rng.choice(SKIP_VALUES) + b'}', 1, ('OK', {}), 1 + off, mode, None)
        # ---- quoted keys that contain bytes no identifier has
        some = sorted(declared)
        if len(some) > 6: some = rng.sample(some, 6)
        for name in some:
            junks = [name + b' ', name + b'.', name + b':', b' ' + name, name + b'\xc3\xa9', name + b'\x7f', name + b'-', b'']
            junks += [name + bytes([c]) for c in range(0x20, 0x7f) if c not in U.IDCH and c not in (0x22, 0x5c)]
            junks += [name + bytes([c]) + b'x' for c in (0x27, 0x3a, 0x20, 0x2c, 0x7d)]
            for junk in junks:
                if junk in declared: continue
                kt, off = key_text(junk, 'q')
                add('quoted-junk', b'{' + kt + b'1}', 0, ('ERR', ERR_UNKNOWN), 1 + off, 'q', None)
            # unquoted name directly followed by a byte >= 0x80: symbol_end treats it as part of the (unknown) name
            if scalars:
                g = rng.choice(scalars); gv, _, gwant = U.value_for(sch, tdecl, g)
                junk = name + b'\xc3\xa9'
                add('unquoted-hibyte-skip', b'{' + junk + b':1,"' + g['name'].encode() + b'":' + gv + b'}', 1, ('OK', gwant), 1, 'u0', None)
        # ---- struct members reached through this table
        for f in tdecl['fields']:
            if 'deprecated' in f['attrs'] or f['vec']: continue
            k, sd = U.field_kind(sch, tdecl, f)
            if k != 'struct': continue
            sfn = T3.cname(sd) + '_parse_json_struct_inline'
            sdict = sch.dicts[sfn]
            sdecl = {n for n, _ in sdict['names']}
            members = [m for m in sd['fields'] if 'deprecated' not in m['attrs']]
            outer_k, outer_off = key_text(f['name'].encode(), 'q')

            def sadd(klass, sinner, flags, want, off_in_sinner, mode, wantkey):
                inner = b'{' + outer_k + sinner + b'}'
                add(klass, inner, flags, want, 1 + len(outer_k) + off_in_sinner, mode, wantkey, kind='struct', tfn=sfn)
            for m in members:
                mk = U.field_kind(sch, sd, m)[0]
                v = 2 if mk == 'float' else U.sentinel(m['offset'], m['size'])
                if mk == 'enum': v = 1
                for mode in ('q', 'u0', 'u1'):
                    kt, off = key_text(m['name'].encode(), mode)
                    chk = ('struct', sd['size'], m['offset'], m['size'], None if mk == 'float' else v)
                    sadd('struct-exact', b'{' + kt + str(v).encode() + b'}', 0, ('OK', {f['id']: chk}), 1 + off, mode, m['offset'])
                for x in U.near_misses(m['name'].encode(), rng, sdecl)[:per_name]:
                    mode = rng.choice(['q', 'u0', 'u1'])
                    kt, off = key_text(x, mode)
                    sadd('struct-nearmiss', b'{' + kt + b'1}', 0, ('ERR', ERR_UNKNOWN), 1 + off, mode, None)
                    sadd('struct-nearmiss-skip', b'{' + kt + b'1}', 1, ('OK', {f['id']: ('struct', sd['size'], 0, 0, 0)}), 1 + off, mode, None)


def resolve_symbol(sch, tdecl, f, text):
    """The property's qualification rules.  -> ('val', v) | ('err',)
    A symbol has no dot, so the text splits at its LAST dot into a type name and a symbol.  Permitted: the bare symbol of the
    field's own enum; Type.Symbol for an enum / union type of the owner table's namespace; Name.Space.Type.Symbol for any
    type; in each case only types visible to the file that declares the table.  Local scope takes precedence."""
    k, info = U.field_kind(sch, tdecl, f)
    def syms(d): return dict((s, v) for s, v in d['syms'])
    if '.' not in text:
        return ('val', syms(info)[text]) if k == 'enum' and text in syms(info) else ('err',)
    q, sym = text.rsplit('.', 1)
    vis = sch.visible_enums(tdecl)        # what the file declaring the table can see (itself and its includes)
    for d in vis:
        if d['ns'] == tdecl['ns'] and d['name'] == q and sym in syms(d): return ('val', syms(d)[sym])
    for d in vis:
        if '.'.join(d['ns'] + [d['name']]) == q and sym in syms(d): return ('val', syms(d)[sym])
    return ('err',)


def enum_tests(ctx, sch, rng, budget, tests):
    paths = U.table_paths(sch)
    cands = []
    for fn, d in sorted(sch.dicts.items()):
        if d['kind'] != 'table' or T3.cname(d['decl']) not in paths: continue
        tdecl = d['decl']
        ints = [f for f in tdecl['fields'] if 'deprecated' not in f['attrs'] and not f['vec'] and U.field_kind(sch, tdecl, f)[0] == 'scalar' and f['type'] not in ('bool',)]
        ens = [f for f in tdecl['fields'] if 'deprecated' not in f['attrs'] and not f['vec'] and U.field_kind(sch, tdecl, f)[0] == 'enum']
        for f in ens + ints[:2]:
            cands.append((fn, tdecl, f))
    if not cands: return
    allsyms = []
    for e in sch.enums():
        for s, v in e['syms']:
            allsyms.append((e, s))
    forms = []
    for e, s in allsyms:
        q = '.'.join(e['ns'] + [e['name']])
        forms.append((s, 'bare')); forms.append((e['name'] + '.' + s, 'type')); forms.append((q + '.' + s, 'ns'))
        if e['ns']: forms.append(('.'.join(e['ns'][1:] + [e['name']]) + '.' + s, 'partial-ns'))
        decl = {x.encode() for x, _ in e['syms']}
        for x in U.near_misses(s.encode(), rng, decl)[:3]:
            forms.append((x.decode(), 'sym-nearmiss')); forms.append((e['name'] + '.' + x.decode(), 'type-sym-nearmiss'))
        for x in U.near_misses(e['name'].encode(), rng, set())[:2]:
            forms.append((x.decode() + '.' + s, 'type-nearmiss'))
    pairs = [(c, fm) for c in cands for fm in forms]
    if len(pairs) > budget: pairs = rng.sample(pairs, budget)
    # always: the namespace-qualified symbols of enums whose qualified name is also a namespace (or that live in such a one)
    qn = {id(e): '.'.join(e['ns'] + [e['name']]) for e in sch.enums()}
    amb = [e for e in sch.enums() if any(o != qn[id(e)] and (o.startswith(qn[id(e)] + '.') or qn[id(e)].startswith(o + '.')) for o in qn.values())]
    for e in amb:
        vis_c = [c for c in cands if e in sch.visible_enums(c[1])]
        if vis_c:
            for sname, _ in e['syms'][:3]: pairs.append((vis_c[0], (qn[id(e)] + '.' + sname, 'ns')))
    for (fn, tdecl, f), (text, form) in pairs:
        hops = paths[T3.cname(tdecl)]
        k, info = U.field_kind(sch, tdecl, f)
        base = info['base'] if k == 'enum' else f['type']
        size = T3.SCALARS[base]
        r = resolve_symbol(sch, tdecl, f, text)
        if r[0] == 'val':
            lo, hi = U.INT_RANGE[base]
            want = ('OK', {f['id']: ('le', size, r[1])}) if lo <= r[1] <= hi else ('ERR', None)
            neg = r[1] < 0
        else:
            want, neg = ('ERR', None), False
        vmodes = ('q', 'u}', 'u,', 'u ') if rng.random() < 0.5 else ('q', rng.choice(['u}', 'u,', 'u ']))
        if rng.random() < 0.6: vmodes += (rng.choice(['uw}', 'uw,', 'qw']),)
        for vmode in vmodes:
            kt = b'"' + f['name'].encode() + b'":'
            if vmode in ('uw}', 'uw,', 'qw'):
                # whitespace (tab, CR, LF, CRLF, several ...) around the colon, before the symbol and between symbol and separator
                kt = b'"' + f['name'].encode() + b'"' + ws(rng) + b':' + ws(rng)
                after = ws(rng, empty_ok=False)
                if vmode == 'qw': inner = b'{' + kt + b'"' + text.encode() + b'"' + after + b'}'; voff = 1 + len(kt) + 1
                elif vmode == 'uw}': inner = b'{' + kt + text.encode() + after + b'}'; voff = 1 + len(kt)
                else: inner = b'{' + kt + text.encode() + after + b',' + ws(rng) + b'"' + f['name'].encode() + b'_zz_unknown":1}'; voff = 1 + len(kt)
            elif vmode == 'q': inner = b'{' + kt + b'"' + text.encode() + b'"}'; voff = 1 + len(kt) + 1
            elif vmode == 'u}': inner = b'{' + kt + text.encode() + b'}'; voff = 1 + len(kt)
            elif vmode == 'u ': inner = b'{' + kt + text.encode() + b' }'; voff = 1 + len(kt)
            else:
                w2 = dict(want[1]) if want[0] == 'OK' else None
                inner = b'{' + kt + text.encode() + b',"' + f['name'].encode() + b'_zz_unknown":1}'; voff = 1 + len(kt)
                # the second key is unknown: run with skip_unknown
            tests.append({'klass': 'enum-' + form + ('-neg' if neg else ''), 'sch': sch, 'flags': 2 | (1 if vmode in ('u,', 'uw,') else 0), 'path': U.path_ids(hops),
                          'json': U.wrap(hops, inner), 'want': want, 'mode': vmode, 'fn': fn, 'inner': inner, 'key_off': voff,
                          'wantkey': None, 'enum': (tdecl, f), 'note': text})


def empty_table_tests(ctx, sch, rng, tests):
    """Tables without a declared non-deprecated name, reached as table field, vector element or union member: whatever member
    they are given is unknown - an error by default, skipped (scalar, string, object or array value) with skip_unknown."""
    paths = U.table_paths(sch)
    empties = {T3.cname(d['decl']) for d in sch.dicts.values() if d['kind'] == 'table' and not d['names']}
    if not empties: return
    for fn, d in sorted(sch.dicts.items()):
        if d['kind'] != 'table' or T3.cname(d['decl']) not in paths: continue
        tdecl, hops = d['decl'], paths[T3.cname(d['decl'])]
        for f in tdecl['fields']:
            if 'deprecated' in f['attrs']: continue
            k, info = U.field_kind(sch, tdecl, f)
            name = f['name'].encode()
            shapes = []     # (prefix, suffix, expected present ids)
            if k == 'table' and T3.cname(info) in empties:
                if f['vec']: shapes.append((b'{"' + name + b'":[{},', b',{}]}', {f['id']}))
                else: shapes.append((b'{"' + name + b'":', b'}', {f['id']}))
            elif k == 'union':
                for sym, _ in info['syms']:
                    m = T3.resolve(sch.schema, info['ns'], sym) if sym != 'NONE' else None
                    if m and m['kind'] == 'table' and T3.cname(m) in empties:
                        if f['vec']: shapes.append((b'{"' + name + b'_type":["' + sym.encode() + b'"],"' + name + b'":[', b']}', {f['id'], f['id'] - 1}))
                        else: shapes.append((b'{"' + name + b'_type":"' + sym.encode() + b'","' + name + b'":', b'}', {f['id'], f['id'] - 1}))
            for pre, suf, ids in shapes:
                for _ in range(6):
                    key = U.rand_ident(rng, rng.choice([1, 3, 7, 8, 9, 16, 17]))
                    mode = rng.choice(['q', 'u0', 'u1'])
                    kt, off = key_text(key, mode)
                    val = rng.choice(SKIP_VALUES)
                    more = rng.choice([b'', b',"second":' + rng.choice(SKIP_VALUES), b',third:[]'])
                    inner = pre + b'{' + ws(rng) + kt + val + more + ws(rng) + b'}' + suf
                    for flags, want in ((1, ('OK', {i: ('present',) for i in ids})), (0, ('ERR', ERR_UNKNOWN))):
                        tests.append({'klass': 'empty-table', 'sch': sch, 'flags': flags, 'path': U.path_ids(hops), 'json': U.wrap(hops, inner), 'want': want,
                                      'mode': mode, 'fn': fn, 'inner': inner, 'key_off': 0, 'wantkey': None, 'note': '', 'nomodel': True})


def enum_ws_tests(ctx, sch, rng, budget, tests):
    """Union `_type` fields and enum vectors: symbols bare / Type. / Ns.Type., quoted and unquoted, with every kind of
    whitespace between the symbol and the following `,` `]` `}` (and before it)."""
    paths = U.table_paths(sch)
    made = 0
    for fn, d in sorted(sch.dicts.items()):
        if d['kind'] != 'table' or T3.cname(d['decl']) not in paths: continue
        tdecl, hops = d['decl'], paths[T3.cname(d['decl'])]
        for f in tdecl['fields']:
            if 'deprecated' in f['attrs'] or made >= budget: continue
            k, info = U.field_kind(sch, tdecl, f)
            if k not in ('union', 'enum') or (k == 'enum' and not f['vec']): continue
            q = '.'.join(info['ns'] + [info['name']])
            def spell(sym):
                opts = [sym, q + '.' + sym]
                if info['ns'] == tdecl['ns']: opts.append(info['name'] + '.' + sym)
                return rng.choice(opts).encode()
            for quoted in (False, False, True):
                qt = b'"' if quoted else b''
                name = f['name'].encode()
                if k == 'union' and not f['vec']:
                    m = [s for s, _ in info['syms'] if s != 'NONE'][0]
                    md = T3.resolve(sch.schema, info['ns'], m)
                    val = b'{}' if md and md['kind'] in ('table', 'struct') else b'"u"'
                    inner = (b'{' + ws(rng) + b'"' + name + b'_type"' + ws(rng) + b':' + ws(rng) + qt + spell(m) + qt + ws(rng, quoted) + b',' + ws(rng)
                             + b'"' + name + b'":' + val + ws(rng) + b'}')
                    want = ('OK', {f['id']: ('present',), f['id'] - 1: ('present',)})
                    klass = 'enum-ws-union-type'
                elif k == 'union':
                    m = [s for s, _ in info['syms'] if s != 'NONE'][0]
                    inner = (b'{"' + name + b'_type":[' + ws(rng) + qt + spell(m) + qt + ws(rng, quoted) + b',' + ws(rng) + qt + spell(m) + qt + ws(rng, quoted) + b']'
                             + ws(rng) + b',"' + name + b'":[{},{}]}')
                    md = T3.resolve(sch.schema, info['ns'], m)
                    if not (md and md['kind'] == 'table'): continue
                    want = ('OK', {f['id']: ('present',), f['id'] - 1: ('present',)})
                    klass = 'enum-ws-union-type-vector'
                else:
                    els = [s for s, _ in rng.sample(info['syms'], min(len(info['syms']), rng.choice([1, 2, 3])))]
                    inner = b'{"' + name + b'":[' + b','.join(ws(rng) + qt + spell(e) + qt + ws(rng, quoted) for e in els) + b']' + ws(rng) + b'}'
                    want = ('OK', {f['id']: ('present',)})
                    klass = 'enum-ws-vector'
                tests.append({'klass': klass, 'sch': sch, 'flags': 0, 'path': U.path_ids(hops), 'json': U.wrap(hops, inner), 'want': want,
                              'mode': 'qw' if quoted else 'uw', 'fn': fn, 'inner': inner, 'key_off': 0, 'wantkey': None, 'enum': (tdecl, f),
                              'note': inner.decode('latin-1'), 'nomodel': True})
                made += 1


def enum_list_tests(ctx, sch, rng, budget, tests):
    """Quoted multi-symbol lists ("A Type.B Ns.Type.C"): every symbol in every permitted qualification and every order of
    qualification; the value is the sum (= OR for distinct flags) of the members."""
    paths = U.table_paths(sch)
    cands = []
    for fn, d in sorted(sch.dicts.items()):
        if d['kind'] != 'table' or T3.cname(d['decl']) not in paths: continue
        tdecl = d['decl']
        for f in tdecl['fields']:
            if 'deprecated' in f['attrs'] or f['vec']: continue
            k = U.field_kind(sch, tdecl, f)[0]
            if k == 'enum' or (k == 'scalar' and f['type'] not in ('bool',)): cands.append((fn, tdecl, f))
    enums = [e for e in sch.enums() if len(e['syms']) >= 2]
    if not cands or not enums: return
    made = 0
    guard = 0
    while made < budget and guard < budget * 20:
        guard += 1
        fn, tdecl, f = rng.choice(cands)
        k, info = U.field_kind(sch, tdecl, f)
        n = rng.choice([2, 2, 2, 3, 3, 4])
        parts, forms = [], []
        for i in range(n):
            e = info if (k == 'enum' and rng.random() < 0.6) else rng.choice(enums)
            sym = rng.choice(e['syms'])[0]
            opts = ['ns']
            if e['ns'] == tdecl['ns']: opts.append('type')
            if k == 'enum' and e is info: opts += ['bare', 'bare']
            if rng.random() < 0.07: opts = ['bare', 'type', 'ns']      # possibly not permitted here: expected error
            form = rng.choice(opts)
            txt = {'bare': sym, 'type': e['name'] + '.' + sym, 'ns': '.'.join(e['ns'] + [e['name'], sym])}[form]
            if rng.random() < 0.05: txt = txt[:-1] + ('x' if txt[-1] != 'x' else 'y')
            parts.append(txt); forms.append(form)
        if len(set(parts)) != len(parts): continue
        rs = [resolve_symbol(sch, tdecl, f, p) for p in parts]
        base = info['base'] if k == 'enum' else f['type']
        size = T3.SCALARS[base]; lo, hi = U.INT_RANGE[base]
        # keep the running sum of the symbols that resolve inside the field's type (the runtime adds as it goes; an
        # overflowing or repeated member is outside this property)
        pv = [r[1] for r in rs if r[0] == 'val']
        if len(set(pv)) != len(pv) or any(not (lo <= sum(pv[:i + 1]) <= hi) or not (lo <= pv[i] <= hi) for i in range(len(pv))): continue
        if all(r[0] == 'val' for r in rs):
            vals = [r[1] for r in rs]
            if len(set(vals)) != len(vals): continue
            total = sum(vals)
            if not (lo <= total <= hi) or any(not (lo <= v <= hi) for v in vals): continue
            want = ('OK', {f['id']: ('le', size, total)})
        else:
            want = ('ERR', None)
        sep = rng.choice([' ', ' ', ' ', '  '])
        text = sep.join(parts)
        if rng.random() < 0.1: text = ' ' + text + ' '
        kt = b'"' + f['name'].encode() + b'":'
        inner = b'{' + kt + b'"' + text.encode() + b'"}'
        hops = paths[T3.cname(tdecl)]
        tests.append({'klass': 'enum-list-' + '-'.join(forms), 'sch': sch, 'flags': 2, 'path': U.path_ids(hops), 'json': U.wrap(hops, inner), 'want': want,
                      'mode': 'q', 'fn': fn, 'inner': inner, 'key_off': 1 + len(kt) + 1, 'wantkey': None, 'enum': (tdecl, f), 'note': text, 'nomodel': True})
        made += 1


def model_input(t):
    """the bytes from the first name byte to the end of the JSON text (what lies between buf and end)"""
    js, inner = t['json'], t['inner']
    start = js.index(inner) if inner else 0
    return js[start + t['key_off']:]


def run(ctx):
    rng = ctx.rng
    if ctx.replay_in:
        return replay(ctx)
    # ------------------------------------------------------------------ static tier
    corpus = []
    for p in sorted(glob.glob(os.path.join(lib.ROOT, 'gen', 'c10_schemas', '*.fbs'))):
        corpus.append(U.Sch(os.path.basename(p)[:-4], open(p).read(), 'corpus'))
    for d in sorted(glob.glob(os.path.join(lib.ROOT, 'gen', 'c10_schemas', 'multi', '*'))):
        base = os.path.basename(d)
        files = {os.path.basename(p)[:-4]: open(p).read() for p in sorted(glob.glob(os.path.join(d, '*.fbs')))}
        corpus.append(U.Sch(base, T3.join_bundle(files, base), 'corpus'))
    for s in corpus: prepare(ctx, s)
    bad = [s for s in corpus if s.terr]
    if bad:
        for s in bad:
            ctx.log('translator rejected corpus schema %s: %s' % (s.base, s.terr))
        ctx.notes.append('translator errors: ' + '; '.join('%s: %s' % (s.base, s.terr[:300]) for s in bad))
    static_ok = False
    if not bad:
        changed = ctx.write_generated('Generated/Tries_C10.v', T3.emit_coq([(s.base, s.entries) for s in corpus]))
        if changed: ctx.log('Generated/Tries_C10.v changed: the per-trie theorems are re-checked')
        static_ok = U.check_theorems(ctx)
        ctx.log('theorems: %d/%d discharged' % (ctx.discharged, ctx.obligations))
    else:
        ctx.obligations += len(ctx.theorem_names('Properties_C10.v'))

    # ------------------------------------------------------------------ dynamic tier: schemas
    dyn = []
    for p in sorted(glob.glob(os.path.join(lib.ROOT, 'gen', 'c10_schemas', 'dyn', '*.fbs'))):
        dyn.append(U.Sch(os.path.basename(p)[:-4], open(p).read(), 'dyn'))
    nrand = 96 if ctx.thorough else 6
    for i in range(nrand):
        txt = U.random_schema(rng, i)
        dyn.append(U.Sch('rnd%d' % i, txt, 'random'))
    usable = []
    for s in dyn:
        if not prepare(ctx, s):
            # a schema of identifier fields that flatcc rejects would be a generator slip, not a property matter
            ctx.notes.append('schema %s not accepted by flatcc: %s' % (s.base, s.terr[:200])); continue
        usable.append(s)
    allsch = [s for s in corpus + usable if os.path.exists(os.path.join(s.gdir, s.base + '_json_parser.h'))]
    allsch = build_harnesses(ctx, allsch)

    # ------------------------------------------------------------------ extracted certified checker on every trie
    lines, meta = [], []
    for s in allsch:
        if s.entries is None: continue
        for k, e in enumerate(s.entries):
            if e['trie'] is None: continue
            e['tid'] = '%s.%d' % (s.base, k)
            lines.append('def %s %s %s' % (e['tid'], T3.names_text(e['names']), T3.sexp(e['trie']))); meta.append(None)
            for m in MODES_OF[e['kind']]:
                lines.append('check %s %s' % (m, e['tid'])); meta.append((s, e, m))
    res = ctx.run_model('trie', lines) if lines else []
    rejected = []
    for (mt, r) in zip(meta, res):
        if mt is None:
            if r != 'ok': raise lib.CheckError('modelrun_trie def failed: ' + r)
            continue
        s, e, m = mt
        ctx.count('check %s %s %s' % (s.base, e['fn'], m), klass='extracted-checker:' + s.origin)
        if r != '1': rejected.append((s, e, m))
    diag = {}
    if rejected:
        dl = []
        for s, e, m in rejected:
            dl.append('def %s %s %s' % (e['tid'], T3.names_text(e['names']), T3.sexp(e['trie']))); dl.append('diag %s %s' % (m, e['tid']))
        dr = ctx.run_model('trie', dl)
        for i, (s, e, m) in enumerate(rejected):
            diag[(s.base, e['fn'], m)] = dr[2 * i + 1]
            ctx.log('extracted checker rejects %s %s mode %s: %s' % (s.base, e['fn'], m, dr[2 * i + 1][:200]))

    # ------------------------------------------------------------------ tests
    tests = []
    per_name = 60 if ctx.thorough else 7
    for s in allsch:
        field_tests(ctx, s, rng, per_name if s.origin != 'corpus' or ctx.thorough else 4, tests)
        empty_table_tests(ctx, s, rng, tests)
        enum_tests(ctx, s, rng, 3000 if ctx.thorough else 220, tests)
        enum_list_tests(ctx, s, rng, 1500 if ctx.thorough else 150, tests)
        for _ in range(6 if ctx.thorough else 1): enum_ws_tests(ctx, s, rng, 400 if ctx.thorough else 60, tests)
    ctx.log('%d schemas, %d cases' % (len(allsch), len(tests)))

    # implementation
    by_sch = {}
    for t in tests: by_sch.setdefault(t['sch'].base, []).append(t)
    for base, ts in by_sch.items():
        H = lib.Harness(ts[0]['sch'].exe)
        reps = run_capped(H, ['%d %s %s' % (t['flags'], t['path'], hx(t['json'])) for t in ts])
        for t, r in zip(ts, reps): t['impl_raw'] = r; t['impl'] = U.parse_reply(r)

    # model (extracted TrieEval on the translated AST)
    model_stage(ctx, allsch, tests)

    # ------------------------------------------------------------------ compare
    nviol = 0
    failing_schemas = set()
    # how the other spellings of the same name fared (used to recognise the understood unquoted-terminator defect)
    sib = {}
    for t in tests:
        if t['want'][0] == 'OK' and t['impl'][0] in ('OK', 'ERR'):
            ok = t['impl'][0] == 'OK'
            sib.setdefault(sibkey(t), {}).setdefault(t['mode'], []).append(ok)
    for t in tests: t['sib'] = sib.get(sibkey(t), {})
    generic = set()
    for t in tests:
        ctx.count(t['sch'].base + ' ' + hx(t['json']) + ' %d' % t['flags'], klass=t['klass'] + ':' + t['mode'])
        verdict = judge(t)
        if verdict is None: continue
        nviol += 1
        failing_schemas.add((t['sch'].base, 'enum' if 'enum' in t else t['fn']))
        kind, key, what = verdict
        if key.startswith('dispatch:') or key.startswith('crash:'):
            generic.add(key)
            if len(generic) > 12: continue      # enough distinct failing input classes are on record
        replay_d = {'schema_name': t['sch'].base, 'schema_origin': t['sch'].origin, 'schema_fbs': t['sch'].text, 'json': t['json'].decode('latin-1'),
                    'json_hex': hx(t['json']), 'flags': t['flags'], 'path': t['path'], 'expected': repr(t['want']), 'impl': t['impl_raw'],
                    'model': t.get('model'), 'parser_function': t['fn'], 'class': t['klass'], 'mode': t['mode']}
        if key not in {v['key'] for v in ctx.violations}: ctx.log('failing input [%s]: %s' % (key, what[:200]))
        ctx.violation(key, what, replay_d)
    for t in tests[:3] + tests[len(tests) // 2:len(tests) // 2 + 2]:
        ctx.sample({'schema': t['sch'].base, 'json': t['json'].decode('latin-1'), 'flags': t['flags'], 'expected': repr(t['want'])[:80], 'impl': t['impl_raw'][:80], 'model': t.get('model')})

    # checker rejections without a concrete failing input
    fired_fns = failing_schemas
    for (s, e, m) in rejected:
        if e.get('unlayered'):
            # one trie over names of which one is a dotted prefix of another: `lookup` is ambiguous there and the checker
            # never certifies it; whether some permitted spelling is rejected is decided by the targeted inputs above
            ctx.notes.append('global scope trie of %s holds a qualified enum name that is also a namespace: not certifiable, tested only' % s.base)
            continue
        if (s.base, e['fn'] if e['kind'] in ('table', 'struct') else 'enum') not in fired_fns:
            ctx.broken_obligation('extracted-check:%s:%s:%s' % (s.origin, e['kind'], m),
                                  {'schema': s.base, 'function': e['fn'], 'mode': m, 'diag': diag.get((s.base, e['fn'], m)), 'schema_fbs': s.text})
    for s in corpus + usable:
        if s.terr and s.entries is None and not any(b == s.base for b, _ in fired_fns):
            ctx.broken_obligation('translate:%s' % s.origin, {'schema': s.base, 'error': s.terr, 'schema_fbs': s.text})
    if not bad and not static_ok:
        # the kernel check failed: the dynamic tier above looked for the concrete failing input
        if not any(v['kind'] == 'property-violation' for v in ctx.violations):
            ctx.broken_obligation('Properties_C10.vo', getattr(ctx, 'broken', {}))
        else:
            ctx.notes.append('Properties_C10.vo no longer checks: ' + json.dumps(getattr(ctx, 'broken', {}))[:1500])

    ctx.trusted = lib.DEFAULT_TRUSTED + [
        'translators/trie_h_to_coq.py (T3: generated parser text -> TrieAst terms; .fbs subset parser -> expected name tables); validated on every run by comparing the extracted evaluator on the translated terms with the compiled parser',
        'the random-schema tier uses the extracted OCaml checker (certified by check_sound, result not re-checked by the kernel)']
    ctx.assumptions = ['schema identifiers are [A-Za-z_][A-Za-z0-9_]* (flatcc lexer)', 'handlers run to completion and fall out of the if-else chain (no goto into the trie)',
                       'window function of the model is the zero-extending one; the pinned code sign-extends in symbol_part_ext (reported defect)',
                       'little-endian host with FLATCC_ALLOW_UNALIGNED_ACCESS']
    ctx.finish_args = dict(
        rule='static: %d tries of %d corpus schemas kernel-checked for all inputs; dynamic: corpus + dyn + %d random name-set schemas '
             '(chains, siblings below 8/16-byte prefixes, last-byte-of-window differences, digit suffixes), every declared name x {quoted, unquoted+colon, unquoted+space}, '
             'near misses (truncated/extended/one byte changed at window edges/_type neighbours), unknown names with and without skip_unknown, struct members, '
             'enum symbols bare/type-/namespace-qualified x {quoted, unquoted before } , space}. distinct = distinct (schema, text, flags)' % (
                 sum(1 for s in corpus if s.entries for e in s.entries if e['trie']), len(corpus), nrand),
        explanation='kernel: check = true for every corpus trie (Properties_C10); extracted checker verdict for every trie of every schema; '
                    'compiled parser vs python oracle of the property vs extracted evaluator on the translated AST',
        extra_cov={'extracted_checker_rejections': ['%s %s %s' % (s.base, e['fn'], m) for s, e, m in rejected][:40]})


def model_stage(ctx, allsch, tests):
    """Adds t['model'] = 'M <key>' | 'U' | 'S' | 'E <v>' | 'EERR' using the extracted evaluator on the translated tries."""
    defs, seen = [], set()
    tries = {}
    for s in allsch:
        if s.entries is None: continue
        for e in s.entries:
            if e['trie'] is None: tries[(s.base, e['fn'])] = None; continue
            tries[(s.base, e['fn'])] = e
            defs.append('def %s %s %s' % (e['tid'], T3.names_text(e['names']), T3.sexp(e['trie'])))

    def ask(queries):
        """queries: list of (mode, entry, bytes) -> replies ('U' when the dictionary is empty)"""
        lines = list(defs); idx = []
        for q in queries:
            mode, e, data = q
            if e is None: idx.append(None); continue
            idx.append(len(lines)); lines.append('eval %s %s %s' % (mode, e['tid'], hx(data)))
        res = ctx.run_model('trie', lines)
        return ['U' if i is None else res[i] for i in idx]

    ft = [t for t in tests if 'enum' not in t and (t['sch'].base, t['fn']) in tries and not t.get('nomodel')]
    rs = ask([('symq' if t['mode'] == 'q' else 'symu', tries[(t['sch'].base, t['fn'])], model_input(t)) for t in ft])
    for t, r in zip(ft, rs): t['model'] = r
    # enum value chain: enum parser of the field's own enum, then local scope, then global scope
    et = [t for t in tests if 'enum' in t and t['sch'].entries is not None and not t.get('nomodel')]
    state = {}
    def cm(t): return 'constq' if t['mode'] in ('q', 'qw') else 'constu'
    q1 = []
    for t in et:
        sch, (tdecl, f) = t['sch'], t['enum']
        k, info = U.field_kind(sch, tdecl, f)
        e1 = tries.get((sch.base, T3.cname(info) + '_parse_json_enum')) if k == 'enum' else None
        q1.append((cm(t), e1, model_input(t)))
    r1 = ask(q1)
    q2 = []
    for t, r in zip(et, r1):
        sch, (tdecl, f) = t['sch'], t['enum']
        if r.startswith('M '): t['model'] = 'E ' + r[2:]
        loc = tries.get((sch.base, '%s_local_%sjson_parser_enum' % (tdecl['file'], ''.join(x + '_' for x in tdecl['ns']))))
        q2.append(('scope', loc, model_input(t)))
    r2 = ask(q2)

    def follow(t, r, e_scope):
        """scope trie matched key idx: the enum trie of that type on the input after '<name>.'"""
        idx = int(r[2:])
        nm = [n for n, k in e_scope['names'] if k == idx][0]
        return (cm(t), tries.get((t['sch'].base, t['sch'].cnames[idx] + '_parse_json_enum')), model_input(t)[len(nm) + 1:])
    q3, who3 = [], []
    for t, r in zip(et, r2):
        if 'model' in t: continue
        if r.startswith('M '):
            sch, (tdecl, f) = t['sch'], t['enum']
            loc = tries[(sch.base, '%s_local_%sjson_parser_enum' % (tdecl['file'], ''.join(x + '_' for x in tdecl['ns'])))]
            q3.append(follow(t, r, loc)); who3.append(t)
    for t, r in zip(who3, ask(q3)):
        t['model'] = ('E ' + r[2:]) if r.startswith('M ') else 'EERR'
    # global scope: one trie, or (when a qualified enum name is also a namespace) several layers tried in order
    pending = [t for t in et if 'model' not in t]
    layer = 0
    while pending:
        q4, who4, nxt = [], [], []
        for t in pending:
            g = t['enum'][0]['file'] + '_global_json_parser_enum'
            ent = next((e for e in (t['sch'].entries or []) if e['fn'] == g), None)
            nl = ent.get('layers') if ent else None
            if nl:
                if layer >= nl: t['model'] = 'EERR'; continue
                e_scope = tries.get((t['sch'].base, '%s_layer%d' % (g, layer)))
            else:
                if layer >= 1: t['model'] = 'EERR'; continue
                e_scope = tries.get((t['sch'].base, g))
            t['_gscope'] = e_scope
            q4.append(('scope', e_scope, model_input(t))); who4.append(t)
        r4 = ask(q4)
        q5, who5 = [], []
        for t, r in zip(who4, r4):
            if r.startswith('M '):
                q5.append(follow(t, r, t['_gscope'])); who5.append(t)
            else: nxt.append(t)
        for t, r in zip(who5, ask(q5)):
            if r.startswith('M '): t['model'] = 'E ' + r[2:]
            else: nxt.append(t)
        pending = nxt
        layer += 1


def judge(t):
    """-> None when implementation, oracle and model agree; else (kind, key, what)"""
    want, impl, model = t['want'], t['impl'], t.get('model')
    txt = t['json'].decode('latin-1')
    where = 'schema %s (%s), %s, flags=%d, text %s' % (t['sch'].base, t['sch'].origin, t['fn'], t['flags'], txt[:160])
    if impl[0] == 'OTHER':
        if impl[1] == 'SKIPPED': return None
        if impl[1].startswith('CRASH'):
            return ('property-violation', 'crash:%s' % t['klass'], 'sanitizer report / crash in the generated parser: %s | %s' % (impl[1][:300], where))
        return ('property-violation', 'harness:%s' % impl[1].split()[0], 'unexpected harness reply %s | %s' % (impl[1][:100], where))
    # ---- oracle vs implementation
    prob = None
    if want[0] == 'OK':
        if impl[0] != 'OK':
            prob = ('declared->error%d' % impl[1], 'declared name rejected with error %d' % impl[1])
        else:
            got = dict(impl[1])
            w = {}
            for fid, c in want[1].items():
                if c[0] == 'struct':
                    _, ssize, off, size, v = c
                    b = got.get(fid)
                    if b is None: prob = ('declared->absent', 'struct field %d absent' % fid); break
                    b = b[:ssize]
                    exp = bytearray(ssize)
                    if size and v is not None: exp[off:off + size] = (v % (1 << (8 * size))).to_bytes(size, 'little')
                    if v is None:
                        ok = any(b[off:off + size]) and not any(b[:off]) and not any(b[off + size:])
                    else:
                        ok = bytes(b) == bytes(exp)
                    if not ok: prob = ('declared->wrong-member', 'struct bytes %s, expected member at offset %d (size %d) = %s and zero elsewhere' % (b.hex(), off, size, v))
                    w[fid] = ('present',)
                else: w[fid] = c
            if prob is None:
                d = U.check_present(got, w)
                if d: prob = ('declared->wrong-field', d)
    else:
        if impl[0] == 'OK':
            prob = ('unknown->accepted', 'a name that is not declared was accepted; fields set: %s' % sorted(impl[1]))
        elif want[1] is not None and impl[1] != want[1]:
            prob = ('unknown->error%d' % impl[1], 'unknown name gave error %d instead of unknown_symbol (%d)' % (impl[1], want[1]))
    if prob:
        return ('property-violation', signature(t, prob[0]), '%s | %s' % (prob[1], where))
    # ---- model vs implementation (translator / model validation); only reached when the implementation satisfies the oracle
    if model is None: return None
    if 'enum' in t:
        if want[0] == 'OK':
            fid, c = list(want[1].items())[0]
            ok = model == 'E %d' % c[2]
        else:
            ok = True if model == 'EERR' else (model.startswith('E ') and want[1] is None)   # out-of-range values are rejected by the coercion, not by the tries
        if not ok: return ('property-violation', 'corr:enum-model', 'extracted evaluator on the translated tries gives %s, compiled parser %s | %s' % (model, t['impl_raw'][:80], where))
        return None
    if t['wantkey'] is not None:
        if model != 'M %d' % t['wantkey']:
            return ('property-violation', 'corr:field-model', 'extracted evaluator gives %s, compiled parser dispatches to key %d | %s' % (model, t['wantkey'], where))
    else:
        if model != 'U':
            return ('property-violation', 'corr:field-model', 'extracted evaluator gives %s, compiled parser treats the name as unknown | %s' % (model, where))
    return None


def sibkey(t):
    return (t['sch'].base, t['fn'], t['klass'], t['note'] if 'enum' in t else t['wantkey'], t['flags'], t['path'], id(t.get('enum', (None, None))[1]))


def signature(t, prob):
    """Stable key of the failing input class.  Inputs that fail for a reason already understood get the key of that defect
    (see design.d/C10.md, findings); everything else is keyed by generator class, key spelling and kind of failure."""
    want, impl, model = t['want'], t['impl'], t.get('model')
    is_enum = 'enum' in t
    if t['klass'] == 'hibyte-tail' and want[0] == 'OK' and impl == ('ERR', ERR_UNKNOWN): return 'symbol-part-ext-sign-extension'
    if t['klass'] == 'unquoted-hibyte-skip': return 'unquoted-name-followed-by-high-byte'
    if is_enum and '-neg' in t['klass'] and want[0] == 'OK' and impl[0] == 'ERR': return 'negative-enum-symbol-rejected'
    if is_enum and want[0] == 'ERR' and impl[0] == 'OK' and '.' in t['note']: return 'qualified-unknown-symbol-accepted'
    if is_enum and want[0] == 'OK' and impl[0] == 'ERR':
        # a member's qualified type name is the namespace of another enum, or lives in a namespace that is also an enum's name
        qs = ['.'.join(d['ns'] + [d['name']]) for d in t['sch'].visible_enums(t['enum'][0])]
        for part in t['note'].split():
            if part.count('.') >= 2:
                q = part.rsplit('.', 1)[0]
                if any(o.startswith(q + '.') or q.startswith(o + '.') for o in qs): return 'enum-name-is-also-a-namespace'
    if want[0] == 'OK' and impl[0] == 'ERR' and t['mode'] in ('u0', 'u}'):
        # the translated trie itself (zero-extending window, the runtime's terminator test) already misroutes this input,
        # and only in the spelling where the terminator byte follows the name directly (quoted / space-terminated pass)
        others = [ok for m, oks in t['sib'].items() if m not in ('u0', 'u}') for ok in oks]
        if others and all(others):
            if not is_enum and model == 'U' and impl[1] == ERR_UNKNOWN: return 'unquoted-terminator-misroutes:field'
            if is_enum and model == 'EERR': return 'unquoted-terminator-misroutes:enum'
    return 'dispatch:%s:%s:%s' % (t['klass'], t['mode'], prob)


def replay(ctx):
    d = json.load(open(ctx.replay_in))
    if 'schema_fbs' not in d or 'json_hex' not in d:
        ctx.log('replay file has no concrete input (%s)' % d.get('kind')); return
    s = U.Sch(d.get('schema_name', 'replay'), d['schema_fbs'], 'replay')
    if not prepare(ctx, s): raise lib.CheckError('flatcc rejects the replay schema: ' + str(s.terr))
    if not build_harnesses(ctx, [s]): return
    rc, res, err = lib.Harness(s.exe).run(['%d %s %s' % (d['flags'], d['path'], d['json_hex'])])
    got = res[0] if res else 'CRASH ' + err[:300]
    ctx.count(d['json_hex'], klass='replay')
    ctx.log('replay: expected %s, implementation now says %s' % (d.get('expected'), got))
    if got == d.get('impl'):
        ctx.violation(d['key'], d['what'], {k: d[k] for k in d if k not in ('property', 'kind', 'key', 'what', 'seed', 'tier', 'how_to_replay')})
    ctx.finish_args = dict(rule='replay of one recorded input', explanation='the recorded input is re-run against the current tree; the violation is reported again when the reply is unchanged')
