"""C03 (reader half): differential tie of the generated-reader VALUE model (coq/Verifier/ReaderValue.v, extracted to
build/modelrun_readervalue, driver ocaml/readervalue/driver.ml) to the reader flatcc generates from /repo's current sources.

    reader_value_check(ctx, items)      items: dicts  schema (builder_util.Schema), root (name), ws (0|1), depth, raw (bytes),
                                                dump (reply of harness/buf_check.c `dump ...` = the REAL generated reader, or None),
                                                dec (expected Spec.decode rendering, builder_util.render_dec, or None), base (replay dict)
    items_from_c03(dump_cases, dres)    builds the items from what checks/c03.py already has in hand

Per item, on the IMPLEMENTATION's bytes:
  1. `dump`:  the model's accessors called in the order glue.h calls the generated ones (scalars with is_present and value or schema
     default, _option for optional scalars, struct leaves, strings, vectors, unions, union vectors incl. NONE, nested as_root) must
     print exactly what the generated reader printed                                     -> corr:reader-value-model:<root kind>
  2. `agree`: extracted read_root = extracted Spec.decode_mem whenever the decoder accepts (C03_reader_agrees_with_decode, run; also on
     `mutations` byte-mutated copies of every buffer, where most are REJECTED and the rest must still agree) -> corr:reader-vs-decoder
  3. read_root's tree = the value that drove the build script (render_dec)              -> reader-value-differs:<root kind>

Selftest:  cd /verif && python3 -m checks.c03b_util [seed] [cases per schema]      (build output under build/C03b/)
"""
import os, sys
from . import lib
from . import builder_util as bu


def leaves_desc(s, t):
    return '/'.join('%d.%d' % l for l in s.struct_leaves(t)) or '-'


def extras(s):
    """what the schema descriptor of modelrun_builder does not carry: scalar defaults / optional flags, struct leaf layouts"""
    c = getattr(s, '_c03b_extras', None)
    if c is not None: return c
    ts = []
    for tn in s.tables:
        fs = []
        for f in s.live_fields(tn):
            k = s.kind(f.type)
            x = '-'
            if k == 'scalar': x = ('P' if f.optional else 'S') + s.default_bytes(f).hex()
            elif k == 'struct': x = 'L' + leaves_desc(s, f.type)
            elif k == 'vec' and f.nested:
                if f.nested in s.structs: x = 'L' + leaves_desc(s, f.nested)
            elif k == 'vec':
                e = f.type[1:-1]
                if e in s.structs: x = 'L' + leaves_desc(s, e)
            fs.append('%d,%s' % (f.id, x))
        ts.append(';'.join(fs) if fs else '-')
    us = []
    for u in s.unions.values():
        us.append(';'.join('%d,%s' % (code, leaves_desc(s, mt) if mt in s.structs else '-') for code, (_, mt) in enumerate(u.members, 1)))
    c = ('|'.join(ts) if ts else '-') + '#' + ('|'.join(us) if us else '-')
    s._c03b_extras = c
    return c


def lines_for(s, root, ws, depth, raw):
    hexs = raw.hex() if raw else '-'
    rl = leaves_desc(s, root) if root in s.structs else '-'
    return ('dump %s %s %s %s %d %s' % (s.descriptor(), extras(s), s.root_desc(root), rl, ws, hexs),
            'agree %s %s %d %d %s' % (s.descriptor(), s.root_desc(root), ws, depth, hexs))


def mutate(rng, raw):
    b = bytearray(raw)
    if not b: return bytes(b)
    for _ in range(rng.choice([1, 1, 2, 4])):
        i = rng.randrange(len(b))
        b[i] = rng.choice([0, 1, 4, 8, 0xff, 0x80, b[i] ^ (1 << rng.randrange(8)), (b[i] + 4) & 255, (b[i] - 4) & 255])
    return bytes(b)


def items_from_c03(dump_cases, dres):
    items = []
    for c, d in zip(dump_cases, dres):
        s = c.schema
        items.append(dict(schema=s, root=c.root, ws=1 if c.opts['with_size'] else 0, depth=bu.value_depth(c.node) + 2, raw=c.himpl['raw'],
                          dump=d, dec=bu.render_dec(s, c.node),
                          base={'harness_line': c.h, 'schema': s.name, 'root': c.root, 'buffer_hex': c.himpl['raw'].hex()}))
    return items


def reader_value_check(ctx, items, mutations=2):
    """returns the number of disagreements (each also reported through ctx.violation)"""
    lines, owners = [], []
    for i, it in enumerate(items):
        s = it['schema']
        if any(f.id >= 65536 for tn in s.tables for f in s.live_fields(tn)):      # ids_ok (hypothesis of the theorems)
            ctx.violation('reader-value:ids-out-of-range', 'corpus schema with a field id outside voffset_t range', {'schema': s.name})
            continue
        d, a = lines_for(s, it['root'], it['ws'], it['depth'], it['raw'])
        lines += [d, a]; owners += [(i, 'dump'), (i, 'agree')]
        for k in range(mutations):
            lines.append(lines_for(s, it['root'], it['ws'], it['depth'], mutate(ctx.rng, it['raw']))[1]); owners.append((i, 'mut'))
    if not lines: return 0
    res = ctx.run_model('readervalue', lines)
    bad = 0
    for (i, what), line, r in zip(owners, lines, res):
        it = items[i]
        s = it['schema']
        kind = 'struct-root' if it['root'] in s.structs else 'table-root'
        base = dict(it.get('base') or {}, model_line=line[:4000])
        ctx.count(line, klass='reader-value-model:' + what)
        if what == 'mut' and r.startswith('EXC'):
            # a mutated count of 2^17.. elements: the extracted decoder / reader convert it to a unary nat (Stack overflow); inconclusive
            ctx.count(line, klass='reader-value-model:mut-inconclusive', nontrivial=False); continue
        if r.startswith('EXC') or r.startswith('BAD'):
            ctx.violation('reader-value:driver:' + what, 'modelrun_readervalue failed: ' + r[:200], base); bad += 1; continue
        if what == 'dump':
            d = it.get('dump')
            if d is None or d.startswith('CRASH'): continue
            if r != d:
                j = 0
                while j < min(len(r), len(d)) and r[j] == d[j]: j += 1
                ctx.violation('corr:reader-value-model:' + kind,
                              'the accessor model (ReaderValue.v) and the generated reader return different values on a builder-made buffer '
                              '(first difference at char %d: generated ...%s, model ...%s)' % (j, d[max(0, j - 30):j + 30], r[max(0, j - 30):j + 30]),
                              dict(base, generated=d[:3000], model=r[:3000])); bad += 1
        elif what == 'agree':
            if r.startswith('DIFFER'):
                ctx.violation('corr:reader-vs-decoder:' + kind, 'extracted read_root and Spec.decode disagree on an accepted buffer (contradicts '
                              'C03_reader_agrees_with_decode: extraction / driver problem): ' + r[:300], base); bad += 1
            elif r == 'REJECTED':
                # the independent decoder refuses a builder-made buffer: checks/c03.py reports it as decode-differs
                pass
            elif it.get('dec') is not None and r != 'AGREE ' + it['dec']:
                ctx.violation('reader-value-differs:' + kind, 'the tree assembled through the reader model is not the value that was written (%s)' % r[:80],
                              dict(base, expected=it['dec'][:3000], read=r[:3000])); bad += 1
        else:
            ctx.count(line, klass='reader-value-model:mut-' + ('accepted' if r.startswith('AGREE') else 'rejected' if r == 'REJECTED' else 'other'), nontrivial=False)
            if r.startswith('DIFFER'):
                ctx.violation('corr:reader-vs-decoder:mutated', 'extracted read_root and Spec.decode disagree on an accepted (mutated) buffer: ' + r[:300], base); bad += 1
    return bad


def selftest(seed=1, per=40):
    from .builder_engine import Engine
    ctx = lib.Ctx('C03b', 'quick', seed, 'other')
    E = Engine(ctx, with_gen_api=False)
    rng = ctx.rng
    cases = []
    for s in E.corpus:
        if s.name not in E.BC: continue
        for i in range(per):
            cases.append(E.make_case(rng, s, size=rng.choice([0.3, 1.0, 2.5])))
        for st in s.structs:
            cases.append(E.make_case(rng, s, root=st))
        for i in range(3):
            cases.append(E.make_case(rng, s, maxdepth=rng.choice([4, 5]), size=1.0, klass='deep'))
    E.run_builds(cases)
    dump_items, dump_cases = [], []
    for c in cases:
        if c.himpl is None: continue
        s = c.schema
        raw, align = c.himpl['raw'], c.himpl['align']
        ws = 1 if c.opts['with_size'] else 0
        ri = bu.roots_of(s).index(c.root)
        am = align if 0 < align < 256 else 0
        dump_items.append((s.name, 'dump %d %d %d %s' % (ri, ws, am, raw.hex() if raw else '-'))); dump_cases.append(c)
    dres = E.run_bc_all(dump_items)
    items = items_from_c03(dump_cases, dres)
    bad = reader_value_check(ctx, items)
    ncrash = sum(1 for d in dres if d is None or d.startswith('CRASH'))
    print('c03b selftest: seed %s, %d builds, %d dumped (%d crashed/none), %d model lines, %d disagreements, histogram %s'
          % (seed, len(cases), len(items), ncrash, ctx.cov['evaluations'], bad,
             {k: v for k, v in ctx.cov['generator_histogram'].items() if k.startswith('reader-value')}))
    for v in ctx.violations:
        print('VIOLATION', v['key'], v['what'][:400])
    if items:
        it = items[0]
        print('sample generated:', (it['dump'] or '')[:200])
    return 1 if (bad or ctx.violations) else 0


if __name__ == '__main__':
    sys.exit(selftest(int(sys.argv[1]) if len(sys.argv) > 1 else 1, int(sys.argv[2]) if len(sys.argv) > 2 else 40))
