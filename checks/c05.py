"""C05 - JSON print then parse preserves the buffer's content; strict output is JSON.

1. T1 (translators/json_probe.c) + re-check Properties_C05.vo (codec theorems over Json/Codecs.v + Json/Scanner.v).
2. Correspondence of the codec models with /repo (harness/json_rt.c, ASan recover mode): print_string, print_char_array,
   base64 printing, base64_encode/base64_decode (ret code, output, consumed length, on arbitrary text),
   flatcc_json_parser_build_uint8_vector_base64; plus independent oracles (python json / base64 / utf-8 codecs) for the
   printer functions and for the two recognizers of the strictness theorem.
3. The property statement on generated code (gen/c04_schema.fbs through the fresh flatcc): value trees -> JSON -> parse
   (force_add) -> B0 -> print under every combination of {unquote, noenum, skip_default, force_default} x indent -> T1 ->
   parse (force_add) -> B1: accessor-level dumps of B0 and B1 equal (presence exact when no default flag is set), reprint of B1
   gives T1 byte for byte, and for quoted output of UTF-8 documents python's json.loads accepts T1 and yields the value tree.
   Finite floats are sampled only (bit exact dump); their exhaustive treatment is C19's.
"""
import os, re, json, base64
from . import lib
from . import c04_util as U

PF_UNQUOTE, PF_NOENUM, PF_SKIP_DEFAULT, PF_FORCE_DEFAULT = 1, 2, 4, 8


# ---------------------------------------------------------------------------------------------- independent oracle
def py_escape_ok(bs, printed):
    """printed must be a JSON string text whose value is bs (for UTF-8 bs) - python's json as the judge."""
    try:
        return json.loads(printed.decode('utf-8')).encode('utf-8', 'surrogatepass') == bs
    except Exception:
        return False


def py_rfc_string(bs):
    try:
        t = bs.decode('utf-8')
    except UnicodeDecodeError:
        return False
    if len(t) < 2 or t[0] != '"' or t[-1] != '"': return False
    try:
        return isinstance(json.loads(t), str)
    except Exception:
        return False


def py_utf8(bs):
    try:
        bs.decode('utf-8'); return True
    except UnicodeDecodeError:
        return False


class Diff(Exception):
    pass


def enum_value(t, j):
    e = U.ENUMS[t]
    if isinstance(j, bool): raise Diff('bool for enum')
    if isinstance(j, int): return j
    if isinstance(j, str):
        tot = 0
        for name in j.split():
            if name not in e['syms']: raise Diff('unknown symbol %r' % name)
            tot += e['syms'][name]
        return tot
    raise Diff('enum printed as %r' % (j,))


def cmp_scalar(t, v, j, pf, path):
    if t == 'bool':
        if j is not bool(v): raise Diff('%s: bool %r printed as %r' % (path, v, j))
    elif t in U.INT_RANGES:
        if isinstance(j, bool) or not isinstance(j, int) or j != v: raise Diff('%s: %r printed as %r' % (path, v, j))
    elif t == 'float':
        # the printer emits the shortest text that reads back as the same FLOAT: compare as float32
        if isinstance(j, bool) or not isinstance(j, (int, float)) or U.f32(float(j)) != U.f32(float(v)): raise Diff('%s: float %r printed as %r' % (path, v, j))
    elif t == 'double':
        if isinstance(j, bool) or not isinstance(j, (int, float)) or float(j) != float(v): raise Diff('%s: %r printed as %r' % (path, v, j))
    else:
        if (pf & PF_NOENUM) and not isinstance(j, int): raise Diff('%s: noenum but printed %r' % (path, j))
        if enum_value(t, j) != v: raise Diff('%s: enum %r printed as %r' % (path, v, j))


def cmp_value(t, v, j, pf, path):
    if isinstance(t, tuple):
        k = t[0]
        if k in ('vec', 'arr'):
            if not isinstance(j, list) or len(j) != len(v): raise Diff('%s: list of %d printed as %r' % (path, len(v), j if not isinstance(j, list) else len(j)))
            for i, (a, b) in enumerate(zip(v, j)): cmp_value(t[1], a, b, pf, '%s[%d]' % (path, i))
            return
        if k in ('nested', 'nested64'): return cmp_value(t[1], v, j, pf, path)
        if k == 'b64':
            if not isinstance(j, str): raise Diff('%s: base64 printed as %r' % (path, j))
            try:
                d = base64.urlsafe_b64decode(j) if t[1] else base64.b64decode(j, validate=True)
            except Exception as e:
                raise Diff('%s: invalid base64 %r' % (path, j))
            if ('-' in j or '_' in j) and not t[1]: raise Diff('%s: url alphabet in base64 field' % path)
            if ('+' in j or '/' in j) and t[1]: raise Diff('%s: rfc4648 alphabet in base64url field' % path)
            if d != v: raise Diff('%s: base64 bytes differ' % path)
            return
        if k == 'chararr':
            if not isinstance(j, str) or j.encode('utf-8') != v.rstrip(b'\0'): raise Diff('%s: char array %r printed as %r' % (path, v, j))
            return
        raise Diff('%s: unexpected type %r' % (path, t))
    if t == 'string':
        if not isinstance(j, str) or j.encode('utf-8', 'surrogatepass') != v: raise Diff('%s: string %r printed as %r' % (path, v, j))
    elif t in U.STRUCTS:
        if not isinstance(j, dict): raise Diff('%s: struct printed as %r' % (path, j))
        names = [f for f, _ in U.STRUCTS[t]]
        if sorted(j.keys()) != sorted(names): raise Diff('%s: struct keys %r' % (path, sorted(j.keys())))
        for f, ft in U.STRUCTS[t]: cmp_value(ft, v[f], j[f], pf, path + '.' + f)
    elif t in U.TABLES:
        cmp_table(t, v, j, pf, path)
    else:
        cmp_scalar(t, v, j, pf, path)


def union_type_ok(uname, m, j, pf, path):
    names = [x for x, _ in U.UNIONS[uname]]
    code = (names.index(m) + 1) if m is not None else 0
    if pf & PF_NOENUM:
        if j != code or isinstance(j, bool): raise Diff('%s: union type %r printed as %r' % (path, m, j))
    else:
        if j != (m if m is not None else 'NONE') and j != code: raise Diff('%s: union type %r printed as %r' % (path, m, j))


def cmp_table(name, v, j, pf, path):
    if not isinstance(j, dict): raise Diff('%s: table printed as %r' % (path, j))
    known = set()
    for f, t, d in U.TABLES[name]:
        p = path + '.' + f
        if isinstance(t, tuple) and t[0] == 'union':
            known.update([f, f + '_type'])
            if f in v:
                m, uv = v[f]
                if f not in j or f + '_type' not in j: raise Diff('%s: union missing in output' % p)
                union_type_ok(t[1], m, j[f + '_type'], pf, p)
                cmp_value(dict(U.UNIONS[t[1]])[m], uv, j[f], pf, p)
            else:
                if f in j: raise Diff('%s: absent union printed' % p)
                if f + '_type' in j: union_type_ok(t[1], None, j[f + '_type'], pf, p)
        elif isinstance(t, tuple) and t[0] == 'uvec':
            known.update([f, f + '_type'])
            if f in v:
                if f not in j or f + '_type' not in j: raise Diff('%s: union vector missing in output' % p)
                if not isinstance(j[f], list) or not isinstance(j[f + '_type'], list) or len(j[f]) != len(v[f]) or len(j[f + '_type']) != len(v[f]):
                    raise Diff('%s: union vector length' % p)
                for i, (m, uv) in enumerate(v[f]):
                    union_type_ok(t[1], m, j[f + '_type'][i], pf, '%s[%d]' % (p, i))
                    cmp_value(dict(U.UNIONS[t[1]])[m], uv, j[f][i], pf, '%s[%d]' % (p, i))
            elif f in j or f + '_type' in j: raise Diff('%s: absent union vector printed' % p)
        elif U.is_scalar(t):
            known.add(f)
            if f in v:
                if f in j: cmp_scalar(t, v[f], j[f], pf, p)
                elif d is None or not ((pf & PF_SKIP_DEFAULT) and v[f] == d and not (isinstance(v[f], float) and str(v[f]) != str(float(d)))):
                    raise Diff('%s: present scalar %r not printed' % (p, v[f]))
            elif f in j:
                if not (pf & PF_FORCE_DEFAULT): raise Diff('%s: absent scalar printed as %r' % (p, j[f]))
                cmp_scalar(t, d, j[f], pf, p)
        else:
            known.add(f)
            if f in v:
                if f not in j: raise Diff('%s: present field not printed' % p)
                cmp_value(t, v[f], j[f], pf, p)
            elif f in j: raise Diff('%s: absent field printed' % p)
    extra = set(j.keys()) - known
    if extra: raise Diff('%s: unknown keys %r in output' % (path, sorted(extra)))


# ---------------------------------------------------------------------------------------------- the check
def run(ctx):
    rng = ctx.rng
    T = ctx.thorough
    lib.gen_consts(ctx)
    consts = U.gen_json_consts(ctx)
    bad_cfg = {k: consts.get(k) for k, v in U.EXPECTED_CFG.items() if consts.get(k) != v}
    if not U.check_theorems_and_model(ctx):
        ctx.broken_obligation('Properties_C05.vo', getattr(ctx, 'broken', {}))
    if bad_cfg:
        ctx.broken_obligation('scanner-configuration', 'json_parser configuration differs from the one Json/Scanner.v transcribes: %r' % bad_cfg)
    if not ctx.check_theorems(prop_module='Properties_C05b', extra_targets=['Extract/Extract_jsonprint.vo']): ctx.broken_obligation('Properties_C05b.vo', getattr(ctx, 'broken', {}))
    from . import c05b_util; done = c05b_util.c05b_hook(ctx)      # document layer (Json/PrinterText.v, Json/RoundTripProofs.v); True = it replayed one of its own records
    if done is True: return
    gdir = U.gen_schema(ctx)
    H = U.build_harness(ctx, 'json_rt.c', 'json_rt', gdir, rt=('builder.c', 'emitter.c', 'refmap.c', 'verifier.c', 'json_parser.c'))

    if ctx.replay_in:
        rp = json.load(open(ctx.replay_in))
        line = rp.get('harness_line', '')
        rep = U.run_resilient(H, [line])[0]
        ctx.log('replay request:', line[:300]); ctx.log('implementation reply:', rep[:800])
        if not line.startswith('rt '): ctx.log('model reply:', ctx.run_model('json', [line])[0])
        ctx.count(line, klass='replay')
        f = rep.split()
        bad = rep.startswith(('CRASH', 'HANG')) or ' ASAN ' in rep or (f[:1] == ['RT'] and f[1:8] != ['0', '0'] + f[3:4] + ['0', '0', '1', '1']) or \
            (not line.startswith('rt ') and rep != ctx.run_model('json', [line])[0])
        if bad: ctx.violation(rp.get('key', 'replay'), 'replayed: ' + rep[:300], {'harness_line': line, 'reply': rep[:800]})
        ctx.finish_args = dict(rule='replay of one recorded request', explanation='replay')
        return

    # ------------------------------------------------------------------ codec primitives: model vs implementation vs python
    strings = [bytes([c]) for c in range(256)] + [b'', b'abc', b'a"b\\c/d', b'\x00\x00', b'a\x00b', b'\x1f\x20\x7f\x80\xff', 'é€😀'.encode(), b'\xed\xa0\x80', b'\xc0\xaf',
                                                   b'\\u0041', b'"', b'\\', b'\\\\"', b'\n\r\t\b\f', b'</script>', b' ' * 40]
    gs = U.Gen(rng, text='mixed'); gu = U.Gen(rng, text='utf8')
    for _ in range(1500 if T else 300):
        strings.append(gs.string(rng.choice([4, 12, 40])))
        strings.append(gu.string(rng.choice([4, 12, 40])))
    datas = [bytes(rng.randint(0, 255) for _ in range(n)) for n in list(range(0, 20)) + [31, 32, 33, 47, 48, 49, 63, 64, 65, 100, 255, 256, 257]]
    datas += [b'\x00' * n for n in (1, 2, 3, 4)] + [b'\xff' * n for n in (1, 2, 3, 4)] + [bytes([0xfb, 0xff]), bytes([0xfb, 0xef, 0xbe]), bytes(range(256))]
    for _ in range(400 if T else 80):
        datas.append(bytes(rng.randint(0, 255) for _ in range(rng.randint(0, 70))))
    prim = []      # (klass, line, extra)
    for s in strings:
        prim.append(('pstr', 'pstr ' + U.hx(s), s))
        prim.append(('pca', 'pca ' + U.hx(s), s))
    for n in (1, 2, 6, 8):
        for _ in range(40):
            a = gs.string(n)[:n].ljust(n, b'\0') if rng.random() < 0.7 else bytes(rng.choice([0, 0, 65, 0x22, 0x5c, 1]) for _ in range(n))
            prim.append(('pca', 'pca ' + U.hx(a), a))
    # char arrays through print_char_array -> flatcc_json_parser_char_array: full arrays whose LAST byte needs an escape, arrays with
    # trailing / embedded NULs, escapes in every slot, multi-byte UTF-8 across the end
    arrays = []
    esc_bytes = [10, 9, 13, 8, 12, 0x22, 0x5c, 0, 1, 0x1f]
    for n in (1, 2, 3, 5, 6, 7, 8, 16):
        for e in esc_bytes:
            arrays.append(bytes(b'abcdefghijklmnop'[:n - 1]) + bytes([e]))          # full, last byte escaped
            arrays.append(bytes([e]) * n)                                            # every slot escaped
            if n > 1: arrays.append(bytes([e]) + bytes(b'abcdefghijklmnop'[:n - 1]))
        arrays += [b'a' * n, b'\0' * n, (b'ab' + b'\0' * n)[:n], ('é' * n).encode()[:n], bytes(rng.randint(0, 255) for _ in range(n))]
    for _ in range(300 if T else 80):
        n = rng.choice([1, 2, 4, 6, 9])
        arrays.append(bytes(rng.choice([0, 0x22, 0x5c, 10, 65, 66, 0x7f, 0x80, 0xff, 1, 32]) for _ in range(n)))
    for a in arrays:
        for fl in (0, 8, 16):
            prim.append(('carr', 'carr %d %s' % (fl, U.hx(a)), (fl, a)))
    for d in datas:
        for url in (0, 1):
            prim.append(('pb64', 'pb64 %d %s' % (url, U.hx(d)), (url, d)))
            for pad in (0, 1):
                prim.append(('b64e', 'b64e %d %d %s' % (url, pad, U.hx(d)), (url, pad, d)))
    # decoder on printer output, on python's encodings, and on arbitrary / damaged text
    b64texts = []
    for d in datas:
        std, urlt = base64.b64encode(d), base64.urlsafe_b64encode(d)
        b64texts += [(0, std), (1, urlt), (0, std.rstrip(b'=')), (1, urlt.rstrip(b'=')), (0, urlt), (1, std)]
    alpha64 = b'ABCDEFGHIJKLMNOPQRSTUVWXYZabcdefghijklmnopqrstuvwxyz0123456789+/-_='
    for _ in range(1500 if T else 300):
        n = rng.choice([0, 1, 2, 3, 4, 5, 6, 7, 8, 9, 12, 13, 14, 15, 16, 20])
        t = bytes(rng.choice(alpha64) for _ in range(n))
        if rng.random() < 0.4: t = t.rstrip(b'=') + b'=' * rng.choice([0, 1, 2, 3, 4, 9])
        if rng.random() < 0.2: t = t + bytes([rng.choice([0, 32, 10, 34, 0x7f, 0x80, 0xff, 46])]) + bytes(rng.choice(alpha64) for _ in range(rng.randint(0, 5)))
        b64texts.append((rng.choice([0, 1]), t))
    for url, t in b64texts:
        dl = (len(t) // 4) * 3 + {0: 0, 1: 0, 2: 1, 3: 2}[len(t) % 4]
        for dst in sorted(set([dl, 0, 1, 2, 3, max(0, dl - 1), dl + 5])):
            prim.append(('b64d', 'b64d %d %d %s' % (url, dst, U.hx(t)), (url, dst, t)))
        for tail in (b'"', b'"x', b'', b'\\n"', b'" ,'):
            prim.append(('parse_b64', 'parse_b64 %d %d 0 %s' % (url, rng.choice([0, 2]), U.hx(b'"' + t + tail)), (url, t, tail)))
    ctx.log('codec primitives: %d requests' % len(prim))
    def model_line(klass, line, x):
        return 'pca ' + U.hx(x[1]) if klass == 'carr' else line
    mres = ctx.run_model('json', [model_line(k, l, x) for k, l, x in prim])
    # second model step for carr: char_array on the model's own text
    carr_idx = [i for i, (k, _, _) in enumerate(prim) if k == 'carr']
    carr_m2 = ctx.run_model('json', ['char_array %d 0 0 %s %d' % (prim[i][2][0], mres[i], len(prim[i][2][1])) for i in carr_idx])
    for i, m2 in zip(carr_idx, carr_m2):
        f2 = m2.split()
        # same shape as the harness reply: <text> <ret> <err> <errloc> <array, unwritten bytes shown as ee>
        if len(f2) == 7:
            arr = ('' if f2[6] == '-' else f2[6]); arr = arr + 'ee' * (len(prim[i][2][1]) - len(arr) // 2)
            mres[i] = '%s %s %s %s %s' % (mres[i], f2[0], f2[1], f2[2], arr if arr else '-')
        else:
            mres[i] = mres[i] + ' ' + m2
    ctx.log('codec primitives: model done')
    ires = U.run_resilient(H, [l for _, l, _ in prim])
    ctx.log('codec primitives: implementation done')
    for (klass, line, x), a, b in zip(prim, mres, ires):
        ctx.count(line, klass='codec:' + klass)
        replay = {'harness': 'json_rt', 'harness_line': line, 'model': a, 'impl': b}
        b0, ub = U.split_ub(b)
        if b.startswith(('CRASH', 'HANG')) or ' ASAN ' in b:
            ctx.violation('codec-asan:' + klass, 'codec %s: %s' % (klass, b[-300:]), replay); continue
        b = b0
        # property-level oracles, independent of the model
        if klass == 'pstr':
            out = bytes.fromhex(b) if b != '-' else b''
            if U_valid_utf8(x) and not py_escape_ok(x, out):
                ctx.violation('print-string-not-json', 'print_string(%r) = %r is not a JSON string with that value (python json)' % (x, out), replay); continue
        if klass == 'carr':
            fl, arr = x
            bf = b.split()
            if len(bf) == 5:
                text = bytes.fromhex(bf[0])
                stripped = arr.rstrip(b'\0')
                if fl & 16 and stripped != arr:
                    pass        # reject_array_underflow: the stripped NULs cannot come back (C05_char_array_underflow_flag); compared with the model below
                elif int(bf[2]) != 0 or int(bf[1]) != len(text) or bytes.fromhex(bf[4] if bf[4] != '-' else '') != arr:
                    ctx.violation('char-array-roundtrip', 'char array %r prints as %r and parses back (flags %d) as error %s, array %s: not the original (C05_char_array_roundtrip)' % (
                        arr, text, fl, bf[2], bf[4]), replay); continue
        if klass == 'pb64':
            url, d = x
            want = b'"' + (base64.urlsafe_b64encode(d) if url else base64.b64encode(d)) + b'"'
            if bytes.fromhex(b) != want:
                ctx.violation('base64-print', 'base64 printing of %d bytes differs from RFC 4648 (python base64): %r' % (len(d), bytes.fromhex(b)[:80]), replay); continue
        if klass == 'b64e':
            url, pad, d = x
            want = base64.urlsafe_b64encode(d) if url else base64.b64encode(d)
            if not pad: want = want.rstrip(b'=')
            if (bytes.fromhex(b) if b != '-' else b'') != want:
                ctx.violation('base64-encode', 'base64_encode of %d bytes differs from RFC 4648 (python base64)' % len(d), replay); continue
        if klass == 'parse_b64':
            af, bf = a.split(), b.split()
            if len(af) == 7 and len(bf) == 7 and (af[1] != '0' or bf[1] != '0'):
                a, b = ' '.join(af[:6]), ' '.join(bf[:6])
            url, t, tail = x
            if len(bf) == 7 and bf[1] == '0' and tail[:1] == b'"':
                # accepted: the decoded bytes must be what python decodes from the same text (padding optional)
                try:
                    tt = t.rstrip(b'=')
                    want = base64.b64decode(tt + b'=' * (-len(tt) % 4), altchars=b'-_' if url else None, validate=True)
                    got = bytes.fromhex(bf[6]) if bf[6] != '-' else b''
                    if got != want:
                        ctx.violation('base64-parse-value', 'base64 field text %r accepted with bytes %r, RFC 4648 gives %r' % (t, got, want), replay); continue
                except Exception:
                    pass
        if a != b:
            ctx.violation('corr:' + klass, 'model and implementation disagree on %s: model `%s`, impl `%s`' % (klass, a[:200], b[:200]), replay)
    # recognizers of the strictness theorem against python's codecs
    recog = []
    for s in strings[:600]:
        recog.append(('utf8', s)); recog.append(('rfcstr', s))
    for (klass, line, x), b in zip(prim, ires):
        if klass in ('pstr', 'pca') and len(recog) < 4000 and not b.startswith(('CRASH', 'HANG')):
            out = bytes.fromhex(U.split_ub(b)[0]) if U.split_ub(b)[0] not in ('-', '') and ' ' not in U.split_ub(b)[0] else b''
            recog.append(('rfcstr', out))
            if out and rng.random() < 0.5: recog.append(('rfcstr', U.mutate(rng, out)))
    rres = ctx.run_model('json', ['%s %s' % (k, U.hx(s)) for k, s in recog])
    for (k, s), r in zip(recog, rres):
        ctx.count(k + U.hx(s), klass='recognizer:' + k)
        want = py_utf8(s) if k == 'utf8' else py_rfc_string(s)
        if r != ('1' if want else '0'):
            ctx.violation('recognizer:' + k, 'Coq recognizer %s says %s on %r, python says %s' % (k, r, s[:60], want), {'model_line': '%s %s' % (k, U.hx(s))}, kind='no-failing-input-found')
    # strict output of print_string: the theorem's statement checked on the implementation with python as the judge
    ctx.sample({'codec': prim[3][1], 'model': mres[3], 'impl': ires[3]})

    # ------------------------------------------------------------------ round trips on generated printers / parsers
    pool = {'Sub': [], 'Fix': []}
    pool_vals, pool_req = [], []
    for k in range(8):
        for root in ('Sub', 'Fix'):
            v = gu.root(root); st = U.Style(rng, strict=True)
            pool_vals.append((root, v)); pool_req.append((root, U.render_root(root, v, st)))
    # buffers of the pool come from harness/json_scan_diff-free path: use rt with hex request? simpler: parse through json_rt is not exposed,
    # so nested fields are given as JSON objects (nest, nest_s is skipped because of the nested struct root defect) or omitted (nest64)
    cases = []     # (klass, root, value or None, text, pflags, indent, utf8)

    def make(root, utf8, depth):
        g = U.Gen(rng, max_depth=depth, text='utf8' if utf8 else 'mixed')
        v = g.root(root)
        if root == 'Root':
            v.pop('nest64', None); v.pop('nest_s', None)
        st = U.Style(rng, strict=rng.random() < 0.5)
        st.omit_struct_fields = False
        return v, U.render_root(root, v, st)

    allpf = [x for x in range(16) if (x & 12) != 12]      # skip_default together with force_default is contradictory
    ndoc = 400 if T else 90
    for k in range(ndoc):
        root = rng.choice(['Root'] * 6 + ['Leaf', 'Other', 'Sub', 'Rec', 'Pt', 'Fix', 'Fix', 'Nums', 'Nums', 'Node', 'DepFirst', 'DepMid', 'DepLast', 'DepOnly', 'Tiny', 'S1', 'S3'])
        utf8 = (k % 3 != 0)
        v, text = make(root, utf8, rng.choice([1, 2, 3]))
        pfs = allpf if k < (12 if T else 4) else [0, 1, 2, 4, 8] + rng.sample(allpf, 2)
        for pf in pfs:
            for indent in ([0, rng.choice([1, 2, 3, 4, 8])] if k % 10 else [0, 2, 17, 255]):
                cases.append(('value-tree' + ('-utf8' if utf8 else '-bytes'), root, v, text, pf, indent, utf8))
    # [char:N] members filled to all N bytes with a last byte that needs an escape; 64-bit integers on the digit-count grid
    for name in (b'abcde\\n', b'abcde\\"', b'abcde\\\\', b'abcde\\t', b'abcde\\u0001', b'\\n\\n\\n\\n\\n\\n', b'abcdef', b'abcde', b''):
        for pf in (0, 1, 4):
            cases.append(('char-array-full', 'Fix', None, b'{"name":"' + name + b'","u":1}', pf, 0, True))
            cases.append(('char-array-full', 'Root', None, b'{"fix":{"name":"' + name + b'"},"vfix":[{"name":"' + name + b'"},{"name":"x"}]}', pf, 2, True))
    grid = [x for x in U._GRID]
    for k in range(0, len(grid), 6):
        ch = grid[k:k + 6]
        lv = [x for x in ch if x < 2 ** 63] + [-x for x in ch if x <= 2 ** 63]
        uv = [x for x in ch if x < 2 ** 64]
        v = {'l': lv[0], 'u': uv[-1], 'vl': lv, 'vu': uv, 'big': {'l': lv[-1], 'u': uv[0]}, 'vbig': [{'l': a, 'u': abs(a)} for a in lv[:4]], 'i': 7, 'w': 4294967295}
        text = U.render_root('Nums', v, U.Style(rng, strict=True))
        for pf in (0, 2, 8):
            cases.append(('int64-grid', 'Nums', v, text, pf, rng.choice([0, 2]), True))
    # every integer width at MIN / MIN+1 / MAX / MAX-1 / 0 / -1 in every position (table field, struct member, vector element, fixed array
    # element, enum member of a signed base type given as symbol and as number): all fields present, every integer leaf takes the k-th limit
    class LimitGen(U.Gen):
        def __init__(self, rng, k): U.Gen.__init__(self, rng, max_depth=2, text='utf8'); self.k = k
        def scalar(self, t):
            k = self.k
            if t in U.INT_RANGES:
                lo, hi = U.INT_RANGES[t]
                return [lo, lo + 1, hi, hi - 1, 0, -1 if lo < 0 else 1][k]
            if t in U.ENUMS and not U.ENUMS[t]['flags']:
                vals = sorted(U.ENUMS[t]['syms'].values()); lo, hi = U.INT_RANGES[U.ENUMS[t]['base']]
                return (vals + [lo, hi])[(k + self.rng.randint(0, 1)) % (len(vals) + 2)]
            if t in U.ENUMS:
                lo, hi = U.INT_RANGES[U.ENUMS[t]['base']]
                return [0, hi, 1, hi - 1, 0, 3][k] & hi
            return U.Gen.scalar(self, t)
    for k in range(6):
        for root in ('Nums', 'Nums', 'Root', 'Fix', 'Pt', 'Leaf', 'Sub', 'Other'):
            g = LimitGen(rng, k)
            v = g.struct(root) if root in U.STRUCTS else g.table(root, 0, p_present=1.0)
            if root == 'Root': v.pop('nest64', None); v.pop('nest_s', None)
            for mode in ('sym', 'num'):
                st = U.Style(rng, strict=True); st.enum_mode = mode; st.omit_struct_fields = False
                text = U.render_root(root, v, st)
                for pf in (0, 2, 1):
                    cases.append(('int-limits', root, v, text, pf, 0, True))
    # doubles and floats of small magnitude with many significant digits (1e-22 .. 1e-1, 2..17 digit mantissas: the printer's shortest form is
    # scientific with a negative exponent), as table field, vector element and struct member; compared bit exact through the dump
    for nd in (2, 5, 8, 9, 12, 15, 16, 17):
        vals = []
        for e in range(1, 23):
            m = rng.randint(10 ** (nd - 1), 10 ** nd - 1)
            vals.append(float('%de%d' % (m, -(nd - 1) - e)))
        vals += [1.25e-21, 1.2345678e-16, -9.87654321e-15, 3.0000000000000004e-5, 1e-22, 9.999999999999999e-23]
        for k in range(0, len(vals), 7):
            ch = vals[k:k + 7]
            v = {'d': ch[0], 'f': U.f32(ch[-1]), 'vd': ch, 'vf': [U.f32(x) for x in ch]}
            cases.append(('small-floats', 'Nums', v, U.render_root('Nums', v, U.Style(rng, strict=True)), rng.choice([0, 2]), 0, True))
            v = {'f64': ch[1 % len(ch)], 'f32': U.f32(ch[0]), 'fix': {'a': [1, 2, 3], 'name': b'ab\0\0\0\0', 'p': [{'x': 1, 'y': 2}, {'x': 3, 'y': 4}], 'e': [1, 2], 'd': ch[-1], 'u': 1},
                 'other': {'f': U.f32(ch[0])}}
            cases.append(('small-floats', 'Root', v, U.render_root('Root', v, U.Style(rng, strict=True)), 0, rng.choice([0, 2]), True))
    # chains of nested tables that the verifier accepts must print: depth classes per edge kind (single union field, union vector, table
    # field, table vector); documents the parser itself refuses (nesting limit) are not part of this class
    def chain(kind, d):
        if kind == 'union-field': return 'Node', b'{"single_type":"Node","single":' * d + b'{"n":1}' + b'}' * d
        if kind == 'union-vector': return 'Node', b'{"kids_type":["Node"],"kids":[' * d + b'{"n":1}' + b']}' * d
        if kind == 'table-field': return 'Rec', b'{"r":' * d + b'{"n":1}' + b'}' * d
        if kind == 'table-vector': return 'Rec', b'{"k":[' * d + b'{"n":1}' + b']}' * d
        return 'Root', b'{"rec":' + b'{"r":' * d + b'{"n":1}' + b'}' * d + b',"any_type":"Leaf","any":{"n":2}}'
    for kind in ('union-field', 'union-vector', 'table-field', 'table-vector', 'root-table-field'):
        for d in (1, 10, 24, 25, 26, 33, 48, 49, 50, 51, 52, 60, 75, 97, 98, 99, 100):
            root, text = chain(kind, d)
            for pf, indent in ((0, 0), (1, 2)):
                cases.append(('deep-chain:' + kind, root, None, text, pf, indent, True))
    # tables with deprecated union fields around live unions: every live union / union vector present, values compared through dump and json.loads
    for k in range(24):
        root_ = ['DepFirst', 'DepMid', 'DepLast'][k % 3]
        g = U.Gen(rng, max_depth=2, text='utf8')
        v = g.table(root_, 0, p_present=1.0)
        st = U.Style(rng, strict=True); st.union_order = ['type_first', 'value_first', 'split'][(k // 3) % 3]; st.omit_struct_fields = False
        cases.append(('deprecated-union', root_, v, U.render_root(root_, v, st), rng.choice([0, 1, 2]), 0, True))
    # struct roots of 1, 2, 3 bytes (at the very end of their buffer) next to 4 and 8 byte ones: printed as buffer root and as nested root
    for root_, body in (('S1', b'{"a":7}'), ('S1', b'{"a":255}'), ('S1', b'{}'), ('S2', b'{"a":1,"b":2}'), ('S2s', b'{"a":65535}'), ('S3', b'{"a":1,"b":2,"c":3}'), ('Pt', b'{"x":-1,"y":2}'),
                        ('Point', None)):
        if body is None: continue
        for pf in (0, 1, 8):
            for indent in (0, 2):
                cases.append(('tiny-struct-root', root_, None, body, pf, indent, True))
    for k in range(12):
        g = U.Gen(rng, max_depth=2, text='utf8')
        v = g.table('Tiny', 0, p_present=1.0 if k < 6 else 0.6)
        st = U.Style(rng, strict=True); st.omit_struct_fields = False
        for pf in (0, 2):
            cases.append(('tiny-nested-struct', 'Tiny', v, U.render_root('Tiny', v, st), pf, rng.choice([0, 2]), True))
    # sibling nested buffers with identical layout (values through dump and json.loads)
    for k in range(10):
        g = U.Gen(rng, max_depth=3, text='utf8')
        v = g.table('Twin', 0, p_present=1.0)
        if k % 2 == 0 and 'a' in v: v['b'] = dict(v['a'])
        st = U.Style(rng, strict=True); st.omit_struct_fields = False
        cases.append(('sibling-nested', 'Twin', v, U.render_root('Twin', v, st), rng.choice([0, 2]), 0, True))
    # structs with a deprecated member first / middle / last: as table field, vector element and struct root, every printer flag set
    for k in range(6):
        g = U.Gen(rng, max_depth=2, text='utf8')
        v = g.table('DpT', 0, p_present=1.0)
        st = U.Style(rng, strict=True); st.omit_struct_fields = False
        text = U.render_root('DpT', v, st)
        for pf in allpf: cases.append(('deprecated-struct-member', 'DpT', v, text, pf, rng.choice([0, 2]), True))
        v1 = g.struct('Dp1')
        for pf in (0, 1, 2, 8): cases.append(('deprecated-struct-member', 'Dp1', v1, U.render_root('Dp1', v1, st), pf, 0, True))
    # a table type with two or more unions occurring repeatedly (vector elements, sibling fields), the non-first unions present in every instance
    for k in range(12):
        g = U.Gen(rng, max_depth=3, text='utf8')
        mk = lambda t: g.table(t, 1, p_present=1.0)
        v = {'xs': [mk('DepMid') for _ in range(rng.choice([2, 3]))], 'a': mk('DepMid'), 'b': mk('DepMid'), 'ys': [mk('DepLast') for _ in range(2)]}
        st = U.Style(rng, strict=True); st.union_order = ['type_first', 'value_first', 'split'][k % 3]; st.omit_struct_fields = False
        cases.append(('repeated-multi-union', 'Multi', v, U.render_root('Multi', v, st), rng.choice([0, 1, 2]), rng.choice([0, 2]), True))
    # optional scalars (`= null`): present with all-zero bits, present non-zero, absent - presence is part of the value under every flag set
    opt_docs = [({'i': 0, 'b': False, 'u': 0, 'e': 0, 'l': 0, 'f': 0.0, 'd': 0.0, 'n': 0}), ({'i': 5, 'b': True, 'u': 255, 'e': 7, 'l': -1, 'f': 1.5, 'd': -2.5, 'n': 3}),
                ({}), ({'i': 0}), ({'b': False, 'n': 1}), ({'f': 0.0}), ({'d': 0.0, 'e': 0}), ({'u': 0, 'l': 0, 'i': 7})]
    for v in opt_docs:
        st = U.Style(rng, strict=True); st.enum_mode = 'num'
        text = U.render_root('Opt', v, st)
        for pf in allpf:
            cases.append(('optional-scalars', 'Opt', v, text, pf, 0, True))
    # a union whose TYPE field is stored explicitly with NONE (0) and no value: only a low-level builder writes that, so the buffer is laid out
    # here by hand (DepFirst: ids 0,1 deprecated union; 2 = u_type, 3 = u, 4,5 = v, 6 = n) and handed to the harness as bytes (request rtb)
    import struct as _st
    vt = _st.pack('<HH7H', 18, 12, 0, 0, 4, 0, 0, 0, 8) + b'\0\0'
    none_buf = _st.pack('<I', 28) + b'C4RT' + vt + _st.pack('<iB3xi', 20, 0, 5)
    for pf in allpf:
        cases.append(('union-type-none-stored', 'DepFirst', None, none_buf, pf, 0, False))
    # a bit_flags enum that defines every bit of its base type: value 0 (no flag), all bits, in a field and in a vector
    for body, v in ((b'{"full":0}', {'full': 0}), (b'{"full":255}', {'full': 255}), (b'{"vfull":[0,1,255,0]}', {'vfull': [0, 1, 255, 0]}), (b'{"vfull":[0]}', {'vfull': [0]}),
                    (b'{"full":128,"vfull":[3,0,0]}', {'full': 128, 'vfull': [3, 0, 0]}), (b'{}', {})):
        for pf in (0, 1, 2, 4, 8, 9):
            cases.append(('bitflags-all-bits', 'Nums', v, body, pf, 0, True))
    # sampled finite floats (C19 covers the float codecs exhaustively)
    for dv in (0.1, 1e-5, 1e21, 1e22, 123456789.0, 5e-324, 2.2250738585072014e-308, 1.7976931348623157e308, 0.30000000000000004, -1e-7, 4.35, 9007199254740993.0):
        for fv in (0.1, 16777216.0, 1e-10, 3.4028234663852886e38, 1.17549435e-38, -0.0):
            v = {'f64': dv, 'f32': struct_f32(fv)}
            cases.append(('floats', 'Root', None, b'{"f64":%s,"f32":%s}' % (repr(dv).encode(), repr(struct_f32(fv)).encode()), 0, 0, True))
    lines = ['%s %s %d %d 2 %s' % ('rtb' if klass_ == 'union-type-none-stored' else 'rt', root, pf, indent, U.hx(text)) for klass_, root, _, text, pf, indent, _ in cases]
    ctx.log('round trips: %d requests' % len(lines))
    open(os.path.join(ctx.bdir, 'rt_lines.txt'), 'w').write('\n'.join(lines) + '\n')
    rep = U.run_resilient(H, lines)
    stat = {'rt': 0, 'src_rejected': 0, 'strict_checked': 0}
    ub_seen = {}
    for (klass, root, v, text, pf, indent, utf8), line, r in zip(cases, lines, rep):
        ctx.count(line, klass='rt:' + klass)
        replay = {'harness': 'json_rt', 'harness_line': line, 'root': root, 'printer_flags': pf, 'indent': indent, 'source_json': text[:2000].decode('latin1'), 'reply': r[:1500]}
        if r.startswith('HANG'):
            b64 = re.search(rb'b64u?"?\s*:', text) is not None
            ctx.violation('printer-hang:base64' if b64 else 'rt-hang', 'print/parse round trip did not return within 20 s (printer flags %d, indent %d)%s' % (
                pf, indent, ': base64 field with a nearly full output buffer, see fixes/C11-base64-no-progress.patch' if b64 else ''), replay); continue
        if r.startswith('CRASH'):
            ctx.violation('rt-crash', 'round trip request crashed: ' + r[:300], replay); continue
        r, ub = U.split_ub(r)
        if ub: ub_seen.setdefault(ub, line[:160])
        asan = None
        if ' ASAN ' in r:
            r, asan = r.split(' ASAN ', 1)
        f = r.split()
        if f[:1] != ['RT'] or len(f) < 9:
            ctx.violation('rt-bad-reply', 'unexpected harness reply ' + r[:200], replay); continue
        p0, v0, prc, p1, v1, deq, teq = [int(x) for x in f[1:8]]
        if asan:
            m = re.search(r'@(\S+)', asan)
            ctx.violation('rt-asan:' + (m.group(1) if m else '?'), 'sanitizer report during print/parse round trip (printer flags %d, indent %d): %s' % (pf, indent, asan[:200]), replay); continue
        if (p0 != 0 or v0 != 0) and klass.startswith('deep-chain'):
            stat['deep_refused'] = stat.get('deep_refused', 0) + 1; continue      # beyond the parser's / verifier's nesting limit: nothing to print
        if klass.startswith('deep-chain'): stat['deep_printed'] = stat.get('deep_printed', 0) + 1
        if p0 != 0 or v0 != 0:
            stat['src_rejected'] += 1
            # The source is rendered from a value tree: integers and enum symbols are spelled exactly as the printer spells them, so a parser that
            # refuses the document refuses printer output for a buffer holding these values (e.g. a type minimum), without the buffer ever being built
            ctx.violation('valid-document-rejected', 'a document rendered from a value tree (numbers and symbols spelled as the printer spells them) is rejected by the generated parser: '
                          'parse error %d, verify %d; the round trip cannot even start' % (p0, v0), replay)
            continue
        stat['rt'] += 1
        t1 = bytes.fromhex(f[8]) if f[8] != '-' else b''
        replay['printed'] = t1[:3000].decode('latin1')
        if prc < 0 and klass.startswith('deep-chain'):
            ctx.violation('print-error:verified-depth', 'the parser built and the verifier accepted a buffer nested through %s, but the printer fails with %d (deep recursion is error 2): the printer must '
                          'print every buffer the verifier accepts' % (klass.split(':', 1)[1], prc), replay); continue
        if prc < 0 and klass.startswith('tiny-'):
            ctx.violation('print-error:' + klass, 'the printer refuses (%d; bad input is error 1) a verified buffer whose %s is a struct of 1..3 bytes placed at the very end of its buffer (root %s)' % (
                prc, 'root' if klass == 'tiny-struct-root' else 'nested_flatbuffer root', root), replay); continue
        if prc < 0:
            ctx.violation('print-error', 'printer failed with %d on a verified buffer (flags %d, indent %d)' % (prc, pf, indent), replay); continue
        if (p1 != 0 or deq != 1) and full_zero(root, v, pf, t1):
            ctx.violation('bitflags-zero-all-bits', 'a bit_flags enum that defines every bit of its base type prints the value 0 as an empty symbol list (`""`, or nothing with unquote): '
                          '%s (printer flags %d)' % ('the generated parser rejects the text with error %d' % p1 if p1 != 0 else 'the element disappears on reparse', pf), replay); continue
        if p1 != 0 and klass == 'deprecated-struct-member' and re.search(rb'\{\s*,', t1):
            ctx.violation('struct-deprecated-first-member-comma', 'a struct whose FIRST member is deprecated prints with a leading comma (`{,"b":...}`): not JSON, and the generated parser rejects it with error %d '
                          '(printer flags %d)' % (p1, pf), replay); continue
        if p1 != 0:
            ctx.violation('reparse-fails', 'printed text is rejected by the generated parser with error %d (printer flags %d, indent %d)' % (p1, pf, indent), replay); continue
        if v1 != 0:
            ctx.violation('reparse-unverifiable', 'reparsed buffer fails verification with %d' % v1, replay); continue
        if deq != 1 and (pf & PF_SKIP_DEFAULT) and v is not None and negzero_default(root, v):
            ctx.violation('skip-default-negative-zero', 'skip_default drops a float field holding -0.0 because it compares equal to the default 0.0: the reparsed buffer reads +0.0 (not bit exact)', replay); continue
        if deq != 1:
            ctx.violation('content-differs', 'accessor-level dump of the reparsed buffer differs from the original (printer flags %d, indent %d): %s' % (pf, indent, ' '.join(f[9:])[:300]), replay); continue
        if teq != 1:
            ctx.violation('reprint-differs', 'printing the reparsed buffer gives a different text (printer flags %d, indent %d)' % (pf, indent), replay); continue
        if not (pf & PF_UNQUOTE) and utf8:
            stat['strict_checked'] += 1
            try:
                j = json.loads(t1.decode('utf-8'))
            except Exception as e:
                ctx.violation('strict-json', 'default (quoted) output is not accepted by python json.loads: %s' % e, replay); continue
            bad = strict_number_violation(t1)
            if bad is not None:
                ctx.violation('strict-json-number', 'default (quoted) output contains the number token %r, which is not an RFC 8259 number' % bad, replay); continue
            if v is not None:
                try:
                    cmp_value(root, v, j, pf, root)
                except Diff as e:
                    ctx.violation('printed-value-differs', 'printed JSON does not carry the value tree the buffer was built from: %s' % e, replay)
    for ub, l in sorted(ub_seen.items()):
        ctx.notes.append('undefined behaviour (UBSan, not counted): %s first seen on `%s`' % (ub, l))
    ctx.notes.append('deep chains: %d accepted by parser+verifier and printed, %d refused at the source' % (stat.get('deep_printed', 0), stat.get('deep_refused', 0)))
    ctx.notes.append('round trips: %d completed, %d source documents not accepted by the parser, %d strict outputs read back by python json.loads and compared with the value tree' % (
        stat['rt'], stat['src_rejected'], stat['strict_checked']))
    if stat['rt'] * 10 < len(cases) * 8:
        ctx.broken_obligation('generator-validity', 'only %d of %d rendered documents were accepted: the generator no longer matches the schema/parser' % (stat['rt'], len(cases)))
    ctx.sample({'round_trip': lines[0][:200], 'reply': rep[0][:300]})
    ctx.trusted = lib.DEFAULT_TRUSTED + ['translators/json_probe.c (T1)', 'python json / base64 / utf-8 codecs as independent oracles', 'hand-written accessor-level dump in harness/json_rt.c']
    ctx.assumptions = ['FlatBuffer strings are NUL terminated (print_string relies on it)', 'default parser configuration; little-endian host',
                       'finite floats: bit exactness sampled here, decided by C19', 'enum / bit-flag symbol round trip, union and nested buffer printing are covered by observation only (not modelled)']
    ctx.finish_args = dict(
        rule='codecs: all 256 single bytes, controls/quotes/UTF-8/invalid UTF-8 strings, char arrays with trailing NULs, base64 data of every length 0..19 and block edges in both '
             'alphabets and padding modes, decoder on printer output / python encodings / damaged text with destination limits; round trips: value trees for 8 root types x 16 printer '
             'flag sets x indents (0..8, 17, 255) with parser force_add; sampled boundary floats',
        explanation='theorems of Properties_C05 re-checked; extracted codec models compared with /repo; python json/base64 as independent judges; print->parse->dump/reprint equality on generated code')


def full_zero(root, v, pf, t1):
    """the buffer holds (or force_default prints) the value 0 of the all-bits bit_flags enum Full, as a field or a vector element"""
    if root != 'Nums': return False
    if isinstance(v, dict):
        return v.get('full', None) == 0 or 0 in v.get('vfull', []) or (bool(pf & PF_FORCE_DEFAULT) and 'full' not in v)
    return re.search(rb'full"?:\s*(""|[,}\]])', t1) is not None


def negzero_default(root, v):
    """does the value tree hold -0.0 in a float field whose default is 0.0 (anywhere)?"""
    import math
    def walk(t, x):
        if t in U.TABLES and isinstance(x, dict):
            for f, ft, d in U.TABLES[t]:
                if f not in x: continue
                if ft in ('float', 'double') and d == 0.0 and x[f] == 0.0 and math.copysign(1.0, x[f]) < 0: return True
                if isinstance(ft, tuple):
                    if ft[0] == 'union' and walk(dict(U.UNIONS[ft[1]])[x[f][0]], x[f][1]): return True
                    if ft[0] == 'uvec' and any(walk(dict(U.UNIONS[ft[1]])[m], y) for m, y in x[f]): return True
                    if ft[0] == 'vec' and any(walk(ft[1], y) for y in x[f]): return True
                    if ft[0] in ('nested', 'nested64') and walk(ft[1], x[f]): return True
                elif walk(ft, x[f]): return True
        return False
    return walk(root, v)


_STR = re.compile(rb'"(?:\\.|[^"\\])*"', re.S)
_NUMLIKE = re.compile(rb'[-+0-9.][-+0-9.eExXa-fA-F]*')
_RFCNUM = re.compile(rb'-?(0|[1-9][0-9]*)(\.[0-9]+)?([eE][-+]?[0-9]+)?\Z')


def strict_number_violation(text):
    """first number-like token outside strings that is not an RFC 8259 number (leading zeros, '+', '.5', hex ...), or None"""
    bare = _STR.sub(b'""', text)
    for m in _NUMLIKE.finditer(bare):
        tok = m.group(0)
        if not _RFCNUM.match(tok): return tok
    return None


def U_valid_utf8(bs):
    return py_utf8(bs)


def struct_f32(v):
    import struct
    return struct.unpack('<f', struct.pack('<f', v))[0]
