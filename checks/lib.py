"""Shared machinery for /verif checks.

Every check is `checks/cNN.py` exposing `run(ctx)`; `bin/check CNN --tier quick|thorough`
creates the Ctx, calls run, then ctx.finish() decides the exit code, prints VIOLATION /
KNOWN-FINDING lines and writes evidence/CNN.json.
"""
import os, sys, json, time, random, subprocess, hashlib, re, shutil, glob, fcntl

ROOT = os.path.dirname(os.path.dirname(os.path.abspath(__file__)))
REPO = os.environ.get('VERIF_REPO', '/repo')
COQ = os.path.join(ROOT, 'coq')
HOOK_DEFS = ['-DFLATCC_VERIF=1']     # guard reserved for hooks (none are needed at present)

COMPILER_SRCS = [
    'external/hash/str_set.c', 'external/hash/ptr_set.c',
    'src/compiler/hash_tables/symbol_table.c', 'src/compiler/hash_tables/scope_table.c',
    'src/compiler/hash_tables/name_table.c', 'src/compiler/hash_tables/schema_table.c',
    'src/compiler/hash_tables/value_set.c', 'src/compiler/fileio.c', 'src/compiler/parser.c',
    'src/compiler/semantics.c', 'src/compiler/coerce.c', 'src/compiler/flatcc.c',
    'src/compiler/codegen_c.c', 'src/compiler/codegen_c_reader.c', 'src/compiler/codegen_c_sort.c',
    'src/compiler/codegen_c_builder.c', 'src/compiler/codegen_c_verifier.c',
    'src/compiler/codegen_c_sorter.c', 'src/compiler/codegen_c_json_parser.c',
    'src/compiler/codegen_c_json_printer.c', 'src/compiler/codegen_schema.c',
    'src/runtime/builder.c', 'src/runtime/emitter.c', 'src/runtime/refmap.c',
]
CLI_SRC = 'src/cli/flatcc_cli.c'
RUNTIME_SRCS = ['src/runtime/builder.c', 'src/runtime/emitter.c', 'src/runtime/refmap.c',
                'src/runtime/verifier.c', 'src/runtime/json_parser.c', 'src/runtime/json_printer.c']
INCS = ['-I%s/include' % REPO]
COMPILER_INCS = INCS + ['-I%s/config' % REPO, '-I%s/external' % REPO, '-I%s/src/compiler' % REPO]
# UBSan exclusions: memset/memcpy(NULL, …, 0) (nonnull-attribute) and the digit-pair stores of pprintint.h into the
# caller's char buffer through uint16_t* (alignment, output side only) are outside the 20 properties.
SAN = ['-fsanitize=address,undefined', '-fno-sanitize=nonnull-attribute', '-fno-sanitize-recover=all', '-fno-omit-frame-pointer',
       '-fsanitize-ignorelist=' + os.path.join(ROOT, 'harness', 'ubsan_ignore.txt')]


class CheckError(Exception):
    """Infrastructure failure (not a property verdict)."""


RSS_LIMIT_MB = int(os.environ.get('VERIF_RSS_LIMIT_MB', '6144'))


def _limit_env(env):
    """environment of a child process: every sanitizer-instrumented harness gets a hard RSS limit, so that a change under test that
    makes the implementation allocate without bound ends in a sanitizer report (a finding with a replay) instead of exhausting the machine"""
    e = dict(os.environ)
    if env: e.update(env)
    a = e.get('ASAN_OPTIONS', '')
    if 'hard_rss_limit_mb' not in a:
        e['ASAN_OPTIONS'] = (a + ':' if a else '') + 'hard_rss_limit_mb=%d' % RSS_LIMIT_MB
    return e


def sh(cmd, timeout=600, cwd=None, env=None, input=None, check=False):
    """Run a command (list or shell string). Returns (rc, stdout+stderr)."""
    shell = isinstance(cmd, str)
    e = _limit_env(env)
    try:
        r = subprocess.run(cmd, shell=shell, cwd=cwd, env=e, input=input, timeout=timeout,
                           stdout=subprocess.PIPE, stderr=subprocess.STDOUT, text=True, errors='replace')
        rc, out = r.returncode, r.stdout
    except subprocess.TimeoutExpired as ex:
        rc, out = 124, (ex.stdout or '') if isinstance(ex.stdout, str) else ''
        out += '\n[timeout after %ss]' % timeout
    if check and rc != 0:
        raise CheckError('command failed (%s): %s\n%s' % (rc, cmd if shell else ' '.join(cmd), out[-4000:]))
    return rc, out


def sh2(cmd, timeout=600, cwd=None, env=None, input=None):
    """Like sh but stdout and stderr separate: (rc, stdout, stderr)."""
    shell = isinstance(cmd, str)
    e = _limit_env(env)
    try:
        r = subprocess.run(cmd, shell=shell, cwd=cwd, env=e, input=input, timeout=timeout,
                           stdout=subprocess.PIPE, stderr=subprocess.PIPE, text=True, errors='replace')
        return r.returncode, r.stdout, r.stderr
    except subprocess.TimeoutExpired as ex:
        return 124, '', '[timeout after %ss]' % timeout


def par_compile(jobs, nproc=16):
    """jobs: list of (cmd list). Run in parallel; raise CheckError on the first failure."""
    procs, pending, failed = [], list(jobs), []
    while pending or procs:
        while pending and len(procs) < nproc:
            c = pending.pop(0)
            procs.append((c, subprocess.Popen(c, stdout=subprocess.PIPE, stderr=subprocess.STDOUT, text=True)))
        c, p = procs.pop(0)
        out, _ = p.communicate()
        if p.returncode != 0:
            failed.append((c, out))
    if failed:
        c, out = failed[0]
        raise BuildFailure(' '.join(c), out)


class BuildFailure(CheckError):
    def __init__(self, cmd, out):
        super().__init__('build failed: %s\n%s' % (cmd, out[-3000:]))
        self.cmd, self.out = cmd, out


def load_findings():
    """known_findings.txt lines:
         known: property=C11 key=<key> <what fails>
         fixed: property=C19 <commit> key=<key> <what failed>
       Only `known:` entries suppress anything."""
    known, fixed = {}, []
    p = os.path.join(ROOT, 'known_findings.txt')
    if os.path.exists(p):
        for line in open(p):
            line = line.strip()
            if not line or line.startswith('#'): continue
            m = re.match(r'known:\s+property=(\S+)\s+key=(\S+)\s*(.*)', line)
            if m:
                known[(m.group(1), m.group(2))] = m.group(3)
                continue
            m = re.match(r'fixed:\s+property=(\S+)\s+(\S+)\s+key=(\S+)\s*(.*)', line)
            if m: fixed.append((m.group(1), m.group(2), m.group(3), m.group(4)))
    return known, fixed


class Ctx:
    def __init__(self, pid, tier, seed, level, replay=None):
        self.pid, self.tier, self.seed, self.level = pid, tier, seed, level
        self.replay_in = replay
        self.t0 = time.time()
        self.bdir = os.path.join(ROOT, 'build', pid)
        shutil.rmtree(self.bdir, ignore_errors=True)
        os.makedirs(self.bdir, exist_ok=True)
        os.makedirs(os.path.join(ROOT, 'replays'), exist_ok=True)
        if not replay:
            for old in glob.glob(os.path.join(ROOT, 'replays', pid + '-*.json')): os.remove(old)
        os.makedirs(os.path.join(ROOT, 'evidence'), exist_ok=True)
        self.rng = random.Random(seed)
        self.violations = []      # dicts: key, what, replay(dict), kind
        self.cov = {'evaluations': 0, 'samples': [], 'generator_histogram': {}}
        self.distinct = set()
        self.theorems = []        # (name, assumptions text)
        self.obligations = 0
        self.discharged = 0
        self.trusted = []
        self.assumptions = []
        self.notes = []
        self.checker_cmds = []
        self.thorough = (tier == 'thorough')
        self._flatcc = {}
        self._rtlib = {}

    # ---------------------------------------------------------------- logging / accounting
    def log(self, *a):
        print('[%s %6.1fs]' % (self.pid, time.time() - self.t0), *a, flush=True)

    def count(self, canonical_input, nontrivial=True, klass=None, n=1):
        """Account for one evaluated case. canonical_input: bytes/str identifying it."""
        self.cov['evaluations'] += n
        if nontrivial:
            h = hashlib.blake2b(canonical_input if isinstance(canonical_input, bytes) else str(canonical_input).encode(), digest_size=8).digest()
            self.distinct.add(h)
        if klass is not None:
            g = self.cov['generator_histogram']
            g[klass] = g.get(klass, 0) + n

    def sample(self, s, limit=8):
        if len(self.cov['samples']) < limit:
            self.cov['samples'].append(s)

    # ---------------------------------------------------------------- building /repo
    def cc(self, srcs, out, san=False, defs=(), incs=(), extra=(), opt='-O1', compiler=None, link=True, std='-std=gnu11', timeout=600):
        cc = compiler or ('clang' if san else 'gcc')
        cmd = [cc, std, opt, '-g', '-w'] + HOOK_DEFS + list(defs) + INCS + list(incs) + (SAN if san else []) + list(extra)
        if not link: cmd += ['-c']
        cmd += list(srcs) + ['-o', out]
        if link: cmd += ['-lm']
        rc, o = sh(cmd, timeout=timeout)
        if rc != 0: raise BuildFailure(' '.join(cmd), o)
        return out

    def objs(self, srcs, tag, san=False, defs=(), incs=(), opt='-O1', compiler=None):
        """Compile /repo-relative sources in parallel to objects under build/<pid>/<tag>/; returns object paths."""
        d = os.path.join(self.bdir, tag); os.makedirs(d, exist_ok=True)
        cc = compiler or ('clang' if san else 'gcc')
        jobs, outs = [], []
        for s in srcs:
            o = os.path.join(d, s.replace('/', '_')[:-2] + '.o')
            src = s if os.path.isabs(s) else os.path.join(REPO, s)
            jobs.append([cc, '-std=c11', opt, '-g', '-w', '-c'] + HOOK_DEFS + list(defs) + list(incs) + (SAN if san else []) + [src, '-o', o])
            outs.append(o)
        par_compile(jobs)
        return outs

    def flatcc(self, san=False):
        """Build the schema compiler CLI from /repo's current sources; returns path."""
        if san in self._flatcc: return self._flatcc[san]
        tag = 'flatcc_san' if san else 'flatcc'
        o = self.objs(COMPILER_SRCS + [CLI_SRC], tag, san=san, defs=['-DFLATCC_REFLECTION=1'], incs=COMPILER_INCS)
        out = os.path.join(self.bdir, tag, 'flatcc')
        cc = 'clang' if san else 'gcc'
        rc, ot = sh([cc] + (SAN if san else []) + o + ['-o', out, '-lm'])
        if rc != 0: raise BuildFailure('link flatcc', ot)
        self._flatcc[san] = out
        return out

    def libflatcc_objs(self, san=False):
        """Objects of the compiler library (no CLI) for harnesses calling flatcc_parse_buffer etc."""
        tag = 'libflatcc_san' if san else 'libflatcc'
        return self.objs(COMPILER_SRCS, tag, san=san, defs=['-DFLATCC_REFLECTION=1'], incs=COMPILER_INCS)

    def rt_objs(self, san=False, defs=(), tag=None, srcs=None):
        key = (san, tuple(defs), tuple(srcs or ()))
        if key in self._rtlib: return self._rtlib[key]
        t = tag or ('rt_san' if san else 'rt') + ('_' + hashlib.md5(' '.join(defs).encode()).hexdigest()[:6] if defs else '')
        o = self.objs(srcs or RUNTIME_SRCS, t, san=san, defs=defs, incs=INCS)
        self._rtlib[key] = o
        return o

    def gen(self, fbs, outdir, opts=('-a',), san=False, extra_inc=()):
        """Run the freshly built flatcc on a schema. Returns (rc, output)."""
        os.makedirs(outdir, exist_ok=True)
        cmd = [self.flatcc(san)] + list(opts) + ['-o', outdir]
        for i in extra_inc: cmd += ['-I', i]
        cmd += [fbs]
        return sh(cmd, timeout=120)

    # ---------------------------------------------------------------- Coq side
    def coq_make(self, targets, timeout=1500):
        """(Re)check the given .vo targets (paths relative to coq/), under the development lock.
        Returns (ok, log). Regenerated Generated/*.v files must already be in place."""
        if not os.path.exists(os.path.join(COQ, 'Makefile')):
            raise CheckError('coq/Makefile missing: run bin/setup first')
        lock = open(os.path.join(COQ, '.lock'), 'w')
        fcntl.flock(lock, fcntl.LOCK_EX)
        try:
            cmd = 'timeout %d make -k -j16 %s' % (timeout, ' '.join(targets))
            self.checker_cmds.append('cd coq && ' + cmd)
            # every coqc is capped at 12 GB of address space: a proof that blows up fails (broken obligation) instead of exhausting the machine
            rc, out = sh('ulimit -v 12000000; ' + cmd, cwd=COQ, timeout=timeout + 30)
        finally:
            fcntl.flock(lock, fcntl.LOCK_UN); lock.close()
        return rc == 0, out

    def write_generated(self, relpath, content):
        """Write coq/<relpath> only when content differs (keeps make timestamps quiet). Returns True if changed."""
        p = os.path.join(COQ, relpath)
        old = open(p).read() if os.path.exists(p) else None
        if old == content: return False
        lock = open(os.path.join(COQ, '.lock'), 'w'); fcntl.flock(lock, fcntl.LOCK_EX)
        try:
            tmp = p + '.tmp%d' % os.getpid()
            open(tmp, 'w').write(content); os.replace(tmp, p)
        finally:
            fcntl.flock(lock, fcntl.LOCK_UN); lock.close()
        return True

    def theorem_names(self, prop_file):
        """Theorem names declared in coq/Properties/<prop_file>."""
        txt = open(os.path.join(COQ, 'Properties', prop_file)).read()
        txt = re.sub(r'\(\*.*?\*\)', '', txt, flags=re.S)
        return re.findall(r'^\s*(?:Theorem|Lemma|Corollary)\s+([A-Za-z0-9_\']+)', txt, flags=re.M)

    def check_theorems(self, prop_module=None, extra_targets=(), timeout=1500):
        """Re-check Properties/Properties_<pid>.vo (and everything it depends on) against the current
        Generated/ files, then ask Coq for Print Assumptions of every theorem in it.
        Returns True when all obligations were discharged. On failure records self.broken (list of names/log)."""
        mod = prop_module or ('Properties_%s' % self.pid)
        names = self.theorem_names(mod + '.v')
        self.obligations += len(names)
        ok, out = self.coq_make(['Properties/%s.vo' % mod] + list(extra_targets), timeout=timeout)
        self.coq_log = out
        if not ok:
            m = re.findall(r'File "([^"]+)", line (\d+)', out)
            self.broken = {'files': sorted(set('%s:%s' % x for x in m)), 'log_tail': out[-3000:]}
            return False
        # Print Assumptions for each theorem (proves the .vo exists, is loadable, and names its axioms)
        v = os.path.join(self.bdir, 'assum_%s.v' % mod)
        with open(v, 'w') as f:
            f.write('From Flatcc.Properties Require Import %s.\n' % mod)
            for n in names:
                f.write('Goal True. idtac "@@ %s". exact I. Qed.\nPrint Assumptions %s.\n' % (n, n))
        rc, o = sh(['coqc', '-Q', COQ, 'Flatcc', v], timeout=300, cwd=self.bdir)
        if rc != 0:
            self.broken = {'files': [], 'log_tail': o[-3000:]}
            return False
        parts = re.split(r'@@ (\S+)\n', o)
        got = {}
        for i in range(1, len(parts) - 1, 2):
            got[parts[i]] = ' '.join(parts[i + 1].split())
        for n in names:
            a = got.get(n, '?')
            self.theorems.append({'theorem': n, 'assumptions': a})
            if n in got: self.discharged += 1
        self.checker_cmds.append('coqc -Q coq Flatcc build/%s/assum_%s.v  (Print Assumptions for every theorem)' % (self.pid, mod))
        return self.discharged == self.obligations

    def modelrun(self, area):
        p = os.path.join(ROOT, 'build', 'modelrun_' + area)
        if not os.path.exists(p):
            rc, out = sh([os.path.join(ROOT, 'bin', 'build_modelrun'), area], timeout=900)
            if not os.path.exists(p): raise CheckError('modelrun_%s missing and could not be built:\n%s' % (area, out))
        return p

    def run_model(self, area, lines, timeout=900):
        """Feed request lines to the extracted model driver; returns the list of reply lines."""
        rc, out, err = sh2([self.modelrun(area)], input='\n'.join(lines) + '\n', timeout=timeout)
        if rc != 0: raise CheckError('modelrun_%s failed rc=%s: %s' % (area, rc, err[-2000:]))
        res = out.split('\n')
        if res and res[-1] == '': res.pop()
        if len(res) != len(lines):
            raise CheckError('modelrun_%s: %d replies for %d requests' % (area, len(res), len(lines)))
        return res

    # ---------------------------------------------------------------- verdicts
    def violation(self, key, what, replay, kind='property-violation'):
        """Record a violation. key identifies the failing input / call site (used to match known findings)."""
        key = re.sub(r'\s+', '_', key)
        for v in self.violations:
            if v['key'] == key: return
        self.violations.append({'key': key, 'what': what, 'replay': replay, 'kind': kind})

    def broken_obligation(self, name, detail, found_input=None):
        """A theorem or correspondence no longer checks and no concrete failing input was found."""
        self.violation('obligation:' + name, 'obligation no longer checks: %s' % name,
                       {'theorem_or_correspondence': name, 'detail': detail}, kind='no-failing-input-found')

    def finish(self, explanation=None, rule=None, extra_cov=None):
        known, fixed = load_findings()
        new = []
        for v in self.violations:
            if (self.pid, v['key']) in known:
                print('KNOWN-FINDING: property=%s key=%s %s' % (self.pid, v['key'], v['what']))
            else:
                new.append(v)
        for v in new:
            h = hashlib.md5(v['key'].encode()).hexdigest()[:10]
            path = os.path.join(ROOT, 'replays', '%s-%s.json' % (self.pid, h))
            rep = {'property': self.pid, 'kind': v['kind'], 'key': v['key'], 'what': v['what'], 'seed': self.seed,
                   'tier': self.tier, 'how_to_replay': 'bin/check %s --replay %s' % (self.pid, path)}
            rep.update(v['replay'] or {})
            json.dump(rep, open(path, 'w'), indent=1, default=str)
            tail = ' no-failing-input-found' if v['kind'] == 'no-failing-input-found' else ''
            print('VIOLATION property=%s replay=%s%s' % (self.pid, path, tail))
            print('   what: %s' % v['what'][:400])
        cov = self.cov
        cov['distinct_nontrivial'] = len(self.distinct)
        cov['rule'] = rule or 'see explanation'
        if explanation: cov['explanation'] = explanation
        cov['obligations'] = self.obligations
        cov['discharged'] = self.discharged
        cov['checker_cmd'] = ' ; '.join(self.checker_cmds) or 'none'
        cov['trusted_base'] = self.trusted or DEFAULT_TRUSTED
        cov['theorems'] = self.theorems
        cov['known_findings_reported'] = [v['key'] for v in self.violations if (self.pid, v['key']) in known]
        if extra_cov: cov.update(extra_cov)
        if not cov['samples']: cov['samples'] = ['(no sample recorded)']
        ev = {'property_id': self.pid, 'tier': self.tier, 'seed': self.seed, 'level': self.level,
              'coverage': cov, 'assumptions': self.assumptions, 'wall_s': round(time.time() - self.t0, 2),
              'violations': len(new), 'notes': self.notes}
        json.dump(ev, open(os.path.join(ROOT, 'evidence', '%s.json' % self.pid), 'w'), indent=1, default=str)
        self.log('done: evaluations=%d distinct_nontrivial=%d obligations=%d/%d violations=%d known=%d' % (
            cov['evaluations'], cov['distinct_nontrivial'], self.discharged, self.obligations, len(new),
            len(self.violations) - len(new)))
        return 1 if new else 0


DEFAULT_TRUSTED = [
    'Coq 8.16.1 kernel (coqc; vm_compute used for finite sweeps and witnesses; no native_compute)',
    'Extraction with ExtrOcamlBasic only (Extract Inductive bool/option/unit/list/prod/sumbool; Z, positive, nat, N kept as Coq datatypes); OCaml 4.13.1',
    'hand-written OCaml driver.ml of each modelrun_<area> (line protocol parsing, hex I/O)',
    'Python harness drivers and C harnesses under /verif/harness (generators, canonicalisation, comparison)',
    'gcc 12 / clang 14 with ASan+UBSan as observers of memory errors on the implementation side',
]


def hexs(b):
    return bytes(b).hex()


def mk_seed():
    try: return int(os.environ.get('VERIF_SEED', '1'))
    except ValueError: return 1


def gen_consts(ctx):
    """T1: compile translators/consts_probe.c against /repo's current headers, write coq/Generated/Consts.v.
    Returns dict name -> int."""
    exe = os.path.join(ctx.bdir, 'consts_probe')
    ctx.cc([os.path.join(ROOT, 'translators', 'consts_probe.c')], exe, incs=['-I%s/src/runtime' % REPO], opt='-O1')
    rc, out, err = sh2([exe])
    if rc != 0: raise CheckError('consts_probe failed: ' + err)
    changed = ctx.write_generated('Generated/Consts.v', out)
    if changed: ctx.log('Generated/Consts.v changed: dependent theorems are re-checked')
    d = {}
    for m in re.finditer(r'Definition (\S+) : Z := (-?\d+)\.', out): d[m.group(1)] = int(m.group(2))
    return d


class Harness:
    """A line-protocol C harness process fed in one batch."""
    def __init__(self, exe, env=None):
        self.exe, self.env = exe, env or {}

    def run(self, lines, timeout=900):
        e = {'ASAN_OPTIONS': 'detect_leaks=0:abort_on_error=0:allocator_may_return_null=1', 'UBSAN_OPTIONS': 'print_stacktrace=1'}
        e.update(self.env)
        rc, out, err = sh2([self.exe], input='\n'.join(lines) + '\n', timeout=timeout, env=e)
        res = out.split('\n')
        if res and res[-1] == '': res.pop()
        return rc, res, err


def run_harness_resilient(h, lines, timeout=900):
    """Run a harness over lines; if it crashes (sanitizer abort) at line k, record ('CRASH', stderr) for line k
    and continue with the remaining lines in a new process. Returns list of replies (str) same length as lines."""
    replies, start = [], 0
    guard = 0
    while start < len(lines):
        rc, res, err = h.run(lines[start:], timeout=timeout)
        replies.extend(res[:len(lines) - start])
        done = start + len(res)
        if done >= len(lines): break
        # crashed on line `done`
        replies.append('CRASH ' + ' '.join(err.strip().split('\n')[:12])[:1500])
        start = done + 1
        guard += 1
        if guard > 200:
            replies.extend(['CRASH (too many crashes)'] * (len(lines) - len(replies)))
            break
    return replies[:len(lines)]
