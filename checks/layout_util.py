"""Helpers shared by checks C07 / C06 / C20 (area `layout`): theorem re-checking with a direct-coqc fallback,
configuration constants from /repo's config.h, schema generation jobs, C probe generation."""
import os, re, sys, random, subprocess, struct, fcntl
from concurrent.futures import ThreadPoolExecutor
from . import lib

sys.path.insert(0, lib.ROOT)
from gen import schema_gen as G   # noqa: E402

LAYOUT_VS = ['Layout/StructLayout.v', 'Layout/LayoutSpec.v', 'Layout/LayoutProofs.v', 'Layout/FieldIds.v', 'Layout/FieldIdsProofs.v',
             'Layout/Protocol.v', 'Layout/Reflect.v']


# ASan + UBSan as in lib.SAN, except that purely arithmetic UB (signed overflow, negation of INT64_MIN at parser.c:473 - a
# confirmed C08 defect -, shifts, float casts) is reported on stderr and execution continues. Memory related UBSan checks
# (null, alignment, bounds, object-size, pointer-overflow) stay fatal.
MYSAN = ['-fsanitize=address,undefined', '-fno-sanitize=nonnull-attribute', '-fno-sanitize-recover=all',
         '-fsanitize-recover=signed-integer-overflow,shift,float-cast-overflow,float-divide-by-zero,integer-divide-by-zero', '-fno-omit-frame-pointer']


def check_theorems(ctx, mod, deps):
    """ctx.check_theorems(); when coq/Makefile does not know the files yet (bin/setup not re-run since they were added),
    compile the dependency chain directly with coqc (same kernel check) and collect Print Assumptions ourselves."""
    ok = ctx.check_theorems(mod)
    if ok: return True
    log = getattr(ctx, 'coq_log', '') or ''
    if 'No rule to make target' not in log:
        return False
    ctx.log('coq/Makefile does not list %s yet: re-checking with coqc directly' % mod)
    lock = open(os.path.join(lib.COQ, '.lock'), 'w'); fcntl.flock(lock, fcntl.LOCK_EX)
    try:
        for v in list(deps) + ['Properties/%s.v' % mod]:
            rc, out = lib.sh(['coqc', '-Q', '.', 'Flatcc', v], cwd=lib.COQ, timeout=1200)
            ctx.checker_cmds.append('cd coq && coqc -Q . Flatcc ' + v)
            if rc != 0:
                ctx.broken = {'files': [v], 'log_tail': out[-3000:]}
                return False
    finally:
        fcntl.flock(lock, fcntl.LOCK_UN); lock.close()
    names = ctx.theorem_names(mod + '.v')
    v = os.path.join(ctx.bdir, 'assum_%s.v' % mod)
    with open(v, 'w') as f:
        f.write('From Flatcc.Properties Require Import %s.\n' % mod)
        for n in names:
            f.write('Goal True. idtac "@@ %s". exact I. Qed.\nPrint Assumptions %s.\n' % (n, n))
    rc, o = lib.sh(['coqc', '-Q', lib.COQ, 'Flatcc', v], timeout=300, cwd=ctx.bdir)
    if rc != 0:
        ctx.broken = {'files': [], 'log_tail': o[-3000:]}
        return False
    parts = re.split(r'@@ (\S+)\n', o)
    got = {parts[i]: ' '.join(parts[i + 1].split()) for i in range(1, len(parts) - 1, 2)}
    ctx.theorems = [t for t in ctx.theorems if t['theorem'] not in names]
    ctx.discharged = 0
    for n in names:
        ctx.theorems.append({'theorem': n, 'assumptions': got.get(n, '?')})
        if n in got: ctx.discharged += 1
    bad = [t for t in ctx.theorems if 'Closed under the global context' not in t['assumptions']]
    if bad:
        ctx.broken = {'files': [], 'log_tail': 'theorems with assumptions: %r' % bad}
        return False
    return ctx.discharged == ctx.obligations


def config_consts(ctx):
    """FLATCC_STRUCT_MAX_SIZE / FORCE_ALIGN_MAX / vt_max_count etc. from /repo's current config.h"""
    exe = os.path.join(ctx.bdir, 'layout_consts')
    ctx.cc([os.path.join(lib.ROOT, 'translators', 'layout_consts.c')], exe, incs=lib.COMPILER_INCS)
    rc, out, err = lib.sh2([exe])
    if rc != 0: raise lib.CheckError('layout_consts failed: ' + err)
    return {k: int(v) for k, v in (l.split() for l in out.strip().split('\n'))}


def pmap(fn, items, n=16):
    with ThreadPoolExecutor(max_workers=n) as ex:
        return list(ex.map(fn, items))


def run(cmd, timeout=120, cwd=None, env=None, binary=False):
    e = lib._limit_env(env)
    try:
        r = subprocess.run(cmd, cwd=cwd, env=e, timeout=timeout, stdout=subprocess.PIPE, stderr=subprocess.PIPE)
        return r.returncode, (r.stdout if binary else r.stdout.decode('utf-8', 'replace')), r.stderr.decode('utf-8', 'replace')
    except subprocess.TimeoutExpired:
        return 124, (b'' if binary else ''), '[timeout %ss]' % timeout


def isu(f):
    return f['type'][0] == 'union' or (f['type'][0] == 'vec' and f['type'][1][0] == 'union')


def f32(v):
    return struct.unpack('<f', struct.pack('<f', v))[0]


# ---------------------------------------------------------------------- compiled probe
PROBE_HEAD = r'''
#include <stdio.h>
#include <stddef.h>
#include <string.h>
#include <stdint.h>
%(includes)s
static uint32_t probe_buf[40000];
static const void *mk(int n, int present)
{
    uint8_t *b = (uint8_t *)probe_buf; uint16_t *vt = (uint16_t *)b; int vtsize = 4 + 2 * n; int tpos = (vtsize + 3) & ~3;
    int32_t so = tpos; uint32_t four = 4;
    memset(b, 0, sizeof(probe_buf));
    vt[0] = (uint16_t)vtsize; vt[1] = 12; if (present >= 0) vt[2 + present] = 4;
    memcpy(b + tpos, &so, 4); memcpy(b + tpos + 4, &four, 4);
    return b + tpos;
}
/* a table whose vtable ENDS after `len` field slots (an older writer): every field with a higher id is absent; the bytes after
   the vtable are non-zero so that a reader looking past its end sees garbage */
static const void *mk_short(int len)
{
    uint8_t *b = (uint8_t *)probe_buf; uint16_t *vt = (uint16_t *)b; int vtsize = 4 + 2 * len; int tpos = (vtsize + 3) & ~3;
    int32_t so = tpos;
    memset(b, 0x11, 4096 + (size_t)tpos);
    memset(b, 0, (size_t)vtsize);
    vt[0] = (uint16_t)vtsize; vt[1] = 12;
    memcpy(b + tpos, &so, 4);
    return b + tpos;
}
int main(void)
{
    int k, spurious; const char *firstf; (void)k; (void)mk; (void)mk_short; (void)spurious; (void)firstf;
'''


def struct_leaves(schema, d, lay, base=0):
    """flattened argument list of <Struct>_assign: (byte offset, size, kind) per scalar / enum leaf in declaration order, nested structs
    expanded; None when the struct (or a nested one) has fixed arrays, deprecated members, bool or char leaves"""
    out = []
    for f, off in zip(d.fields, lay[d][0]):
        t = f['type']
        if f.get('deprecated') or t[0] == 'array': return None
        if t[0] == 'struct':
            sub = struct_leaves(schema, t[1], lay, base + off)
            if sub is None: return None
            out += sub
        else:
            st = G.canon(t[1] if t[0] == 'scalar' else t[1].type)
            k = G.SC[st][1]
            if k in ('bool', 'char'): return None
            out.append((base + off, G.ssize(st), 'f' if k == 'float' else 'i'))
    return out if len(out) <= 60 else None


def probe_source(schema, headers, prefix='', lay=None):
    """C program printing sizeof/alignof/offsetof of every struct, every enum/union constant, the field id each
    compiled table accessor reads (found by presenting tables with exactly one vtable slot set), scalar defaults
    and vector element sizes. Uses only the `_get`-suffixed accessors (present with and without -g)."""
    o = [PROBE_HEAD % {'includes': '\n'.join('#include "%s"' % h for h in headers)}]
    for d in schema.all_decls():
        c = d.cname(prefix)
        if d.kind == 'struct':
            lv = struct_leaves(schema, d, lay) if lay is not None else None
            if lv and any(f['type'][0] == 'struct' for f in d.fields):
                # argument placement of the generated struct constructor: distinct values 1..n, every leaf read back at its rule offset
                o.append('{ %s_t v; long long iv; float fv; double dv; (void)iv; (void)fv; (void)dv; memset(&v, 0, sizeof(v)); %s_assign(&v, %s);' % (
                    c, c, ', '.join(str(k + 1) for k in range(len(lv)))))
                for k, (off, sz, kind) in enumerate(lv):
                    if kind == 'i': o.append('  iv = 0; memcpy(&iv, (char *)&v + %d, %d); printf("A %s %d %%lld\\n", iv);' % (off, sz, c, k))
                    elif sz == 4: o.append('  memcpy(&fv, (char *)&v + %d, 4); printf("A %s %d %%g\\n", (double)fv);' % (off, c, k))
                    else: o.append('  memcpy(&dv, (char *)&v + %d, 8); printf("A %s %d %%g\\n", dv);' % (off, c, k))
                o.append('}')
            o.append('printf("S %s %%zu %%zu\\n", sizeof(%s_t), (size_t)alignof(%s_t));' % (c, c, c))
            dep = 0
            for f in d.fields:
                if f.get('deprecated'):
                    o.append('printf("F %s %s %%zu %%zu\\n", offsetof(%s_t, __deprecated%d), sizeof(((%s_t *)0)->__deprecated%d));' % (c, f['name'], c, dep, c, dep))
                    dep += 1
                else:
                    o.append('printf("F %s %s %%zu %%zu\\n", offsetof(%s_t, %s), sizeof(((%s_t *)0)->%s));' % (c, f['name'], c, f['name'], c, f['name']))
        elif d.kind == 'enum':
            uns = G.SC[G.canon(d.type)][1] in ('uint', 'bool')
            o.append('printf("W %s %%zu\\n", sizeof(%s_enum_t));' % (c, c))
            for n, v in d.values():
                o.append('printf("E %s %s %s\\n", (%s)%s_%s);' % (c, n, '%llu' if uns else '%lld', 'unsigned long long' if uns else 'long long', c, n))
        elif d.kind == 'union':
            for n, v, _ in d.values():
                o.append('printf("E %s %s %%llu\\n", (unsigned long long)%s_%s);' % (c, n, c, n))
        elif d.kind == 'table':
            ids = schema.expected_ids(d)
            n = sum(2 if isu(f) else 1 for f in d.fields)
            live = [f for f in d.fields if not f.get('deprecated')]
            if n >= 4000: continue
            o.append('for (k = 0; k < %d; ++k) { %s_table_t t = (%s_table_t)mk(%d, k);' % (n, c, c, n))
            for f in live:
                o.append('  if (%s_%s_is_present(t)) printf("I %s %s %%d\\n", k);' % (c, f['name'], c, f['name']))
                if isu(f):
                    o.append('  if (%s_%s_type_get(t)) printf("IT %s %s %%d\\n", k);' % (c, f['name'], c, f['name']))
            o.append('}')
            # vtables truncated at every length: a field whose slot lies beyond the end must read absent (also the hidden type fields)
            o.append('spurious = 0; firstf = "-"; for (k = 0; k < %d; ++k) { %s_table_t t = (%s_table_t)mk_short(k);' % (n, c, c))
            for f, (idv, tv) in zip(d.fields, ids):
                if f.get('deprecated'): continue
                o.append('  if (k <= %d && %s_%s_is_present(t)) { if (!spurious++) firstf = "%s"; }' % (idv, c, f['name'], f['name']))
                if isu(f):
                    o.append('  if (k <= %d && %s_%s_type_get(t)) { if (!spurious++) firstf = "%s_type"; }' % (tv, c, f['name'], f['name']))
            o.append('}')
            o.append('printf("X %s %%d %%s\\n", spurious, firstf);' % c)
            o.append('{ %s_table_t t = (%s_table_t)mk(%d, -1); (void)t;' % (c, c, n))
            for f in live:
                t = f['type']; nm = f['name']
                dflt = f.get('default')
                if t[0] in ('scalar', 'enum'):
                    st = G.canon(t[1] if t[0] == 'scalar' else t[1].type)
                    k = G.SC[st][1]
                    if dflt is not None and dflt[0] == 'null':
                        o.append('  printf("O %s %s %%d\\n", (int)%s_%s_option(t).is_null);' % (c, nm, c, nm))
                    if k == 'float':
                        o.append('  printf("D %s %s %%a\\n", (double)%s_%s_get(t));' % (c, nm, c, nm))
                    elif k in ('uint', 'bool'):
                        o.append('  printf("D %s %s %%llu\\n", (unsigned long long)%s_%s_get(t));' % (c, nm, c, nm))
                    else:
                        o.append('  printf("D %s %s %%lld\\n", (long long)%s_%s_get(t));' % (c, nm, c, nm))
                    o.append('  printf("Z %s %s %%zu\\n", sizeof(%s_%s_get(t)));' % (c, nm, c, nm))
                elif t[0] == 'vec':
                    o.append('  printf("V %s %s %%zu\\n", sizeof(%s_%s_get(t)[0]));' % (c, nm, c, nm))
                    if isu(f):
                        o.append('  printf("VT %s %s %%zu\\n", sizeof(%s_%s_type_get(t)[0]));' % (c, nm, c, nm))
                elif t[0] == 'struct':
                    o.append('  printf("V %s %s %%zu\\n", sizeof(*%s_%s_get(t)));' % (c, nm, c, nm))
            o.append('}')
    o.append('return 0; }')
    return '\n'.join(o) + '\n'


def expected_probe(schema, lay, ids_of, prefix=''):
    """the probe output the layout rules predict: dict line-key -> value string"""
    exp = {}
    for d in schema.all_decls():
        c = d.cname(prefix)
        if d.kind == 'struct':
            offs, size, al = lay[d]
            exp['S %s' % c] = '%d %d' % (size, al)
            for f, off in zip(d.fields, offs):
                es, ea, n = (1, 1, f['type'][2]) if (f['type'][0] == 'array' and f['type'][1] == ('scalar', 'char')) else schema.member_desc(f['type'], lay)
                exp['F %s %s' % (c, f['name'])] = '%d %d' % (off, es * n)
            lv = struct_leaves(schema, d, lay)
            if lv and any(f['type'][0] == 'struct' for f in d.fields):
                for k in range(len(lv)): exp['A %s %d' % (c, k)] = str(k + 1)
        elif d.kind == 'enum':
            exp['W %s' % c] = str(G.ssize(d.type))
            for n, v in d.values(): exp['E %s %s' % (c, n)] = str(v)
        elif d.kind == 'union':
            for n, v, _ in d.values(): exp['E %s %s' % (c, n)] = str(v)
        elif d.kind == 'table':
            ids = ids_of[d]
            if sum(2 if isu(f) else 1 for f in d.fields) >= 4000: continue
            exp['X %s' % c] = '0 -'
            for f, (v, tv) in zip(d.fields, ids):
                if f.get('deprecated'): continue
                nm = f['name']
                exp['I %s %s' % (c, nm)] = str(v)
                if isu(f): exp['IT %s %s' % (c, nm)] = str(tv)
                t = f['type']; dflt = f.get('default')
                if t[0] in ('scalar', 'enum'):
                    st = G.canon(t[1] if t[0] == 'scalar' else t[1].type)
                    k = G.SC[st][1]
                    if dflt is not None and dflt[0] == 'null': exp['O %s %s' % (c, nm)] = '1'
                    dv = 0
                    if dflt is not None:
                        if dflt[0] == 'int': dv = dflt[1]
                        elif dflt[0] == 'bool': dv = int(dflt[1])
                        elif dflt[0] == 'enum': dv = dflt[2]
                        elif dflt[0] == 'float': dv = dflt[2]
                    if k == 'float':
                        fv = f32(float(dv)) if st == 'float' else float(dv)
                        exp['D %s %s' % (c, nm)] = float(fv).hex()
                    else:
                        exp['D %s %s' % (c, nm)] = str(int(dv))
                    exp['Z %s %s' % (c, nm)] = str(G.ssize(st))
                elif t[0] == 'vec':
                    e = t[1]
                    if e[0] == 'scalar': sz = G.ssize(e[1])
                    elif e[0] == 'enum': sz = G.ssize(e[1].type)
                    elif e[0] == 'struct': sz = lay[e[1]][1]
                    else: sz = 4
                    exp['V %s %s' % (c, nm)] = str(sz)
                    if isu(f): exp['VT %s %s' % (c, nm)] = '1'
                elif t[0] == 'struct':
                    exp['V %s %s' % (c, nm)] = str(lay[t[1]][1])
    return exp


def parse_probe(out):
    got = {}
    for l in out.split('\n'):
        p = l.split()
        if not p: continue
        if p[0] in ('S', 'W', 'X'): got['%s %s' % (p[0], p[1])] = ' '.join(p[2:])
        elif p[0] in ('I', 'IT'):
            key = '%s %s %s' % (p[0], p[1], p[2])
            got[key] = (got[key] + ',' + p[3]) if key in got else p[3]
        elif p[0] == 'D' and len(p) == 4 and ('0x' in p[3] or 'inf' in p[3] or 'nan' in p[3]):
            try: got['D %s %s' % (p[1], p[2])] = float.fromhex(p[3]).hex()
            except ValueError: got['D %s %s' % (p[1], p[2])] = p[3]
        else: got['%s %s %s' % (p[0], p[1], p[2])] = ' '.join(p[3:])
    return got
