"""C04, parser layer: tie between coq/Json/ParserModel.v (extracted: build/modelrun_jsonparser) and the generated
`<T>_parse_json_as_root` of gen/c04_schema.fbs (harness/json_scan_diff.c, request `parse`).

    parser_model_check(ctx, cases, harness=None) -> (mismatches, stats)

cases: iterable of (root, flags, fidmode, data[, klass]) with root in FRAG_ROOTS ('Leaf', 'Rec', 'Req': the root types of
gen/c04_schema.fbs whose tables lie in the modelled fragment), flags = parser flag bits, fidmode 0|1 (identifier "C4RT"),
data = the input bytes.  Per case the C parser and the model run on the same bytes and are compared on
  accept / reject, ctx.error and ctx.error_loc on reject, end_loc on accept, the finished buffer BYTE FOR BYTE
  (model: create-level script of the parser model executed by Builder/EmitModel.run), the value tree (Format/Spec.decode_root
  of the C-built bytes = the model's value), and the C verifier's verdict on the C-built bytes (must accept).
A model result STOP 2 (symbolic constants, floats: outside the modelled fragment) is counted and skipped; STOP 0 / 1 (a read
outside the input / out of fuel) contradicts C04_parser_terminates / C04_parser_positions_in_input and is a mismatch.
"""
import os, re
from . import lib
from . import c04_util as U

ROOT = lib.ROOT
FRAG_TABLES = ['Leaf', 'Rec', 'Req']          # table index in the descriptor = position in this list
FRAG_ROOTS = list(FRAG_TABLES)
SIZES = {'byte': (1, 'i'), 'ubyte': (1, 'u'), 'short': (2, 'i'), 'ushort': (2, 'u'), 'int': (4, 'i'), 'uint': (4, 'u'),
         'long': (8, 'i'), 'ulong': (8, 'u'), 'bool': (1, 'b')}
IDENT_WORD = int.from_bytes(b'C4RT', 'little')


def _sty(t):
    if t in U.ENUMS: t = U.ENUMS[t]['base']
    return SIZES[t]


def _kind(t, dflt):
    if isinstance(t, tuple):
        assert t[0] == 'vec'
        if t[1] == 'string': return 'V'
        if t[1] in FRAG_TABLES: return 'T%d' % FRAG_TABLES.index(t[1])
        sz, k = _sty(t[1]); return 'v%d%s' % (sz, k)
    if t == 'string': return 'S'
    if t in FRAG_TABLES: return 't%d' % FRAG_TABLES.index(t)
    sz, k = _sty(t)
    d = int(dflt) & ((1 << (8 * sz)) - 1)
    return 's%d%s:%s' % (sz, k, d.to_bytes(sz, 'little').hex())


def descriptor(tables=None, required=None, names=None):
    """text descriptor of the fragment tables for modelrun_jsonparser (see ocaml/jsonparser/driver.ml)"""
    tables = tables or U.TABLES; required = U.REQUIRED if required is None else required; names = names or FRAG_TABLES
    out = []
    for tn in names:
        fs = []
        for fid, (f, t, d) in enumerate(tables[tn]):
            fs.append('%s:%d:%d:%s' % (f.encode().hex(), fid, 1 if (tn, f) in required else 0, _kind(t, d)))
        out.append(','.join(fs))
    return ';'.join(out)


def parse_max_levels():
    """FLATCC_JSON_PARSE_MAX_LEVELS of the current tree (the theorems need it <= FLATCC_VERIFIER_MAX_LEVELS)"""
    txt = open(os.path.join(lib.REPO, 'src/runtime/json_parser.c')).read()
    m = re.search(r'#define\s+FLATCC_JSON_PARSE_MAX_LEVELS\s+(\d+)', txt)
    return int(m.group(1)) if m else None


def ensure_model(ctx):
    """(re)build build/modelrun_jsonparser when the extracted model or the driver is newer"""
    exe = os.path.join(ROOT, 'build', 'modelrun_jsonparser')
    srcs = [os.path.join(ROOT, 'ocaml', 'jsonparser', x) for x in ('model.ml', 'driver.ml')]
    if not os.path.exists(srcs[0]):
        ok, out = ctx.coq_make(['Extract/Extract_jsonparser.vo'])
        if not os.path.exists(srcs[0]): raise lib.CheckError('extraction of the parser model failed:\n' + out[-2000:])
    if not os.path.exists(exe) or any(os.path.getmtime(s) > os.path.getmtime(exe) for s in srcs if os.path.exists(s)):
        rc, out = lib.sh([os.path.join(ROOT, 'bin', 'build_modelrun'), 'jsonparser'], timeout=900)
        if not os.path.exists(exe): raise lib.CheckError('modelrun_jsonparser could not be built:\n' + out[-2000:])
    return exe


def build_harness(ctx):
    gdir = U.gen_schema(ctx)
    return U.build_harness(ctx, 'json_scan_diff.c', 'json_scan_diff_b', gdir)


def parser_model_check(ctx, cases, harness=None, c_replies=None):
    """Returns (mismatches, stats). mismatch = dict(key, what, replay). c_replies: replies of `parse <root> <flags> <fid> 1 <hex>`
    requests already obtained by the caller (same order as cases), else the harness is run here."""
    ensure_model(ctx)
    cases = [tuple(c) + (('case',) if len(c) == 4 else ()) for c in cases]
    H = harness
    maxlvl = parse_max_levels()
    stats = {'cases': len(cases), 'outside': 0, 'c_abnormal': 0, 'accept': 0, 'reject': 0, 'maxlvl': maxlvl}
    mism = []
    if maxlvl is None:
        # before the nesting-bound commit: no bound in the code; the model is run with the verifier's limit
        mism.append({'key': 'parser-max-levels-missing', 'what': 'FLATCC_JSON_PARSE_MAX_LEVELS not defined in json_parser.c', 'replay': {}})
        maxlvl = 100
    elif maxlvl > 100:
        mism.append({'key': 'parser-max-levels-above-verifier', 'what': 'FLATCC_JSON_PARSE_MAX_LEVELS = %d > 100: side condition of C04_parse_ok_verifies_partial' % maxlvl, 'replay': {}})
    desc = descriptor()
    if c_replies is None:
        if H is None: H = build_harness(ctx)
        reqs = ['parse %s %d %d 1 %s' % (root, flags, fid, U.hx(data)) for root, flags, fid, data, _ in cases]
        c_replies = U.run_resilient(H, reqs)
    mreqs = []
    for (root, flags, fid, data, _), rep in zip(cases, c_replies):
        r0, _ub = U.split_ub(rep)
        f = r0.split()
        cb = f[5] if (f[:1] == ['OK'] and len(f) >= 6) else '-'
        if cb.startswith('ASAN'): cb = '-'
        mreqs.append('parse %d %d %d %d %s %s %s' % (maxlvl, FRAG_TABLES.index(root), flags, IDENT_WORD if fid else 0, desc, U.hx(data), cb))
    mreps = ctx.run_model('jsonparser', mreqs) if mreqs else []
    for (root, flags, fid, data, klass), rep, mrep, mreq in zip(cases, c_replies, mreps, mreqs):
        r0, _ub = U.split_ub(rep)
        f = r0.split(); m = mrep.split()
        replay = {'root': root, 'flags': flags, 'fidmode': fid, 'input_hex': U.hx(data)[:8000], 'input_text': data[:300].decode('latin-1'),
                  'c_reply': rep[:400], 'model_reply': mrep[:400], 'class': klass,
                  'harness_line': 'parse %s %d %d 1 %s' % (root, flags, fid, U.hx(data)) if len(data) <= 4000 else '(long input)'}

        def bad(key, what):
            mism.append({'key': key + ':' + root, 'what': '%s; input %r' % (what, data[:120]), 'replay': replay})
        if m[:1] == ['STOP']:
            if m[1] == '2': stats['outside'] += 1
            else: bad('model-stop-%s' % m[1], 'parser model returned STOP %s (read outside the input / out of fuel)' % m[1])
            continue
        if m[:1] not in (['OK'], ['ERR']):
            bad('model-reply', 'unexpected model reply %s' % mrep[:100]); continue
        if f[:1] not in (['OK'], ['ERR']) or 'ASAN' in r0:
            stats['c_abnormal'] += 1       # sanitizer report / crash / hang: C04's own oracle reports these
            continue
        if f[0] == 'OK' and m[0] == 'ERR':
            bad('c-accepts-model-rejects', 'C parser reports success, the model error %s at %s (the model script would be ill-typed)' % (m[1], m[2])); continue
        if f[0] == 'ERR' and m[0] == 'OK':
            bad('c-rejects-model-accepts', 'C parser reports error %s at %s, the model success' % (f[2], f[3])); continue
        if f[0] == 'ERR':
            stats['reject'] += 1
            if (f[2], f[3]) != (m[1], m[2]):
                bad('error-differs', 'C error %s at %s, model error %s at %s' % (f[2], f[3], m[1], m[2]))
            continue
        stats['accept'] += 1
        # OK <end_loc> <size> <verify rc> <fnv> <hex>
        if f[1] != m[1]: bad('end-loc-differs', 'C end_loc %s, model %s' % (f[1], m[1]))
        if f[3] != '0': bad('accepted-buffer-rejected-by-verifier', 'verifier rc %s on the buffer of an accepted parse' % f[3])
        if len(f) >= 6:
            if m[2] == 'NOBUF': bad('model-builder-run-fails', 'EmitModel.run of the model script returned None')
            elif m[2] != f[5]: bad('bytes-differ', 'finished buffer differs: C %s..., model %s...' % (f[5][:64], m[2][:64]))
            if m[3] != 'D1': bad('value-differs', 'Spec.decode_root of the C-built buffer is not the value tree of the model')
    return mism, stats
