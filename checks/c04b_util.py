"""C04, parser layer: tie between coq/Json/ParserModel.v (extracted: build/modelrun_jsonparser) and the generated
`<T>_parse_json_as_root` of gen/c04_schema.fbs (harness/json_scan_diff.c, request `parse`).

    parser_model_check(ctx, cases, harness=None, c_replies=None, suite=None) -> (mismatches, stats)

cases: iterable of (root, flags, fidmode, data[, klass]) with root in suite.roots (default suite SUITE_C04: 'Leaf', 'Rec', 'Req',
the root types of gen/c04_schema.fbs whose tables lie in the modelled fragment, harness/json_scan_diff.c; SUITE_B4: 'Item', 'Doc' of
gen/c04b_schema.fbs with every field kind of the fragment, harness/c04b_parse.c), flags = parser flag bits, fidmode 0|1 (file
identifier), data = the input bytes.  Per case the C parser and the model run on the same bytes and are compared on
  accept / reject, ctx.error and ctx.error_loc on reject, end_loc on accept, the finished buffer BYTE FOR BYTE
  (model: create-level script of the parser model executed by Builder/EmitModel.run), the value tree (Format/Spec.decode_root
  of the C-built bytes = the model's value), and the C verifier's verdict on the C-built bytes (must accept).
A model result STOP 2 (symbolic constants, floats: outside the modelled fragment) is counted and skipped; STOP 0 / 1 (a read
outside the input / out of fuel) contradicts C04_parser_terminates / C04_parser_positions_in_input and is a mismatch.
"""
import os, re
from . import lib
from . import c04_util as U

ROOT = lib.ROOT
LONG_DIGITS = re.compile(rb'\d{20,}')
SIZES = {'byte': (1, 'i'), 'ubyte': (1, 'u'), 'short': (2, 'i'), 'ushort': (2, 'u'), 'int': (4, 'i'), 'uint': (4, 'u'),
         'long': (8, 'i'), 'ulong': (8, 'u'), 'bool': (1, 'b')}


class Suite:
    """one schema + harness: tables = {name: [(field, type, default)]} in the notation of c04_util.TABLES, frag = the tables
    of the modelled fragment in descriptor order (table index = position)"""
    def __init__(self, name, fbs, harness_src, tables, required, enums, frag, ident):
        self.name, self.fbs, self.harness_src, self.tables, self.required, self.enums = name, fbs, harness_src, tables, required, enums
        self.frag, self.roots, self.ident_word = list(frag), list(frag), int.from_bytes(ident, 'little')
        self._desc = None

    def sty(self, t):
        if t in self.enums: t = self.enums[t]['base']
        return SIZES[t]

    def kind(self, t, dflt):
        if isinstance(t, tuple):
            assert t[0] == 'vec'
            if t[1] == 'string': return 'V'
            if t[1] in self.frag: return 'T%d' % self.frag.index(t[1])
            sz, k = self.sty(t[1]); return 'v%d%s' % (sz, k)
        if t == 'string': return 'S'
        if t in self.frag: return 't%d' % self.frag.index(t)
        sz, k = self.sty(t)
        d = int(dflt) & ((1 << (8 * sz)) - 1)
        return 's%d%s:%s' % (sz, k, d.to_bytes(sz, 'little').hex())

    def descriptor(self):
        """text descriptor of the fragment tables for modelrun_jsonparser (see ocaml/jsonparser/driver.ml)"""
        if self._desc is None:
            out = []
            for tn in self.frag:
                fs = []
                for fid, (f, t, d) in enumerate(self.tables[tn]):
                    fs.append('%s:%d:%d:%s' % (f.encode().hex(), fid, 1 if (tn, f) in self.required else 0, self.kind(t, d)))
                out.append(','.join(fs))
            self._desc = ';'.join(out)
        return self._desc

    def build_harness(self, ctx):
        gdir = os.path.join(ctx.bdir, 'gen_' + self.name)
        rc, out = ctx.gen(os.path.join(ROOT, 'gen', self.fbs), gdir, opts=('-a', '--json'))
        if rc != 0: raise lib.BuildFailure('flatcc -a --json ' + self.fbs, out)
        if self.harness_src == 'json_scan_diff.c':
            return U.build_harness(ctx, self.harness_src, 'json_scan_diff_b', gdir)
        exe = os.path.join(ctx.bdir, 'c04b_parse_' + self.name)
        ctx.cc([os.path.join(ROOT, 'harness', self.harness_src)] + [os.path.join(lib.REPO, 'src/runtime', x) for x in
               ('builder.c', 'emitter.c', 'refmap.c', 'verifier.c', 'json_parser.c')], exe, incs=['-I' + gdir, '-I' + os.path.join(ROOT, 'harness')], defs=['-DNDEBUG'])
        return lib.Harness(exe)


# the root types of gen/c04_schema.fbs whose tables lie in the fragment (harness/json_scan_diff.c)
SUITE_C04 = Suite('c04', 'c04_schema.fbs', 'json_scan_diff.c', U.TABLES, U.REQUIRED, U.ENUMS, ['Leaf', 'Rec', 'Req'], b'C4RT')
# gen/c04b_schema.fbs: every field kind of the fragment (harness/c04b_parse.c)
B4_ENUMS = {'Kind': {'base': 'ubyte', 'syms': {'K0': 0, 'K1': 1, 'K5': 5}, 'flags': False}}
B4_TABLES = {
    'Item': [('id', 'uint', 0), ('name', 'string', None), ('tags', ('vec', 'string'), None), ('ok', 'bool', 1), ('w', 'ushort', 7)],
    'Doc': [('b', 'bool', 0), ('i8', 'byte', -3), ('u8', 'ubyte', 0), ('i16', 'short', 0), ('u16', 'ushort', 500), ('i32', 'int', 0),
            ('u32', 'uint', 4000000000), ('i64', 'long', -1), ('u64', 'ulong', 0), ('kind', 'Kind', 1), ('title', 'string', None),
            ('names', ('vec', 'string'), None), ('vb', ('vec', 'bool'), None), ('vu8', ('vec', 'ubyte'), None), ('vi16', ('vec', 'short'), None),
            ('vu64', ('vec', 'ulong'), None), ('vi64', ('vec', 'long'), None), ('vk', ('vec', 'Kind'), None), ('item', 'Item', None),
            ('items', ('vec', 'Item'), None), ('sub', 'Doc', None), ('subs', ('vec', 'Doc'), None), ('na', 'int', 0), ('nam', 'int', 0),
            ('name8888', 'int', 0), ('name88889', 'int', 0), ('a_long_field_name_x', 'string', None), ('a_long_field_name_xy', ('vec', 'string'), None)],
}
SUITE_B4 = Suite('b4', 'c04b_schema.fbs', 'c04b_parse.c', B4_TABLES, {('Item', 'name')}, B4_ENUMS, ['Item', 'Doc'], b'B4DC')
SUITES = {'c04': SUITE_C04, 'b4': SUITE_B4}
FRAG_ROOTS = SUITE_C04.roots


# ---------------------------------------------------------------------------------------------- generic value trees / rendering
def gen_scalar(rng, suite, t):
    if t == 'bool': return rng.random() < 0.5
    if t in suite.enums:
        e = suite.enums[t]; lo, hi = U.INT_RANGES[e['base']]
        return rng.choice(list(e['syms'].values())) if rng.random() < 0.8 else rng.choice([lo, hi, 0, 3])
    lo, hi = U.INT_RANGES[t]
    c = [x for x in U.BOUNDARY_INTS(lo, hi) if lo <= x <= hi]
    return rng.choice(c) if rng.random() < 0.6 else rng.randint(lo, hi)


def gen_value(rng, suite, t, depth, g):
    if isinstance(t, tuple):
        n = rng.choice([0, 1, 2, 3, rng.randint(0, 5)]) if depth < 2 else rng.choice([0, 1])
        if t[1] in suite.tables and depth >= 2: n = 0
        return [gen_value(rng, suite, t[1], depth + 1, g) for _ in range(n)]
    if t == 'string': return g.string()
    if t in suite.tables: return gen_table(rng, suite, t, depth, g)
    return gen_scalar(rng, suite, t)


def gen_table(rng, suite, name, depth=0, g=None):
    g = g or U.Gen(rng)
    out = {}
    pp = rng.choice([0.1, 0.3, 0.6, 1.0]) if depth == 0 else rng.choice([0.05, 0.15, 0.3])
    for f, t, d in suite.tables[name]:
        req = (name, f) in suite.required
        if not req and rng.random() > pp: continue
        nested = t in suite.tables or (isinstance(t, tuple) and t[1] in suite.tables)
        if nested and depth >= 2 and not req: continue
        out[f] = gen_value(rng, suite, t, depth, g)
    return out


def render_scalar(suite, t, v, st):
    if t == 'bool':
        return (b'true' if v else b'false') if st.r.random() < 0.8 else (b'1' if v else b'0')
    if t in suite.enums and st.enum_mode != 'num':
        inv = {val: k for k, val in suite.enums[t]['syms'].items()}
        if v in inv: return inv[v].encode() if (st.enum_mode == 'bare' and not st.quote_keys) else b'"' + inv[v].encode() + b'"'
    return str(int(v)).encode()


def render_value(suite, t, v, st):
    if isinstance(t, tuple): return U.render_arr([render_value(suite, t[1], x, st) for x in v], st)
    if t == 'string': return U.esc_string(v, st)
    if t in suite.tables: return render_table(suite, t, v, st)
    return render_scalar(suite, t, v, st)


def render_table(suite, name, v, st):
    parts = [(f, render_value(suite, t, v[f], st)) for f, t, d in suite.tables[name] if f in v]
    if st.shuffle: st.r.shuffle(parts)
    return U.render_obj(parts, st)


def parse_max_levels():
    """FLATCC_JSON_PARSE_MAX_LEVELS of the current tree (the theorems need it <= FLATCC_VERIFIER_MAX_LEVELS)"""
    txt = open(os.path.join(lib.REPO, 'src/runtime/json_parser.c')).read()
    m = re.search(r'#define\s+FLATCC_JSON_PARSE_MAX_LEVELS\s+(\d+)', txt)
    return int(m.group(1)) if m else None


def ensure_model(ctx):
    """(re)build build/modelrun_jsonparser when the extracted model or the driver is newer"""
    exe = os.path.join(ROOT, 'build', 'modelrun_jsonparser')
    srcs = [os.path.join(ROOT, 'ocaml', 'jsonparser', x) for x in ('model.ml', 'driver.ml')]
    if not os.path.exists(srcs[0]):
        ok, out = ctx.coq_make(['Extract/Extract_jsonparser.vo'])
        if not os.path.exists(srcs[0]): raise lib.CheckError('extraction of the parser model failed:\n' + out[-2000:])
    if not os.path.exists(exe) or any(os.path.getmtime(s) > os.path.getmtime(exe) for s in srcs if os.path.exists(s)):
        rc, out = lib.sh([os.path.join(ROOT, 'bin', 'build_modelrun'), 'jsonparser'], timeout=900)
        if not os.path.exists(exe): raise lib.CheckError('modelrun_jsonparser could not be built:\n' + out[-2000:])
    return exe


def build_harness(ctx, suite=None):
    return (suite or SUITE_C04).build_harness(ctx)


def parser_model_check(ctx, cases, harness=None, c_replies=None, suite=None):
    """Returns (mismatches, stats). mismatch = dict(key, what, replay). c_replies: replies of `parse <root> <flags> <fid> 1 <hex>`
    requests already obtained by the caller (same order as cases), else the harness is run here."""
    ensure_model(ctx)
    suite = suite or SUITE_C04
    cases = [tuple(c) + (('case',) if len(c) == 4 else ()) for c in cases]
    H = harness
    maxlvl = parse_max_levels()
    stats = {'cases': len(cases), 'outside': 0, 'c_abnormal': 0, 'long_digit_runs': 0, 'accept': 0, 'reject': 0, 'maxlvl': maxlvl}
    mism = []
    if maxlvl is None:
        # before the nesting-bound commit: no bound in the code; the model is run with the verifier's limit
        mism.append({'key': 'parser-max-levels-missing', 'what': 'FLATCC_JSON_PARSE_MAX_LEVELS not defined in json_parser.c', 'replay': {}})
        maxlvl = 100
    elif maxlvl > 100:
        mism.append({'key': 'parser-max-levels-above-verifier', 'what': 'FLATCC_JSON_PARSE_MAX_LEVELS = %d > 100: side condition of C04_parse_ok_verifies_partial' % maxlvl, 'replay': {}})
    desc = suite.descriptor()
    if c_replies is None:
        if H is None: H = suite.build_harness(ctx)
        reqs = ['parse %s %d %d 1 %s' % (root, flags, fid, U.hx(data)) for root, flags, fid, data, _ in cases]
        c_replies = U.run_resilient(H, reqs)
    mreqs = []
    for (root, flags, fid, data, _), rep in zip(cases, c_replies):
        r0, _ub = U.split_ub(rep)
        f = r0.split()
        cb = f[5] if (f[:1] == ['OK'] and len(f) >= 6) else '-'
        if cb.startswith('ASAN'): cb = '-'
        mreqs.append('parse %d %d %d %d %s %s %s' % (maxlvl, suite.frag.index(root), flags, suite.ident_word if fid else 0, desc, U.hx(data), cb))
    mreps = ctx.run_model('jsonparser', mreqs) if mreqs else []
    for (root, flags, fid, data, klass), rep, mrep, mreq in zip(cases, c_replies, mreps, mreqs):
        r0, _ub = U.split_ub(rep)
        f = r0.split(); m = mrep.split()
        replay = {'root': root, 'flags': flags, 'fidmode': fid, 'input_hex': U.hx(data)[:8000], 'input_text': data[:300].decode('latin-1'),
                  'c_reply': rep[:400], 'model_reply': mrep[:400], 'class': klass,
                  'harness_line': 'parse %s %d %d 1 %s' % (root, flags, fid, U.hx(data)) if len(data) <= 4000 else '(long input)'}

        def bad(key, what):
            mism.append({'key': key + ':' + root, 'what': '%s; input %r' % (what, data[:120]), 'replay': replay})
        if any(int(x) >= 2 ** 64 for x in LONG_DIGITS.findall(data)):
            # digit runs denoting values >= 2^64 are compared like everything else since Scanner.integer carries the overflow test of
            # /repo HEAD (x > (UINT64_MAX - d) / 10); only counted here
            stats['long_digit_runs'] += 1
        if m[:1] == ['STOP']:
            if m[1] == '2': stats['outside'] += 1
            else: bad('model-stop-%s' % m[1], 'parser model returned STOP %s (read outside the input / out of fuel)' % m[1])
            continue
        if m[:1] not in (['OK'], ['ERR']):
            bad('model-reply', 'unexpected model reply %s' % mrep[:100]); continue
        if f[:1] not in (['OK'], ['ERR']) or 'ASAN' in r0:
            stats['c_abnormal'] += 1       # sanitizer report / crash / hang: C04's own oracle reports these
            continue
        if f[0] == 'OK' and m[0] == 'ERR':
            bad('c-accepts-model-rejects', 'C parser reports success, the model error %s at %s (the model script would be ill-typed)' % (m[1], m[2])); continue
        if f[0] == 'ERR' and m[0] == 'OK':
            bad('c-rejects-model-accepts', 'C parser reports error %s at %s, the model success' % (f[2], f[3])); continue
        if f[0] == 'ERR':
            stats['reject'] += 1
            if f[2] == m[1] == '13' and int(f[3]) > int(m[2]) and (int(f[3]) - int(m[2])) % 8 == 0 and int(f[3]) - int(m[2]) <= 24:
                # unknown_symbol: the generated trie reports the position it has advanced to (buf += 8 per matched 8-byte window of a
                # declared longer name); the model, which abstracts the trie as exact lookup, reports the start of the symbol
                stats['unknown_symbol_loc_in_name'] = stats.get('unknown_symbol_loc_in_name', 0) + 1
            elif (f[2], f[3]) != (m[1], m[2]):
                bad('error-differs', 'C error %s at %s, model error %s at %s' % (f[2], f[3], m[1], m[2]))
            continue
        stats['accept'] += 1
        # OK <end_loc> <size> <verify rc> <fnv> <hex>
        if f[1] != m[1]: bad('end-loc-differs', 'C end_loc %s, model %s' % (f[1], m[1]))
        if f[3] != '0': bad('accepted-buffer-rejected-by-verifier', 'verifier rc %s on the buffer of an accepted parse' % f[3])
        if len(f) >= 6:
            if m[2] == 'NOBUF': bad('model-builder-run-fails', 'EmitModel.run of the model script returned None')
            elif m[2] != f[5]: bad('bytes-differ', 'finished buffer differs: C %s..., model %s...' % (f[5][:64], m[2][:64]))
            if m[3] != 'D1': bad('value-differs', 'Spec.decode_root of the C-built buffer is not the value tree of the model')
    return mism, stats


def c04_hook(ctx, harness, cases, check_theorems=True, own_suite_docs=150):
    """Entry point for checks/c04.py: re-check Properties_C04b.vo, run the parser-model tie on the caller's cases whose root lies in the
    fragment (roots 'Leaf', 'Rec', 'Req'; harness = the caller's json_scan_diff harness) and on documents of gen/c04b_schema.fbs
    (own harness, built here); every mismatch becomes ctx.violation('corr:parser-model:<key>', ...).  Returns the statistics."""
    from . import c04b_selftest as S
    out = {}
    if check_theorems:
        if not ctx.check_theorems('Properties_C04b', extra_targets=['Extract/Extract_jsonparser.vo']):
            ctx.broken_obligation('Properties_C04b.vo', getattr(ctx, 'broken', {}))
    maxlvl = parse_max_levels() or 100
    cs = [tuple(c) for c in cases if c[0] in SUITE_C04.roots] + S.deep_cases(maxlvl)
    runs = [(SUITE_C04, harness, cs)]
    if own_suite_docs:
        runs.append((SUITE_B4, SUITE_B4.build_harness(ctx), S.b4_hand() + S.b4_deep(maxlvl) + S.gdoc_cases(ctx.rng, SUITE_B4, own_suite_docs)))
    for suite, H, cs in runs:
        mism, stats = parser_model_check(ctx, cs, harness=H, suite=suite)
        out[suite.name] = stats
        for c in cs:
            ctx.count(b'parser-model:' + suite.name.encode() + bytes([c[1] & 255]) + c[3], klass='parser-model:' + (c[4] if len(c) > 4 else 'case'))
        for m in mism:
            ctx.violation('corr:parser-model:' + m['key'], m['what'], m['replay'])
    return out
