"""C11 - JSON printer never overruns its output; all output modes agree.

1. T1: translators/printer_probe.c -> coq/Printer/PrinterConsts.v (reserve, flush size, nesting limit, number scratch
   size, error codes from /repo's headers); re-check Properties_C11.vo (theorems about Printer/FlushModel.v + PrintOps.v).
2. Build harness/print_sweep.c against /repo's current json_printer.c (included as source, guarded allocator, ASan in
   recover mode), the freshly generated parser / printer / verifier of harness/print_sweep.fbs.
3. Probes decide which of the four repairs (fixes/C11-*.patch) the tree has; every missing one is a property violation
   with a concrete input.  The extracted model is then run in the variant the tree has.
4. Correspondence + property oracle: values of every printer entry point, EVERY fixed buffer size from the reserve to
   text length + reserve + margin, growing buffers of many initial sizes, the file printer, flag sets, indentations;
   implementation and model compared on return value, error, out-of-buffer stores, termination, and the p - pflush
   value at every call of ctx->flush; the implementation alone is checked against the property statement.
"""
import os, json, re
from . import lib
from . import c11_util as U

COQ_FILES = ['Printer/PrinterConsts.v', 'Printer/FlushModel.v', 'Printer/PrintOps.v', 'Extract/Extract_printer.v', 'Printer/FlushProofs.v',
             'Printer/OpsProofs.v', 'Printer/PrinterTheorems.v', 'Properties/Properties_C11.v']
PINNED_FILES = ['Printer/PinnedWitnesses.v', 'Properties/Properties_C11_pinned.v']     # witnesses about the pinned code: not an obligation
ASAN_ENV = {'ASAN_OPTIONS': 'detect_leaks=0:halt_on_error=0:suppress_equal_pcs=0:allocator_may_return_null=1:symbolize=0'}
KEY_FS0, KEY_END, KEY_SEP, KEY_B64 = 'print-ex-flush-size-0', 'closing-run-overrun', 'vector-separator-overrun', 'base64-no-progress'


def gen_printer_consts(ctx):
    exe = os.path.join(ctx.bdir, 'printer_probe')
    ctx.cc([os.path.join(lib.ROOT, 'translators', 'printer_probe.c')], exe, opt='-O1')
    rc, out, err = lib.sh2([exe])
    if rc != 0: raise lib.CheckError('printer_probe failed: ' + err)
    if ctx.write_generated('Printer/PrinterConsts.v', out): ctx.log('Printer/PrinterConsts.v changed: dependent theorems are re-checked')
    return {m.group(1): int(m.group(2)) for m in re.finditer(r'Definition (\S+) : Z := (-?\d+)\.', out)}


def check_theorems(ctx):
    conf = os.path.join(lib.COQ, 'Makefile.conf')
    known = os.path.exists(conf) and 'Printer/FlushModel.v' in open(conf).read()
    if known:
        ok = ctx.check_theorems(extra_targets=['Extract/Extract_printer.vo'])
    else:
        ctx.notes.append('coq/Makefile does not list the Printer files yet (bin/setup not re-run): compiled with coqc directly')
        ok = U.compile_theorems_directly(ctx, COQ_FILES, 'Properties_C11')
    if ok:
        # concrete witnesses about the pinned code and examples: outside the dependency cone of the theorems; when the
        # constants of the tree differ from the pinned ones they need not compute any more - a note, not an obligation
        good = True
        if known and 'Printer/PinnedWitnesses.v' in open(conf).read():
            good, out = ctx.coq_make(['Properties/Properties_C11_pinned.vo'])
        else:
            for f in PINNED_FILES:
                v = os.path.join(lib.COQ, f)
                if not os.path.exists(v + 'o') or os.path.getmtime(v + 'o') < max(os.path.getmtime(os.path.join(lib.COQ, x)) for x in COQ_FILES + [f]):
                    rc, out = lib.sh(['coqc', '-Q', lib.COQ, 'Flatcc', v], timeout=900, cwd=lib.COQ)
                    if rc != 0: good = False; break
        if not good:
            ctx.notes.append('Properties_C11_pinned.v (witnesses about the pinned code, closed by computation) does not compute with the constants of this tree')
            ctx.log('note: the pinned-code witness file does not compute with the constants of this tree (not an obligation)')
    return ok


def ensure_driver(ctx):
    """the extracted model embeds the T1 constants: re-extract and rebuild the driver when they (or the model) changed"""
    mt = lambda p: os.path.getmtime(p) if os.path.exists(p) else 0.0
    ml = os.path.join(lib.ROOT, 'ocaml', 'printer', 'model.ml')
    exe = os.path.join(lib.ROOT, 'build', 'modelrun_printer')
    srcs = [os.path.join(lib.COQ, 'Printer', f) for f in ('PrinterConsts.v', 'FlushModel.v', 'PrintOps.v')]
    if mt(ml) < max(mt(x) for x in srcs):
        ctx.log('re-extracting the printer model (constants or model changed)')
        for f in ['Printer/PrinterConsts.v', 'Printer/FlushModel.v', 'Printer/PrintOps.v', 'Extract/Extract_printer.v']:
            rc, out = lib.sh(['coqc', '-Q', lib.COQ, 'Flatcc', os.path.join(lib.COQ, f)], timeout=900, cwd=lib.COQ)
            if rc != 0: raise lib.CheckError('re-extraction failed at %s: %s' % (f, out[-1500:]))
    if mt(exe) < max(mt(ml), mt(os.path.join(lib.ROOT, 'ocaml', 'printer', 'driver.ml'))):
        rc, out = lib.sh([os.path.join(lib.ROOT, 'bin', 'build_modelrun'), 'printer'], timeout=900)
        if rc != 0: raise lib.CheckError('build_modelrun printer failed: ' + out[-1500:])
    ctx.modelrun('printer')


def build_harness(ctx):
    gdir = os.path.join(ctx.bdir, 'gen')
    fbs = os.path.join(lib.ROOT, 'harness', 'print_sweep.fbs')
    rc, out = ctx.gen(fbs, gdir, opts=('-a', '--json'))
    if rc != 0: raise lib.BuildFailure('flatcc -a --json print_sweep.fbs', out)
    objs = ctx.objs(['src/runtime/builder.c', 'src/runtime/emitter.c', 'src/runtime/refmap.c', 'src/runtime/verifier.c',
                     'src/runtime/json_parser.c'], 'rt', san=False, defs=['-DNDEBUG'], incs=lib.INCS)
    exe = os.path.join(ctx.bdir, 'print_sweep')
    ctx.cc([os.path.join(lib.ROOT, 'harness', 'print_sweep.c')] + objs, exe, san=False, compiler='clang', defs=['-DNDEBUG'],
           incs=['-I' + gdir, '-I' + os.path.join(lib.ROOT, 'harness'), '-I%s/src/runtime' % lib.REPO],
           extra=['-fsanitize=address', '-fsanitize-recover=address', '-fno-omit-frame-pointer'])
    return lib.Harness(exe, env=ASAN_ENV)


class ProbeCrash(Exception):
    pass


class Case:
    """one value: python dict t, generator class, JSON text"""
    def __init__(self, klass, t, flagsets=None, sweep=True, dyn=True, file=True, note='', allocfail=False, deep=None, badname=False):
        self.klass, self.t, self.flagsets, self.sweep, self.dyn, self.file, self.note = klass, t, flagsets, sweep, dyn, file, note
        self.allocfail = allocfail
        self.badname = badname    # a union vector field name longer than FLATCC_JSON_PRINT_NAME_LEN_MAX: the printer must refuse with bad_input
        self.deep = deep          # (depth, ntv): built with the builder API instead of the JSON parser (deeper than parser / verifier accept)
        self.load_line = 'loaddeep %d %d' % deep if deep else None
        self.json = U.t_json(t)
        if self.load_line is None: self.load_line = 'load ' + self.json.hex()
        self.feat = U.features(t)


def san_summary(err):
    """the lines of a sanitizer report that name the error, else the end of stderr"""
    ls = [l.strip() for l in err.split('\n') if 'ERROR: AddressSanitizer' in l or 'SUMMARY:' in l or 'runtime error' in l or ' of size ' in l]
    return (' | '.join(ls[:4]) or ' '.join(err.strip().split('\n')[-6:]))[:700]


def hrun(H, lines, timeout=900):
    rc, res, err = H.run(lines, timeout=timeout)
    if len(res) < len(lines):
        res = res + ['CRASH ' + ' '.join(err.strip().split('\n')[-6:])[:600]] * (len(lines) - len(res))
    return res, err


def run(ctx):
    rng = ctx.rng
    consts = gen_printer_consts(ctx)
    RSV = consts['PRINT_RESERVE']; NUMW = consts['PRINT_NUM_WRITE_MAX']; FLUSH = consts['PRINT_FLUSH_SIZE']
    E_OVERFLOW, E_DEEP = consts['PE_overflow'], consts['PE_deep_recursion']
    thm_ok = check_theorems(ctx)
    if not thm_ok:
        ctx.broken_obligation('Properties_C11.vo', getattr(ctx, 'broken', {}))
    H = build_harness(ctx)
    ensure_driver(ctx)

    if ctx.replay_in:
        return replay(ctx, H, RSV)

    # ------------------------------------------------------------ 0. numbers are unchecked raw runs: text + terminator <= scratch size
    dvals = list(U.DOUBLES) + [-x for x in U.DOUBLES] + [float('inf'), float('-inf'), float('nan'), 0.0, -0.0, 4.9e-324, 1.7976931348623157e308,
             -2.2250738585072014e-308, 1.2345678901234567e-308, -1.2345678901234567e-300, 123456789012345680000.0, 0.000123456789012345678]
    for _ in range(3000 if ctx.thorough else 300):
        import struct
        dvals.append(struct.unpack('<d', struct.pack('<Q', rng.getrandbits(64)))[0])
    fvals = [U.f32(x) for x in (0.1, -0.1, 3.4028234663852886e38, -3.4028234663852886e38, 1.401298464324817e-45, 1.17549435e-38, 16777217.0, 1e-10, 123456.789)]
    for _ in range(1000 if ctx.thorough else 100):
        import struct
        fvals.append(struct.unpack('<f', struct.pack('<I', rng.getrandbits(32)))[0])
    ivals = [0, -1, 2**63 - 1, -2**63, 10**18, -10**18]
    uvals = [0, 2**64 - 1, 10**19]
    lines = ['fmt d ' + U.dbits(x) for x in dvals] + ['fmt f ' + U.fbits(x) for x in fvals] + ['fmt i %d' % x for x in ivals] + ['fmt u %d' % x for x in uvals]
    res, _ = hrun(H, lines)
    worst = 0
    for l, r in zip(lines, res):
        ctx.count(l, klass='number-format')
        f = r.split()
        if len(f) < 3 or not f[0].lstrip('-').isdigit():
            ctx.violation('crash:fmt', 'number formatter crashed: ' + r[:200], {'harness_lines': [l]}); continue
        ln, touched = int(f[0]), int(f[1]); worst = max(worst, touched)
        if touched > NUMW or ln + 1 > NUMW:
            ctx.violation('number-format-exceeds-scratch', 'a number printer stored %d bytes (text %d) at ctx->p, more than the %d the reserve accounting assumes' % (touched, ln, NUMW),
                          {'harness_lines': [l], 'reply': r})
    ctx.sample({'number_format': lines[1], 'reply': res[1], 'max_bytes_touched': worst})

    # ------------------------------------------------------------ 1. probes: which repairs does the tree have
    try:
        variant = probes(ctx, H, RSV)
    except ProbeCrash:
        # the printer kills the process already on the smallest documents: reported with the request as replay; sweeping on would only repeat it
        ctx.finish_args = dict(rule='probe documents only: the harness process died on one of them', explanation='see the crash:probe violation')
        return
    var = ''.join('1' if variant[k] else '0' for k in ('progress', 'b64', 'end', 'sep'))
    ctx.log('tree variant (fix_progress fix_b64 fix_end fix_sep) = %s' % var)
    ctx.notes.append('model variant used for the correspondence: %s (1111 = all repairs of fixes/C11-*.patch present)' % var)

    # ------------------------------------------------------------ 2. values
    cases = make_cases(ctx, rng, RSV, FLUSH, consts['PRINT_NAME_LEN_MAX'])
    # number texts as the implementation formats them
    ds, fs = set(), set()
    for c in cases: U.collect_floats(c.t, ds, fs)
    ds, fs = sorted(ds), sorted(fs)
    res, _ = hrun(H, ['fmt d ' + U.dbits(x) for x in ds] + ['fmt f ' + U.fbits(x) for x in fs])
    fmt = U.Fmt()
    for x, r in zip(ds, res[:len(ds)]): fmt.d[x] = bytes.fromhex(r.split()[2]).decode()
    for x, r in zip(fs, res[len(ds):]): fmt.f[x] = bytes.fromhex(r.split()[2]).decode()

    # ------------------------------------------------------------ 3. model text for every (value, flag set): length decides the sweep ranges
    default_flagsets = [(0, 0), (0, 2), (1, 1), (2, 0), (8, 0), (11, 3), (4, 8), (3, 255)] if not ctx.thorough else \
        [(f, i) for f in range(16) for i in (0, 2)] + [(0, i) for i in (1, 3, 4, 7, 8, 16, 63, 64, 65, 127, 128, 200, 254, 255)] + [(3, 255), (11, 1)]
    jobs = []        # (case, flags, indent, tokens)
    for c in cases:
        fsets = c.flagsets if c.flagsets is not None else (default_flagsets if ctx.thorough else rng.sample(default_flagsets, 3) + [(0, 0)])
        seen = set()
        for fl, ind in fsets:
            if (fl, ind) in seen: continue
            seen.add((fl, ind))
            jobs.append((c, fl, ind, ' '.join(U.tok_t(c.t, fmt, bool(fl & 8)))))
    tl = ['text %s %d %d %d %s' % (var, ind, fl & 1, (fl >> 1) & 1, tok) for c, fl, ind, tok in jobs]
    tres = U.model_parallel(ctx, tl)
    plans = []
    budget_model = [0]
    for (c, fl, ind, tok), r in zip(jobs, tres):
        f = r.split()
        if len(f) != 5 or f[0] not in '01':
            raise lib.CheckError('modelrun_printer text: ' + r[:300])
        wf, ck, noerr, nops, thex = f[0] == '1', f[1] == '1', f[2] == '1', int(f[3]), f[4]
        L = 0 if thex == '-' else len(thex) // 2
        if not wf: raise lib.CheckError('generated value is not well-formed for the model: ' + c.klass)
        if var == '1111' and not ck and thm_ok:
            ctx.violation('corr:chk', 'the run-length side condition fails for a generated value although the theorem says it holds', {'klass': c.klass})
        plans.append({'case': c, 'fl': fl, 'ind': ind, 'tok': tok, 'L': L, 'text': thex, 'noerr': noerr, 'nops': nops})

    # ------------------------------------------------------------ 4. implementation + model runs
    lo = RSV + (0 if variant['progress'] else 1)          # size == reserve hangs on the pinned tree (reported by the probe): skip it in sweeps
    per_case = {}
    for p in plans: per_case.setdefault(id(p['case']), []).append(p)
    units = []        # one unit = all lines of one value for one harness process
    mlines = []       # (plan, kind, meta, model line)
    for c in cases:
        cl = [c.load_line]
        metas = [('load', None, None)]
        for p in per_case[id(c)]:
            fl, ind, L = p['fl'], p['ind'], p['L']
            skip_buffers = (c.feat['b64'] > 0 and not variant['b64'])    # fixed/growing buffers hang on base64 (reported by the probe)
            cl.append('%s %d %d' % ('reffile' if skip_buffers else 'ref', fl, ind)); metas.append(('ref', p, None))
            if c.sweep and not skip_buffers:
                hi = L + RSV + 24
                full = L <= (4000 if ctx.thorough else 1400)
                wins = [(lo, hi)] if full else [(lo, lo + 200), (max(lo, L + RSV - 260), hi)] + \
                    [(a, a + 40) for a in sorted(rng.randint(lo + 200, max(lo + 201, L + RSV - 300)) for _ in range(3))]
                if c.sweep == 'edges': wins = [(lo, lo + 60), (max(lo, L + RSV - 40), hi)]
                if L > 60000: wins = [(lo, lo + 6), (max(lo, L + RSV - 6), L + RSV + 3)]       # very long texts (deep nesting x large indentation)
                # the model needs L / flush_size loop iterations per long primitive: below lo_m only three sizes are modelled
                lo_m = RSV + 1 + L // 1500
                for a, b in wins:
                    if b < a: continue
                    cl.append('sweep %d %d %d %d' % (fl, ind, a, b)); metas.append(('sweep', p, (a, b)))
                    parts = [(a, b)] if a >= lo_m else ([(x, x) for x in (a, a + 1, a + 2) if x < min(lo_m, b + 1)] + ([(lo_m, b)] if lo_m <= b else []))
                    for a2, b2 in ([] if c.badname else parts):
                        cost = (b2 - a2 + 1) * (p['nops'] + (L * 40) // max(1, a2 - RSV))
                        mlines.append((p, 'sweep', (a, b, a2, b2), 'sweep %s f %d %d %d %d %d %s' % (var, a2, b2, ind, fl & 1, (fl >> 1) & 1, p['tok']), cost))
            if c.sweep and not skip_buffers and p['noerr'] and not c.badname:
                # the same fixed buffers finished through flatcc_json_printer_finalize(), around the size where its newline no longer fits
                fa, fb = max(lo, L + RSV - 3), L + RSV + 6
                cl.append('finsweep %d %d %d %d' % (fl, ind, fa, fb)); metas.append(('finsweep', p, (fa, fb)))
            if c.file and p['noerr'] and not c.badname:
                cl.append('filefin %d %d' % (fl, ind)); metas.append(('filefin', p, None))
            if c.dyn and not skip_buffers:
                sizes = sorted(set([0, 1, RSV - 1, RSV, RSV + 1, RSV + 2, RSV + 3, 100, 128, 4096, max(1, L), L + RSV - 1, L + RSV, L + RSV + 1] +
                                   [rng.randint(1, L + 2 * RSV) for _ in range(6 if ctx.thorough else 2)]))
                if L > 60000: sizes = [0, RSV, RSV + 1, L + RSV]
                for sz in sizes:
                    cl.append('dyn %d %d %d' % (fl, ind, sz)); metas.append(('dyn', p, (sz, 0)))
                # EVERY initial size of the growing buffer for short texts
                if c.sweep is True and not c.badname and L <= (4000 if ctx.thorough else 700):
                    cl.append('dynsweep %d %d %d %d' % (fl, ind, 1, L + RSV + 3)); metas.append(('dynsweep', p, (1, L + RSV + 3)))
                # allocation failures: the k-th enlargement fails (overflow must be reported, nothing written outside)
                if c.allocfail:
                    for sz in (RSV, 100, max(RSV, L // 3)):
                        for k in (1, 2, 3):
                            cl.append('dyn %d %d %d %d' % (fl, ind, sz, k)); metas.append(('dyn', p, (sz, k)))
            if c.file:
                cl.append('file %d %d' % (fl, ind)); metas.append(('file', p, None))
                if not c.badname: mlines.append((p, 'file', None, 'run %s l 0 - %d %d %d %s' % (var, ind, fl & 1, (fl >> 1) & 1, p['tok']), p['nops']))
        units.append((c, cl, metas))

    # implementation: values spread over harness processes
    chunks = U.split_chunks(units, 14)

    def run_units(us):
        """all lines of the units of one chunk through one harness process; when the process dies on a line that line
        gets the reply CRASH, the rest of its unit SKIPPED (the loaded buffer is lost), and a new process continues with
        the next unit"""
        outs, errs, start, restarts = [], [], 0, 0
        while start < len(us):
            part = us[start:]
            lines = [l for _, cl, _ in part for l in cl]
            rc, res, err = H.run(lines, timeout=1200)
            errs.append(err)
            k = 0
            done_units = 0
            for c, cl, metas in part:
                if k + len(cl) <= len(res):
                    outs.append(res[k:k + len(cl)]); k += len(cl); done_units += 1
                    continue
                got = res[k:]
                tail = san_summary(err)
                outs.append(got + ['CRASH ' + tail] + ['SKIPPED'] * (len(cl) - len(got) - 1))
                done_units += 1
                break
            start += done_units
            restarts += 1
            if restarts > 40:
                for c, cl, metas in us[start:]: outs.append(['SKIPPED'] * len(cl))
                break
        return outs, '\n'.join(errs)
    cres = U.run_parallel(run_units, chunks)
    ctx.log('implementation runs done')
    impl = {}          # (id(plan), kind, meta) -> reply
    refs = {}
    asan_first = ''
    for us, (outs, err) in zip(chunks, cres):
        if err and not asan_first: asan_first = err[:1500]
        for (c, cl, metas), rs in zip(us, outs):
            for (kind, p, meta), line, r in zip(metas, cl, rs):
                if kind == 'load':
                    if r == 'SKIPPED': continue
                    if not r.startswith('OK'):
                        raise lib.CheckError('the harness could not build the buffer of a document this check generated (class %s, %s): reply %r; document: %s' % (
                            c.klass, c.load_line[:40], r[:120], c.json.decode('latin1')[:600]))
                    c.verify = int(r.split()[2])
                    if c.verify != 0 and not c.deep:
                        raise lib.CheckError('a generated document of class %s does not verify (code %d): %s' % (c.klass, c.verify, c.json.decode('latin1')[:600]))
                    continue
                if r == 'SKIPPED': continue
                if r.startswith('CRASH'):
                    ctx.count(line, klass='crash')
                    ctx.violation('crash:' + c.klass, 'the harness process died (memory error beyond the guard zone, or fatal signal) while printing: %s, class %s, flags %d indent %d: %s' % (
                        line, c.klass, p['fl'], p['ind'], r[:300]), {'klass': c.klass, 'json_hex': c.json.hex(), 'json': c.json.decode('latin1')[:1500], 'flags': p['fl'], 'indent': p['ind'],
                                                                     'harness_lines': [c.load_line, 'ref %d %d' % (p['fl'], p['ind']), line], 'stderr': r[:1500]})
                    continue
                if kind == 'dynsweep':
                    a, b = meta
                    toks = r.split(' ')
                    recs = [x.split('=')[0] for x in toks]; orcs = [x.split('=')[1] if '=' in x else '-' for x in toks]
                    impl[(id(p), kind, meta)] = (recs, line, orcs)
                    mlines.append((p, 'dynsweep', meta, 'dsweep %s %d %d %s %d %d %d %s' % (var, a, b, '/'.join(orcs), p['ind'], p['fl'] & 1, (p['fl'] >> 1) & 1, p['tok']),
                                   (b - a + 1) * p['nops']))
                    continue
                if kind == 'dyn':
                    # reply = record + the block sizes the printer asked of realloc: the ORACLE input of the model run
                    f = r.split(' ')
                    alloc = f[1] if len(f) > 1 else '-'
                    impl[(id(p), kind, meta)] = (f[0], line, alloc)
                    if not c.badname: mlines.append((p, 'dyn', meta, 'run %s d %d %s %d %d %d %s' % (var, meta[0], alloc, p['ind'], p['fl'] & 1, (p['fl'] >> 1) & 1, p['tok']), p['nops']))
                    continue
                impl[(id(p), kind, meta)] = (r, line)
    ctx.log('%d values, %d (value, flags) pairs, %d model requests' % (len(cases), len(plans), len(mlines)))
    with open(os.path.join(ctx.bdir, 'model_requests.txt'), 'w') as f:
        for m in mlines: f.write('%d %s %s\n' % (m[4], m[0]['case'].klass, m[3]))
    # model: heavy lines first
    order = sorted(range(len(mlines)), key=lambda i: -mlines[i][4])
    mres_o = U.model_parallel(ctx, [mlines[i][3] for i in order])
    ctx.log('model runs done (estimated cost %d)' % sum(m[4] for m in mlines))
    mres = [None] * len(mlines)
    for i, r in zip(order, mres_o): mres[i] = r

    # ------------------------------------------------------------ 5. compare
    def replay_of(c, p, line, extra=None):
        d = {'klass': c.klass, 'json_hex': c.json.hex(), 'json': c.json.decode('latin1')[:1500], 'flags': p['fl'], 'indent': p['ind'],
             'text_length': p['L'], 'harness_lines': [c.load_line, 'ref %d %d' % (p['fl'], p['ind']), line], 'note': c.note,
             'verified_buffer': not c.deep}
        if extra: d.update(extra)
        return d

    def explain_overrun(c, p, mode, size):
        """which missing repair explains an out-of-buffer store: re-run the model with single repairs switched on"""
        base = dict(variant)
        keys = []
        for k, key in (('end', KEY_END), ('sep', KEY_SEP)):
            if base[k]: continue
            v2 = dict(base); v2[k] = True
            vs = ''.join('1' if v2[x] else '0' for x in ('progress', 'b64', 'end', 'sep'))
            r = U.run_model(ctx, ['run %s %s %d - %d %d %d %s' % (vs, mode, size, p['ind'], p['fl'] & 1, (p['fl'] >> 1) & 1, p['tok'])])[0]
            if r != 'HANG' and r.split()[0].split(':')[2] == '0': keys.append(key)
        if not keys and not base['end'] and not base['sep']:
            vs = ''.join('1' if (base[x] or x in ('end', 'sep')) else '0' for x in ('progress', 'b64', 'end', 'sep'))
            r = U.run_model(ctx, ['run %s %s %d - %d %d %d %s' % (vs, mode, size, p['ind'], p['fl'] & 1, (p['fl'] >> 1) & 1, p['tok'])])[0]
            if r != 'HANG' and r.split()[0].split(':')[2] == '0': keys = [KEY_END, KEY_SEP]
        return keys

    explained = {}

    def oracle(c, p, mode, size, rec, line, alloc_failed=False):
        """the property statement on the implementation alone; returns True when a violation was recorded"""
        L, fl, ind = p['L'], p['fl'], p['ind']
        what = '%s buffer size %s, flags %d, indent %d, text length %d, value class %s' % (mode, size, fl, ind, L, c.klass)
        if rec['hang']:
            if mode == 'fixed' and size == RSV: key = KEY_FS0
            elif c.feat['b64']: key = KEY_B64
            else: key = 'hang:' + c.klass
            ctx.violation(key, 'printer does not return: ' + what, replay_of(c, p, line)); return True
        if rec['over'] > 0:
            m = {'fixed': 'f', 'growing': 'd', 'file': 'l'}[mode]
            ek = (c.klass, m)
            if ek not in explained: explained[ek] = explain_overrun(c, p, m, size if size is not None else 0)
            keys = explained[ek] or ['overrun:' + c.klass]
            for key in keys:
                ctx.violation(key, 'store outside the output buffer (%d bytes past the end%s): %s' % (rec['over'] % 1000000, ', AddressSanitizer report' if rec['over'] >= 1000000 else '', what),
                              replay_of(c, p, line, {'asan': asan_first[:1200]}))
            return True
        refr = impl.get((id(p), 'ref', None))
        rf = refr[0].split() if refr else None
        if rf is None or rf[0] != 'R' or int(rf[3]) or int(rf[4]): return False      # no usable reference
        ref_ret = int(rf[1])
        if mode == 'fixed':
            want_ok = ref_ret >= 0 and L < size - RSV
            if (rec['ret'] >= 0) != want_ok:
                ctx.violation('success-iff-fits', 'fixed buffer returned %d (error %d) but the text of %d bytes %s size - reserve = %d: %s' % (
                    rec['ret'], rec['err'], L, 'fits below' if want_ok else 'does not fit below', size - RSV, what), replay_of(c, p, line)); return True
            if rec['ret'] < 0 and rec['err'] not in ((E_OVERFLOW, E_DEEP, consts['PE_bad_input']) if c.badname else (E_OVERFLOW, E_DEEP)):
                ctx.violation('error-code', 'unexpected error code %d: %s' % (rec['err'], what), replay_of(c, p, line)); return True
        elif alloc_failed:
            if rec['ret'] >= 0 or rec['err'] != E_OVERFLOW:
                ctx.violation('alloc-failure-unreported', 'an enlargement of the growing buffer failed but the printer returned %d (error %d) instead of the overflow error: %s' % (
                    rec['ret'], rec['err'], what), replay_of(c, p, line)); return True
            return False
        else:
            if (rec['ret'] >= 0) != (ref_ret >= 0) or (rec['ret'] >= 0 and rec['ret'] != ref_ret):
                ctx.violation('modes-disagree', '%s output returned %d, reference growing buffer returned %d: %s' % (mode, rec['ret'], ref_ret, what), replay_of(c, p, line)); return True
        if rec['ret'] >= 0 and rec['ok'] == 2:
            ctx.violation('finalize-terminator', 'flatcc_json_printer_finalize_dynamic_buffer returned a block of the right bytes and length whose terminating zero at result[length] is missing or outside the block: ' + what,
                          replay_of(c, p, line)); return True
        if rec['ret'] >= 0 and not rec['ok']:
            ctx.violation('modes-disagree', 'success reported but the bytes / length / terminator differ from the growing-buffer output: ' + what, replay_of(c, p, line)); return True
        return False

    # reference text against the model's concatenated primitive bytes
    for p in plans:
        c = p['case']
        r = impl.get((id(p), 'ref', None))
        if r is None: continue
        f = r[0].split()
        ctx.count('ref %s %d %d' % (c.json[:64].hex(), p['fl'], p['ind']), klass='ref:' + c.klass)
        if len(f) < 8 or f[0] != 'R':
            ctx.violation('crash:ref', 'harness failed on the reference print: ' + r[0][:300], replay_of(c, p, r[1])); continue
        ret, err, over, hang = int(f[1]), int(f[2]), int(f[3]), int(f[4])
        rec = {'ret': ret, 'err': err, 'over': over, 'hang': hang, 'ok': 1}
        if hang or over:
            oracle(c, p, 'growing', 0, rec, r[1]); continue
        if c.badname:
            if ret >= 0 or err != consts['PE_bad_input'] or hang or over:
                ctx.violation('name-limit', 'a union vector field whose name is longer than FLATCC_JSON_PRINT_NAME_LEN_MAX printed with return %d error %d instead of the bad_input error (class %s)' % (ret, err, c.klass), replay_of(c, p, r[1]))
            continue
        if p['noerr']:
            if ret < 0:
                ctx.violation('modes-disagree', 'growing buffer reports error %d for a value within the nesting limit (class %s)' % (err, c.klass), replay_of(c, p, r[1]))
            elif f[7] != p['text']:
                a = bytes.fromhex(f[7]) if f[7] != '-' else b''; b = bytes.fromhex(p['text']) if p['text'] != '-' else b''
                k = next((i for i in range(min(len(a), len(b))) if a[i] != b[i]), min(len(a), len(b)))
                ctx.violation('corr:text', 'printed text differs from the model stream at byte %d: impl %r model %r' % (k, a[max(0, k - 30):k + 30], b[max(0, k - 30):k + 30]),
                              replay_of(c, p, r[1]))
        else:
            if ret >= 0 or err != E_DEEP:
                ctx.violation('deep-recursion-unreported', 'nesting beyond the limit printed with return %d error %d' % (ret, err), replay_of(c, p, r[1]))

    ndis = 0
    nmodel = [0]
    ntrace = [0]; trace_examples = []     # flush-call traces differ: diagnostic only, the property does not speak about them
    pending_corr = []
    # the property statement on every implementation print of the sweeps (every size), independent of the model
    bad_sizes = set()
    plan_by_id = {id(x): x for x in plans}
    for kind_key, val in list(impl.items()):
        pid_, kind, meta = kind_key
        if kind != 'sweep': continue
        reply, line = val
        p = plan_by_id[pid_]; c = p['case']
        if reply.startswith('CRASH') or reply in ('NOBUF', 'BAD'): continue
        a, b = meta
        crecs = reply.split(' ')
        ctx.count('%s|%d|%d|%d-%d' % (c.json[:48].hex(), p['fl'], p['ind'], a, b), klass='fixed:' + c.klass, n=len(crecs))
        for sz, cr in zip(range(a, b + 1), crecs):
            cr = U.parse_c(cr)
            if cr is None: continue
            if oracle(c, p, 'fixed', sz, cr, 'sweep %d %d %d %d' % (p['fl'], p['ind'], sz, sz)): bad_sizes.add((pid_, sz))
    # finalize(): implementation-side oracle only (the model has no finalize operation)
    for kind_key, val in list(impl.items()):
        pid_, kind, meta = kind_key
        if kind not in ('finsweep', 'filefin'): continue
        p = plan_by_id[pid_]; c = p['case']
        reply, line = val[0], val[1]
        refr = impl.get((pid_, 'ref', None)); rf = refr[0].split() if refr else None
        if rf is None or rf[0] != 'R' or int(rf[1]) < 0 or int(rf[3]) or int(rf[4]): continue
        L = p['L']
        if kind == 'filefin': sizes, recs = [None], [reply]
        else: sizes, recs = list(range(meta[0], meta[1] + 1)), reply.split(' ')
        ctx.count('%s|%d|%d|%s' % (c.json[:48].hex(), p['fl'], p['ind'], kind), klass=('finalize-fixed:' if kind == 'finsweep' else 'finalize-file:') + c.klass, n=len(recs))
        for sz, rec in zip(sizes, recs):
            cr = U.parse_c(rec)
            if cr is None: continue
            one = 'finsweep %d %d %d %d' % (p['fl'], p['ind'], sz, sz) if sz is not None else line
            if cr['hang'] or cr['over'] > 0:
                ctx.violation('finalize-unsafe', 'printing and flatcc_json_printer_finalize() %s: %s buffer %s, flags %d indent %d, text length %d, class %s' % (
                    'do not return' if cr['hang'] else 'store %d bytes outside the buffer' % (cr['over'] % 1000000), 'fixed' if sz is not None else 'file', sz, p['fl'], p['ind'], L, c.klass), replay_of(c, p, one))
                continue
            want = True if sz is None else (L + 1 < sz - RSV)
            what = 'flatcc_json_printer_finalize() after printing %d bytes into %s, flags %d indent %d, class %s' % (L, 'a fixed buffer of %d bytes' % sz if sz is not None else 'a file', p['fl'], p['ind'], c.klass)
            if (cr['ret'] >= 0) != want:
                ctx.violation('finalize-success-iff-fits', '%s returned %d although the text and its newline (%d bytes) %s' % (
                    what, cr['ret'], L + 1, 'fit below size - reserve' if want else 'do not fit below size - reserve = %d: success reported for a truncated / discarded text' % (sz - RSV)),
                    replay_of(c, p, one))
            elif cr['ret'] >= 0 and not cr['ok']:
                ctx.violation('finalize-output', '%s returned %d but the output is not the reference text plus a newline of that length' % (what, cr['ret']), replay_of(c, p, one))
    for (p, kind, meta, mline, cost), mr in zip(mlines, mres):
        c = p['case']
        if kind == 'dynsweep':
            recs, line, orcs = impl[(id(p), kind, meta)]
            a, b = meta
            mrecs = mr.split(' ')
            if len(recs) != b - a + 1 or len(mrecs) != b - a + 1:
                raise lib.CheckError('dynsweep reply length: impl %d model %d want %d' % (len(recs), len(mrecs), b - a + 1))
            ctx.count('%s|%d|%d|dynsweep' % (c.json[:48].hex(), p['fl'], p['ind']), klass='growing-every-size:' + c.klass, n=b - a + 1)
            for sz, cr, mm, alloc in zip(range(a, b + 1), recs, mrecs, orcs):
                cr = U.parse_c(cr); mm = U.parse_m(mm)
                if cr is None: continue
                one = 'dyn %d %d %d' % (p['fl'], p['ind'], sz)
                if not cr['hang'] and cr['over'] == 0 and not mm['hang'] and mm.get('obad'):
                    ctx.violation('growth-policy-side-condition', 'the growing buffer is enlarged to a block that does not restore the reserve above the old block '
                                  '(initial size %d, blocks %s, reserve %d): outside the proved side condition new >= old + reserve' % (sz, alloc, RSV),
                                  replay_of(c, p, one, {'realloc_sizes': alloc}))
                bad = oracle(c, p, 'growing', sz, cr, one)
                if not bad and not U.same(cr, mm):
                    ndis += 1
                    ctx.violation('corr:dyn', 'implementation and model (variant %s) disagree, growing initial size %d, blocks from realloc %s, flags %d indent %d, class %s: impl %s model %s' % (
                        var, sz, alloc, p['fl'], p['ind'], c.klass, cr, mm), replay_of(c, p, one, {'model_line': mline[:300]}))
                elif not bad and not U.same_trace(cr, mm):
                    ntrace[0] += 1
            continue
        if kind != 'sweep':
            r = impl.get((id(p), kind, meta))
            if r is None: continue
            reply, line = r[0], r[1]
            if reply.startswith('CRASH') or reply in ('NOBUF', 'BAD'):
                ctx.violation('crash:' + kind, 'harness process died or lost its state: ' + reply[:300], replay_of(c, p, line)); continue
        if kind == 'sweep':
            a, b, a2, b2 = meta
            r = impl.get((id(p), kind, (a, b)))
            if r is None: continue
            reply, line = r
            if reply.startswith('CRASH') or reply in ('NOBUF', 'BAD'):
                ctx.violation('crash:' + kind, 'harness process died or lost its state: ' + reply[:300], replay_of(c, p, line)); continue
            crecs = reply.split(' '); mrecs = mr.split(' ')
            if len(crecs) != b - a + 1 or len(mrecs) != b2 - a2 + 1:
                raise lib.CheckError('sweep reply length: impl %d model %d want %d / %d' % (len(crecs), len(mrecs), b - a + 1, b2 - a2 + 1))
            for sz, mm in zip(range(a2, b2 + 1), mrecs):
                cr = U.parse_c(crecs[sz - a]); mm = U.parse_m(mm)
                if cr is None: continue
                nmodel[0] += 1
                if cr['hang'] or cr['over'] > 0: continue          # judged by the oracle below
                if U.same(cr, mm) and not U.same_trace(cr, mm):
                    ntrace[0] += 1
                    if ntrace[0] <= 3: trace_examples.append('fixed %d flags %d indent %d class %s: impl %d calls, model %d calls' % (sz, p['fl'], p['ind'], c.klass, cr['ntr'], mm['ntr']))
                if not U.same(cr, mm):
                    one = 'sweep %d %d %d %d' % (p['fl'], p['ind'], sz, sz)
                    ndis += 1
                    pending_corr.append(('corr:fixed', 'implementation and model (variant %s) disagree at fixed size %d, flags %d indent %d, class %s: impl %s model %s' % (
                        var, sz, p['fl'], p['ind'], c.klass, cr, mm), replay_of(c, p, one, {'model_line': mline[:400]}), (id(p), sz)))
            continue
        else:
            f0 = mr.split(' ')[0]
            mm = U.parse_m(f0)
            cr = U.parse_c(reply)
            mode = 'growing' if kind == 'dyn' else 'file'
            ctx.count('%s|%d|%d|%s|%s' % (c.json[:48].hex(), p['fl'], p['ind'], kind, meta), klass=mode + ('-allocfail' if kind == 'dyn' and meta[1] else '') + ':' + c.klass)
            alloc = r[2] if kind == 'dyn' else '-'
            failed = kind == 'dyn' and '0' in alloc.split(',')
            if kind == 'dyn' and not cr['hang'] and cr['over'] == 0 and not mm['hang'] and mm.get('obad'):
                # the sizes realloc was asked for do not satisfy the side condition of the theorems (new >= old + reserve)
                ctx.violation('growth-policy-side-condition', 'the growing buffer is enlarged to a block that does not restore the reserve above the old block '
                              '(initial size %s, blocks %s, reserve %d): outside the proved side condition new >= old + reserve' % (meta[0], alloc, RSV),
                              replay_of(c, p, line, {'realloc_sizes': alloc, 'model_line': mline[:400]}))
            bad = oracle(c, p, mode, meta[0] if kind == 'dyn' else None, cr, line, failed)
            if not bad and not U.same(cr, mm):
                ndis += 1
                ctx.violation('corr:' + kind, 'implementation and model (variant %s) disagree, %s initial size %s, blocks from realloc %s, flags %d indent %d, class %s: impl %s model %s' % (
                    var, mode, meta, alloc, p['fl'], p['ind'], c.klass, cr, mm), replay_of(c, p, line, {'model_line': mline[:400]}))
            elif not bad and not U.same_trace(cr, mm):
                ntrace[0] += 1
                if ntrace[0] <= 3: trace_examples.append('%s %s flags %d indent %d class %s: impl %d calls, model %d calls' % (mode, meta, p['fl'], p['ind'], c.klass, cr['ntr'], mm['ntr']))
    for key, what, rep, where in pending_corr:
        if where not in bad_sizes: ctx.violation(key, what, rep)
    ctx.log('compared; %d fixed-size prints also run on the model; disagreements with the model: %d; prints whose ctx->flush call trace differs (diagnostic): %d' % (nmodel[0], ndis, ntrace[0]))
    if ntrace[0]:
        ctx.notes.append('diagnostic: %d prints agree with the model on every observable but call ctx->flush at different p - pflush (e.g. %s)' % (ntrace[0], '; '.join(trace_examples)))
    p0 = plans[0]
    ctx.sample({'value_json': p0['case'].json.decode('latin1')[:200], 'flags': p0['fl'], 'indent': p0['ind'], 'text_length': p0['L'],
                'impl_ref': impl.get((id(p0), 'ref', None), ('',))[0][:120]})
    for (p, kind, meta, mline, cost), mr in list(zip(mlines, mres))[:1]:
        ctx.sample({'model_request': mline[:160], 'model_reply': mr[:160], 'impl_reply': impl.get((id(p), kind, meta), ('',))[0][:160]})

    ctx.trusted = lib.DEFAULT_TRUSTED + [
        'translators/printer_probe.c (T1: reserve, flush size, nesting limit, number scratch size, error codes)',
        'python value -> JSON text and value -> model value translation (checks/c11_util.py); tied by comparing the printed text with the model text for every case',
        'harness/print_sweep.c guarded allocator (canary zone poisoned for AddressSanitizer at byte `size`) and interval-timer hang detection']
    ctx.assumptions = [
        'number printers store at most PRINT_NUM_WRITE_MAX bytes (text and terminator) at ctx->p (tested on boundary and random values on every run)',
        'base64 encoding in chunks of multiples of 4 output characters concatenates to the encoding of the whole (tested through the text comparison)',
        'realloc of the growing buffer succeeds; size_t arithmetic does not wrap',
        'the generated printers call the runtime functions in schema order as src/compiler/codegen_c_json_printer.c emits them (validated per run for harness/print_sweep.fbs through text and flush-trace comparison)',
        'FLATCC_JSON_PRINT_ALWAYS_QUOTE_MULTIPLE_FLAGS, FLATCC_USE_GRISU3 and FLATCC_JSON_PRINT_HEX_FLOAT as configured in /repo (read by T1)']
    ctx.finish_args = dict(
        rule='one evaluation = one complete print of one buffer by /repo\'s printer (fixed buffer of one size, growing buffer of one initial size, '
             'or file), compared with the extracted model run of the same primitive stream (return value, error, out-of-buffer stores, termination, '
             'p - pflush at every ctx->flush call) and with the property statement (no store past the buffer, terminates, success iff text < size - reserve, '
             'successful output identical to the growing-buffer output and zero terminated). distinct = distinct (value, flags, indent, size range) groups; '
             'classes: deep chains up to the nesting limit and beyond, empty-table and NONE-union vectors, base64 of lengths around every chunk boundary, strings with '
             'every escape class, 100-character names, all vector kinds, unions of table/struct/string, struct arrays, nested roots, random mixtures, texts larger '
             'than the file printer\'s 16 KiB flush size at every alignment',
        explanation='theorems of Properties_C11 re-checked against regenerated constants; fixed sizes are swept exhaustively (every size from the reserve to text length + reserve + 24) '
                    'for texts up to %d bytes and in windows around both ends plus random windows for longer texts' % (4000 if ctx.thorough else 1400))


# ---------------------------------------------------------------- probes
def probes(ctx, H, RSV):
    """decide for each repair whether the tree has it, by the smallest inputs that separate the two behaviours;
    a missing repair is a violation of the property with that input as replay"""
    variant = {}

    def ask(t, lines, deep=None):
        j = U.t_json(t)
        load = 'loaddeep %d %d' % deep if deep else 'load ' + j.hex()
        all_lines = ['timeout 250', load] + lines      # probes expect hangs on the pinned tree: short CPU-time limit
        res, err = hrun(H, all_lines, timeout=300)
        dead = next((i for i, r in enumerate(res) if r.startswith('CRASH')), None)
        if dead is not None:
            ctx.violation('crash:probe', 'the harness process died (memory error beyond the guard zone, or fatal signal) on the request `%s` of a probe document: %s' % (
                all_lines[dead][:80], san_summary(err)), {'json': j.decode('latin1')[:600], 'json_hex': j.hex(), 'harness_lines': all_lines[1:dead + 1], 'stderr': err[-2000:]})
            raise ProbeCrash()
        if not res[1].startswith('OK'):
            raise lib.CheckError('the harness could not build the buffer of a probe document (%s): reply %r; document: %s' % (load[:40], res[1][:120], j.decode('latin1')[:400]))
        return j, all_lines[1:], res[2:], err

    # (1) fixed buffer of exactly the reserve
    j, ls, res, err = ask({'s': b'hello'}, ['sweep 0 0 %d %d' % (RSV, RSV), 'sweep 0 2 %d %d' % (RSV, RSV)])
    hang = any(U.parse_c(r)['hang'] for r in res if r and r[0] in '-0123456789')
    ctx.count('probe fs0', klass='probe')
    variant['progress'] = not hang
    if hang:
        ctx.violation(KEY_FS0, 'printing into a fixed buffer of exactly FLATCC_JSON_PRINT_RESERVE (%d) bytes never returns: print_ex / print_indent_ex loop with flush_size 0' % RSV,
                      {'json': j.decode(), 'json_hex': j.hex(), 'harness_lines': ls, 'replies': res, 'size': RSV, 'mode': 'fixed'})
    # (4) base64 longer than the room below pflush, growing and fixed buffers
    t = {'b': bytes(range(256)) * 2}
    j, ls, res, err = ask(t, ['dyn 0 0 %d' % RSV, 'dyn 0 0 100', 'sweep 0 0 %d %d' % (RSV + 40, RSV + 43), 'sweep 0 0 300 303'])
    recs = [U.parse_c(x) for r in res for x in r.split(' ') if x.count(':') == 6]
    hang = any(r['hang'] for r in recs)
    ctx.count('probe b64', klass='probe')
    variant['b64'] = not hang
    if hang:
        ctx.violation(KEY_B64, 'printing a base64 field that does not fit below pflush never returns for growing and fixed buffers (chunk rounds down to 0, flush is a no-op while p < pflush)',
                      {'json': j.decode(), 'json_hex': j.hex(), 'harness_lines': ls, 'replies': res, 'mode': 'growing/fixed'})
    # (2) closing brackets: deep chain and vector of empty tables, no indentation
    found = None
    for name, t in (('chain-90', U.chain(90)), ('empty-table-vector', {'tv': [{} for _ in range(40)]})):
        L = len(U.t_json(t))
        j, ls, res, err = ask(t, ['ref 0 0', 'sweep 0 0 %d %d' % (RSV + 1, L + RSV + 8)])
        recs = [U.parse_c(x) for x in res[1].split(' ')]
        ctx.count('probe end ' + name, klass='probe', n=len(recs))
        over = [(RSV + 1 + i, r) for i, r in enumerate(recs) if r and r['over'] > 0]
        if over and not found: found = (name, j, ls, over[0], len(over), err)
    variant['end'] = found is None
    if found:
        name, j, ls, (sz, r), n, err = found
        ctx.violation(KEY_END, 'print_end writes closing brackets without a flush check: %s printed without indentation stores %d bytes past a fixed buffer of %d bytes (%d of the swept sizes overrun)' % (
            name, r['over'] % 1000000, sz, n), {'json': j.decode()[:600], 'json_hex': j.hex(), 'harness_lines': ls[:2] + ['sweep 0 0 %d %d' % (sz, sz)], 'size': sz, 'mode': 'fixed', 'asan': err[:1200]})
    # (3) element separators of union / table vectors
    found = None
    deep_tv = U.chain(98, {'tv': [{'i': 1} for _ in range(120)]})      # elements at the recursion limit print nothing but the separator (unverified buffer, builder-made)
    for name, t, ind, deep in (('union-vector-of-NONE', {'uv': [('NONE', None)] * 40}, 2, None), ('union-vector-of-NONE', {'uv': [('NONE', None)] * 40}, 0, None),
                               ('table-vector-at-recursion-limit', deep_tv, 2, (98, 120))):
        j, ls, res, err = ask(t, ['ref 0 %d' % ind, 'sweep 0 %d %d %d' % (ind, RSV + 1, RSV + 260)], deep)
        recs = [U.parse_c(x) for x in res[1].split(' ')]
        ctx.count('probe sep ' + name, klass='probe', n=len(recs))
        over = [(RSV + 1 + i, r) for i, r in enumerate(recs) if r and r['over'] > 0]
        if over and not found: found = (name, ind, j, ls, over[0], len(over), err)
    variant['sep'] = found is None
    if found:
        name, ind, j, ls, (sz, r), n, err = found
        ctx.violation(KEY_SEP, 'vector element separators are written without a flush check: %s (indent %d) stores %d bytes past a fixed buffer of %d bytes (%d of the swept sizes overrun)' % (
            name, ind, r['over'] % 1000000, sz, n), {'json': j.decode()[:600], 'json_hex': j.hex(), 'harness_lines': ls[:2] + ['sweep 0 %d %d %d' % (ind, sz, sz)], 'size': sz, 'indent': ind, 'mode': 'fixed', 'asan': err[:1200]})
    return variant


# ---------------------------------------------------------------- values
def make_cases(ctx, rng, RSV, FLUSH, NAME_MAX=100):
    T = ctx.thorough
    cs = []
    add = lambda *a, **k: cs.append(Case(*a, **k))
    # nesting: chains up to the limit (99 tables print, 100 raise deep_recursion), through tables, vectors, unions, nested roots
    for d in ([3, 30, 63, 64, 70, 98] if not T else [1, 2, 10, 30, 50, 62, 63, 64, 65, 66, 70, 90, 97, 98]):
        add('deep-chain', U.chain(d), flagsets=[(0, 0), (0, 1), (1, 3)] if not T else None)
    add('deep-chain-mixed', U.chain(40, {'s': b'end'}, key='nest'), flagsets=[(0, 0), (0, 2)])
    t = {'i': 7}
    for k in range(60): t = {'tv': [t]} if k % 3 == 0 else ({'u': ('T', t)} if k % 3 == 1 else {'t': t})
    add('deep-mixed', t, flagsets=[(0, 0), (0, 1), (2, 0)])
    # deeper than the verifier / parser accept: UNVERIFIED buffers made with the builder API; only memory safety, termination
    # and the deep_recursion error are expected of the printer
    add('deep-recursion', U.chain(99), flagsets=[(0, 0), (0, 2)], sweep='edges', deep=(99, 0))
    add('deep-recursion', U.chain(130), flagsets=[(0, 0)], sweep='edges', deep=(130, 0))
    add('deep-recursion', U.chain(98, {'tv': [{'i': 1} for _ in range(80)]}), flagsets=[(0, 0), (0, 2)], sweep='edges', deep=(98, 80))
    add('deep-limit', U.chain(97, {'tv': [{'i': 1} for _ in range(5)]}), flagsets=[(0, 0), (0, 2)], deep=(97, 5), note='99 nested tables: prints, the verifier refuses')
    # vectors of elements that print (almost) nothing
    for n in ([1, 25, 70] if not T else [0, 1, 2, 20, 21, 22, 30, 64, 70, 200]):
        add('empty-table-vector', {'tv': [{} for _ in range(n)]}, flagsets=[(0, 0), (0, 1)])
        add('union-vector-none', {'uv': [('NONE', None)] * n}, flagsets=[(0, 0), (0, 2), (3, 1)])
    add('union-vector-mixed', {'uv': [('NONE', None), ('str', b''), ('NONE', None), ('S', U.gen_S(rng)), ('T', {}), ('NONE', None)] * 6,
                               U.LU: [('NONE', None)] * 20 + [('str', b'x' * 70)]}, flagsets=[(0, 0), (0, 2), (1, 0)])
    # base64 around every chunk / padding boundary
    for n in ([0, 1, 2, 3, 47, 48, 100] if not T else list(range(0, 8)) + [44, 45, 46, 47, 48, 49, 50, 95, 96, 97, 100, 191, 192, 193, 500]):
        add('base64', {'b': bytes((i * 37 + 11) & 255 for i in range(n)), 'bu': bytes((i * 91 + 250) & 255 for i in range(max(0, n - 1)))}, flagsets=[(0, 0), (0, 2)])
    add('base64', {'s': b'pad' * 7, 'b': bytes(range(200)), 'i': 1}, flagsets=[(0, 0), (1, 0), (0, 255)])
    # strings: every escape class, lengths around the reserve
    for n in ([0, 1, 63, 64, 65, 200] if not T else [0, 1, 2, 10, 62, 63, 64, 65, 66, 127, 128, 129, 200, 1000]):
        add('string-plain', {'s': bytes(97 + i % 26 for i in range(n))}, flagsets=[(0, 0), (1, 2)])
        add('string-escapes', {'s': bytes([0x22, 0x5c, 0x0a, 0x01, 0x09, 0x1f, 0x0d, 0x08, 0x0c, 0x00][i % 10] for i in range(n))}, flagsets=[(0, 0), (0, 1)])
    add('string-mixed', {'strs': [U.gen_string(rng) for _ in range(12)], 's': b'\x7f\xc3\xa9\xe4\xb8\xad\xff\x80 end'})
    # names up to the limit, scalars with the longest number texts, enums and flags
    add('long-names', {U.LN: -32768, U.LU: [('str', b'a'), ('NONE', None), ('T', {U.LN: 1}), ('S', U.gen_S(rng))], 'u': ('T', {U.LN: 2})})
    add('scalars', {'i': -2147483648, 'd': -1.2345678901234567e-200, 'f': U.f32(-3.4028234663852886e38), 'bo': True, 'u64': 2**64 - 1, 'o': -2147483648,
                    'e': 7, 'c': 15, 'dv': U.DOUBLES, 'iv': [-2**63, 2**63 - 1] * 5}, flagsets=None if T else [(0, 0), (0, 2), (2, 0), (8, 1), (11, 3), (1, 255)])
    add('enums', {'e': -3, 'c': 10, 'ev': [-3, 0, 1, 7, 5, 7, 7], 'cv': [1, 2, 4, 8, 15, 16, 0, 3, 255], 'q': U.gen_Q(rng)}, flagsets=[(0, 0), (1, 0), (2, 2), (3, 1), (1, 2)])
    add('structs', {'st': U.gen_S(rng), 'q': U.gen_Q(rng), 'sv': [U.gen_S(rng) for _ in range(9)], 'u': ('S', U.gen_S(rng))})
    add('vectors', {'iv': list(range(-20, 40)), 'strs': [b'', b'a', b'"'], 'sv': [], 'tv': [], 'uv': [], 'ev': [], 'dv': [], 'cv': []})
    add('nested-root', {'nest': {'nest': {'s': b'inner', 'tv': [{}, {'i': 1}]}, 'i': 3}, 'i': 9})
    add('empty', {})
    # the longest unchecked run: quote colon space, a 24-character double, comma, newline, then a flush that stores its terminator
    add('number-run', {'i': 7, 'd': -2.2250738585072014e-308, 'u64': 1}, flagsets=[(0, 0), (0, 1), (0, 2), (1, 1), (1, 0)])
    add('number-run', {'dv': [-1.2345678901234567e-200, 5e-324, -4.9406564584124654e-324], 'd': -1.7976931348623157e308, 's': b'x'}, flagsets=[(0, 0), (0, 1), (1, 3)])
    add('number-run', {'t': {'d': -2.2250738585072014e-308}, 'tv': [{'d': -2.2250738585072014e-308}, {'d': -1.2345678901234567e-200, 'i': 1}]}, flagsets=[(0, 0), (0, 1)])
    # vectors of maximal-length numbers (24-character doubles, 20-character integers): every element needs its own flush check
    LONGD = [-2.2250738585072014e-308, -1.7976931348623157e308, -1.2345678901234567e-200, -4.9406564584124654e-324, -1.1125369292536007e-308, -8.98846567431158e+307 * 1.9999999999999998]
    for n in ((3, 4, 7, 40) if not T else (3, 4, 5, 6, 7, 10, 20, 40)):
        add('long-number-vector', {'dv': [LONGD[i % len(LONGD)] for i in range(n)]}, flagsets=[(0, 0), (1, 0)] + ([(0, 1)] if n in (3, 7) else []))
        add('long-number-vector', {'iv': [-9223372036854775808 + i for i in range(n)], 'dv': [LONGD[(i + 2) % len(LONGD)] for i in range(n)]}, flagsets=[(0, 0)])
    # union vector fields ("<name>_type" is assembled in a scratch array) with names of every length 90..100, and beyond the limit
    for nm in U.UVNAMES:
        uv = [('str', b'ab'), ('NONE', None), ('T', {'i': 1})]
        if len(nm) <= 100: add('union-vector-name-%d' % len(nm), {nm: uv, 'i': 3}, flagsets=[(0, 0), (0, 1), (1, 0)])
        else: add('union-vector-name-%d' % len(nm), {'i': 3, 't2': {'i': 1, nm: uv}}, flagsets=[(0, 0), (0, 1)], badname=len(nm) > NAME_MAX, sweep='edges')
    # a field of enum type whose 31-character name and 31-character symbol are printed back to back (two symbols, no check between)
    add('enum-long-name', {U.F31: 9, 'i': 5}, flagsets=[(0, 0), (0, 1), (1, 0), (8, 0), (1, 2)])
    add('enum-long-name', {'s': b'abc', 'tv': [{U.F31: 9}, {U.F31: 9, 'e': 9}], 'ev': [9, 9, 9], U.F31: 9}, flagsets=[(0, 0), (0, 2), (1, 0)])
    # enlargements of the growing buffer that fail
    add('alloc-failure', {'s': b'x' * 150, 'iv': list(range(40)), 't': {'strs': [b'abc' * 20] * 5}}, flagsets=[(0, 0), (0, 2)], sweep=False, file=False, allocfail=True)
    add('alloc-failure', U.chain(40), flagsets=[(0, 0), (0, 3)], sweep=False, file=False, allocfail=True)
    add('alloc-failure', {'b': bytes(range(256)), 'uv': [('str', b'y' * 90), ('NONE', None)] * 4}, flagsets=[(0, 0)], sweep=False, file=False, allocfail=True)
    # texts ending within a few bytes of a multiple of the file printer's flush size, indented and not
    fmt0 = U.Fmt(); fmt0.d[0.0] = '0'; fmt0.f[0.0] = '0'
    for ind in (0, 1, 2):
        mk = lambda n, k: {'s': b'y' * k, 'strs': [b'q' * 100] * n}
        r = U.run_model(ctx, ['text 1111 %d 0 0 %s' % (ind, ' '.join(U.tok_t(mk(n, 0), fmt0, False))) for n in (1, 2)])
        f1, f2 = [len(x.split()[4]) // 2 for x in r]
        for mult in ((1, 2, 3) if T else (1, 2)):
            n = (mult * FLUSH - 16 - (f1 - (f2 - f1))) // (f2 - f1)
            base = f1 + (n - 1) * (f2 - f1)
            for j in (range(-4, 8) if T else range(-2, 5)):
                k = mult * FLUSH + j - base
                if k >= 0: add('file-boundary', mk(n, k), flagsets=[(0, ind)], sweep=False, dyn=False, note='text length = %d * flush size %+d' % (mult, j))
    # indentation 0..255 with nesting (level * indent grows past the flush threshold)
    for ind in ([7, 64, 255] if not T else [1, 3, 4, 31, 32, 33, 63, 64, 65, 100, 128, 200, 254, 255]):
        add('indent', U.chain(12, {'iv': [1, 2], 's': b'x'}), flagsets=[(0, ind), (1, ind)], sweep=True)
    if T:
        for ind in range(0, 256):
            add('indent-all', U.chain(5, {'iv': [1]}), flagsets=[(0, ind)], sweep='edges')
    # random mixtures
    for k in range(160 if T else 26):
        add('random', U.gen_T(rng))
    # texts beyond the file printer's flush size, at every alignment of the threshold crossing
    big = {'iv': [(-1) ** i * (10 ** (i % 19)) for i in range(1500)], 'strs': [bytes(97 + (i + k) % 26 for k in range(i % 90)) for i in range(260)]}
    for k in (range(0, 70) if T else [0, 1, 2, 3, 5, 17, 40, 63, 64, 65]):
        t = dict(big); t['s'] = b'y' * k
        add('big-file', t, flagsets=[(0, 0)] + ([(0, 1)] if k % 16 == 0 else []), sweep=False, dyn=(k < 2))
    add('big-file-b64', {'b': bytes((i * 7) & 255 for i in range(40000)), 's': b'z' * 11}, flagsets=[(0, 0)], sweep='edges', dyn=True)
    add('big-file-b64', {'strs': [b'q' * 100] * 160, 'bu': bytes((i * 13) & 255 for i in range(3001))}, flagsets=[(0, 0), (0, 2)], sweep=False, dyn=True)
    add('big-deep-indent', U.chain(20, {'strs': [b'w' * 300] * 8}), flagsets=[(0, 200)], sweep='edges', dyn=True)
    return cs


# ---------------------------------------------------------------- replay of one recorded case
def replay(ctx, H, RSV):
    rep = json.load(open(ctx.replay_in))
    lines = rep.get('harness_lines') or []
    if not lines:
        ctx.log('replay file has no harness_lines (nothing to re-run): ' + str(rep.get('what', ''))[:200]); return
    res, err = hrun(H, lines, timeout=120)
    for l, r in zip(lines, res): ctx.log('  %s  ->  %s' % (l[:100], r[:300]))
    bad = False
    for l, r in zip(lines, res):
        ctx.count(l, klass='replay')
        for x in r.split(' '):
            if re.match(r'^-?\d+:\d+:\d+:\d+:\d+:\d+:\d+$', x):
                c = U.parse_c(x)
                if c['hang'] or c['over'] > 0: bad = True
    if bad:
        ctx.violation(rep.get('key', 'replay'), 'replayed: ' + str(rep.get('what', ''))[:300], rep)
    else:
        ctx.log('replay: the recorded failure did not reproduce on this tree')
    if err: ctx.log('stderr: ' + err[:600])
