"""Selftest of the printer read model (coq/Verifier/PrinterModel.v, build/modelrun_printerwalk) against the generated
JSON printer of /repo:   cd /verif && python3 -m checks.c01b_selftest [seed]

 (a) accepted-buffer agreement: buffers the C verifier accepts (valid + targeted mutations of c01.run()) are printed
     clean by the C printer (plen >= 0) and the model says OK; deep chains around the nesting limits.
 (b) exactness on truncations: B' = B[:-k] printed WITHOUT verification under ASan vs. the model on B':
     OK <=> clean plen >= 0, ERR e <=> clean plen == -e, BAD <=> sanitizer abort.
 (c) string terminator overwritten: verify model ERR 7, pwalk BAD <len> 1 1, C printer heap-buffer-overflow.
 (d) informational: misplaced valid buffers, model BAD with al > 1 vs. UBSan misaligned.
 (0) runner experiment: how a crash after the flushed "P" is attributed by lib.run_harness_resilient / run_print_only.
Exit status 1 on any disagreement.  All build output under build/C01b/.
"""
import os, re, sys, time, random
from concurrent.futures import ThreadPoolExecutor
from . import lib, c01, c01b_util as U
from gen import c01gen, fbenc

FEATURE_SETS = [None,
                ['scalar', 'struct', 'string', 'vec_scalar', 'vec_struct', 'vec_string', 'table', 'vec_table'],
                ['scalar', 'union', 'vec_union', 'table', 'string'],
                ['scalar', 'nested_table', 'nested_struct', 'vec_struct', 'struct', 'table'],
                None, ['vec_union', 'union', 'vec_table'], None, ['nested_struct', 'nested_table', 'scalar'], None, None]
NSCHEMAS = 6          # fixed-seed schemas fx0..fx5 (the recipe of c01.run()); plus NRAND schemas drawn from the seed
NRAND = 2
PER_BUF = 500         # as c01.run() quick tier
NVALS = 3


def fixed_schema(i):
    """the fixed-seed recipe of c01.run()"""
    r = random.Random(1000 + i)
    return 'fx%d' % i, c01gen.gen_schema(r, nstructs=r.randint(1, 3), ntables=r.randint(2, 4), nunions=r.randint(1, 2),
                                         features=FEATURE_SETS[i % len(FEATURE_SETS)])


def gen_cases(S, rng, per_buf, nvals):
    """the case generation loop of c01.run(); returns dicts (root, rootdesc, v, am, buf, klass, marks)"""
    maxal = max([4] + [st['align'] for st in S['structs'].values()] + [8])
    out = []
    for rootname, rootdesc in c01.roots_of(S):
        for vi in range(nvals):
            for ws in (False, True):
                enc = fbenc.Enc(S)
                if rootdesc.startswith('T'):
                    val = fbenc.gen_value(S, rootname, rng, maxdepth=rng.choice([1, 2, 3]))
                    if vi == 0: val['__vt_extra'] = 2
                    buf = enc.finish_table_root(rootname, val, rng, with_size=ws)
                else:
                    buf = enc.finish_struct_root(rootname, bytes(rng.getrandbits(8) for _ in range(S['structs'][rootname]['size'])), with_size=ws)
                v = 's' if ws else 'p'
                muts = [('valid', buf, 0)]
                for am in (maxal, 3 * maxal): muts.append(('valid_addr', buf, am % 256))
                cand = []
                for pos, w, kind in enc.marks:
                    orig = int.from_bytes(buf[pos:pos + w], 'little')
                    for nv in c01.mutation_values(orig, w, pos, len(buf)):
                        cand.append((kind, pos, w, nv))
                rng.shuffle(cand)
                for kind, pos, w, nv in cand[:per_buf]:
                    nb = bytearray(buf); nb[pos:pos + w] = nv.to_bytes(w, 'little')
                    muts.append(('mut_' + kind, bytes(nb), 0))
                for L in sorted(set([0, 3, 4, 7, 8, 11, 12] + [rng.randint(0, len(buf)) for _ in range(20)] + [len(buf) - k for k in range(1, 9)])):
                    if 0 <= L < len(buf): muts.append(('trunc', buf[:L], 0))
                for _ in range(30):
                    nb = bytearray(buf)
                    for _ in range(rng.choice([1, 1, 2, 4])): nb[rng.randrange(len(nb))] = rng.getrandbits(8)
                    muts.append(('randbyte', bytes(nb), 0))
                for klass, bb, am in muts:
                    out.append({'root': rootname, 'rootdesc': rootdesc, 'v': v, 'am': am, 'buf': bb, 'klass': klass,
                                'marks': list(enc.marks) if klass == 'valid' else None})
    return out


def run_vw_resilient(exe, ilines):
    """the crash-resume loop of c01.run(): an unterminated 'V 0' is the crash marker"""
    H = lib.Harness(exe)
    rc, ires, err = H.run(ilines)
    replies, guard = list(ires), 0
    while len(replies) < len(ilines) and guard < 300:
        k = len(replies) - 1 if replies and not replies[-1].endswith('unmodified') and replies[-1].startswith('V 0') else len(replies)
        if k == len(replies): replies.append('V ? CRASH')
        rc1, o1, e1 = lib.sh2([exe], input=ilines[k] + '\n', env={'ASAN_OPTIONS': 'detect_leaks=0'}, timeout=60)
        replies[k] = ('V 0 CRASH ' if replies[k].startswith('V 0') else 'V ? CRASH ') + ' | '.join([l for l in e1.split('\n') if 'ERROR' in l or 'runtime error' in l or '#0' in l or '#1' in l or '#2' in l][:6])[:700]
        rc, more, err = H.run(ilines[k + 1:])
        replies.extend(more)
        guard += 1
    # more than 300 crashes: stop restarting; the rest is marked (and reported as crashes on accepted buffers)
    while len(replies) < len(ilines): replies.append('V 0 CRASH (too many crashes, not run)')
    return replies, guard


def main():
    seed = int(sys.argv[1]) if len(sys.argv) > 1 else 1
    T0 = time.time()
    ctx = lib.Ctx('C01b', 'quick', seed, level='proof')
    rng = ctx.rng
    fl = {'objs': ctx.rt_objs(san=True, defs=['-DNDEBUG'])}
    ctx.flatcc()
    levels = ctx.run_model('printerwalk', ['levels'])[0]
    ctx.log('seed %d; model levels (JSON_PRINT_MAX_LEVELS VERIFIER_MAX_LEVELS) = %s' % (seed, levels))
    dis = []          # disagreements (strings)

    def disagree(part, msg):
        dis.append('(%s) %s' % (part, msg))
        if len(dis) <= 60: print('DISAGREEMENT (%s) %s' % (part, msg), flush=True)

    # ------------------------------------------------------------------ build everything in parallel
    schemas = [fixed_schema(i) for i in range(NSCHEMAS)]
    for i in range(NRAND):
        schemas.append(('rn%d' % i, c01gen.gen_schema(rng, nstructs=rng.randint(0, 3), ntables=rng.randint(1, 4), nunions=rng.randint(0, 2))))
    deepS = {'structs': {}, 'struct_order': [], 'unions': [], 'root': 'T',
             'tables': [{'name': 'T', 'fields': [{'name': 'child', 'kind': 'table', 'type': 'T', 'required': False},
                                                 {'name': 'kids', 'kind': 'vec_table', 'type': 'T', 'required': False}]}]}
    jobs = []
    for name, S in schemas + [('deep', deepS)]:
        jobs.append(('vw', name, S)); jobs.append(('po', name, S))

    def build(j):
        kind, name, S = j
        if kind == 'vw':
            res, err = c01.build_schema_harness(ctx, S, name, fl)
            if res is None: raise lib.CheckError('%s: %s' % (name, err))
            return (kind, name), res
        exe, err = U.build_print_only_harness(ctx, S, name, fl)
        if exe is None: raise lib.CheckError('%s: %s' % (name, err))
        return (kind, name), exe
    with ThreadPoolExecutor(max_workers=16) as ex:
        built = dict(ex.map(build, jobs))
    ctx.log('built %d harnesses' % len(built))

    # ------------------------------------------------------------------ (a) accepted-buffer agreement
    def work_a(arg):
        i, (name, S) = arg
        r = random.Random(seed * 7919 + i)
        cs = gen_cases(S, r, PER_BUF, NVALS)
        exe, dc = built[('vw', name)]
        ilines = ['vw %s %s %d %s' % (c['root'], c['v'], c['am'], U.hexs(c['buf'])) for c in cs]
        replies, restarts = run_vw_resilient(exe, ilines)
        if len(replies) != len(ilines): raise lib.CheckError('%s: %d replies for %d lines' % (name, len(replies), len(ilines)))
        return name, cs, replies, restarts
    with ThreadPoolExecutor(max_workers=len(schemas)) as ex:
        resa = list(ex.map(work_a, enumerate(schemas)))
    ctx.log('(a) C harness done')
    accepted = []     # dicts: + schema, S, desc, reply
    hist_all, hist_acc = {}, {}
    for (name, S), (_, cs, replies, restarts) in zip(schemas, resa):
        exe, dc = built[('vw', name)]
        desc_e = c01gen.expected_descriptor(S)
        if dc['desc'] != desc_e:
            print('note: %s: T2 descriptor differs from the schema-derived one (c01 reports this)' % name)
        nacc = 0
        for c, ir in zip(cs, replies):
            hist_all[c['klass']] = hist_all.get(c['klass'], 0) + 1
            if not ir.startswith('V 0'): continue
            nacc += 1
            hist_acc[c['klass']] = hist_acc.get(c['klass'], 0) + 1
            c.update(schema=name, S=S, desc=desc_e, reply=ir)
            accepted.append(c)
            line = 'vw %s %s %d %s' % (c['root'], c['v'], c['am'], U.hexs(c['buf']))
            if 'CRASH' in ir:
                disagree('a', '%s %s: C crash on an accepted buffer: %s | %s' % (name, c['klass'], ir[:300], line[:400]))
                continue
            m = re.match(r'V 0 W ok (-?\d+) (\w+)$', ir)
            if not m: disagree('a', '%s %s: unparsable reply %r' % (name, c['klass'], ir[:100]))
            elif int(m.group(1)) < 0:
                disagree('a', '%s %s: C printer raised its own error %s on an accepted buffer | %s' % (name, c['klass'], m.group(1), line[:400]))
        ctx.log('(a) %s: %d cases, %d accepted, %d crash restarts' % (name, len(cs), nacc, restarts))
    pw_bad = U.printer_walk_check(ctx, [(c['desc'], c['rootdesc'], c['v'], c['am'], U.hexs(c['buf'])) for c in accepted])
    for j, case, rep in pw_bad:
        c = accepted[j]
        disagree('a', '%s %s: model pwalk says %s on an accepted buffer (C: %s) | pwalk %s %s %d %s' % (
            c['schema'], c['klass'], rep, c['reply'][:60], c['rootdesc'], c['v'], c['am'], U.hexs(c['buf'])[:400]))
    n_mut = sum(n for k, n in hist_acc.items() if k.startswith('mut_') or k == 'randbyte')
    n_valid = sum(n for k, n in hist_acc.items() if k.startswith('valid'))
    print('(a) accepted buffers per klass (accepted/generated):')
    for k in sorted(hist_all): print('      %-14s %6d / %6d' % (k, hist_acc.get(k, 0), hist_all[k]))
    print('(a) accepted total %d: valid %d, mutated (mut_*/randbyte) %d, trunc %d; model non-OK on accepted: %d; own-error replies (printer_error_replies): %d' % (
        len(accepted), n_valid, n_mut, hist_acc.get('trunc', 0), len(pw_bad), len(U.printer_error_replies([c['reply'] for c in accepted]))))
    if n_mut < 1000: disagree('a', 'only %d accepted mutated buffers (< 1000): coverage target missed' % n_mut)
    if U.printer_walk_check(ctx, []) != []: disagree('a', 'printer_walk_check([]) is not []')
    if U.printer_error_replies(['V 0 W ok -2 unmodified', 'V 0 W ok 12 unmodified', 'V 3', 'V 0 CRASH x', 'V 0 W ok -1 MODIFIED', 'V 0']) != [0, 4]:
        disagree('a', 'printer_error_replies self-check failed')

    # deep chains
    dexe, ddc = built[('vw', 'deep')]
    dpo = built[('po', 'deep')]
    plans = ['c' * 97, 'c' * 98, 'c' * 99, 'c' * 100, 'c' * 90 + 'v' + 'c' * 5, 'c' * 90 + 'v' + 'c' * 8, 'c' * 90 + 'v' + 'c' * 9]
    dhex = [c01.deep_chain(p).hex() for p in plans]
    dv, _ = run_vw_resilient(dexe, ['vw T p 0 ' + h for h in dhex])
    dp = U.run_print_only(dpo, ['pw T p 0 ' + h for h in dhex], jobs=4)
    dm = ctx.run_model('printerwalk', ['schema deep ' + ddc['desc']] + ['pwalk deep T/0 p 0 ' + h for h in dhex] + ['verify deep T/0 p 0 ' + h for h in dhex])
    if dm[0] != 'OK': disagree('a-deep', 'deep schema not wf: ' + dm[0])
    print('(a) deep chains (c = via table field, v = via one-element table vector):')
    for i, p in enumerate(plans):
        ntab = len(p) + 1
        pm, vm = dm[1 + i], dm[1 + len(plans) + i]
        kind, val = U.po_result(dp[i])
        pshort = p if len(set(p)) > 1 and len(p) < 20 else re.sub(r'(c+)', lambda m: "c*%d " % len(m.group(1)), p).strip()
        print('      %-14s tables %3d: C verify+walk %-28s model verify %-7s | print-only C %-8s model pwalk %s' % (pshort, ntab, dv[i][:28], vm, dp[i][:8], pm))
        acc = dv[i].startswith('V 0')
        if acc != (vm == 'OK'): disagree('a-deep', '%s: C verifier %s vs verify model %s' % (pshort, dv[i][:20], vm))
        if acc:
            m = re.match(r'V 0 W ok (-?\d+) (\w+)$', dv[i])
            if not m or int(m.group(1)) < 0: disagree('a-deep', '%s accepted but C printer: %s' % (pshort, dv[i][:80]))
            if pm != 'OK': disagree('a-deep', '%s accepted but model pwalk %s' % (pshort, pm))
        # print-only C vs model on every chain, accepted or not
        exp = ('ok', None) if pm == 'OK' else (('err', int(pm.split()[1])) if pm.startswith('ERR') else ('crash', None))
        if kind != exp[0] or (kind == 'err' and val != exp[1]): disagree('a-deep', '%s: print-only C %s vs model pwalk %s' % (pshort, dp[i][:60], pm))
        if ntab >= 100 and 'v' not in p and pm != 'ERR 2': disagree('a-deep', '%s: chain of %d tables: model pwalk %s, expected ERR 2' % (pshort, ntab, pm))

    # ------------------------------------------------------------------ (b) exactness on truncations
    per_schema = 600 // len(schemas)
    sample = []
    for name, S in schemas:
        acc = [c for c in accepted if c['schema'] == name and len(c['buf']) >= 8 and 'CRASH' not in c['reply']]
        val = [c for c in acc if c['klass'].startswith('valid')]
        mut = [c for c in acc if c['klass'].startswith('mut_') or c['klass'] == 'randbyte']
        rng.shuffle(val); rng.shuffle(mut)
        # a third valid, two thirds mutated; plain and size-prefixed halves; at most a fifth struct roots (tiny buffers)
        for pool, n in ((val, per_schema // 3), (mut, per_schema - per_schema // 3)):
            for v, nv in (('p', (n + 1) // 2), ('s', n // 2)):
                sub = [c for c in pool if c['v'] == v]
                tr = [c for c in sub if c['rootdesc'].startswith('T')]; sr = [c for c in sub if c['rootdesc'].startswith('S')]
                ns_ = min(len(sr), max(1, nv // 5))
                sample += tr[:nv - ns_] + sr[:ns_]
    tb = []           # (entry, k, bytes)
    for c in sample:
        L = len(c['buf'])
        ks = {1, 2, 3, 4, 8}
        if L // 2 > 1: ks.add(rng.randrange(1, L // 2)); ks.add(rng.randrange(1, L // 2))
        for k in sorted(ks):
            if k < L: tb.append((c, k, c['buf'][:-k]))
    ctx.log('(b) %d accepted buffers sampled (%d valid, %d mutated; %d plain, %d size-prefixed), %d truncations' % (
        len(sample), sum(1 for c in sample if c['klass'].startswith('valid')), sum(1 for c in sample if not c['klass'].startswith('valid')),
        sum(1 for c in sample if c['v'] == 'p'), sum(1 for c in sample if c['v'] == 's'), len(tb)))
    mrep = ['OK'] * len(tb)
    for j, case, rep in U.printer_walk_check(ctx, [(c['desc'], c['rootdesc'], c['v'], c['am'], U.hexs(b)) for c, k, b in tb]): mrep[j] = rep
    crep = [None] * len(tb)
    for name, S in schemas:
        idx = [i for i, (c, k, b) in enumerate(tb) if c['schema'] == name]
        rs = U.run_print_only(built[('po', name)], ['pw %s %s %d %s' % (tb[i][0]['root'], tb[i][0]['v'], tb[i][0]['am'], U.hexs(tb[i][2])) for i in idx])
        for i, r in zip(idx, rs): crep[i] = r
    ctx.log('(b) model and C done')
    table, bad_clean, hard = {}, [], 0
    for i, ((c, k, b), m, r) in enumerate(zip(tb, mrep, crep)):
        kind, val = U.po_result(r)
        mk = m.split()[0]
        ck = kind if kind != 'crash' else 'crash:' + val
        table[(mk, ck)] = table.get((mk, ck), 0) + 1
        line = 'pw %s %s %d %s' % (c['root'], c['v'], c['am'], U.hexs(b))
        where = '%s %s k=%d len=%d' % (c['schema'], c['klass'], k, len(b))
        if kind == 'other': disagree('b', '%s: harness reply %r' % (where, r[:100]))
        elif mk == 'OK':
            if kind == 'crash':
                hard += 1; disagree('b', 'HARD %s: model OK but C sanitizer error (model misses a read): %s | %s' % (where, r[:500], line[:600]))
            elif kind == 'err': disagree('b', '%s: model OK but C printer error -%d | %s' % (where, val, line[:600]))
        elif mk == 'ERR':
            e = int(m.split()[1])
            if kind == 'crash':
                hard += 1; disagree('b', 'HARD %s: model %s but C sanitizer error (model misses a read): %s | %s' % (where, m, r[:500], line[:600]))
            elif kind != 'err' or val != e: disagree('b', '%s: model %s but C %s | %s' % (where, m, r[:40], line[:600]))
        elif mk == 'BAD':
            if kind != 'crash': bad_clean.append(i)
        else: disagree('b', '%s: model reply %s' % (where, m))
    print('(b) truncations: %d cases; model x C table:' % len(tb))
    for (mk, ck), n in sorted(table.items()): print('      model %-5s C %-32s %6d' % (mk, ck, n))
    # model BAD, C clean: the one legitimate explanation is a struct whose tail padding alone was cut off
    ext = {name: U.struct_extents(S) for name, S in schemas}
    explained, confirm = [], []
    for i in bad_clean:
        c, k, b = tb[i]
        _, pos, w, al = mrep[i].split(); pos, w, al = int(pos), int(w), int(al)
        cands = [(nm, sz, tp) for nm, (sz, a, e, tp) in ext[c['schema']].items() if tp > 0 and a == al and w % sz == 0 and w >= sz and len(b) >= pos + w - tp and pos + w > len(b)]
        if cands:
            tpmax = max(tp for _, _, tp in cands)
            explained.append((i, cands))
            cut = pos + w - tpmax - 1          # one byte into the last member (of the candidate with the largest padding)
            confirm.append((i, cut))
        else:
            disagree('b', '%s %s k=%d: model %s on a buffer of %d bytes but C ran clean (%s), and no struct tail padding explains it | pw %s %s %d %s' % (
                c['schema'], c['klass'], k, mrep[i], len(b), crep[i][:20], c['root'], c['v'], c['am'], U.hexs(b)[:600]))
    print('(b) model BAD but C clean: %d (explained by cut-off struct tail padding only: %d, unexplained: %d)' % (len(bad_clean), len(explained), len(bad_clean) - len(explained)))
    byroot = {}
    for i, cands in explained:
        kk = 'struct root' if tb[i][0]['rootdesc'].startswith('S') else 'table root (struct field / struct vector / union struct member / nested struct root at the end of the buffer)'
        byroot[kk] = byroot.get(kk, 0) + 1
    for kk in sorted(byroot): print('      %d under a %s' % (byroot[kk], kk))
    seen, shown = set(), 0
    for i, cands in explained:
        c, k, b = tb[i]
        key = (c['schema'], c['root'], tuple(mrep[i].split()[2:]))
        if key in seen or shown >= 10: continue
        seen.add(key); shown += 1
        print('      %s root %s %s %s k=%d: model %s, buffer length %d, C %s; candidate structs (name,size,tailpad) %s' % (
            c['schema'], c['root'], c['v'], c['klass'], k, mrep[i], len(b), crep[i][:12], cands))
    # confirmation: cutting one byte into the last member makes the C abort as well
    nconf = 0
    for name, S in schemas:
        sel = [(i, cut) for i, cut in confirm if tb[i][0]['schema'] == name]
        rs = U.run_print_only(built[('po', name)], ['pw %s %s %d %s' % (tb[i][0]['root'], tb[i][0]['v'], tb[i][0]['am'], U.hexs(tb[i][0]['buf'][:cut])) for i, cut in sel])
        for (i, cut), r in zip(sel, rs):
            if U.po_result(r)[0] == 'crash': nconf += 1
            else: disagree('b', '%s: padding explanation NOT confirmed: cut at %d (model %s) still prints clean: %s' % (name, cut, mrep[i], r[:40]))
    print('(b) padding explanation confirmed (C aborts when cut one byte into the last member): %d / %d' % (nconf, len(confirm)))
    print('(b) hard failures (C sanitizer error while model says OK/ERR): %d' % hard)

    # sensitivity of (b): a model that misses reads (descriptor with the last field of every table dropped) must be caught
    def weaken(desc):
        return ' '.join((t[:2] + ','.join(t[2:].split(',')[:-1])) if t[0] == 'T' else t for t in desc.split(' '))
    wrep = ['OK'] * len(tb)
    for j, case, rep in U.printer_walk_check(ctx, [(weaken(c['desc']), c['rootdesc'], c['v'], c['am'], U.hexs(b)) for c, k, b in tb]): wrep[j] = rep
    caught = sum(1 for w, r in zip(wrep, crep) if not w.startswith('BAD') and U.po_result(r)[0] == 'crash')
    print('(b) sensitivity: the same truncations against a model that skips the last field of every table: %d of %d C aborts are not predicted (would be hard failures)' % (
        caught, sum(1 for r in crep if U.po_result(r)[0] == 'crash')))
    if caught == 0: disagree('b', 'sensitivity experiment: a weakened model was not caught by the truncation test')

    # ------------------------------------------------------------------ (0) runner experiment
    okl = [i for i in range(len(tb)) if U.po_result(crep[i])[0] == 'ok']
    crl = [i for i in range(len(tb)) if U.po_result(crep[i])[0] == 'crash']
    done0 = False
    for name, S in schemas:
        o = [i for i in okl if tb[i][0]['schema'] == name]; cr = [i for i in crl if tb[i][0]['schema'] == name]
        if len(o) >= 2 and cr:
            sel = [o[0], cr[0], o[1], o[0]]
            ls = ['pw %s %s %d %s' % (tb[i][0]['root'], tb[i][0]['v'], tb[i][0]['am'], U.hexs(tb[i][2])) for i in sel]
            mine = U.run_print_only(built[('po', name)], ls, jobs=1)
            theirs = lib.run_harness_resilient(lib.Harness(built[('po', name)]), ls, timeout=60)
            print('(0) runner experiment on %s, lines [ok, crash, ok, ok]:' % name)
            print('      expected            : %s' % [crep[i][:24] for i in sel])
            print('      run_print_only      : %s' % [r[:24] for r in mine])
            print('      run_harness_resilient: %s   <- %s' % ([r[:24] for r in theirs],
                  'same attribution' if [r.split()[0] for r in theirs] == [r.split()[0] for r in mine] else 'partial "P" taken as the reply of the crashing line, CRASH charged to the NEXT line (which is never run): not used here'))
            want = [U.po_result(crep[i])[0] for i in sel]
            if [U.po_result(r)[0] for r in mine] != want or mine[0] != crep[sel[0]] or mine[2] != crep[sel[2]]:
                disagree('0', 'run_print_only misattributes replies: %s' % mine)
            done0 = True
            break
    if not done0: print('(0) runner experiment skipped (no schema with two clean and one crashing truncation)')

    # ------------------------------------------------------------------ (c) string terminator
    cc = []
    pool = [c for c in accepted if c['klass'] == 'valid' and c['marks'] and any(kd == 'strlen' for _, _, kd in c['marks'])]
    # more valid buffers with strings (densely populated values), kept when the C verifier accepts them
    extra = []
    for si, (name, S) in enumerate(schemas):
        r = random.Random(seed * 104729 + si)
        desc_e = c01gen.expected_descriptor(S)
        for rootname, rootdesc in c01.roots_of(S):
            if not rootdesc.startswith('T'): continue
            for j in range(40):
                enc = fbenc.Enc(S)
                val = fbenc.gen_value(S, rootname, r, maxdepth=r.choice([1, 2, 3]), p_present=0.9)
                buf = enc.finish_table_root(rootname, val, r, with_size=bool(j & 1))
                if any(kd == 'strlen' for _, _, kd in enc.marks):
                    extra.append({'root': rootname, 'rootdesc': rootdesc, 'v': 's' if j & 1 else 'p', 'am': 0, 'buf': buf, 'klass': 'valid',
                                  'marks': list(enc.marks), 'schema': name, 'S': S, 'desc': desc_e})
    for name, S in schemas:
        sel = [c for c in extra if c['schema'] == name]
        if not sel: continue
        rs, _ = run_vw_resilient(built[('vw', name)][0], ['vw %s %s %d %s' % (c['root'], c['v'], c['am'], U.hexs(c['buf'])) for c in sel])
        for c, r in zip(sel, rs):
            c['reply'] = r
            if re.match(r'V 0 W ok \d+ unmodified$', r): pool.append(c)
            else: disagree('c', '%s: a valid buffer of the encoder is not accepted / not printed clean: %s' % (name, r[:100]))
    rng.shuffle(pool)
    for c in pool[:110]:
        sm = [(p, w) for p, w, kd in c['marks'] if kd == 'strlen']
        p, w = rng.choice(sm)
        n = int.from_bytes(c['buf'][p:p + 4], 'little')
        tpos = p + 4 + n
        if tpos >= len(c['buf']) or c['buf'][tpos] != 0: disagree('c', 'encoder mark does not lead to a terminator'); continue
        nb = bytearray(c['buf']); nb[tpos] = 0x41
        cc.append((c, tpos, bytes(nb)))
    names, ml = {}, []
    for c, tpos, nb in cc:
        if c['desc'] not in names: names[c['desc']] = 's%d' % len(names); ml.append('schema %s %s' % (names[c['desc']], c['desc']))
    ns = len(ml)
    for c, tpos, nb in cc: ml.append('verify %s %s %s %d %s' % (names[c['desc']], c['rootdesc'], c['v'], c['am'], nb.hex()))
    for c, tpos, nb in cc: ml.append('pwalk %s %s %s %d %s' % (names[c['desc']], c['rootdesc'], c['v'], c['am'], nb.hex()))
    mr = ctx.run_model('printerwalk', ml) if cc else []
    vres, pres = mr[ns:ns + len(cc)], mr[ns + len(cc):]
    cres = [None] * len(cc)
    for name, S in schemas:
        idx = [i for i, (c, _, _) in enumerate(cc) if c['schema'] == name]
        rs = U.run_print_only(built[('po', name)], ['pw %s %s %d %s' % (cc[i][0]['root'], cc[i][0]['v'], cc[i][0]['am'], cc[i][2].hex()) for i in idx])
        for i, r in zip(idx, rs): cres[i] = r
    okc = 0
    for (c, tpos, nb), v, p, r in zip(cc, vres, pres, cres):
        good = True
        if v != 'ERR 7': good = False; disagree('c', '%s: verify model %s (expected ERR 7) terminator at %d | %s' % (c['schema'], v, tpos, nb.hex()[:400]))
        if p != 'BAD %d 1 1' % len(nb): good = False; disagree('c', '%s: pwalk %s (expected BAD %d 1 1) terminator at %d | %s %s %s' % (c['schema'], p, len(nb), tpos, c['rootdesc'], c['v'], nb.hex()[:400]))
        if U.po_result(r) != ('crash', 'asan:heap-buffer-overflow'): good = False; disagree('c', '%s: C print-only %s (expected ASan heap-buffer-overflow) terminator at %d | %s' % (c['schema'], r[:200], tpos, nb.hex()[:400]))
        okc += good
    print('(c) string terminator overwritten: %d buffers (%d schemas with strings); verify ERR 7 + pwalk BAD <len> 1 1 + C heap-buffer-overflow on %d' % (
        len(cc), len(set(c['schema'] for c, _, _ in cc)), okc))
    if len(cc) < 50: disagree('c', 'only %d string buffers' % len(cc))

    # ------------------------------------------------------------------ (d) informational: misplaced valid buffers
    vpool = [c for c in accepted if c['klass'] == 'valid']
    rng.shuffle(vpool)
    dd = [(c, am) for c in vpool[:40] for am in (4, 2, 1)]
    dmr = ['OK'] * len(dd)
    for j, case, rep in U.printer_walk_check(ctx, [(c['desc'], c['rootdesc'], c['v'], am, U.hexs(c['buf'])) for c, am in dd]): dmr[j] = rep
    dcr = [None] * len(dd)
    for name, S in schemas:
        idx = [i for i, (c, am) in enumerate(dd) if c['schema'] == name]
        rs = U.run_print_only(built[('po', name)], ['pw %s %s %d %s' % (dd[i][0]['root'], dd[i][0]['v'], dd[i][1], U.hexs(dd[i][0]['buf'])) for i in idx])
        for i, r in zip(idx, rs): dcr[i] = r
    t22, other = {}, {}
    for (c, am), m, r in zip(dd, dmr, dcr):
        mb = m.startswith('BAD') and int(m.split()[3]) > 1
        cb = U.po_result(r) == ('crash', 'ubsan:misaligned')
        t22[(mb, cb)] = t22.get((mb, cb), 0) + 1
        if not cb and U.po_result(r)[0] != 'ok': other[r[:40]] = other.get(r[:40], 0) + 1
        if mb != cb: other['am=%d model %s C %s' % (am, m, r[:30])] = other.get('am=%d model %s C %s' % (am, m, r[:30]), 0) + 1
    print('(d) informational: %d valid buffers x addrmod 4, 2, 1 (%d runs):' % (len(vpool[:40]), len(dd)))
    print('                              UBSan misaligned   C no misaligned report')
    print('      model BAD al>1          %8d           %8d' % (t22.get((True, True), 0), t22.get((True, False), 0)))
    print('      model not BAD al>1      %8d           %8d' % (t22.get((False, True), 0), t22.get((False, False), 0)))
    for k in sorted(other)[:12]: print('      off-diagonal / other: %s  x%d' % (k, other[k]))

    # ------------------------------------------------------------------ summary
    wall = time.time() - T0
    print('c01b_selftest: seed %d, wall %.1f s' % (seed, wall))
    if dis:
        print('c01b_selftest: FAIL (%d disagreements)' % len(dis))
        return 1
    print('c01b_selftest: PASS')
    return 0


if __name__ == '__main__':
    sys.exit(main())
