"""C02 - Whatever the builder finishes is a valid FlatBuffer that the verifier accepts.

1. Re-check Properties_C02.vo (theorems about Builder/EmitModel.v and Format/Spec.v).
2. Correspondence: random well-typed build scripts over a schema corpus executed by harness/build_script.c through the
   REAL runtime API (create / start-end / push / extend / append / truncate styles, children before or during the parent,
   objects before start_buffer, clustering on/off, block_align 0..256, size prefix, identifiers, struct roots, nested
   buffers) with a recording emitter, and by the extracted model: every emitter call, every reference, the finished
   bytes and the reported alignment must be equal.
3. Oracles on the IMPLEMENTATION's bytes, independent of the model: the extracted format decoder Spec.decode_mem (well
   formed relative to a start aligned to the reported alignment only; decodes to the value tree that drove the script) and
   every generated <Root>_verify_as_root* variant (buffer placed at an address aligned to the reported alignment only).
4. Converse clause: buffers laid out by an independent encoder (forward layout, private vtable before each table, no
   sharing, extra padding, over-long vtables) must be accepted by the generated verifier and decode to the same value.
"""
import os, json
from . import lib
from . import builder_util as bu
from .builder_engine import Engine, Case, parse_reply


def gen_cases(E, ctx):
    rng = ctx.rng
    cases = []
    n_main = 260 if not ctx.thorough else 10000
    for s in E.corpus:
        if s.name not in E.BC: continue
        for i in range(n_main):
            cases.append(E.make_case(rng, s, size=rng.choice([0.3, 1.0, 1.0, 2.5])))
        # struct roots: every struct of the schema, plain / size prefixed / identifiers, start-end and create_buffer styles
        for st in s.structs:
            for k in range(6 if not ctx.thorough else 40):
                cases.append(E.make_case(rng, s, root=st))
        # settings sweep on a small value: clustering x block_align x with_size x style
        for cl in (True, False):
            for ba in (0, 1, 2, 4, 8, 16, 32, 64, 128, 256):
                for ws in (False, True):
                    o = {'clustering': cl, 'block_align': ba, 'ident': rng.choice([None, b'SWEP']), 'with_size': ws,
                         'style': rng.choice(['se', 'c']), 'early': False, 'align': 0}
                    cases.append(E.make_case(rng, s, maxdepth=1, size=0.3, klass='settings-sweep', opts=o))
    # deep / large cases
    for s in E.corpus:
        if s.name not in E.BC: continue
        for i in range(6 if not ctx.thorough else 60):
            cases.append(E.make_case(rng, s, maxdepth=rng.choice([4, 5, 6]), size=rng.choice([1.0, 4.0]), klass='deep'))
    for s in E.corpus:      # embed_buffer at any depth (top-level buffer and nested levels), align 1..256, block_align 0..256, with_size on/off
        if s.name in ('bnest', 'bmixd') and s.name in E.BC:
            for i in range(60 if not ctx.thorough else 600):
                cases.append(E.make_case(rng, s, maxdepth=rng.choice([3, 4]), size=0.3, klass='nested-embed', embed_bias=0.7, embed_min_depth=1 + i % 2))
            # every nested field of the top-level buffer filled by embed_buffer (depth 1: nest_id 0, level 1)
            for i in range(60 if not ctx.thorough else 600):
                cases.append(E.make_case(rng, s, maxdepth=rng.choice([1, 2, 3]), size=0.3, klass='embed-top-level',
                                         embed_bias=rng.choice([0.0, 0.5]), embed_top=1.0, embed_ws=rng.choice([0.0, 0.3, 1.0])))
    if 'bnest' in E.HG:
        # the generated <field>_nest / _typed_nest (an existing buffer placed as a [ubyte] vector): align argument 0 (documented default 8 for table
        # roots, the struct's alignment for struct roots) and explicit, source bytes at addresses 0 / 4 / 1 / 2 / 8 / 12 mod 256, content with long /
        # double / 16-aligned structs, after prefixes of varying size
        s = E.by_name['bnest']
        for i in range(60 if not ctx.thorough else 600):
            cases.append(E.make_case(rng, s, maxdepth=2, size=rng.choice([0.3, 1.0]), klass='nested-generated-nest', gen_api=True, full=i % 2 == 0, nest_only=True, embed_bias=0.0))
    if 'bnest' in E.BC:        # 34..80 and more nested buffers in one build repeating the parent's table shapes (see checks/c15.py)
        for i in range(4 if not ctx.thorough else 40):
            cases.append(E.make_many_nested_case(rng, rng.choice([9, 12, 16, 20]), styles=i % 2 == 1))
    if 'bwide' in E.BC:
        for i in range(4 if not ctx.thorough else 40):
            cases.append(E.make_wide_case(rng, count=rng.choice([100, 130, 200])))
        for i in range(24 if not ctx.thorough else 240):      # table types whose vtables differ in the table size only (verifier, decoder, model)
            cases.append(E.make_pair_case(rng))
        # many distinct vtables of many lengths clustered at the back of the buffer, through flatcc's DEFAULT emitter (back pages)
        for i in range(10 if not ctx.thorough else 100):
            cases.append(E.make_wide_case(rng, count=rng.choice([100, 150, 200, 300, 400]), many_vtables=True))
    return cases


def raw_of(c): return c.himpl['raw']


def check_case_oracles(E, ctx, cases):
    """Independent oracles on the implementation's finished bytes; returns the set of ids of cases with a finding."""
    flagged = set()
    dec_lines, dec_cases = [], []
    ver_items, ver_meta = [], []
    for c in cases:
        if c.himpl is None: continue
        raw, align = c.himpl['raw'], c.himpl['align']
        ws = 1 if c.opts['with_size'] else 0
        depth = bu.value_depth(c.node) + 2
        dec_lines.append(E.dec_line(c.schema, c.root, ws, depth, align, raw)); dec_cases.append(c)
        for line, expect, label in E.verify_lines(c.schema, c.root, ws, c.opts['ident'], align, raw):
            ver_items.append((c.schema.name, line)); ver_meta.append((c, expect, label))
    dres = ctx.run_model('builder', dec_lines) if dec_lines else []
    vres = E.run_bc_all(ver_items)
    per_case = {}
    for (name, line), (c, expect, label), r in zip(ver_items, ver_meta, vres):
        ctx.count(line, klass='oracle-c-verify')
        if r is None: continue
        per_case.setdefault(id(c), []).append((line, expect, label, r))
    for c, line, r in zip(dec_cases, dec_lines, dres):
        exp = bu.render_dec(c.schema, c.node)
        ctx.count(line, klass='oracle-spec-decode')
        kind = ('struct-root' if c.root in c.schema.structs else 'table-root') + ('-with-size' if c.opts['with_size'] else '')
        sized_aligned = bu.has_sized_nested_aligned(c.schema, c.node)   # nested + with_size + content alignment above 4
        lst = per_case.get(id(c), [])
        rej = [x for x in lst if x[1] and not x[3].startswith('0 ')]
        base = {'harness_line': c.h, 'model_line': c.m, 'schema': c.schema.name, 'root': c.root, 'opts': str(c.opts),
                'buffer_hex': c.himpl['bytes'], 'dec_line': line, 'reported_alignment': c.himpl['align']}
        idt, hp, raw = c.opts['ident'], 4 if c.opts['with_size'] else 0, raw_of(c)
        if idt and any(idt) and raw[hp + 4:hp + 8] != idt:
            # header check independent of model and verifier: the identifier the buffer was finished with is stored after the root offset
            flagged.add(id(c))
            ctx.violation('identifier-not-stored:' + kind,
                          'the buffer was finished with identifier %s (4 bytes, not a string: zero bytes are legitimate in type hashes) but bytes %d..%d of the finished '
                          'buffer are %s' % (idt.hex(), hp + 4, hp + 8, raw[hp + 4:hp + 8].hex()), dict(base, verify_line=rej[0][0]) if rej else base)
            continue
        lost = bu.embed_header_lost(c.schema, c.node, raw_of(c), 4 if c.opts['with_size'] else 0)
        if lost:
            flagged.add(id(c))
            ctx.violation('embed-top-level-no-header',
                          'embed_buffer called inside the open top-level buffer emitted the bytes without the ubyte vector length (nested field %s points straight '
                          'at the embedded bytes): the finished buffer is malformed (independent format checker: %s%s)' % (
                              lost[0], r[:40], '; generated verifier: ' + rej[0][3] if rej else ''),
                          dict(base, path=lost[0], **({'verify_line': rej[0][0]} if rej else {})))
            continue
        if r == 'NONE' or r.startswith('EXC'):
            flagged.add(id(c))
            if rej:
                err = '_'.join(rej[0][3].split()[1:])
                ctx.violation('malformed-buffer:' + err,
                              'the buffer finished by the builder is rejected both by the independent format checker (Spec.decode_mem, start aligned to the reported '
                              'alignment %d) and by the generated verifier (%s): %s' % (c.himpl['align'], rej[0][3], c.h[:300]), dict(base, verify_line=rej[0][0]))
            else:
                ctx.violation('malformed-buffer-accepted-by-verifier:' + kind,
                              'the buffer finished by the builder is rejected by the independent format checker (Spec.decode_mem, start aligned to the reported '
                              'alignment %d) although the generated verifier accepts it: %s' % (c.himpl['align'], c.h[:300]), base)
            continue
        if r != exp:
            flagged.add(id(c))
            ctx.violation('decodes-differently:%s' % kind,
                          'the finished buffer is well formed but holds a different value than the script built (independent decoder)',
                          dict(base, expected=exp[:2000], decoded=r[:2000]))
        crashes = [x for x in lst if x[3].startswith('CRASH')]
        if crashes:
            flagged.add(id(c))
            ctx.violation('verifier-crash:' + E.crash_key(crashes[0][3]), 'sanitizer report in the generated verifier on a builder-made buffer: ' + crashes[0][3][:300],
                          dict(base, verify_line=crashes[0][0]))
            continue
        wrong = [x for x in lst if x[3].startswith('0 ') != x[1]]
        by = {}
        for vline, expect, label, vr in wrong:
            by.setdefault((expect, '_'.join(vr.split()[1:]) or 'ok'), []).append((vline, label, vr))
        for (expect, err), l in by.items():
            flagged.add(id(c))
            # known finding: the verifier tests vector / struct alignment relative to the nested data start and so rejects the
            # builder's documented size-prefixed nested layout when its content is aligned above 4
            sized_key = expect and sized_aligned and err in ('vector_header_out_of_range_or_unaligned', 'struct_unaligned')
            ctx.violation('verifier-rejects:nested-with-size:' + err if sized_key else
                          'verifier-%s:%s:%s' % ('rejects' if expect else 'accepts', kind, err),
                          'generated verify variant(s) %s %s a well-formed buffer finished by the builder (%s, identifier %s): %s' % (
                              ', '.join(x[1] for x in l), 'reject' if expect else 'accept', kind, c.opts['ident'], l[0][2]),
                          dict(base, verify_line=l[0][0]))
    return flagged


def compare_builds(E, ctx, cases):
    nd = 0
    for c in cases:
        ctx.count(c.h, klass='build:' + c.klass)
        for k, v in c.gen.kinds.items():
            g = ctx.cov['generator_histogram']; g['style:' + k] = g.get('style:' + k, 0) + v
        if c.hrep.startswith('CRASH'):
            ctx.violation('crash:' + E.crash_key(c.hrep), 'the builder crashes (sanitizer) on a correct use of the API: ' + c.hrep[:400],
                          {'harness_line': c.h, 'model_line': c.m, 'schema': c.schema.name, 'stderr': c.hrep[:1500]})
            continue
        if c.hrep.startswith('FAIL'):
            ctx.violation('build-failed:' + (c.hrep.split()[2].split(':')[0] if len(c.hrep.split()) > 2 else '?'),
                          'a builder call fails on a correct use of the API: ' + c.hrep[:200], {'harness_line': c.h, 'model_line': c.m, 'schema': c.schema.name})
            continue
        if c.himpl is None:
            ctx.violation('corr:harness-reply', 'unexpected harness reply: ' + c.hrep[:200], {'harness_line': c.h}); continue
        if 'flags' in c.himpl:
            ctx.violation('emit-stream:' + ','.join(c.himpl['flags']), 'emitter calls are not one contiguous stream / size mismatch', {'harness_line': c.h})
        if c.mimpl is None:
            ctx.violation('corr:model-fails', 'model fails where the implementation succeeds: ' + c.mrep[:200], {'harness_line': c.h, 'model_line': c.m}); continue
        if c.hrep != c.mrep:
            nd += 1
    return nd


def run(ctx):
    ok = ctx.check_theorems()
    for extra in ('Properties_C02b', 'Properties_C02c'):    # verifier completeness / build_verifies; union vectors + nested levels (xwt_script)
        if os.path.exists(os.path.join(lib.COQ, 'Properties', extra + '.v')):
            ok = ctx.check_theorems(prop_module=extra) and ok
    if not ok:
        ctx.broken_obligation('Properties_C02.vo', getattr(ctx, 'broken', {}))
    E = Engine(ctx, with_gen_api=True if ctx.replay_in else {'bnest'})       # generated builder api: bnest only (<field>_nest / _typed_nest)
    rng = ctx.rng

    if ctx.replay_in:
        from .builder_engine import replay
        replay(E, ctx)
        return

    cases = gen_cases(E, ctx)
    ctx.log('%d build cases' % len(cases))
    E.run_builds(cases)
    # scripts with reserve_table calls that go wrong: when the same script WITHOUT those calls (start counts raised instead) is fine, the call is at fault
    sus = [c for c in cases if getattr(c.gen, 'has_reserve', False) and c.hrep != c.mrep]
    if sus:
        alt = lib.run_harness_resilient(E.H, [bu.plain_script(c.h) for c in sus])
        from .builder_engine import mask_refs
        for c, a in zip(sus, alt):
            if c.gen.opaque: a = mask_refs(a, c.gen.opaque)
            if a == c.mrep:
                ctx.count(c.h, klass='build:' + c.klass)
                ctx.violation('reserve-table-rewinds-patch-log',
                              'flatcc_builder_reserve_table called on an open table changes what is built although it is documented to have "absolutely no effect on the table layout": '
                              'the script %s; the same script without the reserve_table calls (start_table counts raised instead) builds what the model builds' % (
                                  'fails / crashes (%s)' % c.hrep[:80] if c.himpl is None else 'finishes other bytes than the model'),
                              {'harness_line': c.h, 'model_line': c.m, 'schema': c.schema.name, 'impl': c.hrep[:3000], 'model': c.mrep[:3000], 'without_reserve_line': bu.plain_script(c.h)[:6000]})
                cases.remove(c)
    compare_builds(E, ctx, cases)
    E.embed_no_parent(rng, 12 if not ctx.thorough else 120)        # embed_buffer with no buffer open: plain emission, no size field header
    # tables within a few bytes of / exactly at / one field beyond / far beyond the 64 KB a vtable can describe: fit -> built and decoded, else refused
    nt, nbad = E.table_size_limit(rng, 26 if not ctx.thorough else 400)
    # alignment arguments above the 512 byte padding block (outside the documented 1..256): own harness process per script, one key
    na, nhit = E.align_above_512(rng, 16 if not ctx.thorough else 160)
    ctx.log('table-size-limit: %d scripts (%d too large and not refused); align-above-512: %d scripts (%d over-reads)' % (nt, nbad, na, nhit))
    # table shapes whose vtables are equal except for the table size, many pairs in one buffer, some meeting in one bucket of the vtable cache
    E.vtable_size_pairs(rng, 24 if not ctx.thorough else 400)
    flagged = check_case_oracles(E, ctx, cases)
    # model / implementation disagreements that the oracles did not already explain
    explained = False
    for c in cases:
        if id(c) in flagged: continue
        if c.himpl is not None and c.mimpl is not None and c.hrep != c.mrep:
            what = [k for k in ('refs', 'align', 'start', 'end', 'bytes', 'emits') if c.himpl.get(k) != c.mimpl.get(k)]
            key = 'corr:build:' + '+'.join(what)
            if c.himpl['align'] != c.mimpl['align']:
                key = 'reported-alignment-differs'
            ctx.violation(key, 'model and implementation disagree on a build script (%s differ)%s' % (
                ','.join(what), '; see the oracle violations of this run for the property-level failure' if explained else ''),
                {'theorem_or_correspondence': 'correspondence of the extracted builder model (coq/Builder, modelrun_builder) with src/runtime/builder.c on this script; every independent clause check (format decoder, alignment, read-back, verifier) passed on the implementation output', 'harness_line': c.h, 'model_line': c.m, 'schema': c.schema.name, 'impl': c.hrep[:3000], 'model': c.mrep[:3000]},
                kind='property-violation' if key == 'reported-alignment-differs' else 'no-failing-input-found')
    ctx.sample({'build_case': cases[0].h[:400], 'impl': cases[0].hrep[:300], 'model': cases[0].mrep[:300]})

    # ---- converse clause: an independent encoder's buffers must be accepted by the C verifier and by the decoder
    items, meta, dec_lines, dec_meta = [], [], [], []
    n_ind = 60 if not ctx.thorough else 3000
    for s in E.corpus:
        if s.name not in E.BC: continue
        for i in range(n_ind):
            vg = bu.ValueGen(s, rng, maxdepth=rng.choice([1, 2, 3]), size=rng.choice([0.3, 1.0]))
            roots = [s.root] + (list(s.structs) if i % 5 == 0 else [])
            root = rng.choice(roots)
            node = vg.table(root, 0) if root in s.tables else bu.Node('bytes', vg.inline(root), root)
            ws = rng.random() < 0.3
            ident = rng.choice([None, b'INDP', s.ident.encode() if s.ident else None])
            enc = bu.IndepEncoder(s, rng, extra_pad=rng.random() < 0.7)
            raw = enc.buffer(root, node, ws, ident)
            if root in s.structs and ws:
                pass    # verifier.c:543 (struct root with size) is exercised as well; the lead's C01 fix covers it
            for line, expect, label in E.verify_lines(s, root, 1 if ws else 0, ident, 0, raw)[:2]:
                items.append((s.name, line)); meta.append((s, root, ws, label, expect, raw))
            dec_lines.append(E.dec_line(s, root, 1 if ws else 0, bu.value_depth(node) + 2, 0, raw)); dec_meta.append((s, node, raw))
    vres = E.run_bc_all(items)
    for (name, line), (s, root, ws, label, expect, raw), r in zip(items, meta, vres):
        ctx.count(line, klass='independent-encoder-verify')
        if r is None: continue
        acc = r.startswith('0 ')
        if r.startswith('CRASH') or acc != expect:
            kind = 'struct-root' if root in s.structs else 'table-root'
            ctx.violation('verifier-rejects-conforming:%s%s:%s' % (kind, '-with-size' if ws else '', '_'.join(r.split()[1:4])),
                          'the generated verifier rejects a format-conforming buffer laid out by an independent encoder (%s): %s' % (label, r[:200]),
                          {'verify_line': line, 'schema': name, 'root': root, 'buffer_hex': raw.hex()})
    dres = ctx.run_model('builder', dec_lines) if dec_lines else []
    for (s, node, raw), line, r in zip(dec_meta, dec_lines, dres):
        ctx.count(line, klass='independent-encoder-decode')
        exp = bu.render_dec(s, node)
        if r != exp:
            ctx.violation('checker:independent-encoder', 'check machinery: Spec.decode_mem does not return the value the independent encoder wrote',
                          {'dec_line': line[:3000], 'expected': exp[:1500], 'decoded': r[:1500]}, kind='no-failing-input-found')
    if dec_lines: ctx.sample({'independent_encoder_case': dec_lines[0][:300], 'decoded': dres[0][:200]})

    ctx.trusted = lib.DEFAULT_TRUSTED + [
        'checks/builder_util.py: schema corpus, value/script generators, expected renderings, independent encoder, generated glue (verify/dump dispatch)',
        'harness/build_script.c (script interpreter over the runtime API, recording emitter), harness/buf_check.c']
    ctx.assumptions = ['little-endian host', 'uoffset_t/soffset_t 32 bit, voffset_t 16 bit',
                       'buffers below 2^31 bytes (larger sizes are modelled but not exercised)',
                       'vtable cache never flushed (vb_flush_limit = 0, the default)']
    ctx.finish_args = dict(
        rule='cases: per corpus schema (6 schemas: all scalar sizes, structs aligned 1..64 incl. force_align, strings, vectors of each, tables of tables, '
             'unions of tables/structs/strings, union vectors, nested buffers with table and struct roots, required fields, identifiers) random value trees '
             'with boundary scalars, empty/long vectors and strings, shared objects; each built through randomly chosen API styles with children before or '
             'during the parent; settings: clustering on/off, block_align 0..256, size prefix, identifiers (none/file/type hash/other), struct roots, '
             'create_buffer vs start/end_buffer, objects before start_buffer; plus a settings sweep and deep cases; plus independent-encoder buffers. '
             'distinct = distinct request lines; non-trivial = every case builds a complete buffer',
        explanation='theorems of Properties_C02 re-checked; emitter calls, references, bytes and alignment of the real builder compared with the extracted model; '
                    'the implementation bytes checked by the extracted independent format decoder (relative to the reported alignment) and by every generated verify variant; '
                    'independent-encoder buffers through the generated verifier and the decoder')
