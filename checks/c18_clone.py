"""C18 part 3: clone / pick correspondence (harness/clone_diff.c over gen/c18_clone.fbs).

A case = (program, mode, refmap on/off). The program builds a DAG-shaped source buffer (objects refer to earlier
objects by number; using a number twice shares the object). The harness verifies the source, runs the operation
under test, verifies the copy and reports: value dump equal, sharing dump equal, back references in source / copy,
number of entries in the reference map. Expectations (the property statement):
  * the operation succeeds and the copy verifies;
  * value dumps are equal (content reads equal to the source);
  * with a map: sharing dumps are equal (objects shared in the source are emitted once and shared in the copy, nothing
    else is merged) and the map holds one entry per distinct reachable source object (computed here from the program,
    and by the extracted abstract clone model running over the extracted refmap);
  * without a map: the copy is a tree (no back references).
"""
import os
from . import lib
from . import c18_util as U

FIELDS = ['id', 'name', 'pos', 'pair', 'color', 'flag', 'big', 'f', 'opt', 'left', 'right', 'leaf', 'bytes', 'longs', 'colors',
          'structs', 'pairs', 'strs', 'nodes', 'leaves', 'any', 'anys', 'nested', 'nested8', 'nested32', 'nested64', 'nested128', 'nested256']
FBIT = {n: i for i, n in enumerate(FIELDS)}
ALL = (1 << len(FIELDS)) - 1
UNION_KIND = {1: 'N', 2: 'LF', 3: 'VS', 4: 'PS', 5: 'S'}


class Prog:
    """objects: dicts {kind, text, fields:{name: [child idx]} or deps:[idx], keys:[identity keys]}"""
    def __init__(self):
        self.objs = []

    def add(self, kind, text, deps=(), fields=None, ux=None):
        self.objs.append({'kind': kind, 'text': text, 'deps': list(deps), 'fields': fields, 'ux': ux})
        return len(self.objs) - 1

    def of_kind(self, k):
        return [i for i, o in enumerate(self.objs) if o['kind'] == k]

    def tokens(self):
        return ' '.join('%s:%s' % (o['kind'], o['text']) for o in self.objs)

    def keys_of(self, i):
        """identity keys an object contributes to the reference map"""
        o = self.objs[i]
        if o['kind'] == 'UV': return [('t', i), ('v', i)]
        if o['kind'] == 'UX': return [('t', o['ux'][0]), ('v', o['ux'][1])]
        return [('o', i)]

    def children(self, i, mask=ALL, top=False):
        o = self.objs[i]
        if o['kind'] == 'N':
            out = []
            for name, ch in o['fields'].items():
                if top and not (mask >> FBIT[name]) & 1: continue
                out += ch
            return out
        if o['kind'] == 'UX':
            return list(self.objs[o['ux'][1]]['deps'])      # the elements come with the value vector
        return list(o['deps'])

    def reachable_keys(self, root, mask, include_root):
        seen_obj, keys, order = set(), set(), []

        def visit(i, top):
            if i in seen_obj and not top: return
            seen_obj.add(i)
            for c in self.children(i, mask, top): visit(c, False)
            if not top or include_root:
                for k in self.keys_of(i):
                    if k not in keys: keys.add(k); order.append(k)
        visit(root, True)
        return keys

    def unfolded(self):
        """size of the value dump with sharing unfolded (bounded by the generator)"""
        u = []
        for i, o in enumerate(self.objs):
            u.append(1 + sum(u[c] for c in self.children(i)))
        return u


def hexs(b): return bytes(b).hex() if len(b) else '-'


def gen_prog(rng, size, feats):
    """feats: set of {'ustr', 'unone', 'nested8', 'nestedA', 'ux', 'empty'}; everything else is always on"""
    P = Prog()
    LIMIT = 4000
    unf = []

    def add(kind, text, deps=(), fields=None, ux=None):
        i = P.add(kind, text, deps, fields, ux)
        ch = P.children(i)
        unf.append(1 + sum(unf[c] for c in ch))
        return i

    nstr = rng.randint(1, 6)
    for _ in range(nstr):
        ln = rng.choice([0, 1, 2, 3, 4, 5, 7, 8, 9, 31, rng.randint(0, 60)])
        add('S', hexs(bytes(rng.choice([0, 65, 97, 255, rng.randint(1, 255)]) for _ in range(ln))))
    E = [0] if 'empty' in feats else []          # empty vectors only in the classes that ask for them
    add('B', hexs(bytes(rng.getrandbits(8) for _ in range(rng.choice(E + [1, 3, 4, 7, 17])))))
    add('B', hexs(bytes(rng.getrandbits(8) for _ in range(rng.choice(E + [2, 5, 64])))))
    add('L', '.'.join(str(rng.choice([0, -1, 1, 2**63 - 1, -2**63, rng.getrandbits(40)])) for _ in range(rng.choice(E + [1, 2, 5]))))
    add('C', '.'.join(str(rng.choice([0, 1, 5, -3])) for _ in range(rng.choice(E + [1, 3, 6]))))
    add('V', '.'.join(str(rng.randint(-100, 100)) for _ in range(rng.choice(E + [1, 2, 4]))))
    add('P', '.'.join(str(rng.randint(0, 300)) for _ in range(rng.choice(E + [1, 3]))))
    for _ in range(rng.randint(1, 3)):
        ss = [rng.choice(P.of_kind('S')) for _ in range(rng.choice(E + [1, 2, 2, 4]))]
        add('SV', '.'.join(map(str, ss)), ss)
    add('VS', str(rng.randint(-50, 50))); add('PS', str(rng.randint(0, 255)))
    if rng.random() < 0.5: add('VS', str(rng.randint(-50, 50)))
    add('NB', '%s,%d' % (hexs(bytes(rng.randint(1, 255) for _ in range(rng.randint(0, 9)))), rng.randint(-5, 5)))
    if 'nested8' in feats:
        add('N8', str(rng.getrandbits(60)))
    if 'nestedA' in feats:
        # nested roots with force_align 32 .. 256 structs (and vectors of them); several per alignment so that they sit at
        # different distances from each other and from the end of the buffer
        for al in (32, 64, 128, 256):
            for _ in range(rng.choice([1, 1, 2])):
                add('A%d' % al, '%d,%d,%s' % (rng.getrandbits(30), rng.choice([-1, 1, 2, 3, 5]),
                                             bytes(rng.randint(1, 255) for _ in range(rng.choice([0, 1, 3, 8, 21]))).hex()))

    def pick(kind):
        c = P.of_kind(kind)
        return rng.choice(c) if c else None

    def gen_leaf():
        f, deps = [], []
        if rng.random() < 0.7: i = pick('S'); f.append('name=%d' % i); deps.append(i)
        if rng.random() < 0.6: f.append(rng.choice(['val=%d' % rng.randint(-9, 9), 'val=7', 'val!=7']))
        if rng.random() < 0.4: f.append('pos=%d' % rng.randint(-9, 9))
        if rng.random() < 0.5: i = pick('SV'); f.append('tags=%d' % i); deps.append(i)
        return add('LF', ','.join(f), deps)

    for _ in range(rng.randint(1, 3)): gen_leaf()

    def union_ref(allow_none):
        types = [1, 2, 3, 4] + ([5] if 'ustr' in feats else []) + ([0] if allow_none else [])
        t = rng.choice(types)
        if t == 0: return '0', None
        if t == 1 and not P.of_kind('N'): t = 2
        i = pick(UNION_KIND[t])
        return '%d/%d' % (t, i), i

    def gen_uvec():
        n = rng.choice(E + [1, 2, 3, 5])
        parts, deps = [], []
        for _ in range(n):
            txt, i = union_ref('unone' in feats)
            parts.append(txt)
            if i is not None: deps.append(i)
        if 'unone' in feats and n and not any(p == '0' for p in parts): parts[rng.randrange(n)] = '0'
        deps = [int(p.split('/')[1]) for p in parts if '/' in p]
        return add('UV', '.'.join(parts), deps)

    def gen_node(nid):
        fields, f = {}, []

        def ref(name, kind):
            i = pick(kind)
            if i is None: return
            if unf[i] + sum(unf[c] for ch in fields.values() for c in ch) > LIMIT: return
            fields[name] = [i]; f.append('%s=%d' % (name, i))
        f.append(rng.choice(['id=%d' % nid, 'id!=0', 'id=0']))
        if rng.random() < 0.7: ref('name', 'S')
        if rng.random() < 0.4: f.append('pos=%d' % rng.randint(-9, 9))
        if rng.random() < 0.4: f.append('pair=%d' % rng.randint(0, 255))
        if rng.random() < 0.4: f.append(rng.choice(['color=0', 'color=5', 'color=1', 'color!=1']))
        if rng.random() < 0.3: f.append(rng.choice(['flag=1', 'flag=0', 'flag!=0']))
        if rng.random() < 0.4: f.append(rng.choice(['big=%d' % rng.getrandbits(64), 'big=18446744073709551615', 'big!=0']))
        if rng.random() < 0.3: f.append('f=%d' % rng.randint(-99, 99))
        if rng.random() < 0.3: f.append('opt=%d' % rng.choice([0, -1, 32767, -32768]))
        for name, kind, p in (('left', 'N', .5), ('right', 'N', .5), ('leaf', 'LF', .5), ('bytes', 'B', .4), ('longs', 'L', .3), ('colors', 'C', .3),
                              ('structs', 'V', .3), ('pairs', 'P', .3), ('strs', 'SV', .4), ('nodes', 'NV', .4), ('leaves', 'LV', .3), ('nested', 'NB', .25),
                              ('nested8', 'N8', .9), ('nested32', 'A32', .7), ('nested64', 'A64', .7), ('nested128', 'A128', .6), ('nested256', 'A256', .6)):
            if rng.random() < p: ref(name, kind)
        if rng.random() < 0.45:
            txt, i = union_ref(False)
            if i is not None and unf[i] + sum(unf[c] for ch in fields.values() for c in ch) <= LIMIT:
                fields['any'] = [i]; f.append('any=' + txt)
        if rng.random() < 0.45:
            c = P.of_kind('UV') + P.of_kind('UX')
            if c:
                i = rng.choice(c)
                if unf[i] + sum(unf[x] for ch in fields.values() for x in ch) <= LIMIT:
                    fields['anys'] = [i]; f.append('anys=%d' % i)
        return add('N', ','.join(f), (), fields)

    nid = 1
    for step in range(size):
        x = rng.random()
        if x < 0.45: gen_node(nid); nid += 1
        elif x < 0.55: gen_leaf()
        elif x < 0.65:
            c = P.of_kind('N')
            if c:
                el = [rng.choice(c) for _ in range(rng.choice(E + [1, 2, 3]))]
                if sum(unf[e] for e in el) <= LIMIT: add('NV', '.'.join(map(str, el)), el)
        elif x < 0.72:
            el = [rng.choice(P.of_kind('LF')) for _ in range(rng.choice(E + [1, 2, 4]))]
            add('LV', '.'.join(map(str, el)), el)
        elif x < 0.85: gen_uvec()
        elif x < 0.97 and 'ux' in feats:
            # a second union vector with the same type list, then the type vector of one with the value vector of the other
            uvs = [i for i in P.of_kind('UV') if P.objs[i]['text']]
            if uvs:
                a = rng.choice(uvs)
                parts = P.objs[a]['text'].split('.')
                newp, deps = [], []
                for p in parts:
                    if '/' in p:
                        t = int(p.split('/')[0]); i = pick(UNION_KIND[t]); newp.append('%d/%d' % (t, i)); deps.append(i)
                    else: newp.append(p)
                b = add('UV', '.'.join(newp), deps)
                ux = add('UX', '%d/%d' % (a, b), [], None, (a, b))
                # a node that reaches one of the two plain union vectors and, by another field, the mixed one
                first = rng.choice([a, b])
                if unf[first] + unf[ux] + 2 <= LIMIT:
                    inner = add('N', 'id=%d,anys=%d' % (nid, first), (), {'anys': [first]}); nid += 1
                    fld = rng.choice(['left', 'right'])
                    add('N', 'id=%d,%s=%d,anys=%d' % (nid, fld, inner, ux), (), {fld: [inner], 'anys': [ux]}); nid += 1
        else:
            ss = [rng.choice(P.of_kind('S')) for _ in range(rng.choice(E + [1, 3]))]
            add('SV', '.'.join(map(str, ss)), ss)
    root = gen_node(nid)
    # make the root rich: it is the only node whose fields the pick masks select
    return P, root


def clone_part(ctx):
    rng = ctx.rng
    T = ctx.thorough
    gdir = os.path.join(ctx.bdir, 'gen_clone'); os.makedirs(gdir, exist_ok=True)
    fbs = os.path.join(lib.ROOT, 'gen', 'c18_clone.fbs')
    rc, out = ctx.gen(fbs, gdir, opts=('-a',))
    if rc != 0: raise lib.BuildFailure('flatcc -a c18_clone.fbs', out)
    # the same schema as an OLDER version: the union lacks the members Pair and Str (codes 4 and 5 are unknown to it)
    txt = open(fbs).read()
    assert 'namespace CT;' in txt and 'union Any { Node, Leaf, Vec3, Pair, Str:string }' in txt
    fbs_old = os.path.join(ctx.bdir, 'c18_clone_old.fbs')
    open(fbs_old, 'w').write(txt.replace('namespace CT;', 'namespace CO;').replace('union Any { Node, Leaf, Vec3, Pair, Str:string }', 'union Any { Node, Leaf, Vec3 }'))
    rc, out = ctx.gen(fbs_old, gdir, opts=('-a',))
    if rc != 0: raise lib.BuildFailure('flatcc -a c18_clone_old.fbs', out)
    objs = ctx.rt_objs(san=True, defs=['-DNDEBUG'], srcs=['src/runtime/builder.c', 'src/runtime/emitter.c', 'src/runtime/refmap.c', 'src/runtime/verifier.c'], tag='rt_clone')
    exe = ctx.cc([os.path.join(lib.ROOT, 'harness', 'clone_diff.c')] + objs, os.path.join(ctx.bdir, 'clone_diff'), san=True,
                 defs=['-DNDEBUG'], incs=['-I' + gdir, '-I' + os.path.join(lib.ROOT, 'harness')])
    H = lib.Harness(exe)

    cases = []   # (klass, feats, prog, root, mode, mask, use_map, line)

    def add_case(klass, feats, P, root, mode, mask, use_map, dumps=0, split=0):
        if mode == 'swap': mask &= ~(1 << FBIT['nested'])
        if mode == 'cycle':
            cases.append((klass, feats, P, root, mode, ALL, use_map, 'run cycle:%d:%d %d %d %s' % (mask, split, use_map, dumps, P.tokens()))); return
        m = mode if mode in ('clone', 'oldclone', 'clonews', 'clonet', 'clonetws') else ('%s:%d:%d' % (mode, mask, split) if mode == 'swap' else '%s:%d' % (mode, mask))
        cases.append((klass, feats, P, root, mode, mask if mode not in ('clone', 'oldclone', 'clonews', 'clonet', 'clonetws') else ALL, use_map, 'run %s %d %d %s' % (m, use_map, dumps, P.tokens())))

    def overlapping_string_vector():
        """hand-made VERIFIED Node buffer in which the [ubyte] field `bytes` lies inside the string `name`: the vector's
        length field is the first four characters of the string, so the vector's map key (vec - 4) is the string pointer"""
        import struct
        vt = struct.pack('<HH', 30, 12) + b''.join(struct.pack('<H', {1: 4, 12: 8}.get(i, 0)) for i in range(13))
        b = struct.pack('<I', 40) + b'CT18' + vt + b'\0\0'           # root offset, file identifier, vtable at 8..38, pad
        b += struct.pack('<iII', 32, 8, 8)                             # table at 40: soffset to vtable, name -> 52, bytes -> 56
        b += struct.pack('<I', 5) + bytes([1, 0, 0, 0, 65, 0]) + b'\0\0'   # string at 52: len 5, chars "\1\0\0\0A", NUL; vector at 56: len 1, [65]
        return b

    def family(klass, feats, nprog, sizes):
        for _ in range(nprog):
            P, root = gen_prog(rng, rng.choice(sizes), feats)
            for use_map in (1, 0):
                add_case(klass, feats, P, root, 'clone', ALL, use_map)
            for mode in ('clonews', 'clonet', 'clonetws'):       # every generated root entry point, matching verifier and accessor
                add_case(klass, feats, P, root, mode, ALL, rng.choice([1, 0]))
            for mode in ('pick', 'fclone', 'vec'):
                for mask in (ALL, rng.getrandbits(len(FIELDS)), 1 << rng.randrange(len(FIELDS))):
                    add_case(klass, feats, P, root, mode, mask, rng.choice([1, 1, 0]))
            # the clone is made inside a nested buffer of the copy (level 1 / 2), same map
            for lvl in (1, 2):
                add_case(klass, feats, P, root, 'nest', lvl, rng.choice([1, 1, 1, 0]))
            # one builder over three build cycles, the map left installed across the reset (default / explicit emitter, reset / custom_reset flags)
            for ek, rk in ((1, 0), (rng.choice([0, 1]), rng.randrange(5))):
                add_case(klass, feats, P, root, 'cycle', ek, rng.choice([1, 1, 0]), split=rk)
            # the refmap is swapped out and back (nested buffer idiom) between two groups of picks
            for split in (FBIT['right'], rng.randrange(1, len(FIELDS)), rng.randrange(FBIT['left'], len(FIELDS))):
                add_case(klass, feats, P, root, 'swap', ALL, rng.choice([1, 1, 1, 0]), split=split)

    if ctx.replay_in:
        import json
        rp = json.load(open(ctx.replay_in))
        if 'harness_line' in rp:
            rep = U.run_capped(H, [rp['harness_line']])[0]
            ctx.log('replay: ' + rp['harness_line'][:300]); ctx.log('reply:  ' + rep[:2000])
            ctx.count(rp['harness_line'], klass='replay')
            okr = rep.startswith('OK') and ' dstv=0 ' in rep and ' val=1 ' in rep and ' extra=0 ' in rep and (' share=1 ' in rep or rp.get('refmap') == 0)
            if not okr:
                ctx.violation(rp.get('key', 'clone-replay'), 'replayed clone case still fails: ' + rep[:300], {'harness_line': rp['harness_line'], 'reply': rep[:3000], 'refmap': rp.get('refmap')})
        return
    # minimal inputs of the defects found while building this check (first, so that the replay files carry them)
    P = Prog(); s0 = P.add('S', '6869'); lf = P.add('LF', 'name=0', [s0]); nv = P.add('NV', '', [])
    n = P.add('N', 'leaf=1,nodes=2', (), {'leaf': [lf], 'nodes': [nv]})
    add_case('empty_vec', {'empty'}, P, n, 'clone', ALL, 1, dumps=0)
    P = Prog(); s0 = P.add('S', '6869'); n = P.add('N', 'any=5/0', (), {'any': [s0]})
    add_case('union_string', {'ustr'}, P, n, 'clone', ALL, 0)
    P = Prog(); s0 = P.add('S', '6869'); lf = P.add('LF', 'name=0', [s0]); uv = P.add('UV', '2/1.0.2/1', [lf, lf]); n = P.add('N', 'anys=2', (), {'anys': [uv]})
    add_case('uvec_none', {'unone'}, P, n, 'clone', ALL, 0)
    P = Prog(); n8 = P.add('N8', '77'); n = P.add('N', 'id=1,nested8=0', (), {'nested8': [n8]})
    add_case('nested8', {'nested8'}, P, n, 'clone', ALL, 0)
    P = Prog(); s0 = P.add('S', '6869'); lf = P.add('LF', 'name=0,val=3', [s0]); n1 = P.add('N', 'id=1,name=0,leaf=1', (), {'name': [s0], 'leaf': [lf]})
    n2 = P.add('N', 'id=2,name=0,left=2,right=2,leaf=1', (), {'name': [s0], 'left': [n1], 'right': [n1], 'leaf': [lf]})
    for mode in ('clonews', 'clonet', 'clonetws'):
        for use_map in (1, 0): add_case('root_entry_points', set(), P, n2, mode, ALL, use_map)
    for lvl in (1, 2):
        for use_map in (1, 0): add_case('nested_clone', set(), P, n2, 'nest', lvl, use_map)
    for ek in (1, 0):
        for rk in range(5):
            for use_map in (1, 0): add_case('reset_cycle', set(), P, n2, 'cycle', ek, use_map, split=rk)
    for use_map in (1, 0):
        raw = overlapping_string_vector()
        cases.append(('overlap_raw', set(), None, None, 'clone', ALL, use_map, 'raw clone %d 1 %s' % (use_map, raw.hex())))
    # two-schema cases: source built with the extended union, cloned with the code of the older schema
    P = Prog(); s0 = P.add('S', '6869'); l1 = P.add('LF', 'name=0', [s0]); ps = P.add('PS', '7'); uv = P.add('UV', '2/1.4/2.5/0.2/1', [l1, ps, s0, l1])
    n = P.add('N', 'id=1,anys=3', (), {'anys': [uv]})
    for use_map in (0, 1): add_case('old_schema', {'ustr', 'old'}, P, n, 'oldclone', ALL, use_map)
    P = Prog(); ps = P.add('PS', '7'); n = P.add('N', 'id=1,any=4/0', (), {'any': [ps]})
    for use_map in (0, 1): add_case('old_schema', {'ustr', 'old'}, P, n, 'oldclone', ALL, use_map)
    for use_map in (1, 0):
        P = Prog(); s0 = P.add('S', '6869'); n1 = P.add('N', 'id=1,name=0', (), {'name': [s0]})
        n2 = P.add('N', 'id=2,name=0,left=1,right=1', (), {'name': [s0], 'left': [n1], 'right': [n1]})
        add_case('swap_fixed', set(), P, n2, 'swap', ALL, use_map, split=FBIT['right'])
        add_case('swap_fixed', set(), P, n2, 'swap', ALL, use_map, split=FBIT['pos'])
    # two union vectors sharing the TYPE vector with different value vectors (and the other way round)
    for variant in (0, 1):
        P = Prog(); s0 = P.add('S', '6869'); l1 = P.add('LF', 'name=0', [s0]); v1 = P.add('VS', '3')
        a = P.add('UV', '2/1.3/2', [l1, v1]); l2 = P.add('LF', 'val=4'); v2 = P.add('VS', '9')
        b = P.add('UV', '2/4.3/5', [l2, v2]); x = P.add('UX', '%d/%d' % (a, b), [], None, (a, b))
        inner = P.add('N', 'id=1,anys=%d' % (a if variant == 0 else b), (), {'anys': [a if variant == 0 else b]})
        root = P.add('N', 'id=2,left=%d,anys=%d' % (inner, x), (), {'left': [inner], 'anys': [x]})
        for use_map in (1, 0):
            for mode in ('clone', 'pick', 'vec'): add_case('shared_type_vector', {'ux'}, P, root, mode, ALL, use_map)
    for al in (32, 64, 128, 256):
        for pre in ('', '61', '6162636465'):
            P = Prog(); deps = {}; f = []
            if pre: s0 = P.add('S', pre); deps['name'] = [s0]; f.append('name=%d' % s0)
            a = P.add('A%d' % al, '5,2,6869'); deps['nested%d' % al] = [a]; f.append('nested%d=%d' % (al, a))
            n = P.add('N', ','.join(f), (), deps)
            for use_map in (0, 1): add_case('nested_align', {'nestedA'}, P, n, 'clone', ALL, use_map)
    family('dag', set(), 500 if T else 28, [3, 8, 15, 30, 60])
    family('dag_ux', {'ux'}, 150 if T else 8, [10, 25, 40])
    family('empty_vec', {'empty'}, 120 if T else 10, [3, 8, 15, 30])
    family('union_string', {'ustr'}, 40 if T else 5, [6, 15])
    family('uvec_none', {'unone'}, 40 if T else 5, [6, 15])
    family('nested8', {'nested8'}, 80 if T else 8, [4, 10, 20])
    def family_old(nprog, sizes):
        for _ in range(nprog):
            P, root = gen_prog(rng, rng.choice(sizes), {'ustr', 'old'})
            for use_map in (1, 0):
                add_case('old_schema', {'ustr', 'old'}, P, root, 'oldclone', ALL, use_map)
                add_case('old_schema', {'ustr', 'old'}, P, root, 'oldpick', rng.choice([ALL, rng.getrandbits(len(FIELDS))]), use_map)
    family_old(40 if T else 8, [4, 10, 20, 40])
    family('nested_align', {'nestedA', 'nested8'}, 120 if T else 14, [2, 5, 10, 20])
    # fixed small cases (also documentation of the protocol)
    for use_map in (1, 0):
        P = Prog(); s = P.add('S', '6869'); lf = P.add('LF', 'name=0,val=3', [s])
        n1 = P.add('N', 'id=1,name=0,leaf=1', (), {'name': [s], 'leaf': [lf]})
        n2 = P.add('N', 'id=2,name=0,left=2,right=2,leaf=1', (), {'name': [s], 'left': [n1], 'right': [n1], 'leaf': [lf]})
        add_case('fixed_diamond', set(), P, n2, 'clone', ALL, use_map, dumps=1)

    # builder wrappers flatcc_builder_refmap_insert / _find at buffer nesting level 0, 1, 2 vs python dict and extracted model
    wseqs = []
    for k in range(90 if T else 24):
        sq = U.gen_small(rng, 0x2f693b52, rng.choice([30, 120, 400]), dumps=False)
        sq.ops = [o if o[0] == 'f' else ','.join(o.split(',')[:2]) + ',1' for o in sq.ops if o[0] in 'if']
        sq.klass = 'wrapper_level_%d' % (k % 3)
        wseqs.append((k % 3, sq))
    wl = ['wseq %d %s' % (lvl, ' '.join(o if o[0] == 'f' else ','.join(o.split(',')[:2]) for o in sq.ops)) for lvl, sq in wseqs]
    wres = U.run_capped(H, wl)
    ml, mi = [], []
    for (lvl, sq), line, rep in zip(wseqs, wl, wres):
        ctx.count(line, klass=sq.klass)
        irep = rep.split(' ')
        bad = U.dict_oracle(sq, irep) if len(irep) == len(sq.ops) and not rep.startswith(('CRASH', 'ERR', 'SKIP')) else (0, 'reply', rep[:200])
        if bad is not None:
            kk, kind, msg = bad
            ctx.violation('refmap-wrapper:level%d:%s' % (lvl, kind), 'flatcc_builder_refmap_insert / _find with an attached map while %d buffer(s) are open (nesting level %d) do not behave as a map: %s '
                          '(operation %d `%s`)' % (lvl + 1, lvl, msg, kk, sq.ops[kk] if kk < len(sq.ops) else '?'), {'harness_line': ' '.join(line.split()[:kk + 3]), 'reply': rep[:2000]})
            continue
        ml.append(U.model_line(sq, irep)); mi.append((lvl, sq, irep, line))
    if ml:
        for (lvl, sq, irep, line), mrep in zip(mi, ctx.run_model('refmap', ml)):
            for kk, (tok, a, b) in enumerate(zip(sq.ops, mrep.split(' '), irep)):
                same, _ = U.compare_reply(tok, a, b)
                if not same:
                    ctx.violation('corr:refmap-wrapper:level%d' % lvl, 'builder wrapper vs extracted model at nesting level %d, operation %d `%s`: model %s, implementation %s' % (lvl, kk, tok, a[:60], b[:60]),
                                  {'harness_line': ' '.join(line.split()[:kk + 3])}); break
    api = U.run_capped(H, ['api'])[0]
    ctx.count('api', klass='builder_refmap_api')
    if api != 'API ok':
        ctx.violation('refmap-builder-api', 'flatcc_builder_set_refmap / get_refmap / refmap_find / refmap_insert: %s (bits: 4/32/256/2048 wrong previous map, 8/64/512 a map lost or gained entries '
                      'when installed or restored, 1/2 null-map wrappers, 16/128 find/insert go to the wrong map, 1024 get_refmap, 4096..65536 wrappers inside open / nested buffers: inserted then found with its reference at every nesting level, builder reset resets the map)' % api[:200], {'harness_line': 'api', 'reply': api[:1000]})
    lines = [c[7] for c in cases]
    chunks = [list(range(k, len(lines), 12)) for k in range(12)]
    import concurrent.futures as cf
    with cf.ThreadPoolExecutor(max_workers=12) as ex:
        futs = [ex.submit(lambda idx=idx: U.run_capped(H, [lines[i] for i in idx], max_crashes=6)) for idx in chunks]
        res = {}
        for idx, f in zip(chunks, futs):
            for i, r in zip(idx, f.result()): res[i] = r

    model_lines, model_expect = [], []
    for i, (klass, feats, P, root, mode, mask, use_map, line) in enumerate(cases):
        r = res[i]
        if klass != 'overlap_raw': ctx.count(line, klass='clone_%s_%s_%s' % (klass, mode, 'map' if use_map else 'nomap'))
        if r == 'SKIP': continue
        if klass == 'overlap_raw':
            ctx.count(line, klass='clone_overlap_raw_%s' % ('map' if use_map else 'nomap'))
            okr = r.startswith('OK') and ' dstv=0 ' in r and ' val=1 ' in r
            if not okr:
                ctx.violation('clone-memo-type-confusion:overlapping-string-vector' if use_map else 'clone-overlap-nomap',
                              'clone of a VERIFIED buffer whose [ubyte] vector overlaps a string (vector key vec - 4 = string pointer): %s, %s' % (
                                  'with a reference map the vector is given the string\'s reference, the copy reads bytes = [1,0,0,0,65] instead of [65]' if use_map else 'without a map',
                                  r.split(' | ')[0][:160]), {'harness_line': line, 'reply': r[:3000], 'refmap': use_map})
            continue
        dkey = {'union_string': 'clone-union-string', 'old_schema': 'clone-union-unknown-type', 'uvec_none': 'clone-union-vector-none', 'nested8': 'clone-nested-alignment'}.get(klass)
        what_extra = {'union_string': ' [source holds a string as union member]', 'uvec_none': ' [source holds a NONE element in a union vector]',
                      'old_schema': ' [source built with union Any { Node, Leaf, Vec3, Pair, Str }, cloned with the code generated from the older union Any { Node, Leaf, Vec3 }: unknown members must read as NONE in a copy that verifies]',
                      'nested8': ' [source holds a nested buffer with 8-byte aligned content]',
                      'nested_align': ' [source holds nested buffers whose roots contain force_align 32/64/128/256 structs]'}.get(klass, '')
        rep = {'harness_line': line if len(line) < 60000 else line[:60000], 'reply': r[:3000], 'mode': mode, 'mask': mask, 'refmap': use_map}

        alias = int((r.split(' alias=')[1].split()[0]) if ' alias=' in r else 0)

        def viol(kind, what):
            k = dkey or ('clone-%s:%s' % (kind, mode))
            if klass == 'empty_vec' and use_map and alias > 0:
                k = 'clone-empty-vector-alias'
                what += ' [with the reference map active an EMPTY vector and the object that follows it in the source have the same address key (%d such pairs)]' % alias
            ctx.violation(k, what + what_extra, rep)
        if r.startswith('CRASH'):
            viol('crash', 'clone/pick of a verified buffer crashes or reads out of bounds (%s, refmap %d): %s' % (mode, use_map, r[:400])); continue
        if r.startswith('ERR') or r.startswith('BAD'):
            ctx.violation('clone-source:%s' % klass, 'the harness could not build / verify the source buffer: ' + r[:200], rep); continue
        kv = dict(p.split('=', 1) for p in r.split(' | ')[0].split()[1:] if '=' in p)
        if mode == 'cycle':
            if kv.get('cyc') != '0' or kv.get('same') != '1' or kv.get('mapreset') != '1':
                ek, rk = line.split()[1].split(':')[1:3]
                ctx.violation(dkey or 'clone-reset-cycle:emitter%s:reset%s' % (ek, rk),
                              'one builder, reference map left installed across the reset (%s emitter, %s): build cycle %s differs from a fresh builder: verify %s, reads equal %s, shares like the source %s, '
                              'same bytes as the first cycle %s, map empty after reset %s' % ('explicit flatcc_emitter context via custom_init' if ek == '1' else 'default',
                               'flatcc_builder_reset' if rk == '0' else 'custom_reset(set_defaults=%d, reduce_buffers=%d)' % (rk in '24', rk in '34'),
                               kv.get('cyc'), kv.get('dstv'), kv.get('val'), kv.get('share'), kv.get('same'), kv.get('mapreset')) + what_extra, rep)
            continue
        if 'failed' in kv:
            viol('failed', 'clone/pick of a verified buffer fails (returns %s%s) (%s, refmap %d)' % (kv['failed'], ': the matching as_[typed_]root accessor returns null for the copy' if kv['failed'] == '-9' else '', mode, use_map)); continue
        if kv.get('dstv') != '0':
            viol('verify', 'the copy does not verify: %s (%s, refmap %d)' % (r.split(' size=')[0][:120], mode, use_map)); continue
        if kv.get('api', '0') != '0':
            ctx.violation('refmap-builder-api', 'flatcc_builder_set_refmap / get_refmap misbehaves while swapping maps around a nested buffer (bits %s: 1 wrong previous map returned, 2 a map was modified, 4 get_refmap wrong)' % kv['api'], rep)
        if kv.get('nest', '1') != '1':
            viol('nested-build', 'the nested buffer built between the two groups of picks does not read as the source leaf'); continue
        if kv.get('val') != '1':
            viol('value', 'the copy does not read equal to the source (%s, refmap %d)' % (mode, use_map)); continue
        if kv.get('extra') != '0':
            viol('extra', 'pick transferred fields outside the requested set: bits %s (%s)' % (kv.get('extra'), mode)); continue
        if use_map:
            if kv.get('share') != '1':
                viol('sharing', 'with a reference map the copy does not share what the source shares: back references %s in the source, %s in the copy (%s)'
                     % (kv.get('back_src'), kv.get('back_dst'), mode)); continue
            if mode == 'nest': mask = ALL
            want = len(P.reachable_keys(root, mask, include_root=(mode in ('clone', 'nest', 'clonews', 'clonet', 'clonetws'))))
            if mode.startswith('old'): want = int(kv.get('map', -1))      # objects behind unknown members are not visited
            if int(kv.get('map', -1)) != want:
                viol('memo', 'reference map holds %s entries after the clone, the source has %d distinct reachable objects (%s)' % (kv.get('map'), want, mode)); continue
            if mode == 'clone' and len(model_lines) < (200 if T else 40) and not any(o['kind'] == 'UX' for o in P.objs):
                # the extracted abstract clone over the extracted refmap on the same graph
                keyid = {}
                def kid(k):
                    if k not in keyid: keyid[k] = 4096 + 16 * len(keyid)
                    return keyid[k]
                g = []
                for j, o in enumerate(P.objs):
                    ch = [kid(k) for c in P.children(j) for k in P.keys_of(c)]
                    if o['kind'] == 'UV':
                        g.append('%d:' % kid(('t', j))); g.append('%d:%s' % (kid(('v', j)), ','.join(map(str, ch))))
                    else:
                        g.append('%d:%s' % (kid(('o', j)), ','.join(map(str, ch))))
                model_lines.append('clone %d %d %s' % (kid(('o', root)), len(P.objs) + 3, ';'.join(g)))
                model_expect.append((want, line))
        else:
            if kv.get('back_dst') != '0':
                viol('tree', 'without a reference map the copy contains shared objects (%s back references) (%s)' % (kv.get('back_dst'), mode)); continue
    if model_lines:
        got = ctx.run_model('refmap', model_lines)
        for (want, line), g, ml in zip(model_expect, got, model_lines):
            ctx.count(ml, klass='clone_abstract_model_vs_impl')
            if g.split()[1:2] != [str(want)]:
                ctx.violation('corr:clone-count', 'abstract clone model emits %s objects, the implementation memoized %d' % (g.split()[1:2], want), {'model_line': ml[:2000], 'harness_line': line[:2000]})
    ok = [i for i in range(len(cases)) if res[i].startswith('OK') and ' val=1' in res[i]]
    if ok:
        i = ok[0]; ctx.sample({'clone_case': lines[i][:400], 'reply': res[i][:300]})
    fx = [i for i, c in enumerate(cases) if c[0] == 'fixed_diamond']
    if fx: ctx.sample({'fixed_diamond': lines[fx[0]], 'reply': res[fx[0]][:1500]})
    ctx.log('clone: %d cases' % len(cases))
