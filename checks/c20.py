"""C20 - The binary schema is a faithful, searchable reflection of the schema.   (translation validation)

For every generated schema (gen/schema_gen.py; includes, several namespaces) and each of the four combinations of
bgen_qualify_names x bgen_length_prefix, harness/bfbs_paths.c produces the binary schema through
flatcc_generate_binary_schema, flatcc_generate_binary_schema_to_buffer (exact, larger, too small buffers) and
flatcc_generate_files (bgen_bfbs, file output); the CLI --schema output is compared as well. Checked:
  * all paths give identical bytes; the length prefix is present exactly when requested; a too small buffer is
    reported as failure;
  * reflection_Schema_verify_as_root accepts the buffer; an independent python decoder (bounds-checked) reads it;
  * every object / field / enum / enum value / union member / service / call / root / identifier equals what the
    schema AST and the layout rules (extracted Coq model for struct offsets, sizes, alignments and field ids;
    Properties_C07) say: names (qualified or not), ids, vtable / struct offsets, sizes, alignments, base types,
    element types, type indices, fixed lengths, defaults, deprecated / required / key / optional, attributes;
  * every name- or value-keyed vector is sorted by the order the generated find uses, and the generated
    *_vec_find_by_name / find_by_value finds every entry (Properties_C20: sorted => found).
"""
import os, re, struct, random, shutil
from . import lib
from . import layout_util as U
from .layout_util import G

BT = {n: i for i, n in enumerate(G.BASETYPE)}


class Malformed(Exception):
    pass


class FB:
    """minimal bounds-checked FlatBuffers reader (independent of the flatcc runtime)"""
    def __init__(self, b): self.b = b
    def rd(self, fmt, off):
        n = struct.calcsize(fmt)
        if off < 0 or off + n > len(self.b): raise Malformed('read of %d bytes at %d outside buffer of %d' % (n, off, len(self.b)))
        return struct.unpack_from('<' + fmt, self.b, off)[0]
    def root(self): return self.rd('I', 0)
    def field(self, t, i):
        vt = t - self.rd('i', t)
        vs = self.rd('H', vt)
        if 4 + 2 * i + 2 > vs: return None
        o = self.rd('H', vt + 4 + 2 * i)
        return t + o if o else None
    def scalar(self, t, i, fmt, dflt):
        p = self.field(t, i)
        return dflt if p is None else self.rd(fmt, p)
    def ref(self, t, i):
        p = self.field(t, i)
        return None if p is None else p + self.rd('I', p)
    def string(self, t, i):
        p = self.ref(t, i)
        if p is None: return None
        n = self.rd('I', p)
        if p + 4 + n + 1 > len(self.b): raise Malformed('string outside buffer')
        return bytes(self.b[p + 4:p + 4 + n]).decode('utf-8', 'replace')
    def vec(self, t, i):
        p = self.ref(t, i)
        if p is None: return None
        n = self.rd('I', p)
        return [p + 4 + 4 * k + self.rd('I', p + 4 + 4 * k) for k in range(n)]


def dec_type(f, t):
    if t is None: return None
    return (f.scalar(t, 0, 'b', 0), f.scalar(t, 1, 'b', 0), f.scalar(t, 2, 'i', -1), f.scalar(t, 3, 'H', 0))


def dec_attrs(f, t, i):
    v = f.vec(t, i)
    return None if v is None else [(f.string(k, 0), f.string(k, 1)) for k in v]


def decode(b):
    """reflection.Schema -> python structure"""
    f = FB(b)
    s = f.root()
    objs = []
    for o in f.vec(s, 0) or []:
        fields = []
        for x in f.vec(o, 1) or []:
            fields.append({'name': f.string(x, 0), 'type': dec_type(f, f.ref(x, 1)), 'id': f.scalar(x, 2, 'H', 0), 'offset': f.scalar(x, 3, 'H', 0),
                           'default_integer': f.scalar(x, 4, 'q', 0), 'default_real': f.scalar(x, 5, 'd', 0.0), 'deprecated': f.scalar(x, 6, 'B', 0),
                           'required': f.scalar(x, 7, 'B', 0), 'key': f.scalar(x, 8, 'B', 0), 'attrs': dec_attrs(f, x, 9), 'optional': f.scalar(x, 11, 'B', 0)})
        objs.append({'name': f.string(o, 0), 'fields': fields, 'is_struct': f.scalar(o, 2, 'B', 0), 'minalign': f.scalar(o, 3, 'i', 0),
                     'bytesize': f.scalar(o, 4, 'i', 0), 'attrs': dec_attrs(f, o, 5), '_pos': o})
    pos2obj = {o['_pos']: o['name'] for o in objs}
    enums = []
    for e in f.vec(s, 1) or []:
        vals = []
        for v in f.vec(e, 1) or []:
            ob = f.ref(v, 2)
            vals.append({'name': f.string(v, 0), 'value': f.scalar(v, 1, 'q', 0), 'object': None if ob is None else pos2obj.get(ob, '?%d' % ob),
                         'union_type': dec_type(f, f.ref(v, 3))})
        enums.append({'name': f.string(e, 0), 'values': vals, 'is_union': f.scalar(e, 2, 'B', 0), 'underlying': dec_type(f, f.ref(e, 3)), 'attrs': dec_attrs(f, e, 4)})
    svcs = []
    for sv in f.vec(s, 5) or []:
        calls = []
        for c in f.vec(sv, 1) or []:
            calls.append({'name': f.string(c, 0), 'request': pos2obj.get(f.ref(c, 1), '?'), 'response': pos2obj.get(f.ref(c, 2), '?'), 'attrs': dec_attrs(f, c, 3)})
        svcs.append({'name': f.string(sv, 0), 'calls': calls, 'attrs': dec_attrs(f, sv, 2)})
    rt = f.ref(s, 4)
    for o in objs: del o['_pos']
    return {'objects': objs, 'enums': enums, 'services': svcs, 'file_ident': f.string(s, 2), 'file_ext': f.string(s, 3),
            'root_table': None if rt is None else pos2obj.get(rt, '?')}


def attrs_of(alist):
    """schema attribute list [(name, value)] -> reflection KeyValue list: the value only when it is a string"""
    if not alist: return None
    return [(k, v if isinstance(v, str) else None) for k, v in alist]


def expected(schema, qualify, lay, ids):
    """what the binary schema must contain, from the AST + layout rules"""
    decls = schema.all_decls()
    nm = (lambda d: d.qname()) if qualify else (lambda d: d.name)
    bkey = lambda s: s.encode()
    objs = sorted([d for d in decls if d.kind in ('table', 'struct')], key=lambda d: bkey(nm(d)))
    ens = sorted([d for d in decls if d.kind in ('enum', 'union')], key=lambda d: bkey(nm(d)))
    oi = {d: i for i, d in enumerate(objs)}; ei = {d: i for i, d in enumerate(ens)}
    def sbt(t): return BT[G.SC[G.canon(t)][3]]
    def ty(t):
        k = t[0]
        if k == 'scalar': return (sbt(t[1]), 0, -1, 0)
        if k == 'string': return (BT['String'], 0, -1, 0)
        if k == 'enum': return (sbt(t[1].type), 0, ei[t[1]], 0)
        if k in ('struct', 'table'): return (BT['Obj'], 0, oi[t[1]], 0)
        if k == 'union': return (BT['Union'], 0, ei[t[1]], 0)
        if k in ('vec', 'array'):
            e = t[1]; base = BT['Vector'] if k == 'vec' else BT['Array']; fl = 0 if k == 'vec' else (t[2] & 0xffff)
            if e[0] == 'scalar': return (base, sbt(e[1]), -1, fl)
            if e[0] == 'string': return (base, BT['String'], -1, fl)
            if e[0] == 'enum': return (base, sbt(e[1].type), ei[e[1]], fl)
            if e[0] in ('struct', 'table'): return (base, BT['Obj'], oi[e[1]], fl)
            if e[0] == 'union': return (base, BT['Union'], ei[e[1]], fl)
        raise ValueError(t)
    eo = []
    for d in objs:
        fields = []
        if d.kind == 'struct':
            offs, size, al = lay[d]
            for f, off in zip(d.fields, offs):
                fields.append({'name': f['name'], 'type': ty(f['type']), 'id': 0, 'offset': off & 0xffff, 'default_integer': 0, 'default_real': 0.0,
                               'deprecated': int(bool(f.get('deprecated'))), 'required': 0, 'key': 0, 'attrs': attrs_of(schema.field_attrs(f)), 'optional': 0})
            eo.append({'name': nm(d), 'fields': sorted(fields, key=lambda x: bkey(x['name'])), 'is_struct': 1, 'minalign': al, 'bytesize': size,
                       'attrs': attrs_of(([('force_align', d.force_align)] if d.force_align is not None else []) + d.attrs)})
        else:
            key_done = False
            order = sorted(range(len(d.fields)), key=lambda k: ids[d][k][0]) if any(f.get('id') is not None for f in d.fields) else range(len(d.fields))
            first_key = None
            for k in order:
                if d.fields[k].get('key') or d.fields[k].get('primary_key'): first_key = k; break
            for k, (f, (idv, tv)) in enumerate(zip(d.fields, ids[d])):
                t = f['type']; dep = int(bool(f.get('deprecated')))
                if U.isu(f):
                    fields.append({'name': f['name'] + '_type', 'type': (BT['UType'], 0, -1, 0) if t[0] == 'union' else (BT['Vector'], BT['UType'], -1, 0),
                                   'id': tv, 'offset': (tv + 2) * 2, 'default_integer': 0, 'default_real': 0.0, 'deprecated': dep, 'required': 0, 'key': 0,
                                   'attrs': None, 'optional': 0})
                dflt = f.get('default'); di, dr = 0, 0.0
                if dflt is not None:
                    if dflt[0] == 'int': di = dflt[1]
                    elif dflt[0] == 'bool': di = int(dflt[1])
                    elif dflt[0] == 'enum': di = dflt[2]
                    elif dflt[0] == 'float': dr = dflt[2]
                if di >= 1 << 63: di -= 1 << 64            # (int64_t)member->value.u
                req = int(bool(f.get('required')))
                isnull = dflt is not None and dflt[0] == 'null'
                opt = 0 if req else 1 if isnull else 0 if t[0] in ('scalar', 'enum') else 1
                fields.append({'name': f['name'], 'type': ty(t), 'id': idv, 'offset': (idv + 2) * 2, 'default_integer': di, 'default_real': dr, 'deprecated': dep,
                               'required': req, 'key': int(k == first_key), 'attrs': attrs_of(schema.field_attrs(f)), 'optional': opt})
            eo.append({'name': nm(d), 'fields': sorted(fields, key=lambda x: bkey(x['name'])), 'is_struct': 0, 'minalign': None, 'bytesize': 0,
                       'attrs': attrs_of(([('original_order', None)] if d.original_order else []) + d.attrs)})
    ee = []
    for d in ens:
        if d.kind == 'enum':
            vals = [{'name': n, 'value': v - (1 << 64) if v >= 1 << 63 else v, 'object': None, 'union_type': None} for n, v in d.values()]
            ee.append({'name': nm(d), 'values': vals, 'is_union': 0, 'underlying': (sbt(d.type), 0, -1, 0),
                       'attrs': attrs_of(([('bit_flags', None)] if d.bit_flags else []) + d.attrs)})
        else:
            vals = []
            for n, v, t in d.values():
                if t is None: vals.append({'name': n, 'value': 0, 'object': None, 'union_type': (0, 0, -1, 0)})
                elif t[0] == 'string': vals.append({'name': n, 'value': v, 'object': None, 'union_type': (BT['String'], 0, -1, 0)})
                else: vals.append({'name': n, 'value': v, 'object': nm(t[1]), 'union_type': (BT['Obj'], 0, oi[t[1]], 0)})
            ee.append({'name': nm(d), 'values': vals, 'is_union': 1, 'underlying': (BT['UByte'], 0, -1, 0), 'attrs': attrs_of(d.attrs)})
    es = []
    for d in sorted([d for d in decls if d.kind == 'rpc_service'], key=lambda d: bkey(nm(d))):
        es.append({'name': nm(d), 'calls': sorted([{'name': n, 'request': nm(rq), 'response': nm(rs), 'attrs': None} for n, rq, rs in d.calls], key=lambda c: c['name'].encode()),
                   'attrs': None})
    root = schema.files[0]
    rt = root.root_type
    return {'objects': eo, 'enums': ee, 'services': es, 'file_ident': root.file_identifier, 'file_ext': root.file_extension,
            'root_table': nm(rt) if (rt is not None and not isinstance(rt, str) and rt.kind == 'table') else None}


def canon_refs(d):
    """replace every Type.index by a content signature of the entry it points to (name + shape), then order entries with equal names by
    that signature: with bgen_qualify_names=0 several namespaces may declare the same local name; the order among such ties is free, but
    an index must still point at the DECLARED type (its members tell them apart)"""
    import copy
    d = copy.deepcopy(d)
    def osig(o): return ('obj', o['name'], o['is_struct'], o['bytesize'], tuple((f['name'], f['type'][0], f['type'][1], f['offset']) for f in o['fields']))
    def esig(e): return ('enum', e['name'], e['is_union'], tuple(e['underlying'] or ()), tuple((v['name'], v['value']) for v in e['values']))
    osigs = [osig(o) for o in d['objects']]; esigs = [esig(e) for e in d['enums']]
    OBJ, UNION, UTYPE = BT['Obj'], BT['Union'], BT['UType']
    def fix(t):
        if t is None: return None
        b, el, ix, fl = t
        if ix is None or ix < 0: return (b, el, ix, fl)
        kind = el if b in (BT['Vector'], BT['Array']) else b
        table = osigs if kind == OBJ else esigs
        return (b, el, table[ix] if ix < len(table) else ('dangling', ix), fl)
    for o in d['objects']:
        for f in o['fields']: f['type'] = fix(f['type'])
    for e in d['enums']:
        e['underlying'] = fix(e['underlying'])
        for v in e['values']: v['union_type'] = fix(v['union_type'])
    d['objects'] = [o for _, o in sorted(zip(osigs, d['objects']), key=lambda x: (x[0][1].encode(), repr(x[0])))]
    d['enums'] = [e for _, e in sorted(zip(esigs, d['enums']), key=lambda x: (x[0][1].encode(), repr(x[0])))]
    return d


def first_diff(a, b, path=''):
    """first difference between two nested structures (None in the expectation for minalign = not checked)"""
    if isinstance(a, dict) and isinstance(b, dict):
        for k in a:
            if k == 'minalign' and a[k] is None: continue
            if k not in b: return path + '/' + k, a[k], '(absent)'
            d = first_diff(a[k], b[k], path + '/' + (a.get('name') or '') + '.' + k if 'name' in a else path + '/' + k)
            if d: return d
        return None
    if isinstance(a, list) and isinstance(b, list) and not (a and isinstance(a[0], tuple)):
        if len(a) != len(b):
            return path + '#len', [x.get('name') if isinstance(x, dict) else x for x in a], [x.get('name') if isinstance(x, dict) else x for x in b]
        for x, y in zip(a, b):
            d = first_diff(x, y, path)
            if d: return d
        return None
    if isinstance(a, float) or isinstance(b, float):
        return None if (b is not None and a is not None and float(a) == float(b)) else (path, a, b)
    if isinstance(a, (list, tuple)) and isinstance(b, (list, tuple)):
        return None if [tuple(x) if isinstance(x, (list, tuple)) else x for x in a] == [tuple(x) if isinstance(x, (list, tuple)) else x for x in b] else (path, a, b)
    return None if a == b else (path, a, b)


def sorted_problems(dec, ties_ok=False):
    """every name / value keyed vector must be sorted strictly ascending by its key (byte order of names)"""
    out = []
    def chk(what, keys, ties=False):
        for x, y in zip(keys, keys[1:]):
            if not (x <= y if ties else x < y): out.append((what, x, y)); break
    chk('objects', [o['name'].encode() for o in dec['objects']], ties_ok)
    chk('enums', [e['name'].encode() for e in dec['enums']], ties_ok)
    chk('services', [s['name'].encode() for s in dec['services']], ties_ok)
    for o in dec['objects']: chk('fields of ' + o['name'], [f['name'].encode() for f in o['fields']])
    for e in dec['enums']: chk('values of ' + e['name'], [v['value'] for v in e['values']])
    for s in dec['services']: chk('calls of ' + s['name'], [c['name'].encode() for c in s['calls']])
    return out


def run(ctx):
    rng = ctx.rng
    cons = U.config_consts(ctx)
    ok = U.check_theorems(ctx, 'Properties_C20', ['Layout/Reflect.v'])
    if not ok: ctx.broken_obligation('Properties_C20.vo', getattr(ctx, 'broken', {}))
    T = ctx.thorough
    # release semantics (NDEBUG): the debug-only `check`/assert in builder.c and the generated readers would otherwise abort
    # before the documented return values can be observed; ASan + UBSan stay on.
    objs = ctx.objs(lib.COMPILER_SRCS + ['src/runtime/verifier.c'], 'libflatcc_san_ndebug', san=False, compiler='clang',
                    defs=['-DFLATCC_REFLECTION=1', '-DNDEBUG'] + U.MYSAN, incs=lib.COMPILER_INCS)
    exe = ctx.cc([os.path.join(lib.ROOT, 'harness', 'bfbs_paths.c')] + objs, os.path.join(ctx.bdir, 'bfbs_paths'), san=True, defs=['-DNDEBUG'],
                 incs=['-I' + os.path.join(lib.ROOT, 'harness')])
    flatcc = ctx.flatcc()

    if ctx.replay_in:
        import json, subprocess
        rp = json.load(open(ctx.replay_in))
        d = os.path.join(ctx.bdir, 'replay'); src = os.path.join(d, 'src'); os.makedirs(src, exist_ok=True)
        for n, t in rp['schema_files'].items(): open(os.path.join(src, n), 'w').write(t)
        root = os.path.join(src, rp.get('root') or sorted(rp['schema_files'])[0])
        q, p = rp.get('bgen_qualify_names', 1), rp.get('bgen_length_prefix', 0)
        pr = subprocess.run([exe], input='gen %d %d %s %s %s\n' % (q, p, os.path.join(d, 'out'), src, root), stdout=subprocess.PIPE, stderr=subprocess.PIPE, text=True,
                            errors='replace', timeout=300, env=lib._limit_env({'ASAN_OPTIONS': 'detect_leaks=0:abort_on_error=0', 'UBSAN_OPTIONS': 'print_stacktrace=1'}))
        r = pr.stdout.split('END\n')[0] if 'END\n' in pr.stdout else 'CRASH ' + pr.stdout[:300] + ' || ' + ' '.join(pr.stderr.strip().split('\n')[-14:])[:1500]
        ctx.log('harness:', r[:600].replace('\n', ' | '))
        ctx.replay_case = (q, p, root, r, rp['schema_files'])
    nS = 240 if T else 40
    if ctx.replay_in: nS = 0
    # every third schema declares the same local names with different content in several namespaces (see gen Gen.add_shadowing)
    schemas = [G.gen_schema(random.Random(rng.getrandbits(64)), ['small', 'medium', 'medium', 'large'][i % 4] if T else ['small', 'medium'][i % 2], shadow=(i % 3 == 0)) for i in range(nS)]
    # aimed: a ulong enum using the top bit (EnumVal.value is a signed long in reflection.fbs), calls declared in descending order
    aim = G.Schema(); fl = G.File('aimtop'); aim.files = [fl]
    e = G.Enum('Etop', [], 'ulong', bit_flags=True); e.members = [['Lo', 0], ['Mid', 62], ['Top', 63]]
    t = G.Table('Taim', []); t.fields = [{'name': 'zf', 'type': ('enum', e), 'default': ('enum', 'Top', 1 << 63), 'attrs': []},
                                         {'name': 'af', 'type': ('vec', ('enum', e)), 'attrs': []}]
    sv = G.Service('Svcaim', []); sv.calls = [('Zcall', t, t), ('Mcall', t, t), ('Acall', t, t)]
    fl.decls = [e, t, sv]; fl.root_type = t
    for d in fl.decls: d.file = fl
    if not ctx.replay_in: schemas.append(aim); nS += 1
    # aimed: degenerate catalogs - no objects, no enums, neither, only an (empty) service, only a string union, empty table - and
    # union fields with siblings sorting between `u` and `u_type`
    def mini(name, decls, root=None):
        sc = G.Schema(); f = G.File(name); sc.files = [f]; f.decls = decls; f.root_type = root
        for d in decls: d.file = f
        return sc
    e1 = G.Enum('Eonly', ['Nsx'], 'short'); e1.members = [['Ka', -3], ['Kb', None], ['Kc', 9]]
    s1 = G.Struct('Sonly', []); s1.fields = [{'name': 'b', 'type': ('scalar', 'ubyte')}, {'name': 'a', 'type': ('scalar', 'double')}]
    u1 = G.Union('Uonly', []); u1.members = [['Str', ('string',), None, True]]
    sv1 = G.Service('SvcEmpty', ['Nsy'])
    t0 = G.Table('Tempty', [])
    tx = G.Table('Tx', []); ux = G.Union('Ux', []); ux.members = [['Tx', ('table', tx), None, False]]
    tx.fields = [{'name': n, 'type': ty, 'attrs': []} for n, ty in (
        ('u2', ('scalar', 'int')), ('u', ('union', ux)), ('uA', ('scalar', 'ubyte')), ('u_id', ('scalar', 'long')), ('test', ('vec', ('union', ux))),
        ('test4', ('scalar', 'int')), ('test_typ', ('scalar', 'short')), ('u_typf', ('string',)), ('u_', ('scalar', 'int')), ('testZ', ('scalar', 'bool')))]
    k1 = G.Table('Konly', []); uk = G.Union('Uk', []); uk.members = [['Konly', ('table', k1), None, False]]
    k1.fields = [{'name': 'k', 'type': ('scalar', 'int'), 'key': True, 'attrs': []}, {'name': 'v', 'type': ('vec', ('table', k1)), 'sorted': True, 'attrs': []},
                 {'name': 'w', 'type': ('vec', ('scalar', 'short')), 'sorted': True, 'attrs': []}]
    k2 = G.Table('Kone', []); k2.fields = [{'name': 'k', 'type': ('string',), 'key': True, 'attrs': []}, {'name': 'v', 'type': ('vec', ('table', k2)), 'sorted': True, 'attrs': []},
                                           {'name': 'u', 'type': ('union', None), 'attrs': []}, {'name': 'uv', 'type': ('vec', ('union', None)), 'attrs': []}]
    uk2 = G.Union('Uone', []); uk2.members = [['Kone', ('table', k2), None, False]]
    k2.fields[2]['type'] = ('union', uk2); k2.fields[3]['type'] = ('vec', ('union', uk2))
    s2 = G.Struct('Sone', []); s2.fields = [{'name': 'a', 'type': ('scalar', 'int'), 'key': True}, {'name': 'b', 'type': ('scalar', 'ubyte')}]
    e2 = G.Enum('Eone', [], 'ubyte'); e2.members = [['A', None], ['B', None]]
    t3 = G.Table('Tone', []); t3.fields = [{'name': 'e', 'type': ('vec', ('enum', e2)), 'attrs': []}, {'name': 's', 'type': ('vec', ('scalar', 'int')), 'sorted': True, 'attrs': []}]
    # the same local names in three namespaces, told apart by marker members; one table refers to all of them
    same = []; users = []
    for j, nsn in enumerate((['Aa'], ['Bb'], ['Cc', 'Dd'])):
        st_ = G.Struct('Same', nsn); st_.fields = [{'name': 'mark%d' % j, 'type': ('scalar', ['ubyte', 'uint', 'double'][j])}]
        en_ = G.Enum('SameE', nsn, ['ubyte', 'short', 'long'][j]); en_.members = [['V', j + 1], ['W%d' % j, j + 5]]
        tb_ = G.Table('SameT', nsn); tb_.fields = [{'name': 'mark%d' % j, 'type': ('scalar', 'int'), 'default': ('int', j), 'attrs': []}]
        un_ = G.Union('SameU', nsn); un_.members = [['SameT', ('table', tb_), None, False], ['Same', ('struct', st_), None, False], ['Mk%d' % j, ('string',), None, True]]
        same += [st_, en_, tb_, un_]
    ut_ = G.Table('UsesAll', [])
    for j in range(3):
        st_, en_, tb_, un_ = same[4 * j:4 * j + 4]
        ut_.fields += [{'name': 's%d' % j, 'type': ('struct', st_), 'attrs': []}, {'name': 'e%d' % j, 'type': ('enum', en_), 'default': ('enum', 'V', j + 1), 'attrs': []},
                       {'name': 't%d' % j, 'type': ('table', tb_), 'attrs': []}, {'name': 'u%d' % j, 'type': ('union', un_), 'attrs': []},
                       {'name': 'vs%d' % j, 'type': ('vec', ('struct', st_)), 'attrs': []}, {'name': 've%d' % j, 'type': ('vec', ('enum', en_)), 'attrs': []},
                       {'name': 'vt%d' % j, 'type': ('vec', ('table', tb_)), 'attrs': []}, {'name': 'vu%d' % j, 'type': ('vec', ('union', un_)), 'attrs': []}]
    # several key fields per table (adjacent, separated, with primary_key, with explicit ids): exactly one field carries `key` in the bfbs
    def ktab(name, spec, ids=None):
        t_ = G.Table(name, [])
        for j, (nm_, ty_, fl_) in enumerate(spec):
            f_ = {'name': nm_, 'type': ty_, 'attrs': []}
            if fl_: f_[fl_] = True
            if ids: f_['id'] = ids[j]
            t_.fields.append(f_)
        return t_
    I = ('scalar', 'int'); S_ = ('string',)
    kt = [ktab('K2adj', [('a', I, 'key'), ('b', S_, 'key'), ('c', I, None)]),
          ktab('K2sep', [('z', I, 'key'), ('m', I, None), ('a', S_, 'key')]),
          ktab('K3', [('k1', I, 'key'), ('x', I, None), ('k2', ('scalar', 'ulong'), 'key'), ('y', S_, None), ('k3', S_, 'key')]),
          ktab('Kprim', [('p', I, 'key'), ('q', I, None), ('r', S_, 'primary_key'), ('s', I, 'key')]),
          ktab('Kids', [('c', I, 'key'), ('b', I, None), ('a', S_, 'key'), ('d', I, 'key')], ids=[3, 1, 0, 2]),
          ktab('Kprimids', [('c', I, 'key'), ('b', I, 'primary_key'), ('a', S_, 'key')], ids=[2, 1, 0])]
    # more services than objects, calls declared out of alphabetical order
    tsv = G.Table('Tsv', []); tsv.fields = [{'name': 'a', 'type': I, 'attrs': []}]
    svs = []
    for j, nm_ in enumerate(('SvcC', 'SvcA', 'SvcD', 'SvcB')):
        sv_ = G.Service(nm_, ['Rpc'] if j % 2 else []); sv_.calls = [(c_, tsv, tsv) for c_ in (('Zeta', 'Mid', 'Alpha', 'Beta') if j % 2 == 0 else ('Yy', 'Bb', 'Xx'))]
        svs.append(sv_)
    minis = [mini('mmultikey', kt, kt[0]), mini('mmanyservices', [svs[0], tsv] + svs[1:], tsv), mini('msamenames', [same[k] for k in (8, 1, 4, 11, 0, 9, 6, 3, 2, 5, 10, 7)] + [ut_], ut_), mini('monetable', [k1], k1), mini('monetableunion', [k2, uk2], k2), mini('monestruct', [s2]), mini('moneenumtable', [e2, t3], t3),
             mini('mempty', []), mini('menums', [e1]), mini('mstructs', [s1]), mini('munion', [u1]), mini('mservice', [sv1]), mini('mtable0', [t0], t0),
             mini('menumsvc', [e1, sv1]), mini('munionsib', [ux, tx], tx)]
    if not ctx.replay_in:
        schemas += minis; nS += len(minis)
    # layouts / ids from the extracted model
    mlines, meta = [], []
    for s in schemas:
        ls, order, tables = s.model_lines(cons['struct_max'], cons['force_align_max'], cons['vt_max'])
        meta.append((len(mlines), len(ls), order, tables)); mlines += ls
    mres = ctx.run_model('layout', mlines) if mlines else []
    exps = []
    for s, (st, n, order, tables) in zip(schemas, meta):
        res = mres[st:st + n]; lay, ids = {}, {}; k = 0
        pyl = s.expected_structs()
        if order:
            k = 1
            for sd, p in zip(order, res[0].split(';')):
                if p == 'X': lay[sd] = pyl[sd]; ctx.violation('corr:model-rejects-generated-struct', 'model rejects generated struct', {'schema_files': s.render()}); continue
                o, sz, al = p.split(':'); lay[sd] = ([int(x) for x in o.split(',')] if o else [], int(sz), int(al))
        for t, r in zip(tables, res[k:]):
            if r == 'X': ids[t] = s.expected_ids(t); ctx.violation('corr:model-rejects-generated-table', 'model rejects generated ids', {'schema_files': s.render()}); continue
            ids[t] = [(int(a), None if b == '-' else int(b)) for a, b in (x.split(':') for x in r.split()[1:])]
        exps.append((lay, ids))

    jobs = []
    for i, s in enumerate(schemas):
        d = os.path.join(ctx.bdir, 'j%d' % i)
        root = s.write(os.path.join(d, 'src'))
        for q in (1, 0):
            for p in (0, 1):
                jobs.append((i, q, p, d, root))
    nproc = 16
    chunks = [jobs[k::nproc] for k in range(nproc)]

    def runchunk(a):
        idx, ch = a
        lines = ['gen %d %d %s %s %s' % (q, p, os.path.join(d, 'out%d%d' % (q, p)), os.path.join(d, 'src'), root) for (i, q, p, d, root) in ch]
        import subprocess
        try:
            pr = subprocess.run([exe], input='\n'.join(lines) + '\n', stdout=subprocess.PIPE, stderr=subprocess.PIPE, text=True, errors='replace', timeout=1500,
                                env=lib._limit_env({'ASAN_OPTIONS': 'detect_leaks=0:abort_on_error=0', 'UBSAN_OPTIONS': 'print_stacktrace=1'}))
            out, err = pr.stdout, pr.stderr
        except subprocess.TimeoutExpired:
            out, err = '', 'timeout'
        blocks = out.split('END\n')
        done = blocks[:-1]
        res = list(done[:len(ch)])
        if len(res) < len(ch):
            cut = max(err.rfind('ERROR: AddressSanitizer'), err.rfind('Assertion `'), err.rfind('runtime error:'))
            res.append('CRASH ' + blocks[-1][:300] + ' || ' + ' '.join(err[max(0, err.rfind('\n', 0, max(cut, 0)) + 1):].strip().split('\n')[:14])[:1500])
            res += [None] * (len(ch) - len(res))      # not run (after the crash): rerun separately
        return res

    res = U.pmap(runchunk, list(enumerate(chunks)), n=nproc)
    # rerun cases skipped after a crash, one process each
    flat = []
    for ch, rs in zip(chunks, res):
        for j, r in zip(ch, rs):
            if r is None:
                r = runchunk((0, [j]))[0]
            flat.append((j, r))

    stats = {'objects': 0, 'fields': 0, 'enums': 0, 'values': 0, 'services': 0, 'calls': 0}
    unsorted_attr = 0
    ref_bytes = {}
    replay_files = None
    def evaluate(i, q, p, root, r, s, lay, ids):
        nonlocal unsorted_attr
        rep = {'schema_files': s.render() if s is not None else replay_files, 'root': os.path.basename(root), 'bgen_qualify_names': q, 'bgen_length_prefix': p}
        ctx.count(repr((i, q, p, sorted(rep['schema_files'].items()))), klass='schema_q%d_p%d' % (q, p))
        if r.startswith('CRASH'):
            m = re.search(r'(AddressSanitizer: [\w-]+|runtime error: [^\n]{0,60}|Assertion `[^\']*\')', r)
            ctx.violation('crash:bfbs:%s' % (re.sub(r'\s+', '_', re.sub(r"0x[0-9a-f]+.*|'.*", '', m.group(1)).strip())[:80] if m else 'abort') + (':prefix' if p else ''),
                          'binary schema generation crashed (qualify=%d, length_prefix=%d): %s' % (q, p, r[-700:]), rep)
            return
        L = {l.split(' ', 1)[0]: l.split(' ', 1)[1] if ' ' in l else '' for l in r.strip().split('\n') if l}
        if L.get('P', '').split()[:1] != ['0']:
            ctx.violation('schema-rejected', 'generated schema rejected by parse_file: %s' % L.get('P'), rep); return
        if 'A' not in L or L['A'] == 'FAIL':
            ctx.violation('bfbs-alloc-failed', 'flatcc_generate_binary_schema returned null for an accepted schema', rep); return
        size = int(L['A'])
        b = bytes.fromhex(L.get('H', ''))
        rep['bfbs_hex'] = L.get('H', '')[:20000]
        # ---- paths agree
        B = dict(x.split('=') for x in L['B'].split())
        ex_rc, ex_same = B['exact'].split(':'); lg_rc, lg_same = B['larger'].split(':')
        if int(ex_rc) != size or ex_same != '1':
            ctx.violation('to-buffer-exact', 'to_buffer with an exact size buffer returned %s (size %d), same bytes: %s' % (ex_rc, size, ex_same), rep)
        if int(lg_rc) != size or lg_same != '1':
            ctx.violation('to-buffer-larger', 'to_buffer with a larger buffer returned %s (size %d), same bytes: %s' % (lg_rc, size, lg_same), rep)
        for k in ('small1', 'smallhalf', 'zero'):
            if int(B[k]) >= 0:
                ctx.violation('to-buffer-too-small', 'flatcc_generate_binary_schema_to_buffer reports success (%s) for a buffer smaller than the schema (%d bytes needed, case %s)' % (B[k], size, k), rep)
                break
        F = L['F'].split()
        if F[0] != '0' or F[1] == 'NOFILE' or F[2] != '1':
            ctx.violation('file-path-differs', 'flatcc_generate_files(bgen_bfbs) rc=%s size=%s, bytes identical to the in-memory path: %s' % (F[0], F[1], F[2]), rep)
        if 'X' in L:
            X = dict(x.split('=') for x in L['X'].split())
            if X['twice'] != '1':
                ctx.violation('same-context:bfbs-twice', 'generating the binary schema twice on one context gives different bytes', rep)
            if X['c_then_bfbs'] != '1' or X['bfbs_c_bfbs'] != '11':
                ctx.violation('same-context:c-then-bfbs', 'the binary schema generated on a context that also generated the C files (all generators incl. sorter) '
                              'differs from the one of a fresh context or fails: C-then-bfbs=%s, bfbs-C-bfbs=%s (1 same bytes, 0 different, F failed, G C generation failed)' % (
                                  X['c_then_bfbs'], X['bfbs_c_bfbs']), rep)
        if 'O' in L:
            O = L['O'].split()
            if O[0] != '0' or O[1] != '0' or O[3] != '1':
                ctx.violation('outfile-path-differs', 'binary schema written through gen_outfile (twice, over an older larger file of that name): rc %s/%s, file size %s vs %d in memory, identical: %s' % (
                    O[0], O[1], O[2], size, O[3]), rep)
        lp = L['L'].split()
        if lp[1] != '1':
            ctx.violation('length-prefix', 'length prefix wrong: requested=%d, first word %s, buffer size %d' % (p, lp[0], size), rep)
        ref_bytes[(i, q, p)] = b
        if p == 1 and (i, q, 0) in ref_bytes and b[4:] != ref_bytes[(i, q, 0)]:
            # only the prefix may differ (alignment padding could legitimately differ; compare decoded content below instead)
            pass
        # ---- verifier
        V = L['V'].split(' ', 1)
        if V[0] != '0':
            ctx.violation('verify-rejects', 'reflection_Schema_verify_as_root rejects the generated binary schema: %s' % V[1], rep); return
        # ---- content
        body = b[4:] if p else b
        try:
            dec = decode(body)
        except Malformed as e:
            ctx.violation('bfbs-malformed', 'independent decoder: %s' % e, rep); return
        if s is None: exp = None
        else: exp = expected(s, q, lay, ids)
        dec_cmp = dict(dec, services=[dict(sv, calls=sorted(sv['calls'], key=lambda c: c['name'].encode())) for sv in dec['services']])
        df = first_diff(canon_refs(exp), canon_refs(dec_cmp)) if exp is not None else None
        if df:
            what = df[0].rsplit('.', 1)[-1].rsplit('/', 1)[-1].split('#')[0]
            ctx.violation('content:%s' % what, 'binary schema differs from the schema at %s: expected %r, found %r (qualify=%d, prefix=%d)' % (df[0], df[1], df[2], q, p), rep)
        # ---- sorted + searchable
        dupnames = q == 0 and (len({o['name'] for o in dec['objects']}) < len(dec['objects']) or len({e['name'] for e in dec['enums']}) < len(dec['enums']))
        sp = sorted_problems(dec, ties_ok=(q == 0))
        topbit = any(e['underlying'][0] == BT['ULong'] and any(v['value'] < 0 for v in e['values']) for e in dec['enums'])
        S = dict(x.split('=', 1) for x in L.get('S', '').split()) if 'S' in L else {}
        for what, x, y in sp[:1]:
            kind = what.split(' ')[0]
            if kind == 'values' and topbit: kind = 'values-ulong-top-bit'
            ctx.violation('unsorted:%s' % kind, 'vector `%s` is not sorted by its key: %r before %r' % (what, x, y), rep)
        for k in ('objects', 'enums', 'services', 'fields', 'calls', 'values'):
            if k in S:
                fl, n = S[k].split('/'); stats[k] += int(n)
                if int(fl) and not (dupnames and k in ('objects', 'enums')):     # find returns the first of several equal unqualified names
                    ctx.violation('find:%s' % (k + '-ulong-top-bit' if (k == 'values' and topbit) else k), 'generated find fails for %s of %s %s entries (first: %s)' % (fl, n, k, S.get('first')), rep)
        for o in dec['objects']:
            for f in [o] + o['fields']:
                a = f.get('attrs')
                if a and [x[0] for x in a] != sorted(x[0] for x in a): unsorted_attr += 1

    for (i, q, p, d, root), r in flat:
        evaluate(i, q, p, root, r, schemas[i], exps[i][0], exps[i][1])
    if ctx.replay_in:
        q, p, root, r, replay_files = ctx.replay_case
        evaluate(-1, q, p, root, r, None, None, None)
        ctx.finish_args = dict(rule='replay of one recorded input (paths, verifier, sortedness, find; no AST comparison)', explanation='replay')
        return
    ctx.cov['searched_entries'] = stats
    ctx.cov['attribute_vectors_in_declaration_order_not_sorted'] = unsorted_attr
    if unsorted_attr:
        ctx.notes.append('%d attribute (KeyValue) vectors are in declaration order, not sorted by key: documented design decision in codegen_schema.c '
                         '(order of attributes is information; the C binding offers scan) - not judged' % unsorted_attr)

    # ---- CLI --schema output equals the library bytes (qualified names, no prefix)
    def clijob(i):
        s = schemas[i]; d = os.path.join(ctx.bdir, 'j%d' % i); od = os.path.join(d, 'cli'); os.makedirs(od, exist_ok=True)
        rc, out, err = U.run([flatcc, '--schema', '-o', od, '-I', os.path.join(d, 'src'), os.path.join(d, 'src', s.files[0].name + '.fbs')], timeout=60)
        p = os.path.join(od, s.files[0].name + '.bfbs')
        return rc, open(p, 'rb').read() if os.path.exists(p) else None, err
    ncli = nS if T else 12
    for i, (rc, b, err) in zip(range(ncli), U.pmap(clijob, range(ncli))):
        ctx.count('cli%d' % i, klass='cli_schema')
        rep = {'schema_files': schemas[i].render()}
        if rc != 0 or b is None:
            ctx.violation('cli-schema-failed', 'flatcc --schema failed: rc=%s %s' % (rc, err[:200]), rep)
        elif (i, 1, 0) in ref_bytes and b != ref_bytes[(i, 1, 0)]:
            ctx.violation('cli-schema-differs', 'flatcc --schema file differs from flatcc_generate_binary_schema bytes', rep)
    # stdout path
    for i in range(min(4, nS)):
        s = schemas[i]; d = os.path.join(ctx.bdir, 'j%d' % i)
        rc, out, err = U.run([flatcc, '--schema', '--stdout', '-I', os.path.join(d, 'src'), os.path.join(d, 'src', s.files[0].name + '.fbs')], timeout=60, binary=True)
        ctx.count('stdout%d' % i, klass='cli_schema_stdout')
        if rc != 0 or ((i, 1, 0) in ref_bytes and out != ref_bytes[(i, 1, 0)]):
            ctx.violation('cli-schema-stdout-differs', 'flatcc --schema --stdout differs from the in-memory bytes (rc %s)' % rc, {'schema_files': s.render()})
    ctx.sample({'schema': schemas[0].render(), 'harness': [l[:160] for l in flat[0][1].split('\n')[:7]]}, limit=2)
    for i in range(nS): shutil.rmtree(os.path.join(ctx.bdir, 'j%d' % i), ignore_errors=True)

    ctx.trusted = lib.DEFAULT_TRUSTED + ['the python FlatBuffers decoder in checks/c20.py and the expectation builder (AST -> reflection content)',
                                         '/repo/include/flatcc/reflection/* (checked-in generated reader/verifier) for the verify and find parts',
                                         'gen/schema_gen.py']
    ctx.assumptions = ['attribute (KeyValue) vectors are deliberately kept in declaration order (codegen_schema.c comment) and are exempt from the sortedness clause',
                       'enum value vectors are searchable only for ascending unique values (flatcc.h); the generator emits such enums',
                       'struct field `key` flags and ids are not exported by flatcc (only offsets): not compared']
    ctx.finish_args = dict(
        rule='generated schemas (1-3 files, 3-4 namespaces, every feature of the generator) x qualify_names {1,0} x length_prefix {0,1}: '
             'alloc path, to_buffer exact/larger/size-1/half/zero, file path, CLI --schema and --stdout; bytes compared; verifier; independent decode compared '
             'field by field with AST + extracted layout model; sortedness and generated find for every entry. distinct = (schema, options)',
        explanation='Properties_C20 (sorted => find total) re-checked; per schema translation validation of codegen_schema.c output')
