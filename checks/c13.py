"""C13 - Allocation and emit failures are reported, never turned into corruption.

Level: fault enumeration (observed) + proof of the protocol lemmas.
1. Re-check Properties_C13.vo (failure protocol on the model of Reset/BuilderState.v: a failing emit / allocator call makes the
   API call in progress return its failure value; custom_reset brings any state, failed or not, back to a fresh one).
2. harness/fault_inject.c (ASan+UBSan+LSan): every scenario of the build / JSON-parse / clone / print corpus is run once
   to count its allocator requests and emit calls, then re-run with the k-th one failing for EVERY k (single failure and
   every-call-from-k-on), through three mechanisms: the custom allocator callback, a custom emitter, and the allocation
   macros of flatcc_alloc.h redirected at compile time (builder buffers, emitter pages, refmap tables, finalize and printer
   buffers in one countdown with live-block bookkeeping).  Checked per run: some call of the guarded section returns its
   documented failure value (the failure is not swallowed), no sanitizer report, after reset a reference build yields the
   bytes of a fresh builder, after clear no block is live.  For the scenarios the model covers, the extracted model predicts
   which call fails and every return value.
"""
import os, re, random
from . import lib
from .c14_util import check_theorems, Script, Gen, hx, reference_builds, json_docs, parse_snap, deep_build, CORE_FIELDS
from .c14 import build_harness, gen_reset_consts

MACRO_DEFS = ['-DFLATCC_ALLOC=fi_malloc', '-DFLATCC_CALLOC=fi_calloc', '-DFLATCC_REALLOC=fi_realloc', '-DFLATCC_FREE=fi_free',
              '-DFLATCC_ALIGNED_ALLOC=fi_aligned_alloc', '-DFLATCC_ALIGNED_FREE=fi_aligned_free',
              '-include', os.path.join(lib.ROOT, 'harness', 'fi_alloc.h')]


def classify_crash(txt):
    if 'HANG:' in txt: return 'hang-after-failure'
    if 'create_cached_vtable' in txt and 'use-after-free' in txt: return 'vtable-cache-uaf'
    if 'create_cached_vtable' in txt: return 'cached-vtable-minus-one'      # a descriptor left half initialised by the swallowed vb failure
    if 'json_printer_init_dynamic_buffer' in txt: return 'printer-init-null-arith'
    if '_clone' in txt or 'as_root' in txt or 'flatbuffers_buffer_end' in txt: return 'generated-call-continues-after-failure'
    if 'union_type_vector' in txt or ('json_parser' in txt and 'memcpy' in txt): return 'json-user-frame-alloc-unchecked'
    m = re.search(r'ERROR: (\S+): (\S+)', txt)
    f = re.search(r'in (flatcc_\w+|\w+_parse_json\w*)', txt)
    return 'crash:%s:%s' % (m.group(2) if m else 'unknown', f.group(1) if f else '?')


def run(ctx):
    rng = ctx.rng
    gen_reset_consts(ctx)
    ok = check_theorems(ctx, ['Generated/ResetConsts.v', 'Reset/BuilderState.v', 'Reset/ResetProofs.v', 'Reset/Faults.v', 'Properties/Properties_C13.v'])
    if not ok:
        ctx.broken_obligation('Properties_C13.vo', getattr(ctx, 'broken', {}))
    exe = build_harness(ctx, 'fault_inject', extra_defs=MACRO_DEFS)
    H = lib.Harness(exe, env={'ASAN_OPTIONS': 'detect_leaks=1:abort_on_error=0:allocator_may_return_null=1:max_allocation_size_mb=512'})

    if ctx.replay_in:
        import json
        rep = json.load(open(ctx.replay_in))
        if rep.get('harness_line'):
            rc, res, err = H.run([rep['harness_line']], timeout=300)
            ctx.log('replay harness rc=%s reply=%s' % (rc, (res[0] if res else '')[:2000]))
            if err: ctx.log('stderr: ' + err[:3000])
            if rep.get('model_line'): ctx.log('model: ' + ctx.run_model('reset', [rep['model_line']])[0][:2000])
        return

    refs = reference_builds()
    docs = json_docs()
    ref = refs[0][1]                       # rebuilt after every failure and compared with a fresh builder
    fresh_line = Script(); fresh_line.extend(ref); fresh_line.emit('fin')
    rc, fr, err = H.run(['cfg:0:0 ' + ' '.join(fresh_line.ops), 'cfg:1:1 ' + ' '.join(fresh_line.ops)])
    if len(fr) != 2: raise lib.CheckError('fault_inject failed on the reference build: ' + err[-1500:])
    fresh_bytes = fr[0].split()[-1]
    if fr[1].split()[-1] != fresh_bytes: raise lib.CheckError('reference build differs between emitters')

    # ---------------------------------------------------------------- scenario corpus: (name, guarded ops, model?)
    scen = []
    for i, (name, s) in enumerate(refs):
        scen.append(('build:%s%d' % (name, i), s.ops, True))
    g = Gen(random.Random(5), max_depth=4)
    nb = 40 if ctx.thorough else 3
    for k in range(nb):
        scen.append(('build:random%d' % k, g.build(root='table').ops, True))
    gh = Gen(random.Random(6), harness_only=True, max_depth=4)
    for k in range(20 if ctx.thorough else 2):
        scen.append(('build:unions%d' % k, gh.build(root='table').ops, False))
    scen.append(('build:user_frames', ['sb:0:0:0', 'st:3', 'uf:10', 'uf:300', 'ta:0:4:4:01000000', 'uf:5000', 'ux', 'ux', 'ux', 'et', 'eb:$9'], True))
    deep = ['sb:0:0:0'] + ['st:1'] * 20
    scen.append(('build:deep', deep, True))
    scen.append(('build:then_reduce', list(refs[-1][1].ops) + ['rs:0:1'], True))
    scen.append(('build:big_vectors', ['sb:0:0:0', 'st:3', 'cv:%s:2000:4:4:1073741823' % ('ab' * 8000), 'to:0:$2', 'sS'] + ['aS:%s' % ('41' * 700)] * 6 +
                 ['eS', 'to:1:$11', 'et', 'eb:$13'], True))
    # stale data stack content: an earlier sibling table with padding (ubyte, then ulong), then frames filled with 0xEE in which
    # the failures hit; the rebuild after reset places the padded table over those bytes
    ee = lambda n: 'ee' * n
    pad = Script()
    pad.emit('sb:0:0:0'); pad.emit('st:4')
    pad.emit('st:2'); pad.emit('ta:0:1:1:ee'); pad.emit('ta:1:8:8:' + ee(8)); t1 = pad.emit('et'); pad.emit('to:0:$%d' % t1)
    pad.emit('sv:1:1:4294967295'); pad.emit('xv:40:' + ee(40)); pad.emit('xv:600:' + ee(600)); v = pad.emit('ev'); pad.emit('to:1:$%d' % v)
    pad.emit('sS'); pad.emit('aS:' + ee(33)); pad.emit('aS:' + ee(1500)); st_ = pad.emit('eS'); pad.emit('to:2:$%d' % st_)
    pad.emit('st:3'); pad.emit('ta:0:1:1:ee'); pad.emit('ta:2:8:8:' + ee(8)); pad.emit('ta:1:2:2:eeee'); t2 = pad.emit('et'); pad.emit('to:3:$%d' % t2)
    r_ = pad.emit('et'); pad.emit('eb:$%d' % r_)
    scen.append(('build:padded_ee', pad.ops, True))
    pst = Script()
    pst.emit('sb:0:0:0'); pst.emit('st:2')
    pst.emit('sv:1:1:4294967295'); pst.emit('xv:64:' + ee(64)); v = pst.emit('ev'); pst.emit('to:0:$%d' % v)
    pst.emit('ta:1:24:8:ee' + '00' * 7 + ee(8) + 'eeee' + '00' * 6)      # struct { ubyte; ulong; ushort } written in place
    r_ = pst.emit('et'); pst.emit('eb:$%d' % r_)
    scen.append(('build:padded_struct_ee', pst.ops, True))
    # union vectors long enough that end_union_vector / create_union_vector THEMSELVES grow the data stack (temporary type and
    # offset arrays: count * 5 resp. count * 4 + count bytes on top of the elements)
    def uvec_scenario(n, create, in_table=True):
        s = Script()
        s.emit('sb:0:0:0'); s.emit('st:3')
        s.emit('st:1'); s.emit('ta:0:4:4:' + ee(4)); a = s.emit('et')
        elems = ';'.join(('1,$%d' % a) if i % 3 else '0,0' for i in range(n))
        if create:
            u = s.emit('cu:' + elems)
        else:
            s.emit('su')
            parts = elems.split(';')
            for b in range(0, n, 16): s.emit('xu:' + ';'.join(parts[b:b + 16]))
            u = s.emit('eu')
        s.emit('to:0:%%%d' % u); s.emit('to:1:$%d' % u)
        r = s.emit('et'); s.emit('eb:$%d' % r)
        return s.ops
    for n in ((20, 24, 40, 70) if not ctx.thorough else (19, 20, 21, 24, 31, 32, 40, 51, 70, 130, 300)):
        scen.append(('build:union_vector_end%d' % n, uvec_scenario(n, False), False))
    for n in ((52, 56, 70, 130) if not ctx.thorough else (12, 51, 52, 53, 56, 63, 64, 65, 70, 130, 300)):
        scen.append(('build:union_vector_create%d' % n, uvec_scenario(n, True), False))
    # create_union_vector as the very first user of the data stack (created before the buffer is started)
    scen.append(('build:union_vector_create_first', ['cu:' + ';'.join(['0,0'] * 9), 'sb:0:0:0', 'st:2', 'to:0:%0', 'to:1:$0', 'et', 'eb:$5'], False))
    jdocs = docs if ctx.thorough else [docs[1], docs[3], docs[5], docs[6], docs[8], docs[9]]
    for i, d in enumerate(jdocs):
        scen.append(('json:doc%d' % i, ['jp:%s:0' % hx(d.encode())], False))
    for i in (8, 9):
        scen.append(('json:as_root_doc%d' % i, ['jr:%s:0' % hx(docs[i].encode())], False))
    many = 400
    scen.append(('json:long_union_vector', ['jp:%s:0' % hx(('{"uv_type":[' + ','.join(['"NONE"'] * many) + '],"uv":[' + ','.join(['null'] * many) + ']}').encode())], False))
    scen.append(('json:long_union_vector_AB', ['jp:%s:0' % hx(('{"uv_type":[' + ','.join(['"A"', '"B"'] * 60) + '],"uv":[' + ','.join(['{"a":1}', '{"b":[1]}'] * 60) + ']}').encode())], False))
    # clone (with refmap) and print need a finished buffer: take it from an unarmed parse
    rc, fb, err = H.run(['cfg:0:0 jp:%s:0 fin' % hx(docs[5].encode())])
    buf_hex = fb[0].split()[-1] if fb else '-'
    scen.append(('clone:refmap', ['rm:1', 'cln:%s' % buf_hex], False))
    scen.append(('clone:plain', ['cln:%s' % buf_hex], False))
    scen.append(('print:dynamic', ['pj:%s:128' % buf_hex], False))
    scen.append(('refmap:grow', ['rm:1', 'sb:0:0:0', 'ri:2000:40'], False))
    for nrefs in (6, 9, 30):
        scen.append(('refmap:insert%d' % nrefs, ['rm:1', 'ri:%d:50' % nrefs], False))
    # clone with many shared references (each cloned table / vector is memoised): the refmap must grow several times
    rc, fbm, err = H.run(['cfg:0:0 jp:%s:0 fin' % hx(('{"kids":[' + ','.join('{"n":%d,"name":"k%d"}' % (i, i) for i in range(14)) + '],"strs":["a","b","c"]}').encode())])
    buf_many = fbm[0].split()[-1] if fbm else '-'
    scen.append(('clone:refmap_many', ['rm:1', 'cln:%s' % buf_many], False))
    # strings whose escape sequence sits at a data stack growth boundary (255 / 511 bytes of literal prefix, +- a few)
    for base in (255, 511):
        for d_ in (range(-5, 6) if ctx.thorough else (-1, 0, 1)):
            for esc in ('\\n', '\\u00e9'):
                doc = '{"name":"%s%srest of the string"}' % ('p' * (base + d_), esc)
                scen.append(('json:escape_at_%d%+d%s' % (base, d_, 'u' if 'u' in esc else 'n'), ['jp:%s:0' % hx(doc.encode())], False))

    def rebuild_of(ops):
        """what is built after the reset: the scenario itself when it is a complete build (its frames then cover the data stack
        positions the failed run left dirty), else the fixed reference build"""
        return Script(ops) if ops and ops[-1].split(':')[0] in ('eb', 'cb') and not any(t.split(':')[0] in ('su', 'rm') for t in ops) else ref
    # after the rebuild: a fixed battery of OTHER builds on the same (reset) builder, each compared with a fresh builder; what a failed
    # scenario leaves behind need not show when the same scenario is replayed (settings, limits, pools)
    deep150 = Script(['GUARD']); deep150.extend(deep_build(150)); deep150.emit('REC')
    mv = Script(); mv.emit('sb:0:0:0'); ks = []
    for i in range(70):
        mv.emit('st:%d' % (i + 1)); mv.emit('ta:%d:1:1:%02x' % (i, i + 1)); ks.append(mv.emit('et'))
    mv.emit('so'); mv.emit('xo:' + ','.join('$%d' % k for k in ks[:35])); mv.emit('xo:' + ','.join('$%d' % k for k in ks[35:])); v_ = mv.emit('eo')
    mv.emit('st:1'); mv.emit('to:0:$%d' % v_); r_ = mv.emit('et'); mv.emit('eb:$%d' % r_)
    bigv = Script(['sb:0:0:0', 'st:2', 'cv:%s:7000:1:1:4294967295' % ('c3' * 7000), 'to:0:$2', 'sS', 'aS:%s' % ('61' * 3000), 'eS', 'to:1:$6', 'et', 'eb:$8'])
    deepj = Script(['jr:%s:0' % hx(('{"kids":[' * 30 + '{"n":1}' + ']}' * 30).encode())])
    battery = [('deep150', deep150), ('many_vtables', mv), ('big_vector', bigv), ('deep_json', deepj)]
    def line(cfg, arm, ops, disarm, rot=0):
        s = Script([arm, 'GUARD'] if arm else ['GUARD'])
        s.extend(Script(ops)); s.emit('REC')
        if disarm: s.emit(disarm)
        s.emit('CNT'); s.emit('snap')
        s.emit('rs:0:0'); s.emit('snap'); s.extend(rebuild_of(ops)); s.emit('fin')
        # the deep chain always (nesting limits), one more battery item in rotation
        for bname, b in (battery[0], battery[1 + rot % 3]):
            s.emit('rs:0:0'); s.extend(b); s.emit('fin')
        s.emit('clr'); s.emit('LIVE')
        return 'cfg:%s %s' % (cfg, ' '.join(s.ops)), s.ops
    def parts(toks, t):
        """positions of the recovery part of a reply: snapshot after the first reset, fin tokens in order, LIVE"""
        fins = [j for j, x in enumerate(toks) if x == 'fin']
        i_rs = toks.index('rs:0:0', toks.index('CNT'))
        return {'after_reset': t[i_rs + 1] if len(t) > i_rs + 1 else '{}', 'fins': [t[j] if j < len(t) else None for j in fins], 'live': t[-1]}
    bat_fresh = {}
    for cfgx in ('0:0', '1:1'):
        for (bname, b), rep in zip(battery, lib.run_harness_resilient(H, ['cfg:%s %s fin' % (cfgx, ' '.join(b.ops)) for _, b in battery])):
            bat_fresh[(cfgx, bname)] = rep.split()[-1] if rep else None
            if not rep or 'CRASH' in rep or rep.split()[-1] in ('-', 'FINFAIL', 'COPYFAIL'):
                ctx.violation('fresh-build-failed:battery:' + bname, 'battery build %s does not build on a fresh builder: %s' % (bname, rep[:200]), {'harness_line': 'cfg:%s %s fin' % (cfgx, ' '.join(b.ops))})
    rcf, frs, _ = H.run(['cfg:0:0 snap'])
    fresh_state = parse_snap(frs[0].split()[0]) if frs else {}
    def check_recovery(name, cfg, toks, t, tag, rot, l, extra):
        """state right after reset == fresh builder; rebuild and battery bytes == fresh builder; nothing live after clear"""
        P = parts(toks, t)
        sn = parse_snap(P['after_reset'])
        bad = [f for f in CORE_FIELDS if f in fresh_state and sn.get(f) != fresh_state.get(f) and f != 'rm_count']
        if bad:
            ctx.violation('reset-state-differs-after-failure:' + bad[0], 'scenario %s, %s: after reset the builder field %s is %s, a freshly initialised builder has %s' % (
                              name, tag, bad[0], sn.get(bad[0]), fresh_state.get(bad[0])), dict(extra, harness_line=l))
        exp = [fresh_of.get(name) or '', bat_fresh.get((cfg, 'deep150')), bat_fresh.get((cfg, battery[1 + rot % 3][0]))]
        names = ['rebuild of the scenario', 'battery deep150', 'battery ' + battery[1 + rot % 3][0]]
        for got, want, what in zip(P['fins'], exp, names):
            if got != want:
                if got == 'FINFAIL' and extra.get('mechanism') == 'macro': key = 'emitter-used-stale'
                elif what.startswith('rebuild'): key = 'rebuild-after-failure-differs:' + name.split(':')[0]
                else: key = 'battery-after-failure-differs:' + what.split()[-1]
                ctx.violation(key, 'scenario %s, %s: after reset the %s yields %d bytes (%s...) that differ from the %d bytes of a fresh builder' % (
                                  name, tag, what, len(got or '') // 2, (got or '')[:40], len(want or '') // 2), dict(extra, harness_line=l))
                break
        if P['live'] != '0':
            ctx.violation('live-after-clear:' + name.split(':')[0], 'scenario %s, %s: %s (live blocks * 1000 + bookkeeping errors) after flatcc_builder_clear' % (name, tag, P['live']),
                          dict(extra, harness_line=l))
    # bytes of each rebuild on a freshly initialised builder
    fresh_of = {}
    fl = []
    for name, ops, model in scen:
        rb = Script(); rb.extend(rebuild_of(ops)); rb.emit('fin')
        fl.append((name, 'cfg:0:0 ' + ' '.join(rb.ops)))
    for (name, l), rep in zip(fl, lib.run_harness_resilient(H, [l for _, l in fl])):
        fresh_of[name] = rep.split()[-1] if rep and not rep.startswith('CRASH') else None
        if fresh_of[name] in (None, 'FINFAIL', 'COPYFAIL'):
            ctx.violation('fresh-build-failed:' + name, 'scenario %s does not build on a fresh builder: %s' % (name, rep[:200]), {'harness_line': l})

    # ---------------------------------------------------------------- pass 1: count
    base = []
    for name, ops, model in scen:
        for cfg in ('0:0', '1:1'):
            base.append((name, ops, model, cfg) + line(cfg, None, ops, None))
    r0 = lib.run_harness_resilient(H, [b[4] for b in base])
    counts = {}
    for (name, ops, model, cfg, l, toks), rep in zip(base, r0):
        ctx.count(l, klass='unarmed')
        if rep.startswith('CRASH') or 'CRASH' in rep:
            ctx.violation(classify_crash(rep), 'scenario %s crashes without any injected failure: %s' % (name, rep[:300]), {'harness_line': l}); continue
        t = rep.split()
        i_cnt = toks.index('CNT')
        sn = parse_snap(t[i_cnt + 1])
        counts[(name, cfg)] = (int(t[i_cnt]), int(sn['alloc_calls']), int(sn['emit_calls']))
        if t[toks.index('REC')] != 'clean':
            ctx.violation('unarmed-failure:' + name, 'a call of scenario %s fails without injected failure: %s' % (name, ' '.join(t[:40])), {'harness_line': l})
        check_recovery(name, cfg, toks, t, 'no failure injected', 0, l, {'scenario': name})
    ctx.sample({'request_counts (macro, callback allocs, emits)': {k[0] + '/' + k[1]: v for k, v in list(counts.items())[:8]}})

    # ---------------------------------------------------------------- pass 2: every k, three mechanisms, single / repeated
    runs = []   # (name, mech, k, rep, model, harness line, tokens)
    for name, ops, model in scen:
        nm, na, ne = counts.get((name, '0:0'), (0, 0, 0))
        nm1, na1, ne1 = counts.get((name, '1:1'), (0, 0, 0))
        step = 1
        if not ctx.thorough and max(nm, na1, ne1) > 60: step = 2
        for rep in (0, 1):
            for k in range(0, nm, step):
                l, toks = line('0:0', 'FM:%d:%d' % (k, rep), ops, 'FM:-1', k)
                runs.append((name, 'macro', k, rep, False, l, toks))
            for k in range(0, na1, step):
                l, toks = line('1:1', 'FA:%d:%d' % (k, rep), ops, 'FA:-1:0', k)
                runs.append((name, 'alloc-callback', k, rep, model, l, toks))
            for k in range(0, ne1, step):
                # flatcc_builder_emit_fun fails with ANY non-zero return value
                CODES = (-1, 1, 28, -5, 2147483647)
                for code in (CODES if ctx.thorough else (CODES[(k + rep) % 5],)):
                    l, toks = line('1:1', 'FE:%d:%d:%d' % (k, rep, code), ops, 'FE:-1:0', k)
                    runs.append((name, 'emit-callback', k, rep, model, l, toks))
    ctx.log('%d scenarios, %d fault runs' % (len(scen), len(runs)))
    rr = lib.run_harness_resilient(H, [r[5] for r in runs], timeout=1500)
    ctx.log('fault runs done')
    # Model queries.  Emit failures: the k-th emit call is the same call on both sides (the number of emit calls is fixed by the API).
    # Allocation failures: WHICH call needs the k-th allocation depends on the allocator's sizing policy, which the property leaves
    # open; so the implementation's run tells at which op the failure surfaced and the model is asked for the consequences of
    # "an allocation fails during op i" (XA:i - capacities dropped to zero just before op i, next allocator call fails).
    def failing_op(toks, t):
        i_rec = toks.index('REC')
        if len(t) <= i_rec or t[i_rec] != 'tripped': return None
        j = i_rec - 1
        while j > 1 and t[j] == '_': j -= 1
        return j
    def model_line(r, rep, fixed=True):
        name, mech, k, rp, model, l, toks = r
        tk = list(toks)
        if mech == 'alloc-callback':
            j = failing_op(toks, rep.split())
            if j is None: return None
            tk[0] = 'XA:%d' % j
        return ('F1 ' if fixed else 'F0 ') + ' '.join(tk)
    mruns = []
    for r, rep in zip(runs, rr):
        if r[4] and not ('CRASH' in rep):
            ml = model_line(r, rep)
            if ml: mruns.append((r, ml))
    mres = ctx.run_model('reset', [ml for _, ml in mruns], timeout=1500) if mruns else []
    ctx.log('model runs done (%d)' % len(mruns))
    mmap = {id(r): m for (r, _), m in zip(mruns, mres)}

    def norm(tokens):
        out = []
        for t in tokens:
            if t.startswith('{'):
                d = parse_snap(t); t = '{' + ','.join('%s=%s' % (f, d.get(f)) for f in ('level', 'emit_start', 'emit_end', 'vb_end', 'ds_first', 'user_frame_end')) + '}'
            out.append(t)
        return out

    nsw = 0
    mism = []
    for r, rep in zip(runs, rr):
        name, mech, k, rp, model, l, toks = r
        ctx.count(l, klass='%s:%s' % (mech, name.split(':')[0]))
        tag = '%s k=%d %s' % (mech, k, 'repeated' if rp else 'single')
        if rep.startswith('CRASH') or 'CRASH' in rep:
            ctx.violation(classify_crash(rep), 'sanitizer report / crash in scenario %s with %s failure: %s' % (name, tag, rep[:300]),
                          {'harness_line': l, 'scenario': name, 'mechanism': mech, 'k': k, 'repeated': rp, 'stderr': rep[:1500]})
            continue
        t = rep.split()
        state = t[toks.index('REC')]
        # which op failed and with what value
        if state != 'tripped':
            # the failure was consumed (k < number of requests of the unarmed run) but no call reported it
            if True:     # also the refmap: a failed growth makes flatcc_refmap_insert return flatcc_refmap_not_found, which the clone passes on
                nsw += 1
                if name.startswith('refmap') or (name.startswith('clone') and mech == 'macro'): key = 'refmap-growth-failure-swallowed'
                elif name.startswith('clone'): key = 'generated-call-continues-after-failure'
                elif ('et' in [x.split(':')[0] for x in toks]) and mech != 'emit-callback': key = 'cached-vtable-minus-one'
                else: key = 'failure-swallowed:' + name.split(':')[0]
                ctx.violation(key, 'scenario %s: the %s was not reported by any call of the build (all calls returned success)' % (name, tag),
                              {'harness_line': l, 'scenario': name, 'mechanism': mech, 'k': k, 'repeated': rp, 'reply': ' '.join(t[:60])})
        check_recovery(name, '0:0' if mech == 'macro' else '1:1', toks, t, tag, k, l, {'scenario': name, 'mechanism': mech, 'k': k, 'repeated': rp})
        if model and id(r) in mmap:
            m = mmap[id(r)].split()
            # the model has no CNT / LIVE; compare the guarded section (return value of every call, which call fails) and the rebuild
            i_rec = toks.index('REC')
            a = norm(t[:i_rec + 1]); b = norm(m[:i_rec + 1])
            if a != b: mism.append((r, t, m, rep))
    if mism:
        f0 = ctx.run_model('reset', [model_line(r, rep, fixed=False) for r, _, _, rep in mism], timeout=1500)
        for (r, t, m, rep), z in zip(mism, f0):
            name, mech, k, rp, model, l, toks = r
            i_rec = toks.index('REC')
            if norm(t[:i_rec + 1]) == norm(z.split()[:i_rec + 1]):
                ctx.violation('cached-vtable-minus-one', 'scenario %s, %s k=%d: the implementation behaves like the transcription of the pinned commit, not like the repaired model: %s' % (
                                  name, mech, k, ' '.join(t[:i_rec + 1])[-200:]),
                              {'harness_line': l, 'model_line': model_line(r, rep)})
            else:
                j = next((i for i, (x, y) in enumerate(zip(norm(t), norm(m))) if x != y), -1)
                ctx.violation('corr:fault:%s' % mech, 'model and implementation disagree in scenario %s, %s k=%d at op %d `%s`: impl %s model %s' % (
                                  name, mech, k, j, toks[j] if 0 <= j < len(toks) else '?', t[j][:60] if j >= 0 else '?', m[j][:60] if j >= 0 else '?'),
                              {'harness_line': l, 'model_line': model_line(r, rep)})
    ctx.sample({'fault_run': runs[0][5][:300], 'reply': rr[0][:300]})
    ctx.sample({'swallowed_failures': nsw, 'model_compared_runs': len(mruns), 'model_mismatches': len(mism)})

    # ---------------------------------------------------------------- assertions enabled: the same single failures of the build scenarios
    # (FLATCC_BUILDER_ASSERT_ON_ERROR=0 keeps the `check` macro of builder.c from asserting on every reported failure; plain
    # FLATCC_ASSERTs stay active: a failure followed by reset / rebuild must not trip an internal consistency assertion)
    exe_a = build_harness(ctx, 'fault_inject', extra_defs=MACRO_DEFS + ['-DFLATCC_BUILDER_ASSERT_ON_ERROR=0'], ndebug=False, out_name='fault_inject_assert')
    HA = lib.Harness(exe_a, env={'ASAN_OPTIONS': 'detect_leaks=1:abort_on_error=0:allocator_may_return_null=1:max_allocation_size_mb=512'})
    aruns = [r for r in runs if r[0].startswith('build:') and r[3] == 0 and r[1] != 'emit-callback']
    if not ctx.thorough: aruns = [r for r in aruns if r[0].split(':')[1][:6] in ('table0', 'shared', 'padded', 'random')]
    ar = lib.run_harness_resilient(HA, [r[5] for r in aruns], timeout=1500)
    for r, rep in zip(aruns, ar):
        name, mech, k, rp, model, l, toks = r
        ctx.count('assert ' + l, klass='assert-enabled:%s' % mech)
        if rep.startswith('CRASH') or 'CRASH' in rep:
            m = re.search(r"(\w+\.c):(\d+): .*Assertion `([^']*)' failed", rep)
            if m and 'vd_end == 0' in m.group(3): key = 'alloc-ht-assert-after-failed-ht'
            elif m: key = 'assert:%s:%s' % (m.group(1), m.group(2))
            else: key = classify_crash(rep)
            ctx.violation(key, 'assert-enabled build, scenario %s, %s k=%d: %s' % (name, mech, k, (m.group(0) if m else rep)[:300]),
                          {'harness_line': l, 'build': 'no NDEBUG, -DFLATCC_BUILDER_ASSERT_ON_ERROR=0', 'stderr': rep[:1500]})
            continue
        t = rep.split()
        if parts(toks, t)['fins'][0] != (fresh_of.get(name) or ''):
            ctx.violation('rebuild-after-failure-differs:assert-build', 'assert-enabled build, scenario %s, %s k=%d: rebuild after reset differs from a fresh builder' % (name, mech, k),
                          {'harness_line': l})


    ctx.trusted = lib.DEFAULT_TRUSTED + ['harness/fi_alloc.h allocation layer and the GUARD/REC skip logic of harness/reset_ops.h (mirrored in ocaml/reset/driver.ml)',
                                         'ASan / LSan as the observers of invalid accesses, double frees and leaks inside the runtime']
    ctx.assumptions = ['the memory-safety clause is OBSERVED for the enumerated (scenario, k, mechanism) triples, not proved',
                       'after a failed call only reset / clear are issued (API contract)', 'little-endian host, default allocator growth policy']
    ctx.finish_args = dict(
        rule='scenarios: reference and random builds (tables, vectors, strings, nested buffers, union vectors, user frames, deep nesting, large vectors, '
             'build + reducing reset), JSON parses of union-heavy documents, clone with and without refmap, refmap growth, JSON printing into a dynamic buffer; '
             'for each: every k below the number of allocator requests / emit calls of the unarmed run, single and repeated, via allocator callback, '
             'emitter callback and compile-time allocation macros; distinct = distinct harness lines',
        explanation='per run: a guarded call returns its documented failure value (else: failure swallowed), sanitizers silent, rebuild after reset == fresh bytes, '
                    'no live block after clear; model-covered scenarios additionally agree with the extracted model on every return value')
