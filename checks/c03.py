"""C03 - Build then read returns exactly what was written.

1. Re-check Properties_C03.vo.
2. Build scripts over the schema corpus through the real builder API (all styles) and the extracted model (byte-exact).
3. On the IMPLEMENTATION's bytes: a dump that goes ONLY through the generated reader accessors (every field of every
   object: scalars with is_present and value - the schema default when absent, optional scalars as null -, structs and
   fixed arrays leaf by leaf, strings, vectors with length/content/order, unions and union vectors with type and member,
   nested roots) must equal the value tree that drove the script; the extracted independent decoder must return the same
   tree; an object used several times in the script must be stored once (every use reads the same address).
"""
import json, os
from . import lib
from . import builder_util as bu
from .builder_engine import Engine


def run(ctx):
    ok = ctx.check_theorems()
    if os.path.exists(os.path.join(lib.COQ, 'Properties', 'Properties_C02c.v')):     # C03_build_decode for union vectors / nested levels
        ok = ctx.check_theorems(prop_module='Properties_C02c') and ok
    if os.path.exists(os.path.join(lib.COQ, 'Properties', 'Properties_C03b.v')):     # reader value model = Spec.decode on every wf buffer
        ok = ctx.check_theorems(prop_module='Properties_C03b') and ok
    if not ok:
        ctx.broken_obligation('Properties_C03.vo', getattr(ctx, 'broken', {}))
    E = Engine(ctx, with_gen_api=True)
    rng = ctx.rng
    if ctx.replay_in:
        from .builder_engine import replay
        replay(E, ctx)
        return
    cases = []
    n = 220 if not ctx.thorough else 2500
    for s in E.corpus:
        if s.name not in E.BC: continue
        for i in range(n):
            cases.append(E.make_case(rng, s, size=rng.choice([0.3, 1.0, 2.5])))
        # the GENERATED builder api: <T>_start / <T>_<f>_add (default elision) / _force_add / <T>_end, union and union-vector adds,
        # nested struct roots through <T>_<f>_create_as_root
        for i in range(n):
            c = E.make_case(rng, s, size=rng.choice([0.3, 1.0]), gen_api=True, klass='generated-api')
            cases.append(c)
        # create-by-arguments: every field present, <T>_create(B, all fields) incl. struct arguments with force_align up to 256
        for i in range(25 if not ctx.thorough else 300):
            cases.append(E.make_case(rng, s, maxdepth=2, size=0.3, gen_api=True, full=True, klass='generated-create-all-fields'))
        if s.unions:        # more union-vector builds (generated <Member>_push* variants, strings with NULs)
            for i in range(n // 2):
                cases.append(E.make_case(rng, s, size=rng.choice([1.0, 2.5]), gen_api=True, klass='generated-api-unions'))
        for st in s.structs:
            for k in range(4 if not ctx.thorough else 30):
                cases.append(E.make_case(rng, s, root=st))
        for i in range(5 if not ctx.thorough else 50):
            cases.append(E.make_case(rng, s, maxdepth=rng.choice([4, 5]), size=rng.choice([1.0, 4.0]), klass='deep'))
    if 'bwide' in E.HG:
        # <T>_<union>_add reserves the type and the value slot; sweep the inline size across the data-stack capacities 256 / 512
        for inline in list(range(236, 263)) + list(range(496, 517)):
            for rep in range(1 if not ctx.thorough else 4):
                cases.append(E.make_union_realloc_case(rng, inline))
    if 'bwide' in E.BC:
        for i in range(6 if not ctx.thorough else 60):
            cases.append(E.make_wide_case(rng, count=rng.choice([100, 130, 200])))
        for i in range(16 if not ctx.thorough else 160):      # table types whose vtables differ in the table size only, runtime and generated API
            cases.append(E.make_pair_case(rng, gen_api=i % 2 == 1))
    E.run_builds(cases)
    # wide tables (field ids up to 2000) opened inside each other to depth 20..100: the vtable stack passes 64 KB while ancestors are open
    E.wide_nested_topdown(rng, 18 if not ctx.thorough else 200)
    # tables at the 64 KB limit of the vtable: small fields at every inline offset around 65531 (fits iff the table size 4 + data <= 65535), read back
    E.table_size_limit(rng, 10 if not ctx.thorough else 100)
    # probe (full UBSan incl. alignment): a struct with force_align 16 written through the generated <struct>_create
    if 'bnest' in E.HP:
        s = E.by_name['bnest']
        ti, fields = s.table_index['Outer'], s.live_fields('Outer')
        fj = [j for j, f in enumerate(fields) if f.name == 'ns'][0]
        fd = [j for j, f in enumerate(fields) if f.name == 'd'][0]
        # an 8 byte field first, so that the struct frame starts at data-stack offset 8
        line = 'build X:1:0:- B:-:0:0 Gs:%d Gf:%d:%d:0000000000000840 Gn:%d:%d:c:%s:0 Ge:%d E:2' % (ti, ti, fd, ti, fj, '01000000000000000000000000000840', ti)
        r = lib.run_harness_resilient(E.HP['bnest'], [line])[0]
        ctx.count(line, klass='probe-generated-struct-alignment')
        if r.startswith('CRASH') and 'misaligned' in r:
            ctx.violation('generated-builder-misaligned-struct-access',
                          'the generated builder writes a struct with force_align 16 through a misaligned pointer into the builder data stack (UBSan): ' + r[6:300],
                          {'harness_line': line, 'schema': 'bnest', 'stderr': r[:1500]})
        elif not r.startswith('OK'):
            ctx.violation('probe-failed', 'generated-api probe failed: ' + r[:300], {'harness_line': line})
    dump_items, dump_cases, dec_lines = [], [], []
    nshared = 0
    for c in cases:
        ctx.count(c.h, klass='build:' + c.klass)
        for k, v in c.gen.kinds.items():
            g = ctx.cov['generator_histogram']; g['style:' + k] = g.get('style:' + k, 0) + v
        if c.hrep.startswith('CRASH'):
            ctx.violation('crash:' + E.crash_key(c.hrep), 'the builder crashes (sanitizer) on a correct use of the API: ' + c.hrep[:400],
                          {'harness_line': c.h, 'model_line': c.m, 'schema': c.schema.name}); continue
        if c.himpl is None:
            ctx.violation('build-failed', 'a builder call fails on a correct use of the API: ' + c.hrep[:200], {'harness_line': c.h, 'schema': c.schema.name}); continue
        s = c.schema
        raw, align = c.himpl['raw'], c.himpl['align']
        ws = 1 if c.opts['with_size'] else 0
        lost = bu.embed_header_lost(s, c.node, raw, 4 if ws else 0)
        if lost:
            # one key for everything that follows from it (out-of-bounds / misaligned reads, values read differently)
            ctx.violation('embed-top-level-no-header',
                          'embed_buffer called inside the open top-level buffer emitted the bytes without the ubyte vector length: the generated reader takes the first '
                          'word of the embedded buffer for the length of nested field %s' % lost[0],
                          {'harness_line': c.h, 'model_line': c.m, 'schema': s.name, 'buffer_hex': raw.hex(), 'path': lost[0]}); continue
        ri = bu.roots_of(s).index(c.root)
        am = align if 0 < align < 256 else 0
        dump_items.append((s.name, 'dump %d %d %d %s' % (ri, ws, am, raw.hex() if raw else '-'))); dump_cases.append(c)
        dec_lines.append(E.dec_line(s, c.root, ws, bu.value_depth(c.node) + 2, align, raw))
        # sharing: a node used several times is read from one address
        if c.root in s.tables:
            try:
                rd = bu.PyReader(raw)
                pos = {}
                bu.object_positions(s, c.node, rd, rd.follow(4 if ws else 0), pos)
                for key, ps in pos.items():
                    if len(ps) > 1:
                        ctx.violation('shared-object-stored-twice', 'an object referenced from several places in the build script is stored at %d places' % len(ps),
                                      {'harness_line': c.h, 'schema': s.name, 'positions': sorted(ps), 'buffer_hex': raw.hex()})
                nshared += c.gen.kinds.get('shared', 0)
            except Exception as e:
                ctx.violation('reader-walk-failed', 'independent reader cannot walk the finished buffer: %r' % e, {'harness_line': c.h, 'buffer_hex': raw.hex()})
    dres = E.run_bc_all(dump_items)
    # the generated-reader VALUE model (Verifier/ReaderValue.v, Properties_C03b) against the real generated reader and the decoder
    if os.path.exists(os.path.join(lib.ROOT, 'checks', 'c03b_util.py')):
        from . import c03b_util
        sel = [(c, d) for c, d in zip(dump_cases, dres) if d is not None and not d.startswith('CRASH')]
        if not ctx.thorough and len(sel) > 800: sel = ctx.rng.sample(sel, 800)
        c03b_util.reader_value_check(ctx, c03b_util.items_from_c03([c for c, _ in sel], [d for _, d in sel]))
    mres = ctx.run_model('builder', dec_lines) if dec_lines else []
    for c, (name, line), d, dl, m in zip(dump_cases, dump_items, dres, dec_lines, mres):
        ctx.count(line, klass='reader-dump')
        ctx.count(dl, klass='spec-decode')
        s = c.schema
        kind = ('struct-root' if c.root in s.structs else 'table-root')
        base = {'harness_line': c.h, 'model_line': c.m, 'schema': s.name, 'root': c.root, 'dump_line': line[:200], 'buffer_hex': c.himpl['bytes']}
        if d is None: continue
        if d.startswith('CRASH'):
            ctx.violation('reader-crash:' + E.crash_key(d), 'sanitizer report while reading a builder-made buffer through the generated accessors: ' + d[:300], base); continue
        exp = bu.render_dump(s, c.node, c.root)
        if d != exp:
            # first differing field for the key
            i = 0
            while i < min(len(d), len(exp)) and d[i] == exp[i]: i += 1
            ctx.violation('read-differs:' + kind, 'reading the finished buffer through the generated reader does not return what was written (first difference at char %d: wrote ...%s, read ...%s)'
                          % (i, exp[max(0, i - 30):i + 30], d[max(0, i - 30):i + 30]), dict(base, expected=exp[:3000], dumped=d[:3000]))
        expd = bu.render_dec(s, c.node)
        if m != expd:
            ctx.violation('decode-differs:' + kind, 'the independent decoder does not return the value that was written (%s)' % m[:60], dict(base, expected=expd[:3000], decoded=m[:3000]))
    known_keys = lib.load_findings()[0]

    def unexplained():
        """violations recorded so far that are not known findings (a known finding must not hide a model / implementation disagreement)"""
        return [v for v in ctx.violations if (ctx.pid, v['key']) not in known_keys]
    for c in cases:
        if c.himpl is not None and c.mimpl is not None and c.hrep != c.mrep and not unexplained():
            what = [k for k in ('refs', 'align', 'start', 'end', 'bytes', 'emits') if c.himpl.get(k) != c.mimpl.get(k)]
            ctx.violation('corr:build:' + '+'.join(what), 'model and implementation disagree on a build script (%s differ)' % ','.join(what),
                          {'theorem_or_correspondence': 'correspondence of the extracted builder model (coq/Builder, modelrun_builder) with src/runtime/builder.c on this script; every independent clause check (format decoder, alignment, read-back, verifier) passed on the implementation output', 'harness_line': c.h, 'model_line': c.m, 'schema': c.schema.name, 'impl': c.hrep[:3000], 'model': c.mrep[:3000]},
                          kind='no-failing-input-found')
    ctx.cov['generator_histogram']['shared_object_uses'] = nshared
    if dump_items: ctx.sample({'dump_case': dump_items[0][1][:200], 'dump': (dres[0] or '')[:300], 'expected': bu.render_dump(dump_cases[0].schema, dump_cases[0].node, dump_cases[0].root)[:300]})
    ctx.trusted = lib.DEFAULT_TRUSTED + ['checks/builder_util.py (generators, expected renderings, generated dump glue over the reader accessors, PyReader)',
                                         'harness/build_script.c, harness/buf_check.c',
                                         'ocaml/readervalue/driver.ml, checks/c03b_util.py (differential tie of the reader value model)']
    ctx.assumptions = ['little-endian host (the *_to_pe / *_from_pe conversions are identities here)',
                       'values enter through the runtime builder API (table_add / table_add_offset ...); the generated T_f_add default elision is covered by the gen-api cases when present']
    ctx.finish_args = dict(
        rule='cases: random value trees over the 6 corpus schemas (boundary scalars incl. NaN payloads and -0.0 bit patterns, empty/long vectors and strings, embedded NULs, '
             'every union member kind incl. strings and structs, union vectors with NONE elements, nested roots, struct roots, shared strings/vectors/tables) built through '
             'every API style; each finished buffer is read back completely through the generated accessors and by the independent decoder',
        explanation='theorems of Properties_C03 re-checked; whole-value-tree equality between what was written and what the generated reader returns')
