"""C09 - Schema evolution keeps old and new code interoperable.

Theorems (Properties_C09.v): the verifier model is monotone under schema restriction (a buffer the new schema's
verifier accepts is accepted by every older schema it extends), hence by C01 soundness old readers read it safely.
Correspondence / property test: random evolution pairs (A, B) through the fresh flatcc; B-built buffers are verified,
dumped through every accessor and printed by A's generated code and must equal B's own dump restricted to A's fields;
A-built buffers go through B's code and must show the new fields absent; the T2 descriptors of the two generated
verifiers must satisfy the `restricts` relation computed by the extracted model.
"""
import os, re, random, json
from . import lib
from gen import c01gen, fbenc
from translators import verifier_h_to_desc as t2


def split_json(line):
    """'... P n J hex' -> (line without the J part, text bytes or None)"""
    m = re.search(r' J ([0-9a-f]*)$', line)
    if not m: return line, None
    return line[:m.start()], bytes.fromhex(m.group(1))


def json_problem(text):
    """None when the printed text is a JSON document (non-finite float tokens tolerated: they are C05's clause, not C09's)."""
    t = text.decode('latin-1')
    try:
        json.loads(t); return None
    except ValueError as e:
        err = str(e)
    # tolerate bare nan / inf tokens (outside strings) of non-finite random floats
    t2 = re.sub(r'"(?:[^"\\]|\\.)*"|(-?\b(?:nan(?:\([0-9a-fA-F]*\))?|inf(?:inity)?)(?![A-Za-z0-9_]))', lambda m: '0' if m.group(1) else m.group(0), t, flags=re.I)
    try:
        json.loads(t2); return None
    except ValueError as e:
        return '%s: ...%s...' % (e, t2[max(0, e.pos - 40):e.pos + 20] if hasattr(e, 'pos') else '')


def top_level_fields(dump):
    """'{a=+01;b={...};c=[2:..];}' -> {'a': '+01', 'b': '{...}', ...} (fields of the outermost table only)"""
    out, depth, cur = {}, 0, ''
    for ch in dump:
        if ch in '{[':
            depth += 1
            if depth == 1: continue
        elif ch in '}]':
            depth -= 1
            if depth == 0: break
        if ch == ';' and depth == 1:
            if '=' in cur:
                k, v = cur.split('=', 1); out[k] = v
            cur = ''
        else:
            cur += ch
    return out


def enum_value_mismatch(A, rootname, dump, text):
    """old printer vs old reader on the enum-typed scalar fields of the root table: a number in the JSON must be the stored value read in
    the enum's underlying type (an enum value the old schema does not know is printed numerically, unsigned types as unsigned numbers)."""
    try:
        doc = json.loads(text.decode('latin-1'))
    except ValueError:
        return None
    if not isinstance(doc, dict): return None
    t = [x for x in A['tables'] if x['name'] == rootname][0]
    fields = top_level_fields(dump)
    for f in t['fields']:
        if f['kind'] != 'scalar' or not f.get('enum') or f.get('deprecated') or f['name'] not in doc: continue
        jv, dv = doc[f['name']], fields.get(f['name'], '')
        if isinstance(jv, bool) or not isinstance(jv, int) or not re.fullmatch(r'[+-][0-9a-f]+', dv): continue
        lo, hi = c01gen.INT_RANGE[f['type']]
        raw = int.from_bytes(bytes.fromhex(dv[1:]), 'little')
        want = raw - (1 << (8 * len(dv[1:]) // 2)) if lo < 0 and raw > hi else raw
        if jv != want:
            return 'field %s (%s enum %s): stored value %d, printed as %d' % (f['name'], f['type'], f['enum'], want, jv)
    return None


def build(ctx, S, name, mask, fl, fl_assert=None):
    d = os.path.join(ctx.bdir, name); os.makedirs(d, exist_ok=True)
    fbs = os.path.join(d, name + '.fbs'); open(fbs, 'w').write(c01gen.render_fbs(S))
    rc, out = ctx.gen(fbs, d, opts=('-a', '--json'))
    if rc != 0: return None, out
    try:
        dc = t2.parse(open(os.path.join(d, name + '_verifier.h')).read())
    except t2.TranslateError as e:
        # the generated verifier no longer has the shape the descriptor language covers: the theorem cannot be applied to it;
        # report that and go on with the dynamic cross-run (which looks for the failing buffer)
        ctx.broken_obligation('T2:' + str(e)[:120], {'schema_fbs': c01gen.render_fbs(S), 'translator_error': str(e)})
        dc = {'desc': c01gen.expected_descriptor(S), 'tables': [t['name'] for t in S['tables']], 'unions': [], 'structs': {}}
    tmpl = open(os.path.join(lib.ROOT, 'harness', 'evolution_main.c.in')).read()
    vd, dd = [], []
    for t in S['tables']:
        T = t['name']
        vd.append('            else if (!strcmp(root, "%s")) rc = %s_verify_as_root(b, len);' % (T, T))
        dd.append('                else if (!strcmp(root, "%s")) { dump_%s(%s_as_root(b)); plen = %s_print_json_as_root(&ctx, b, len, 0); }' % (T, T, T, T))
    src = tmpl.replace('@@SCHEMA@@', name).replace('@@DUMPER@@', c01gen.render_dumper(S, mask)) \
              .replace('@@VERIFY_DISPATCH@@', '\n'.join(vd)).replace('@@DUMP_DISPATCH@@', '\n'.join(dd))
    cpath = os.path.join(d, 'main.c'); open(cpath, 'w').write(src)
    exe = os.path.join(d, 'vd')
    ctx.cc([cpath] + fl, exe, san=True, defs=['-DNDEBUG'], incs=['-I' + d, '-I' + os.path.join(lib.ROOT, 'harness')])
    if fl_assert is not None:
        # the same reader / verifier / printer with assertions enabled (flatcc's default build)
        ctx.cc([cpath] + fl_assert, exe + '_assert', san=True, defs=[], incs=['-I' + d, '-I' + os.path.join(lib.ROOT, 'harness')])
    return (exe, dc), None


def run(ctx):
    rng = ctx.rng
    lib.gen_consts(ctx)
    if os.path.exists(os.path.join(lib.COQ, 'Properties', 'Properties_C09.v')):
        if not ctx.check_theorems():
            ctx.broken_obligation('Properties_C09.vo', getattr(ctx, 'broken', {}))
    if os.path.exists(os.path.join(lib.COQ, 'Properties', 'Properties_C09b.v')):
        if not ctx.check_theorems(prop_module='Properties_C09b'):
            ctx.broken_obligation('Properties_C09b.vo', getattr(ctx, 'broken', {}))
    fl = ctx.rt_objs(san=True, defs=['-DNDEBUG'])
    fl_assert = ctx.rt_objs(san=True, defs=[])
    npairs = 14 if ctx.thorough else 4
    nvals = 40 if ctx.thorough else 12
    for pi in range(npairs):
        r = random.Random(5000 + pi) if pi < npairs // 2 else rng
        A, B = c01gen.evolve_pair(r, nstructs=r.randint(1, 3), ntables=r.randint(2, 4), nunions=r.randint(1, 2), nenums=r.randint(2, 3))
        na, nb = 'a%d' % pi, 'b%d' % pi
        ra, ea = build(ctx, A, na, None, fl, fl_assert)
        rb, eb = build(ctx, B, nb, A, fl)
        rep0 = {'schema_A': c01gen.render_fbs(A), 'schema_B': c01gen.render_fbs(B)}
        if ra is None or rb is None:
            ctx.violation('schema-rejected', 'flatcc rejected a generated evolution pair: %s' % (ea or eb)[:300], rep0); continue
        (exa, dca), (exb, dcb) = ra, rb
        # descriptors: A's must be a restriction of B's (model computes the relation)
        # fields that B deprecates are not in B's descriptor: the theorem's relation is stated on A without them
        c01gen.assign_ids(A); c01gen.assign_ids(B)
        dep = {(ti, fb['id'] - (1 if fb['kind'] in ('union', 'vec_union') and False else 0)) for ti, tb in enumerate(B['tables']) for fb in tb['fields'] if fb.get('deprecated')}
        toks = []
        ti = -1
        for tok in dca['desc'].split(' '):
            if tok.startswith('T|'):
                ti += 1
                fs = [f for f in tok[2:].split(',') if f and (ti, int(f.split('/')[0])) not in dep]
                toks.append('T|' + ','.join(fs))
            else: toks.append(tok)
        m = ctx.run_model('verifier', ['schema A %s' % ' '.join(toks), 'schema B %s' % dcb['desc'], 'restricts A B'])
        ctx.count('restricts ' + dca['desc'] + dcb['desc'], klass='descriptor_restricts')
        if m[2] != 'YES':
            ctx.violation('descriptor-not-restriction', 'generated verifier of the old schema is not a restriction of the new one (%s)' % m[2],
                          dict(rep0, desc_A=dca['desc'], desc_B=dcb['desc']))
        HA, HB = lib.Harness(exa), lib.Harness(exb)
        roots = [t['name'] for t in A['tables']]
        # ---- new -> old: buffers over B read by A
        lines = []
        for rootname in roots:
            for vi in range(nvals):
                enc = fbenc.Enc(B)
                val = fbenc.gen_value(B, rootname, r, maxdepth=r.choice([1, 2, 3]))
                buf = enc.finish_table_root(rootname, val, r)
                lines.append('vd %s %s' % (rootname, buf.hex()))
        # deep chains through the root's self reference: depths around the documented nesting limit (verifier and printer both 100)
        deep = set()
        root0 = B['tables'][0]['name']
        if root0 in roots:
            for depth in ([90, 98, 99, 100, 101, 127, 128, 150] if ctx.thorough else [98, 99, 100, 101, 127]):
                val = fbenc.gen_value(B, root0, r, depth=0, maxdepth=0, p_present=0.0)        # required fields only
                val.pop('selfref', None)
                for _ in range(depth):
                    outer = fbenc.gen_value(B, root0, r, depth=0, maxdepth=0, p_present=0.0); outer['selfref'] = val; val = outer
                buf = fbenc.Enc(B).finish_table_root(root0, val, r)
                lines.append('vd %s %s' % (root0, buf.hex())); deep.add(lines[-1])
        oa = lib.run_harness_resilient(HA, lines); ob = lib.run_harness_resilient(HB, lines)
        # the old code once more with assertions enabled: must behave the same (an unknown union member is NONE, not an abort)
        HAa = lib.Harness(exa + '_assert')
        oaa = lib.run_harness_resilient(HAa, lines)
        for l, a, aa in zip(lines, oa, oaa):
            if split_json(a)[0] != split_json(aa)[0] and not (l in deep and not a.startswith('V 0')):
                ctx.violation('old-code-differs-with-assertions', 'old reader/verifier/printer with assertions enabled behaves differently on a buffer of the extended schema: %s (NDEBUG build: %s)'
                              % (aa[:300], split_json(a)[0][:120]), dict(rep0, harness_line=l, old_code_ndebug=a[:2000], old_code_assert=aa[:2000]))
        for l, a, b in zip(lines, oa, ob):
            ctx.count(l, klass='new_buffer_old_code' if l not in deep else 'deep_chain')
            if l in deep and (b.startswith('V 3') or a.startswith('V 3')):
                # beyond the documented nesting limit: rejection with max_nesting_level_reached by either version is the documented outcome
                if b.startswith('V 3') != a.startswith('V 3'):
                    ctx.violation('nesting-limit-differs', 'old and new verifier disagree on a chain at the nesting limit: old %s new %s' % (a[:40], b[:40]), dict(rep0, harness_line=l))
                continue
            a, ja = split_json(a); b, jb = split_json(b)
            rep = dict(rep0, harness_line=l, old_code=a[:2000], new_code=b[:2000])
            if ja is not None and a.startswith('V 0 D ') and not json_problem(ja):
                mm = re.match(r'V 0 D (.*) P (-?\d+)$', a)
                bad = enum_value_mismatch(A, l.split()[1], mm.group(1), ja) if mm else None
                if bad:
                    ctx.violation('old-printer-value-differs', 'old JSON printer prints a value of the extended schema differently from what the old reader returns: ' + bad,
                                  dict(rep, old_printer_text=ja.decode('latin-1')[:3000]))
            if ja is not None and json_problem(ja):
                ctx.violation('old-printer-invalid-json', 'old JSON printer reports success on a buffer of the extended schema but its text is not JSON: %s' % json_problem(ja)[:200],
                              dict(rep, old_printer_text=ja.decode('latin-1')[:3000]))
            if not b.startswith('V 0 D'):
                ctx.violation('encoder-invalid', 'independent encoder produced a buffer the NEW verifier rejects or its reader crashes: %s' % b[:200], rep); continue
            if not a.startswith('V 0'):
                ctx.violation('old-verifier-rejects-new', 'old verifier rejects a buffer of the extended schema: %s' % a[:100], rep); continue
            if 'CRASH' in a or ' D ' not in a:
                ctx.violation('old-reader-crash', 'old reader/printer crashed on a buffer of the extended schema: %s' % a[:300], rep); continue
            da, pa = re.match(r'V 0 D (.*) P (-?\d+)$', a).groups()
            db, pb = re.match(r'V 0 D (.*) P (-?\d+)$', b).groups()
            db = re.sub(r'\w+\.\w+!=[+-][0-9a-f]*;', '', db); db = re.sub(r'\w+\.\w+!=[~?];', '', db)
            if int(pa) < 0:
                ctx.violation('old-printer-error', 'old JSON printer reports an error on a buffer of the extended schema (%s)' % pa, rep)
            if da != db:
                ctx.violation('shared-field-differs', 'old reader and new reader disagree on a shared field', rep)
        if lines: ctx.sample({'direction': 'new->old', 'line': lines[0][:160], 'old': oa[0][:160], 'new': ob[0][:160]})
        # ---- old -> new: buffers over A read by B (new fields must be absent / default)
        lines = []
        for rootname in roots:
            for vi in range(nvals):
                enc = fbenc.Enc(A)
                val = fbenc.gen_value(A, rootname, r, maxdepth=r.choice([1, 2, 3]))
                buf = enc.finish_table_root(rootname, val, r)
                lines.append('vd %s %s' % (rootname, buf.hex()))
        oa = lib.run_harness_resilient(HA, lines); ob = lib.run_harness_resilient(HB, lines)
        for l, a, b in zip(lines, oa, ob):
            ctx.count(l, klass='old_buffer_new_code')
            a, ja = split_json(a); b, jb = split_json(b)
            rep = dict(rep0, harness_line=l, old_code=a[:2000], new_code=b[:2000])
            if jb is not None and json_problem(jb):
                ctx.violation('new-printer-invalid-json', 'new JSON printer reports success on a buffer of the old schema but its text is not JSON: %s' % json_problem(jb)[:200],
                              dict(rep, new_printer_text=jb.decode('latin-1')[:3000]))
            if not a.startswith('V 0 D'):
                ctx.violation('encoder-invalid', 'independent encoder produced a buffer the OLD verifier rejects: %s' % a[:200], rep); continue
            if not b.startswith('V 0'):
                ctx.violation('new-verifier-rejects-old', 'new verifier rejects a buffer of the old schema: %s' % b[:100], rep); continue
            if 'CRASH' in b or ' D ' not in b:
                ctx.violation('new-reader-crash', 'new reader/printer crashed on a buffer of the old schema: %s' % b[:300], rep); continue
            da, pa = re.match(r'V 0 D (.*) P (-?\d+)$', a).groups()
            db, pb = re.match(r'V 0 D (.*) P (-?\d+)$', b).groups()
            # new NON-scalar fields of B read from an old buffer: every accessor reports them absent
            for tn, fn in re.findall(r'(\w+)\.(\w+)!=\?;', db):
                ctx.violation('new-field-not-absent', 'new code reads the new non-scalar field %s.%s of an old buffer as present / non-null' % (tn, fn), rep)
            db = re.sub(r'\w+\.\w+!=[~?];', '', db)
            # new scalar fields of B read from an old buffer: absent, and equal to the declared default bit for bit
            for tn, fn, pres, hx in re.findall(r'(\w+)\.(\w+)!=([+-])([0-9a-f]*);', db):
                fdef = [f for t in B['tables'] if t['name'] == tn for f in t['fields'] if f['name'] == fn][0]
                want = c01gen.default_bytes(fdef['type'], fdef.get('default', 0)).hex()
                if pres != '-' or hx != want:
                    ctx.violation('new-field-default', 'new code reads new field %s.%s (%s%s) of an old buffer as %s%s, declared default bytes %s' % (
                        tn, fn, fdef['type'], ' = ' + c01gen.default_literal(fdef['type'], fdef['default']) if 'default' in fdef else '', pres, hx, want), rep)
            db = re.sub(r'\w+\.\w+!=[+-][0-9a-f]*;', '', db)
            # fields deprecated in B print as absent on the B side: mask them on the A side is not possible, so compare only when B deprecates nothing
            if not any(f.get('deprecated') for t in B['tables'] for f in t['fields']) and da != db:
                ctx.violation('shared-field-differs-old-buffer', 'new reader and old reader disagree on a shared field of an old buffer', rep)
            if int(pb) < 0:
                ctx.violation('new-printer-error', 'new JSON printer reports an error on a buffer of the old schema (%s)' % pb, rep)
    ctx.trusted = lib.DEFAULT_TRUSTED + ['translators/verifier_h_to_desc.py (T2)', 'gen/c01gen.py + gen/fbenc.py (evolution pairs, dumpers, encoder)']
    ctx.assumptions = ['little-endian host', 'NDEBUG build of reader/printer']
    ctx.finish_args = dict(
        rule='evolution pairs (append fields, append union members, deprecate non-required fields) x value trees over the new (resp. old) schema, '
             'every buffer through both versions of the generated verifier, all accessors (canonical dump) and the JSON printer; distinct = distinct (root, bytes)',
        explanation='verifier-monotonicity theorems re-checked; generated descriptors of both versions related by the extracted `restricts`; dumps compared')
