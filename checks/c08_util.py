"""C08 helpers: literal forms, the python oracle of the property statement (exact big-int representability,
independent of the Coq model), reply parsers for harness/coerce_diff.c and modelrun_coerce."""
import re, struct, math

INT_TYPES = {
    'byte': (-2**7, 2**7 - 1), 'ubyte': (0, 2**8 - 1), 'short': (-2**15, 2**15 - 1), 'ushort': (0, 2**16 - 1),
    'int': (-2**31, 2**31 - 1), 'uint': (0, 2**32 - 1), 'long': (-2**63, 2**63 - 1), 'ulong': (0, 2**64 - 1),
}
ALIASES = {'int8': 'byte', 'uint8': 'ubyte', 'int16': 'short', 'uint16': 'ushort', 'int32': 'int', 'uint32': 'uint',
           'int64': 'long', 'uint64': 'ulong', 'float32': 'float', 'float64': 'double'}
FIELD_TYPES = ['bool', 'byte', 'ubyte', 'short', 'ushort', 'int', 'uint', 'long', 'ulong', 'float', 'double']
SIZES = {'bool': 1, 'byte': 1, 'ubyte': 1, 'char': 1, 'short': 2, 'ushort': 2, 'int': 4, 'uint': 4, 'long': 8, 'ulong': 8,
         'float': 4, 'double': 8}
U64 = 2**64


def base_type(t):
    return ALIASES.get(t, t)


class Lit:
    """A literal as written in a schema. kind: dec hex bool float bad"""
    def __init__(self, text):
        self.text = text
        t = text.strip()
        self.neg = t.startswith('-')
        body = t[1:].lstrip() if self.neg else t
        self.kind, self.value, self.digits = 'bad', None, ''
        if re.fullmatch(r'[0-9]+', body):
            self.kind, self.digits = 'dec', body
            self.value = -int(body) if self.neg else int(body)
        elif re.fullmatch(r'0[xX][0-9a-fA-F]*', body):
            self.kind, self.digits = 'hex', body[2:]
            v = int(body[2:], 16) if body[2:] else 0
            self.value = -v if self.neg else v
        elif body in ('true', 'false'):
            self.kind = 'bool'
            self.value = 1 if body == 'true' else 0
        elif re.fullmatch(r'[0-9]+(\.[0-9]*)?([eE][-+]?[0-9]+)?', body) and not re.fullmatch(r'[0-9]+', body):
            self.kind = 'float'
            self.value = -float(body) if self.neg else float(body)

    def model(self):
        """encoding for modelrun_coerce, None when the text is not one of the token classes"""
        s = '-' if self.neg else '+'
        if self.kind == 'dec': return 'd' + s + self.digits
        if self.kind == 'hex': return 'x' + s + self.digits
        if self.kind == 'bool': return 'b' + s + str(self.value)
        if self.kind == 'float': return 'f' + s
        return None

    def in_carrier(self):
        """the 64-bit literal carrier the property (and pparseint.h) documents: unsigned up to 2^64-1, negated
        down to -2^63, hex tokens of 1..16 digits"""
        if self.kind == 'hex' and not (1 <= len(self.digits) <= 16): return False
        if self.kind in ('dec', 'hex'):
            return (-2**63 <= self.value) if self.neg else (self.value <= U64 - 1)
        if self.kind == 'bool': return not self.neg
        return self.kind == 'float'


def f32(x):
    return struct.unpack('<f', struct.pack('<f', x))[0]


def exact_float(n, bits):
    """integer n exactly representable with a `bits`-bit significand"""
    m = abs(n)
    if m == 0: return True
    while m % 2 == 0: m //= 2
    return m < 2**bits


def oracle_field(ty, lit):
    """The property statement for a table field default of scalar type ty: (accept, number) with number the
    declared value (int, or float for float fields); reason string for the replay."""
    ty = base_type(ty)
    if lit.kind == 'bad': return False, None, 'not a numeric literal'
    if not lit.in_carrier(): return False, None, 'outside the 64-bit literal carrier'
    if ty in INT_TYPES or ty == 'bool':
        lo, hi = INT_TYPES[ty] if ty in INT_TYPES else (0, 1)
        if lit.kind == 'float': return False, None, 'float literal for an integer field'
        n = lit.value
        if lo <= n <= hi: return True, n, 'representable'
        return False, None, 'not representable in %s' % ty
    # float / double
    bits = 24 if ty == 'float' else 53
    if lit.kind in ('dec', 'hex', 'bool'):
        n = lit.value
        if exact_float(n, bits): return True, float(n), 'integer exactly representable'
        return False, None, 'integer not exactly representable in %s' % ty
    x = lit.value
    if math.isinf(x): return False, None, 'float literal overflows double'
    if ty == 'float':
        try: f32(x)
        except OverflowError: return False, None, 'float literal overflows float'
    return True, x, 'float literal'


def oracle_enum(ty, bit_flags, members, is_union=False, ascending=False):
    """members: list of None | Lit. Returns list of ints or None (rejected). Plain integer semantics.
    ascending (option ascending_enum): every member strictly greater than its predecessor as mathematical integers
    (bit_flags: by position, which is the same order)."""
    ty = base_type(ty)
    lo, hi = INT_TYPES[ty]
    bits = SIZES[ty] * 8
    prev, out = None, []
    for k, m in enumerate(members):
        if m is None:
            n = 0 if k == 0 else prev + 1
        else:
            if m.kind in ('bad', 'float') or not m.in_carrier(): return None
            if bit_flags and (m.kind == 'bool' or m.neg): return None     # position must be an unsigned integer literal
            n = m.value
        if ascending and k > 0 and not (prev < n): return None
        if bit_flags:
            if not (0 <= n < bits and 2**n <= hi): return None
            out.append(2**n)
        else:
            if not (lo <= n <= hi): return None
            out.append(n)
        prev = n
    if is_union and len(set(out)) != len(out): return None
    return out


def oracle_array_len(lit):
    if lit.kind not in ('dec', 'hex') or lit.neg or not lit.in_carrier(): return None
    return lit.value if 1 <= lit.value <= 2**32 - 1 else None


def oracle_struct(members, force_align=None, smax=65535, amax=256):
    """members: list of (type, len). Sequential C layout; None when rejected. Returns (size, align, offsets)."""
    size, align, offs = 0, 1, []
    for t, ln in members:
        if not (1 <= ln <= 2**32 - 1): return None        # fixed array length must be in [1, 2^32-1]
        e = SIZES[base_type(t)]
        off = (size + e - 1) // e * e
        size = off + e * ln
        offs.append(off)
        align = max(align, e)
        if size > smax: return None
    if force_align is not None:
        if force_align < 1 or force_align > amax or (force_align & (force_align - 1)) or force_align < align: return None
        align = force_align
    size = (size + align - 1) // align * align
    if size == 0 or size > smax: return None
    return size, align, offs


def oracle_force_align_value(lit):
    if lit.kind not in ('dec', 'hex') or lit.neg or not lit.in_carrier(): return None
    return lit.value


# ---------------------------------------------------------------- reply parsers

def parse_val(s):
    if s.startswith('u:') or s.startswith('i:') or s.startswith('b:'): return (s[0], int(s[2:]))
    if s.startswith('f:'): return ('f', float.fromhex(s[2:]) if s[2:] not in ('inf', '-inf', 'nan', '-nan') else float(s[2:]))
    if s.startswith('fi:'): return ('fi', int(s[3:]))
    return (s,)


def parse_reply(r):
    """harness/coerce_diff.c reply -> dict"""
    d = {'ok': False, 'err': '', 'enums': {}, 'tables': {}, 'structs': {}, 'bobjs': {}, 'benums': {}, 'raw': r}
    if r is None: d['err'] = 'no reply'; return d
    if r.startswith('CRASH'): d['err'] = r; d['crash'] = True; return d
    if not r.startswith('OK'): d['err'] = r[4:]; return d
    d['ok'] = True
    cur = None
    for tok in r.split()[1:]:
        k, _, rest = tok.partition(':')
        if k in ('enum', 'union'):
            name, st, flags = rest.split(':'); cur = []; d['enums'][name] = (st, int(flags), cur, k)
        elif k == 'm':
            nm, val, lit = rest.split('=', 2); cur.append((nm, parse_val(val), lit))
        elif k == 'table':
            cur = []; d['tables'][rest] = cur
        elif k == 'f':
            head, val, lit = rest.split('=', 2); nm, kind, st = head.split(':'); cur.append((nm, kind, st, parse_val(val), lit))
        elif k == 'struct':
            name, size, align = rest.split(':'); cur = []; d['structs'][name] = (int(size), int(align), cur)
        elif k == 'a':
            nm, st, ln, off, sz = rest.split(':'); cur.append((nm, st, int(ln), int(off), int(sz)))
        elif k == 'bo':
            cur = {}; d['bobjs'][rest] = cur
        elif k == 'bf':
            nm, di, dr = rest.split(':', 2); cur[nm] = (int(di), float.fromhex(dr) if 'x' in dr else float(dr))
        elif k == 'be':
            cur = []; d['benums'][rest] = cur
        elif k == 'bv':
            nm, v = rest.rsplit(':', 1); cur.append((nm, int(v)))
        elif k == 'bfbs':
            d['bfbs_error'] = rest
    return d


def parse_model_res(s):
    """'OK i:5' / 'ERR' -> None | tagged value"""
    s = s.strip()
    if s == 'ERR': return None
    if s.startswith('OK '): return parse_val(s[3:])
    return ('bad', s)


def parse_model_list(s):
    s = s.strip()
    if s == 'ERR': return None
    if s == 'OK': return []
    return [parse_val(x) for x in s[3:].split(',')]


def split_model(line):
    a, _, b = line.partition(' | ')
    return a, b


def c_literal_value(text):
    """number denoted by the C text print_literal produced, e.g. INT32_C(-1), UINT8_C(1), 2.00000000f, 1.5000000000000000"""
    m = re.fullmatch(r'(U?INT(8|16|32|64)_C)\((-?[0-9]+)\)', text)
    if m:
        return ('int', int(m.group(3)), m.group(1))
    t = text[:-1] if text.endswith('f') and not text.endswith('inf') else text
    if text in ('inff', '-inff'): t = text[:-1]
    try:
        return ('float', float(t), 'f' if text.endswith('f') else 'd')
    except ValueError:
        return ('bad', text, '')


def i64(n):
    n &= U64 - 1
    return n - U64 if n >= 2**63 else n


def hexs(s):
    return s.encode().hex()
