"""Helpers shared by checks/c14.py and checks/c13.py: history generation in the op language of
harness/reset_ops.h / ocaml/reset/driver.ml, JSON corpus for gen/c14_schema.fbs, snapshot parsing."""
import os, re, json, random


def check_theorems(ctx, chain):
    """ctx.check_theorems(); when the shared coq/Makefile cannot be used because it refers to a file of ANOTHER area that does
    not exist at the moment (several areas are developed concurrently), re-check this property's own chain of files with coqc
    directly (each file whose .vo is missing or older than its source or than an earlier file of the chain) and ask for the
    assumptions as usual."""
    from . import lib
    ok = ctx.check_theorems()
    if ok: return True
    log = getattr(ctx, 'coq_log', '') or ''
    own = any(os.path.basename(f)[:-2] in log for f in chain if 'No rule' in log and False)
    if 'No rule to make target' not in log or any(("'%s'" % f) in log for f in chain):
        return False
    ctx.log('coq/Makefile unusable (refers to a missing file of another area): re-checking %s with coqc' % ' '.join(chain))
    ctx.obligations = ctx.discharged = 0; ctx.theorems = []
    newest = 0.0
    for f in chain:
        src = os.path.join(lib.COQ, f); vo = src + 'o'
        stale = (not os.path.exists(vo)) or os.path.getmtime(vo) < os.path.getmtime(src) or os.path.getmtime(vo) < newest
        if stale:
            rc, out = lib.sh(['coqc', '-Q', '.', 'Flatcc', f], cwd=lib.COQ, timeout=1500)
            ctx.checker_cmds.append('cd coq && coqc -Q . Flatcc ' + f)
            if rc != 0:
                ctx.broken = {'files': [f], 'log_tail': out[-3000:]}
                return False
        newest = max(newest, os.path.getmtime(vo))
    mod = os.path.basename(chain[-1])[:-2]
    names = ctx.theorem_names(mod + '.v')
    ctx.obligations += len(names)
    v = os.path.join(ctx.bdir, 'assum_%s.v' % mod)
    with open(v, 'w') as fh:
        fh.write('From Flatcc.Properties Require Import %s.\n' % mod)
        for n in names:
            fh.write('Goal True. idtac "@@ %s". exact I. Qed.\nPrint Assumptions %s.\n' % (n, n))
    rc, o = lib.sh(['coqc', '-Q', lib.COQ, 'Flatcc', v], timeout=300, cwd=ctx.bdir)
    if rc != 0:
        ctx.broken = {'files': [], 'log_tail': o[-3000:]}
        return False
    parts = re.split(r'@@ (\S+)\n', o)
    got = {parts[i]: ' '.join(parts[i + 1].split()) for i in range(1, len(parts) - 1, 2)}
    for n in names:
        ctx.theorems.append({'theorem': n, 'assumptions': got.get(n, '?')})
        if n in got: ctx.discharged += 1
    return ctx.discharged == ctx.obligations


class Script:
    """A list of op tokens; every emit returns the token index so that later ops can refer to `$index`."""
    def __init__(self, ops=None):
        self.ops = list(ops or [])

    def emit(self, tok):
        self.ops.append(tok)
        return len(self.ops) - 1

    def extend(self, other):
        """Append another script's ops, relocating its `$k` / `%k` references."""
        base = len(self.ops)
        for t in other.ops:
            self.ops.append(re.sub(r'([$%])(\d+)', lambda m: m.group(1) + str(int(m.group(2)) + base), t))
        return base

    def __len__(self):
        return len(self.ops)


def hx(b):
    return bytes(b).hex() if len(b) else '-'


def rbytes(rng, n):
    return bytes(rng.getrandbits(8) for _ in range(n))


class Gen:
    """Random well-formed builds (model ops only unless harness_only=True)."""
    def __init__(self, rng, harness_only=False, max_depth=4, allow_nested=True, allow_user_frames=True):
        self.rng, self.ho, self.max_depth = rng, harness_only, max_depth
        self.allow_nested, self.allow_uf = allow_nested, allow_user_frames

    # each g_* appends ops to s and returns the index of the op yielding the object's reference
    def g_string(self, s):
        r = self.rng
        data = rbytes(r, r.choice([0, 1, 3, 4, 5, 11, 31, r.randint(0, 40)]))
        if r.random() < 0.5:
            return s.emit('cS:' + hx(data))
        s.emit('sS')
        k = r.randint(0, len(data))
        s.emit('aS:' + hx(data[:k]))
        if r.random() < 0.3 and k > 0:
            t = r.randint(0, k); s.emit('tS:%d' % t)
        s.emit('aS:' + hx(data[k:]))
        return s.emit('eS')

    def g_vector(self, s):
        r = self.rng
        es = r.choice([1, 2, 4, 8, 12])
        al = {1: 1, 2: 2, 4: 4, 8: 8, 12: 4}[es]
        cnt = r.choice([0, 1, 2, 3, 7, r.randint(0, 20)])
        data = rbytes(r, es * cnt)
        mx = (2 ** 32 - 1) // es
        if r.random() < 0.5:
            return s.emit('cv:%s:%d:%d:%d:%d' % (hx(data), cnt, es, al, mx))
        s.emit('sv:%d:%d:%d' % (es, al, mx))
        k = r.randint(0, cnt)
        s.emit('xv:%d:%s' % (k, hx(data[:k * es])))
        if r.random() < 0.3 and k > 0:
            s.emit('tv:%d' % r.randint(0, k))
        s.emit('xv:%d:%s' % (cnt - k, hx(data[k * es:])))
        return s.emit('ev')

    def g_offset_vector(self, s, depth):
        r = self.rng
        n = r.choice([0, 1, 2, 3, r.randint(0, 6)])
        early = [self.g_object(s, depth + 1, no_struct=True) for _ in range(n // 2)]
        s.emit('so')
        if early: s.emit('xo:' + ','.join('$%d' % k for k in early))
        for _ in range(n - n // 2):
            k = self.g_object(s, depth + 1, no_struct=True)
            s.emit('xo:$%d' % k)
        if r.random() < 0.15 and n > 0:
            s.emit('tov:1')
        return s.emit('eo')

    def g_union_vector(self, s, depth):
        r = self.rng
        n = r.randint(0, 4)
        s.emit('su')
        for _ in range(n):
            if r.random() < 0.25:
                s.emit('xu:0,0')
            else:
                k = self.g_table(s, depth + 1)
                s.emit('xu:%d,$%d' % (r.randint(1, 2), k))
        return s.emit('eu')

    def g_table(self, s, depth, fields=None):
        r = self.rng
        count = r.choice([0, 1, 2, 3, 5, 8, r.randint(0, 12)]) if fields is None else fields
        ids = list(range(count)); r.shuffle(ids)
        ids = ids[:r.randint(0, count)] if count else []
        plan = []
        for i in ids:
            kind = r.choice(['s1', 's2', 's4', 's8', 'st12', 'off', 'off', 'off'])
            if kind == 'off' and depth >= self.max_depth: kind = 's4'
            plan.append((i, kind))
        # some children before the table is opened, some while it is open
        pre = {}
        for i, kind in plan:
            if kind == 'off' and r.random() < 0.5:
                pre[i] = self.g_object(s, depth + 1, no_struct=True)
        s.emit('st:%d' % count)
        for i, kind in plan:
            if kind == 'off':
                k = pre[i] if i in pre else self.g_object(s, depth + 1, no_struct=True)
                s.emit('to:%d:$%d' % (i, k))
            elif kind == 'st12':
                s.emit('ta:%d:12:4:%s' % (i, hx(rbytes(r, 12))))
            else:
                n = int(kind[1:]); s.emit('ta:%d:%d:%d:%s' % (i, n, n, hx(rbytes(r, n))))
            if self.allow_uf and r.random() < 0.05:
                s.emit('uf:%d' % r.choice([0, 1, 8, 24, 100])); s.emit('ux')
        return s.emit('et')

    def g_nested_buffer(self, s, depth):
        r = self.rng
        ident = r.choice([0, 0x3152544e, 0x41424344])
        s.emit('sb:%d:%d:%d' % (ident, r.choice([0, 0, 8, 16]), r.choice([0, 2])))
        root = self.g_table(s, depth + 1)
        return s.emit('eb:$%d' % root)

    def g_object(self, s, depth, no_struct=False):
        r = self.rng
        kinds = ['string', 'vector', 'string', 'vector']
        if depth < self.max_depth:
            kinds += ['table', 'table', 'ovec']
            if self.allow_nested and depth < self.max_depth - 1: kinds.append('nested')
            if self.ho: kinds.append('uvec')
        k = r.choice(kinds)
        if k == 'string': return self.g_string(s)
        if k == 'vector': return self.g_vector(s)
        if k == 'table': return self.g_table(s, depth)
        if k == 'ovec': return self.g_offset_vector(s, depth)
        if k == 'uvec': return self.g_union_vector(s, depth)
        return self.g_nested_buffer(s, depth)

    def build(self, root='table', ident=None, balign=None, flags=None):
        """A complete top-level build; returns Script (ending with eb / cb)."""
        r = self.rng
        s = Script()
        ident = r.choice([0, 0, 0x52343143, 0x00004142]) if ident is None else ident
        balign = r.choice([0, 0, 0, 4, 16, 64]) if balign is None else balign
        flags = r.choice([0, 0, 2]) if flags is None else flags
        if root == 'struct_create':
            sz = r.choice([4, 8, 12, 16]); al = r.choice([1, 2, 4, 8])
            k = s.emit('cs:%s:%d' % (hx(rbytes(r, sz)), al))
            s.emit('cb:%d:%d:$%d:%d:%d' % (ident, balign, k, al, flags))
            return s
        if r.random() < 0.2:
            self.g_string(s)       # objects may be created before the buffer is started
        s.emit('sb:%d:%d:%d' % (ident, balign, flags))
        if root == 'struct':
            sz = r.choice([4, 8, 12, 16]); al = r.choice([1, 2, 4, 8, 16])
            s.emit('ss:%d:%s' % (al, hx(rbytes(r, sz)))); k = s.emit('es')
        else:
            k = self.g_table(s, 1)
        s.emit('eb:$%d' % k)
        return s


def reference_builds():
    """Fixed reference builds (deterministic): each a Script whose finalized bytes are compared fresh vs. after reset."""
    rng = random.Random(424242)
    out = []
    g = Gen(rng, max_depth=3)
    for root in ('table', 'table', 'struct', 'struct_create', 'table'):
        out.append((root, g.build(root=root)))
    # hand-written: table with vtable sharing (3 tables, 2 distinct vtables) and a nested buffer
    s = Script()
    s.emit('sb:0:0:0')
    s.emit('st:2'); s.emit('ta:0:4:4:01000000'); a = s.emit('et')
    s.emit('st:2'); s.emit('ta:0:4:4:02000000'); b = s.emit('et')
    s.emit('st:2'); s.emit('ta:1:2:2:0300'); c = s.emit('et')
    s.emit('so'); s.emit('xo:$%d,$%d,$%d' % (a, b, c)); v = s.emit('eo')
    s.emit('st:3'); s.emit('to:0:$%d' % v)
    s.emit('sb:0:0:0'); s.emit('st:2'); s.emit('ta:0:4:4:07000000'); n = s.emit('et'); nb = s.emit('eb:$%d' % n)
    s.emit('to:2:$%d' % nb)
    r = s.emit('et'); s.emit('eb:$%d' % r)
    out.append(('shared_vtables_nested', s))
    return out


# ---------------------------------------------------------------- JSON corpus for gen/c14_schema.fbs
def json_docs():
    a = '{"a":1,"s":"x"}'
    b = '{"b":[1,2,3],"v":{"x":1,"y":2,"z":3},"w":2.5}'
    docs = [
        '{"name":"n","n":5}',
        '{"name":"root","u_type":"A","u":%s,"u2_type":"B","u2":%s,"n":7}' % (a, b),
        '{"u":%s,"u_type":"A","u2":%s,"u2_type":"B"}' % (a, b),                      # value before type: backtracking
        '{"uv_type":["A","B","NONE","A"],"uv":[%s,%s,null,%s],"strs":["a","bc"]}' % (a, b, a),
        '{"uv":[%s,%s],"uv_type":["A","B"]}' % (a, b),                                 # vector before types
        '{"kids":[{"u_type":"B","u":%s,"kids":[{"uv_type":["A"],"uv":[%s]}]},{"name":"k2","u2_type":"A","u2":%s}],"pos":{"x":1,"y":2,"z":3}}' % (b, a, a),
        '{"nested":{"name":"inner","u_type":"A","u":%s},"u_type":"B","u":%s}' % (a, b),
        '{"name":"deep","kids":[{"kids":[{"kids":[{"kids":[{"kids":[{"u_type":"A","u":%s}]}]}]}]}]}' % a,
        '{"u_type":"Str","u":"a string member","u2":"value first \\n escaped","u2_type":"Str","name":"s"}',
        '{"uv_type":["Str","A","Str"],"uv":["first",%s,"third \\u0041"],"n":1}' % a,
    ]
    return docs


def parse_snap(tok):
    """'{a=1,b=N}' -> dict of str -> str"""
    d = {}
    for kv in tok.strip('{}').split(','):
        if '=' in kv:
            k, v = kv.split('=', 1); d[k] = v
    return d


CAP_FIELDS = ['c_vs', 'c_ds', 'c_vb', 'c_pl', 'c_fs', 'c_ht', 'c_vd', 'c_us']
# fields the model tracks exactly (vt_hash is abstracted; rm_* / *_calls / live_errors are harness bookkeeping)
MODEL_FIELDS = CAP_FIELDS + ['vs_off', 'pl_off', 'id_end', 'ds_offset', 'ds_limit', 'ds_first', 'frame_ptr', 'ht_width', 'vb_end', 'vd_end',
                             'min_align', 'align', 'block_align', 'emit_start', 'emit_end', 'buffer_mark', 'nest_count', 'nest_id', 'level',
                             'limit_level', 'buffer_flags', 'identifier', 'vb_flush_limit', 'max_level', 'disable_vt_clustering',
                             'user_frame_offset', 'user_frame_end', 'e_cap', 'e_used', 'e_avg']
# state that the pinned commit's custom_reset forgets: field -> stable finding key
DEFECT_FIELDS = {'user_frame_offset': 'user-frame-leak', 'user_frame_end': 'user-frame-leak', 'c_us': 'user-frame-leak',
                 'ds_first': 'ds-first-leak', 'c_ds': 'ds-first-leak', 'ds_limit': 'ds-first-leak',
                 'block_align': 'stale-block-align'}
# forgotten fields that are dead at level 0 (always overwritten before they are read): no property consequence
DEAD_FIELDS = {'align', 'id_end', 'buffer_mark', 'buffer_flags', 'identifier', 'c_vs'}


# reset_equiv on the implementation: fields that must equal those of a freshly initialised builder with the same settings
CORE_FIELDS = ['vs_off', 'pl_off', 'ds_offset', 'ds_first', 'vb_end', 'min_align', 'block_align', 'emit_start', 'emit_end', 'nest_count', 'nest_id',
               'level', 'vb_flush_limit', 'max_level', 'disable_vt_clustering', 'user_frame_offset', 'user_frame_end', 'e_used', 'rm_count']


def deep_build(depth):
    """a chain of `depth` tables, each opened inside its open parent (nesting level depth + 1)"""
    s = Script()
    s.emit('sb:0:0:0')
    for _ in range(depth): s.emit('st:1')
    k = s.emit('et')
    for _ in range(depth - 1):
        s.emit('to:0:$%d' % k); k = s.emit('et')
    s.emit('eb:$%d' % k)
    return s


def footprint(sn):
    return sum(int(sn[k]) for k in CAP_FIELDS)
